# C09 – Middlewares nest in registration order per handler; decorators apply in order.
import re


def nontrivial(req, obs):
    if req.startswith("cchain ") and " @@ " in req:      # the recorded observation is part of the request
        obs = req.split(" @@ ", 1)[1]
    # an order is exercised: some handler runs >= 2 middlewares, or sees >= 2 decorators of one kind
    for blk in obs.split():
        for ent in blk.split(";"):
            t = ent.split("=", 1)[-1].split(".")
            if sum(1 for x in t if re.fullmatch(r"e\d+", x)) >= 2:
                return True
            if sum(1 for x in t if re.fullmatch(r"s\d+[cn]", x)) >= 2 or sum(1 for x in t if re.fullmatch(r"p\d+", x)) >= 2:
                return True
    return False


PROP = {
    "id": "C09",
    "lean_targets": ["WmModel.Props.C09", "WmModel.Props.C09Tie"],
    "audit_module": "Audit.C09",
    "theorems": [
        "Wm.Chain.wrap_eq_compose", "Wm.Chain.chain_trace", "Wm.Chain.enter_mem_iff", "Wm.Chain.leave_mem_iff",
        "Wm.Chain.own_and_router_level_run", "Wm.Chain.no_foreign_middleware",
        "Wm.Chain.decoratePublisher_eq_compose", "Wm.Chain.decorateHandlerPublisher_nil", "Wm.Chain.decorateSubscriber_eq_compose",
        "Wm.Chain.pub_decorators_in_order", "Wm.Chain.pub_decorators_in_order_n", "Wm.Chain.pubTraceN_one",
        "Wm.Chain.sub_decorators_in_order", "Wm.Chain.sub_decorators_in_order_from",
        "Wm.Chain.msg_trace_spec", "Wm.Chain.chain_perm_invariant", "Wm.Chain.chain_sublist",
        "Wm.Chain.plugins_loaded_before_handlers_start", "Wm.Chain.caller_edits_invisible",
        "Wm.Chain.exec_regs", "Wm.Chain.started_frozen", "Wm.Chain.program_chain_trace",
    ],
    # re-proved on every run against lean/WmModel/Gen/ChainLoops.lean, which the extractor prints from message/router.go
    "tie_theorems": [
        "Wm.ChainGo.extracted_filter_eq_model", "Wm.ChainGo.extracted_wrap_loop_eq_model",
        "Wm.ChainGo.extracted_pubdec_loop_eq_model", "Wm.ChainGo.extracted_pubdec_nil_guard_eq_model", "Wm.ChainGo.extracted_subdec_loop_eq_model",
    ],
    "harness": "c09",
    "race": True,
    "driver": "drv_c09",
    "nontrivial": nontrivial,
    "rule": "Registration programs against a fresh real Router with recording middlewares/decorators; after every RUN (Run, later "
            "RunHandlers) one message is sent through every started handler, one at a time, and the log between hand-over and Ack is "
            "its trace. enum: every sequence over {router-level, handler 0, handler 1} of length <= 6 (quick) / 7 (thorough), each with "
            "the two AddHandler calls early or as late as possible (4 variants, publisher / no-publisher alternating); decs: every pair "
            "of decorator-list lengths 0..5 x 0..5, as one variadic call and as single calls; random: 2500 (quick) / 40000 (thorough) seeded programs with 1..4 "
            "handlers, up to 20 registrations in variadic calls of 1..2, up to 5+5 decorators, 1..3 RUN phases (handlers added after Run "
            "and started by RunHandlers, registrations after a handler started; unusual legal handler names; in a quarter of them "
            "handlers share an application-decorated subscriber object; RouterPlugins that register when Run executes them); "
            "shared_decorated_subscriber: 8 programs in which the SAME MessageTransformSubscriberDecorator-wrapped subscriber built "
            "by the application is given to 2..4 handlers, with router subscriber decorators - each handler's message passes the "
            "application's transform, then each registered decorator exactly once in order, and decorators and handler function "
            "see that handler's context values only (s<i>w / hx otherwise); plugins: 9 programs with AddPlugin plugins performing "
            "AddMiddleware / AddPublisherDecorators / AddSubscriberDecorators - they act on every handler added before Run, a plugin "
            "added after Run never runs; concurrent_registration: 400 (quick) / 6000 (thorough) programs with one block of "
            "overlapping Handler.AddMiddleware calls from 2..4 goroutines released together (same and different handlers, 1..3 "
            "calls each) between sequential registrations - the observation is part of the request (cchain) and the model checks "
            "that SOME serialisation of the block explains it; the monitor demands every registered middleware exactly once, "
            "sequential order and each goroutine's own order preserved, order between goroutines free. failing_decorator_or_stopped_handler (9 fixed programs, and inside the random ones): decorators that return an "
            "error the first time they are applied to a handler added to the running router (P<ids>! / S<ids>!: nil or their "
            "argument together with the error), the failing one not the first one applied - RunHandlers reports it and is called "
            "again until it succeeds, the chain must then be the registered decorators, each once, in order; Handler.Stop() of one of "
            ">= 2 running handlers (T<h>), handlers added and given middlewares afterwards - they run router-level + their own, none "
            "of a running or stopped handler's, and the running handlers keep their chains. several_outputs_with_equal_uuids (12 fixed programs incl. kind z = nil publisher and kind t = a real publisher with the "
            "EMPTY publish topic, decorated like any other; handler kinds d / e in the random ones): handler functions that "
            "return two distinct messages with the SAME UUID or three with EMPTY UUIDs in one go - every publisher decorator "
            "(watermill's transform decorator for even ids, a hand-written one for odd ids) must act on every one of them, in the "
            "order added, before the publisher gets them all. Stopped handlers: the name of a stopped handler is used again by a "
            "handler added later, and Stop() is called once more through the old handle (T<h> on a stopped handler) - the new "
            "handler keeps everything registered under its name. Every registration call of every program is made from a slice the application owns, "
            "with spare capacity, passed as `xs...`; token X (11 fixed programs caller_edits_its_slices, a third of the random "
            "programs, one AddHandler-placement variant of the exhaustive enumeration and a copy of every decorator-length case): "
            "the application hands all those slices, extended on their spare capacity by a foreign recorder, to a second router and "
            "then overwrites every element with foreign recorders (ids >= 9000) - no chain may change (the router's lists are value "
            "copies made at registration time). Oracles: model observation equality and the property "
            "monitor. Non-trivial = some handler runs >= 2 middlewares or sees >= 2 decorators of one kind.",
    "trusted_base": [
        "Lean 4.33.0 kernel; axioms per theorem listed under theorem_axioms (subset of propext, Classical.choice, Quot.sound)",
        "extractor harness/cmd/extract/c09.go (go/ast: loop header, filter condition and body of handler.run, decorateHandlerPublisher, "
        "decorateHandlerSubscriber; 32 structural facts about registration, snapshot and storing of the results) and the interpreter "
        "WmModel/ChainGo.lean as the semantics of those loop shapes",
        "Go semantics of slices/append/closures; a HandlerMiddleware / decorator is modelled as an arbitrary function alpha -> alpha",
        "differential harness harness/cmd/c09 (real Router, scripted subscribers, recording middlewares and decorators) + Lean driver "
        "Driver/C09.lean (model M and independent monitor P)",
        "Go race detector (runtime fact, not a theorem)",
    ],
    "assumptions": [
        "Reading of the statement: a handler's chain is fixed when the handler is started (RunHandlers hands handler.run a snapshot of "
        "Router.middlewares; decorators are applied once in RunHandlers). The property is demanded for the registrations made before "
        "the handler's start; registrations made afterwards do not reach a running handler (model: snapshot; theorem started_frozen; "
        "the monitor judges each handler against the registrations preceding its start).",
        "'in the order they were added' is read along the message flow: the publisher decorator added first sees an outgoing message "
        "first (it is the outermost wrapper - the godoc sentence 'the first decorator is the innermost' describes the subscriber side "
        "only); the subscriber decorator added first sees an incoming message first (innermost, right after the router's context decorator).",
        "Overlapping registration is covered for Handler.AddMiddleware only (it takes middlewaresLock): the model is sequential, a "
        "block of overlapping calls is checked against all its serialisations; theorems chain_perm_invariant / chain_sublist say "
        "what every serialisation has in common.",
        "Plugins: Run executes the plugins, in the order added, before it starts any handler; RunHandlers on the running router "
        "does not (model loadPlugins; theorem plugins_loaded_before_handlers_start).",
        "The router copies what it is given at registration time (`append(r.list, arg...)`): later edits of the caller's slice are "
        "invisible (model: Op.callerEdits is a no-op; theorem caller_edits_invisible; facts Add*Decorators_copies_the_arguments).",
        "Failing decorators: a subscriber decorator fails only in programs without publisher decorators - in the code as it is a "
        "failed decorateHandlerSubscriber leaves the publisher, which was decorated just before, decorated, and the retried "
        "RunHandlers decorates it a second time (reported as a defect of the unchanged tree, reproduced with the C08 harness "
        "token E<id>!). A failed decorateHandlerPublisher commits nothing.",
        "Handler-level middlewares are registered per handler NAME (that is how the code matches them): a handler added under "
        "the name of a handler that has stopped runs, besides its own, what was registered under that name before - model and "
        "monitor count registrations by name. Stop() on a handler that has already stopped changes nothing (Op.stopAgain).",
        "A handler registered with a nil publisher (kind z) is not decorated: decorateHandlerPublisher begins with "
        "`if h.publisher == nil { return nil }` (model decorateHandlerPublisher on Option; theorem decorateHandlerPublisher_nil; "
        "generated Gen.pubDecNilGuard with tie theorem extracted_pubdec_nil_guard_eq_model; fact pubdec_nil_publisher_guard_first).",
        "Router.AddMiddleware does not take middlewaresLock: programs register from one goroutine and only after every started handler "
        "has processed a message (so its snapshot has been taken); concurrent registration is outside the property.",
    ],
    "explanation": "wrap_eq_compose/chain_trace: for every registration list, handler name and handler function the Go wrap loop (index "
                   "loop counting down with its filter) composes exactly the router-level + own middlewares, earliest outermost; "
                   "no_foreign_middleware/own_and_router_level_run: exactly those; pub/sub_decorators_in_order for all decorator lists; "
                   "program_chain_trace lifts this to all registration programs with handlers started later by RunHandlers. The loop "
                   "shapes are re-extracted from the source on every run and proved equal to the model for all lists (tie theorems).",
    "level_text": "Machine-checked (Lean 4) theorems over an executable model of handler.run's wrap loop, decorateHandlerPublisher and "
                  "decorateHandlerSubscriber, for all registration programs, names and middleware functions (no bounds); the loop "
                  "shapes are extracted from the current source and proved equal to the model on every run; the model and an "
                  "independent monitor are compared with traces of the real Router on exhaustive short and random long programs.",
    "level_note": "Proved about the model, not about the Go code; the tie is checked on every run (generated loop shapes + interpreter + "
                  "4 tie theorems, 32 structural facts, differential harness with -race). Middlewares and decorators are modelled as "
                  "pure functions; concurrency of registration with running handlers is not covered.",
    "technique": "Lean 4 theorems over a hand-written executable model + generated deep-embedded loop shapes with tie theorems + "
                 "differential correspondence check against the Go code",
}
