# C14 – Deduplicator lets exactly one message per key through per window.
import re


def _dec_calls(req):
    """[(fail, [realkey, ...]), ...] of a `dec` request"""
    out = []
    for t in req.split()[2:]:
        f, _, ms = t.partition("|")
        keys = [m.split("/")[-1] for m in ms.split(";")] if ms else []
        out.append((f == "f", keys))
    return out


def classify(req, obs, rule):
    """Known finding `batch-aborted-after-accept`: a decorator batch in which the key factory fails on a message *after*
    a message with a key was looked at; the monitor then sees that key dropped later although nothing with it was forwarded."""
    f = req.split()
    if not f or f[0] != "dec" or rule != "violated:dropped_but_none_reached":
        return None
    for _, keys in _dec_calls(req):
        if "!" in keys and any(k != "!" for k in keys[:keys.index("!")]):
            return "batch-aborted-after-accept"
    return None


def nontrivial(req, obs):
    f = req.split()
    k = f[0]
    if k == "repo":
        return len(f) >= 3 and len(set(f[1:])) < len(f[1:])          # some key arrives twice
    if k == "mw":
        keys = [t.split("/")[-1] for t in f[2:]]
        keys = [x for x in keys if x != "!"]
        return len(set(keys)) < len(keys)                             # a duplicate is presented
    if k == "dec":
        keys = [x for _, ks in _dec_calls(req) for x in ks if x != "!"]
        return len(set(keys)) < len(keys)
    if k in ("mwc", "decc"):
        return len(f) == 4 and f[3].count(";") >= 1                   # at least two goroutines
    if k == "hash":
        return len(f) == 5 and f[3] != f[4]                           # two different payloads
    if k == "hist":
        evs = [t.split(":") for t in f[3:]]
        iv = [(int(e[1]), int(e[2])) for e in evs]
        return len(evs) >= 2 and any(a[0] < b[1] and b[0] < a[1] for i, a in enumerate(iv[:200]) for b in iv[i + 1:i + 40])
    if k == "ctx":
        return any(t[-1] != "l" for t in f[3:]) and any(t[-1] == "l" for t in f[3:])   # a dead and a live delivery
    if k == "ctxc":
        return len(f) == 5 and f[4].count(";") >= 1 and re.search(r"[cxht]", f[4]) is not None
    if k == "stall":
        return len(f) >= 7 and int(f[3]) > 0
    if k == "share":
        return len({t.split(":")[0] for t in f[4:]}) >= 2 and len({t.split(":")[1] for t in f[4:]}) < len(f[4:])  # a key through two wrappers
    if k == "sharec":
        return len(f) == 6 and f[5].count(";") >= 1
    if k == "idle":
        return True
    if k == "volume":
        return len(f) == 5 and int(f[3]) > 1024
    if k in ("expire", "router"):
        return True
    if k == "timeout":
        return True
    if k == "metakey":
        return True
    return False


PROP = {
    "id": "C14",
    "lean_targets": ["WmModel.Props.C14", "WmModel.Props.C14Tie", "WmModel.Props.C14Router", "WmModel.Props.C02Tie"],
    # the composition with the Router is stated on the handleMessage model: its body is re-extracted and its tie re-proved here too
    "extract_also": ["C02"],
    "audit_module": "Audit.C14",
    "theorems": [
        "Wm.Dedup.one_per_window", "Wm.Dedup.one_per_window_from", "Wm.Dedup.remembered_at_least_window",
        "Wm.Dedup.window_needs_section_clock_witness",
        "Wm.Dedup.keys_independent",
        "Wm.Dedup.accepted_again_after_expiry", "Wm.Dedup.accepted_again_after_expiry_from",
        "Wm.Dedup.sentinel_reaccepted_probe_forgotten", "Wm.Dedup.sentinel_reaccepted_probe_accepted",
        "Wm.Dedup.concurrent_exactly_one", "Wm.Dedup.concurrent_exactly_one_window",
        "Wm.Dedup.middleware_drop_is_success", "Wm.Dedup.middleware_first_reaches_handler",
        "Wm.Dedup.middleware_key_error", "Wm.Dedup.middleware_calls_iff_accepted",
        "Wm.Dedup.middleware_none_after_first", "Wm.Dedup.middleware_exactly_one",
        "Wm.Dedup.error_does_not_consume_key", "Wm.Dedup.middleware_error_is_clean",
        "Wm.Dedup.middleware_then_decorator_drops", "Wm.Dedup.decorator_then_middleware_drops",
        "Wm.Dedup.decorator_filters_and_acks", "Wm.Dedup.decorator_key_error_aborts",
        "Wm.Dedup.decorator_cases_exhaustive", "Wm.Dedup.decide_filters_and_acks", "Wm.Dedup.decorate_eq_decide",
        "Wm.Dedup.decorator_abort_loses_accepted_witness",
        "Wm.Dedup.decRun_spec", "Wm.Dedup.decorator_exactly_one_reaches_partial",
        "Wm.Dedup.nodup_keys", "Wm.Dedup.duplicate_does_not_refresh",
        "Wm.Dedup.take_eq_iff", "Wm.Dedup.effLimit_spec", "Wm.Dedup.hash_equal_prefix",
        "Wm.Dedup.sha_distinct_partial", "Wm.Dedup.hash_ignores_tail",
        # the middleware inside a Router: composition with the C02/C03 models (Props/C14Router.lean)
        "Wm.Dedup.duplicate_is_acked_unhandled", "Wm.Dedup.first_is_settled_as_handler_says", "Wm.Dedup.key_error_is_nacked",
    ],
    "tie_theorems": [
        "Wm.GoHandle.handle_skeleton_eq_model", "Wm.GoHandle.publish_skeleton_eq_model",
        "Wm.GoDedup.extracted_isDuplicate_eq_model", "Wm.GoDedup.extracted_isDuplicate_one_section",
        "Wm.GoDedup.extracted_cleanOut_eq_model",
        "Wm.GoDedup.extracted_middleware_eq_model", "Wm.GoDedup.extracted_publish_eq_model",
    ],
    "harness": "c14",
    "race": True,
    "driver": "drv_c14",
    "nontrivial": nontrivial,
    "classify": classify,
    "harness_timeout_s": {"quick": 300, "thorough": 1500},
    "rule": "repo: every call sequence over 3 keys up to length 5 (quick) / 7 (thorough) on a real NewMapExpiringKeyRepository, exhaustively; "
            "mw / dec: seeded scripts of 1..10 middleware steps / 1..4 Publish batches over message pools built around the read limit "
            "(payload sizes 0,1,63,64,65,200,L-1,L,L+1; bytes flipped just before / at / after the limit; varied UUIDs and metadata), "
            "all five key-factory configurations (Adler-32, SHA-256 with limits -5..MaxInt64, metadata field, nil factory, nil Deduplicator), "
            "scripted handler outcomes and wrapped-publisher failures; mwc / decc: 1..32 goroutines present 1..4 keys concurrently "
            "through the middleware / decorator behind a spin barrier with yield injection at dedup.isduplicate.enter (-race); "
            "ctx / ctxc: deliveries whose message context is cancelled before the call, past its deadline, cancelled at the hook "
            "dedup.isduplicate.enter (between Deduplicator.IsDuplicate and the repository lock) or outlived there (hook sleeps past the "
            "5 ms Timeout), followed by / mixed with redeliveries with a live context, through the middleware and through the decorator "
            "(one message per Publish), sequentially and from 2..32 goroutines; rule: nothing is dropped as a success unless a message of "
            "that key reached the handler / wrapped publisher, nothing reaches twice, and a key with a live-context delivery has reached "
            "(a delivery rejected with an error must not consume the key); "
            "volume: a fresh repository (windows 20..200 ms, via repository / middleware / decorator) takes 10..30 probe keys spread among "
            "1500..60000 other keys and last a sentinel key; the sentinel is polled until it is accepted again (= a clean-up whose tick is past "
            "the sentinel's, hence every probe's, expiry has run: theorem sentinel_reaccepted_probe_forgotten), then every probe is presented "
            "again and must be accepted again, whatever the number of keys that expired together - no wall-clock bound is asserted; "
            "stall: the first presentation of a key is held up at the hook dedup.isduplicate.enter (right in front of the repository lock) for "
            "0.6 / 1.1 / 2.5 windows (windows 30..200 ms, via repository / middleware / decorator), the key is presented again 0.65 / 0.8 "
            "windows later and four more times; judged like a hist history with the held-up call stamped at the end of the hook action (the "
            "clock reading of the critical section lies after the hook point), i.e. rule one_per_window counted from the accepting section; "
            "share / sharec: 1..6 wrappers (Middleware() and PublisherDecorator() called repeatedly) built from ONE Deduplicator value whose "
            "Repository and/or KeyFactory are left to the defaults (also explicit repository; nil *Deduplicator as the contrast where every "
            "wrapper is its own Deduplicator), keys presented through different wrappers and through d.IsDuplicate directly, sequentially and "
            "from 2..32 goroutines; rule: among all messages of a key presented to one Deduplicator exactly one gets through, whichever wrapper; "
            "idle: 4..8 workers, each on its own repository (windows 1..3 ms), present a new key, wait (Len() as a trigger only) until the clean-up "
            "emptied the repository and present the next new key at once, for 2.5 s (quick) / 12 s (thorough); a key not cleaned within 100 "
            "windows is polled until it is accepted again (60 s deadline) - rule accepted_again_after_expiry; "
            "hash: systematic + seeded payload pairs around the 64-byte minimum and the configured limit; "
            "hist: stamped concurrent histories (1..32 goroutines, windows 1..50 ms, clean-up ticker running, via repository / "
            "middleware / decorator) checked against the timed Lean model by a per-key linearisation search whose witness is replayed on "
            "the proven model, and by the window inequality on conservative stamps; expire: poll until the key is accepted again. "
            "Non-trivial = a duplicate is actually presented / >= 2 goroutines / two different payloads / overlapping calls; "
            "distinct = distinct (request, observation) pairs.",
    "trusted_base": [
        "Lean 4.33.0 kernel; axioms per theorem listed under theorem_axioms (subset of propext, Classical.choice, Quot.sound)",
        "hand-written model WmModel/Dedup.lean: one IsDuplicate / cleanOut call = one atomic step (sync.Mutex semantics; facts + generated tie "
        "show a single critical section per call), Go map as association list (nodup_keys), time.Time monotonic readings as Nat",
        "extractor harness/cmd/extract/c14.go (go/ast printer of the four bodies) and the interpreter WmModel/GoDedup.lean as the semantics of those Go statements",
        "differential harness harness/cmd/c14 + Lean driver Driver/C14.lean (timed per-key linearisation search; its witness is replayed on Wm.Dedup.run)",
        "SHA-256 collision freeness on the generated prefixes (hypothesis of sha_distinct_partial; the model represents a SHA-256 key by the prefix it digests)",
        "hash/adler32, crypto/sha256, io.CopyN, bytes.Reader, time.Ticker, context.WithTimeout of the Go standard library",
        "Go race detector for data-race freedom (runtime fact, not a theorem)",
    ],
    "assumptions": [
        "clock readings taken inside the critical sections are non-decreasing in lock order, and a ticker value is not later than the clean-up that uses it (WellTimed)",
        "liveness of the clean-up (the ticker fires and its goroutine is scheduled) is not a theorem: 'accepted again' is proved for after a clean-up with a tick past the expiry ran, and tested by polling with a 60 s deadline",
        "a key known to the repository is reported as duplicate until a clean-up removes it, also after its expiry (the code's documented 'fuzzy' expiry): retention is at least the window, up to window + ticker period + scheduling delay",
        "the wrapped publisher being called with an empty batch when every message was a duplicate is modelled, not judged (no duplicate is handed to it)",
    ],
    "explanation": "Theorems quantify over all interleavings of arrivals of any keys with clean-ups, all windows and all well-timed clock readings; "
                   "the four tie theorems are re-proved against the bodies of IsDuplicate, cleanOut, the middleware closure and the decorator's Publish "
                   "extracted from the current source; the harness validates the model on real executions incl. concurrent and timed ones.",
    "level_text": "proof",
    "level_note": "The middleware inside a Router (a duplicate is Acked without handler call or publish) is composed with the handleMessage model of C02 (Props/C14Router.lean) whose tie is re-proved in this check. window, frame, expiry, exactly-one, middleware/decorator decisions and hasher prefix laws are theorems over the model; "
                  "SHA-256 distinctness is a hypothesis (tested); ticker liveness and real-time behaviour are tested only. "
                  "Open finding: batch-aborted-after-accept (decorator remembers keys of a batch it then aborts).",
    "technique": "Lean 4 model of the expiring-key repository as an atomic-step transition function over an abstract clock; induction over arbitrary "
                 "operation lists; deep-embedded Go bodies with interpreter + tie theorems; differential and timed-linearizability testing against the real code",
}
