# C11 – see DESIGN.md section 6.
def nontrivial(req, obs):
    f = req.split()
    if f[0] == "sub":
        return sum(1 for t in f[2:] if t == "R") >= 2
    if f[0] == "reg":
        return sum(1 for t in f[3:] if t.startswith("ps,")) >= 1 and sum(1 for t in f[3:] if t.startswith("sg,")) >= 1
    if f[0] == "topic":
        return sum(1 for t in f[1:] if t.startswith("PS")) >= 1 and sum(1 for t in f[1:] if t.startswith("SG")) >= 1
    if f[0] == "top":
        return sum(1 for t in f[5:] if t.startswith("rv,")) >= 2
    return False


PROP = {
    "id": "C11",
    "lean_targets": ["WmModel.Props.C05Prod", "WmModel.Props.C07Locks", "WmModel.Props.C11Reg", 'WmModel.Props.C11'],
    "audit_module": "Audit.C11",
    "theorems": ["Wm.GcProd.publications_are_the_log", "Wm.GcProd.exactly_once_when_all_acked", "Wm.GcProd.prod_witness", "Wm.GcReg.writer_excludes_readers", "Wm.GcReg.writers_exclusive", "Wm.GcReg.topic_mutex_exclusive", "Wm.GcReg.publish_and_subscribe_regions_exclusive", "Wm.GcReg.registry_exactly_one_sender", "Wm.GcReg.registry_mid_publish", "Wm.GcReg.registry_sender_count_eq", "Wm.GcReg.publish_sends_whole_batch", "Wm.GcReg.subscription_registered_once", "Wm.GcReg.c11_witness", 'Wm.GcTopic.exactly_one_sender', 'Wm.GcTopic.sender_count_eq', 'Wm.GcTopic.mid_publish', 'Wm.GcTopic.subscribe_excluded_during_publish'],
    "tie_theorems": [],
    "harness": "c11",
    "race": True,
    "driver": "drv_c11",
    "nontrivial": nontrivial,
    "rule": "persistent GoChannel only: forced overlaps - a Publish (or a Subscribe's replay goroutine) is parked at each of 10 hook points between closed-check, locking, persisting, sending, dispatching, replaying (also inside the replay loop) and registering while a Subscribe / Publish runs; backlogs of 1300-2100 persisted messages with one subscription arriving while the publisher is still running and one afterwards (top-level monitor only) - and seeded random programs with 1-3 publishers x 1-4 subscribers (most of them subscribing during or after the publishers) x 1-6 calls x batches, buffers 0-3, consumers that ack or nack. Per-topic hook streams must be traces of M_topic and, where all owed deliveries were acked, the senders that really ran per subscription must equal the model's as multisets; monitor: every subscription got every successfully published message of its topic exactly 1 + (its nacks of it) times. Non-trivial = at least one publish and one registration in the stream.",
    "trusted_base": [
        "Lean 4.33.0 kernel; axioms per theorem under theorem_axioms",
        "M_sub (lean/WmModel/GcSub.lean) and M_topic (lean/WmModel/GcTopic.lean) as models of pubsub/gochannel/pubsub.go: atomic steps = lock-delimited "
        "regions, channel operations, select alternatives; Go mutex/RWMutex/channel/select/close semantics; the composition of the two models is an "
        "argument on paper (M_sub lets senders arrive at any time, which over-approximates what M_topic starts)",
        "structural facts (skeletons of the GoChannel functions, facts/expected) re-extracted from the source on every run",
        "trace conformance by subset construction (lean/WmModel/Conf.lean, GcConf.lean, GcTopicConf.lean, GcRegConf.lean) and the monitors (lean/WmModel/GcMon.lean)",
        "harness/gc (one event log under one mutex; consumer settlements and cancels logged before the call, hook events inside the critical sections; "
        "liveness bound 30 s per wait; goroutine census by stack dump)",
        "Go race detector",
    ],
    "assumptions": ['always-ack consumers: exactly once; nacking consumers: once per nack plus one'],
    "level_text": 'Proof (Lean 4), for every reachable state of the registry model - any number of Publish calls with any batches, Subscribe calls and unsubscribes, every interleaving of their critical regions - that whenever no call is inside its critical region every registered subscription has had senders started for exactly the persisted log (same messages, same multiplicity, same order); tied to the code by the function skeletons, by trace inclusion of recorded hook streams and by comparing the senders that really ran.',
    "level_note": 'Proved twice: on M_topic (one topic, the critical region abstracted into a phase; Props/C11.lean) and on the full registry model M_reg with the real RWMutex/topic-mutex/closedLock protocol, any number of topics, Close and unsubscribes (Props/C11Reg.lean: registry_exactly_one_sender, registry_mid_publish); the recorded hook streams are checked against both models. exactly-once *delivery* is proved end to end on the composition M_prod = M_reg || M_sub(me) for an arbitrary subscription (Props/C05Prod.lean: publications_are_the_log, exactly_once_when_all_acked - every position of the log of the topic has exactly one acked delivery, every other delivery of it was nacked).',
    "technique": "Lean 4 invariant proofs over LTS models of the subscription and the topic registry + trace-inclusion conformance and property monitors on hook-instrumented executions of the real GoChannel",
    "explanation": 'Proof (Lean 4), for every reachable state of the registry model - any number of Publish calls with any batches, Subscribe calls and unsubscribes, every interleaving of their critical regions - that whenever no call is inside its critical region every registered subscription has had senders started for exactly the persisted log (same messages, same multiplicity, same order); tied to the code by the function skeletons, by trace inclusion of recorded hook streams and by comparing the senders that really ran.',
}
