# C13 – Poison queue: a failed message is either in the poison topic or still failing.


def nontrivial(req, obs):
    f = req.split()
    if f[0] in ("pq", "pqf", "pqc", "pqs"):
        # the handler failed (the middleware had something to decide)
        return len(f) in (15, 16) and f[13] != "nil"
    if f[0] == "pq2":
        return len(f) == 31 and (f[15] != "nil" or f[29] != "nil")
    return False


PROP = {
    "id": "C13",
    "lean_targets": ["WmModel.Props.C13", "WmModel.Props.C13Tie", "WmModel.Props.C13Router", "WmModel.Props.C13Retry", "WmModel.Props.C02Tie", "WmModel.Props.C12Tie"],
    # the Router settle rule is derived from the handleMessage model: its body is re-extracted and its tie re-proved here too
    "extract_also": ["C02", "C12"],
    "audit_module": "Audit.C13",
    "theorems": [
        "Wm.Poison.poisonKeys_distinct", "Wm.Poison.lookup_stamp",
        "Wm.Poison.poison_decision", "Wm.Poison.poison_once_same_identity", "Wm.Poison.pass_through",
        "Wm.Poison.outs_unchanged", "Wm.Poison.acked_implies_handled_or_poisoned",
        "Wm.Poison.nacked_when_poison_publish_fails", "Wm.Poison.nacked_when_filtered_out",
        "Wm.Poison.nacked_when_poison_publisher_panics",
        "Wm.Poison.acked_when_poisoned", "Wm.Poison.poison_before_settle",
        "Wm.Poison.stamp_overwrites", "Wm.Poison.stamp_nodup",
        "Wm.Poison.stream_eq_map", "Wm.Poison.stream_publishes_once_each",
        "Wm.Poison.stateful_filter_consulted_once", "Wm.Poison.stateful_eq_pure",
        "Wm.Poison.stateful_acked_implies_handled_or_poisoned", "Wm.Poison.stateful_verdict", "Wm.Poison.budget_filter_stream",
        # the Router's settle rule derived from the C02/C03 models (Props/C13Router.lean)
        "Wm.Poison.routerSettle_eq_handle", "Wm.Poison.routerSettle_eq_handle_panic", "Wm.Poison.acked_by_handleMessage_implies_handled_or_poisoned",
        # PoisonQueue(Retry(h)) inside a Router: three tied models composed (Props/C13Retry.lean)
        "Wm.Poison.poison_only_after_retries_failed", "Wm.Poison.acked_under_poison_retry",
    ],
    "tie_theorems": ["Wm.GoPoison.extracted_middleware_eq_model", "Wm.GoHandle.handle_skeleton_eq_model", "Wm.GoHandle.publish_skeleton_eq_model", "Wm.GoRetry.extracted_retry_eq_model"],
    "harness": "c13",
    "race": True,
    "driver": "drv_c13",
    "nontrivial": nontrivial,
    "rule": "sa (middleware called directly): the full matrix handler result {nil, errors.New, sentinel, fmt %w-wrapped, pkg/errors-wrapped, "
            "custom Is(), context.Canceled / context.DeadlineExceeded themselves and wrapped with %w or pkg/errors, *multierror.Error of 1..3 parts (parts may wrap the sentinel or a context error)} x filter {PoisonQueue, always, never, errors.Is(sentinel), text needle hit/miss/empty} "
            "x poison publisher {accept, error} x outputs {0, 2} x metadata {empty, random incl. non-UTF-8, all four poison keys present, "
            "some present} (x40 random refills in the thorough tier), handler metadata writes in a third of the cases; "
            "rt (inside a running message.Router, scripted subscriber/publishers, middleware router-level and handler-level): per filter "
            "family and level one router with a stream of 40 (quick) / 1200 (thorough) messages, poison publisher failing from the k-th "
            "message on or at random, the Router's own publisher failing in a quarter of the cases; in three of the seven filter families the handler consumes the poison topic itself (subscribe topic == poison topic); settlement read from Acked()/Nacked(), "
            "the returned (events, err) read by an observer middleware outside the poison middleware. "
            "long error texts (1000 .. 70000 bytes, lengths around 1 KiB / 4 KiB / 64 KiB, plain, %w-wrapped and as multierror parts, the distinguishing part at the END of the text as in a wrapped chain) stand-alone through five filter families and inside a Router: the reason metadata must be the whole err.Error(). " 
            "pqc (application context): the message context holds application values under plain STRING keys - among them 'handler_name', 'subscribe_topic', 'subscriber_name', the strings behind the Router's typed keys - carried in with the message or set by the handler before it fails, stand-alone and inside a Router: the poison metadata must name the Router's topic/handler/subscriber, not those values. panicking poison publisher (pubout panic:<value>), stand-alone and inside a Router (router-level and handler-level middleware): success must not be reported, the Router Nacks. " 
            "pqs (state of the message when the handler fails): its context is already over - cancelled or past its deadline when it arrived (InstantAck on GoChannel, a Timeout in front), or cancelled by the handler - and/or the handler has acked / nacked the message itself before failing; stand-alone and inside a Router (both middleware levels): an accepted failure is still published exactly once and reported as success (the settlement is then the handler's own: first wins, the settlement rules are not applied to it). " 
            "pqf (stateful filters): PoisonQueueWithFilter with a filter scripted as a sequence of answers (budgets 1100.., alternating, "
            "single answers) - 13 answer scripts x {ok, errors.New, sentinel, multierror} x publisher ok/fail stand-alone, and 12 (quick) "
            "streams of 8 messages through one middleware value stand-alone and inside a Router; the number of consultations per message "
            "is observed; rule: the answer the filter gave is the verdict (published once and reported as success, or still failing), "
            "one consultation per failed message, acked => handled or in the poison topic. "
            "pq2 (two messages through ONE middleware value, each compared with the model of that message alone): forced interleavings - "
            "A is stopped inside the filter / inside the poison publisher's Publish / at the end of its handler (channels, no timing) while "
            "B (handled, accepted failure, refused failure) runs to completion through the same wrapped handler, stand-alone and inside a "
            "Router whose handler processes both concurrently; and sequences - stand-alone use then a Router handler, two handlers with "
            "different topic/name/subscriber of one Router (middleware router-level and added to each handler), a handled message of the "
            "other handler first; rule: each poisoned message carries its OWN handler's context values and its own error/outputs. Non-trivial = the handler failed; "
            "distinct = distinct (request, observation) pairs.",
    "trusted_base": [
        "Lean 4.33.0 kernel; axioms per theorem listed under theorem_axioms (subset of propext, Classical.choice, Quot.sound)",
        "extractor harness/cmd/extract/c13.go (go/ast printer of the deferred closure of Middleware and of publishPoisonMessage) and the "
        "interpreter WmModel/GoPoison.lean as the semantics of those Go statements (named results + defer, map write, errors.Wrap, multierror.Append)",
        "the Router's settle rule is modelled as the three-line function routerSettle (Nack on error, else publish outputs, Ack iff accepted); "
        "it is the subject of C02 and is here also exercised through the real Router in mode rt",
        "go-multierror v1.1.1 Append/ListFormatFunc and pkg/errors Wrap are modelled (flatten one level, text format) and differentially tested, not verified",
        "differential harness harness/cmd/c13 + Lean driver Driver/C13.lean (model diff and independent monitor)",
        "Go race detector for data-race freedom (runtime fact, not a theorem)",
    ],
    "assumptions": [
        "the filter is a function of the error value, or a stateful filter whose answers depend only on how often it was consulted "
        "(scripted answer sequences; theorems stateful_*, budget_filter_stream); a filter that inspects or mutates the message is outside the model",
        "the message has a non-nil Metadata map (message.NewMessage always makes one); a nil map makes the middleware panic in Metadata.Set",
        "stand-alone calls carry no Router context values (the keys are unexported), so non-empty topic/handler/subscriber names are exercised in mode rt only",
        "a poison publisher that blocks forever is outside the model (outcomes: accept, error, panic - a panic leaves the middleware and is "
        "recovered by the Router, which Nacks)",
    ],
    "explanation": "Theorems quantify over all filters, publisher outcomes, contexts, messages and handler results (and, by induction, over all "
                   "message streams with failures at any positions); the tie theorem is re-proved against the bodies of Middleware's deferred "
                   "closure and publishPoisonMessage extracted from the current source; the harness validates the model on the real middleware "
                   "stand-alone and inside a running Router.",
    "level_text": "Machine-checked (Lean 4) theorems over an executable model of the poison middleware composed with the Router's settle rule; "
                  "the model is tied to the current source by a generated deep embedding with an equality theorem, by structural facts and by "
                  "differential execution of the real code.",
    "level_note": "The Router settle rule is derived from the handleMessage model of C02 (Props/C13Router.lean) and PoisonQueue(Retry(h)) is composed from three tied models (Props/C13Retry.lean); the ties of handleMessage and of the retry loop are re-proved in this check. Proved about the model, not about the Go code; the tie is checked on every run (generated body + interpreter, facts, "
                  "differential harness). multierror/pkg-errors behaviour and the Router's settle rule are modelled, not verified here.",
    "technique": "Lean 4 theorems over a hand-written executable model + generated deep-embedded body with tie theorem + differential correspondence check against the Go code",
}
