# C17 – Relay components (Forwarder, FanIn, FanOut, Requeuer) neither lose nor invent.

_MAXINT_HEX = "39323233333732303336383534373735383037"          # "9223372036854775807"
_RETRIES_KEY_HEX = "5f77617465726d696c6c5f72657175657565725f72657472696573"  # "_watermill_requeuer_retries"


def classify(req, obs, rule):
    """D16: exactly the requeuer cases whose prior counter is the string 9223372036854775807 and whose only
    complaint is the counter (the monitor rule requeuer_counter)."""
    f = req.split()
    if f and f[0] == "rq" and len(f) == 8 and rule == "violated:requeuer_counter":
        if (_RETRIES_KEY_HEX + "=" + _MAXINT_HEX) in f[7].split(","):
            return "retries=MaxInt64"
    return None


def nontrivial(req, obs):
    f = req.split()
    if not f:
        return False
    if f[0] in ("rq", "fanin"):
        return True                      # a message went through a running component
    if f[0] == "fwd":
        return f[2] != "bad" or True     # valid and invalid envelopes both exercise the statement
    if f[0] in ("e2e", "fanout"):
        return True
    if f[0] == "fpub":
        return f[3] != "-"               # at least one message in the batch
    return False                         # atoi/itoa/ctor tables are library/construction checks


PROP = {
    "id": "C17",
    "lean_targets": ["WmModel.Props.C17"],
    "audit_module": "Audit.C17",
    "theorems": [
        "Wm.Relay.atoi_itoa", "Wm.Relay.atoi_range",
        "Wm.Relay.requeuer_relays", "Wm.Relay.priorCounter_range", "Wm.Relay.priorCounter_cases",
        "Wm.Relay.requeuer_counter_partial", "Wm.Relay.requeuer_counter_overflow_witness", "Wm.Relay.requeuer_counts_up",
        "Wm.Relay.requeuer_settle", "Wm.Relay.requeuer_no_topic",
        "Wm.Relay.valid_iff", "Wm.Relay.forwarder_relays", "Wm.Relay.invalid_envelope_never_forwarded",
        "Wm.Relay.passthrough_relays", "Wm.Relay.fanin_targets", "Wm.Relay.fanout_copies",
        "Wm.Relay.wrap_intact", "Wm.Relay.fwdPublish_once", "Wm.Relay.fwdPublish_refuses_empty_topic", "Wm.Relay.effTopic_ne_nil",
        "Wm.Relay.forwarder_end_to_end",
        "Wm.Relay.ack_after_destination", "Wm.Relay.nack_on_destination_failure_requeuer", "Wm.Relay.settle_last",
        "Wm.Relay.stream_eq_map", "Wm.Relay.stream_accepted_eq_acked", "Wm.Relay.relay_streams",
    ],
    "tie_theorems": [],
    "harness": "c17",
    "race": True,
    "driver": "drv_c17",
    "nontrivial": nontrivial,
    "classify": classify,
    "rule": "",
    "trusted_base": [],
    "assumptions": [],
    "explanation": "",
    "level_text": "",
    "level_note": "",
    "technique": "Lean 4 theorems over a hand-written executable model + structural facts + differential correspondence check against the Go code",
}
