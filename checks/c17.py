# C17 – Relay components (Forwarder, FanIn, FanOut, Requeuer) neither lose nor invent.

_MAXINT_HEX = "39323233333732303336383534373735383037"          # "9223372036854775807"
_RETRIES_KEY_HEX = "5f77617465726d696c6c5f72657175657565725f72657472696573"  # "_watermill_requeuer_retries"


def classify(req, obs, rule):
    """D16: exactly the requeuer cases whose prior counter is the string 9223372036854775807 and whose only
    complaint is the counter (the monitor rule requeuer_counter)."""
    f = req.split()
    if f and f[0] in ("rq", "rqp") and len(f) == 8 and rule == "violated:requeuer_counter":
        if (_RETRIES_KEY_HEX + "=" + _MAXINT_HEX) in f[7].split(","):
            return "retries=MaxInt64"
    return None


def nontrivial(req, obs):
    f = req.split()
    if not f:
        return False
    if f[0] in ("rq", "rqp", "fanin", "fwd", "e2e", "fanout"):
        return True                      # a message went through a running component
    if f[0] == "fpub":
        return f[3] != "-"
    if f[0] == "fpubr":
        return True               # at least one message in the batch
    return False                         # atoi/itoa/utf8/constructor tables are library / construction checks


PROP = {
    "id": "C17",
    "lean_targets": ["WmModel.Props.C17", "WmModel.Props.C17Tie", "WmModel.Props.C17Router", "WmModel.Props.C02Tie"],
    # the settle rule applied to the handlers' errors is derived from the handleMessage model: its body is re-extracted and its tie re-proved here too
    "extract_also": ["C02"],
    "audit_module": "Audit.C17",
    "theorems": [
        "Wm.Relay.atoi_itoa", "Wm.Relay.atoi_range",
        "Wm.Relay.requeuer_relays", "Wm.Relay.priorCounter_range", "Wm.Relay.priorCounter_cases",
        "Wm.Relay.requeuer_counter_partial", "Wm.Relay.requeuer_counter_overflow_witness", "Wm.Relay.requeuer_counts_up",
        "Wm.Relay.requeuer_settle", "Wm.Relay.requeuer_no_topic",
        "Wm.Relay.requeuer_topic_from_consumed", "Wm.Relay.budget_applies_to_consumed",
        "Wm.Relay.valid_iff", "Wm.Relay.forwarder_relays", "Wm.Relay.invalid_envelope_never_forwarded",
        "Wm.Relay.passthrough_relays", "Wm.Relay.fanin_targets", "Wm.Relay.fanout_copies",
        "Wm.Relay.wrap_intact", "Wm.Relay.fwdPublish_once", "Wm.Relay.fwdPublish_refuses_empty_topic", "Wm.Relay.effTopic_ne_nil",
        "Wm.Relay.forwarder_end_to_end",
        "Wm.Relay.ack_after_destination", "Wm.Relay.nack_on_destination_failure_requeuer", "Wm.Relay.settle_last",
        "Wm.Relay.stream_eq_map", "Wm.Relay.stream_accepted_eq_acked", "Wm.Relay.relay_streams", "Wm.Relay.requeuer_streams",
        # the Router settle rule derived from the C02/C03 models (Props/C17Router.lean)
        "Wm.GoRelay.relay_settle_rule_eq_handle", "Wm.GoRelay.rqRun_settle_eq_handle", "Wm.GoRelay.fwRun_settle_eq_handle",
    ],
    "tie_theorems": ["Wm.GoRelay.extracted_requeuer_eq_model", "Wm.GoRelay.extracted_unwrap_eq_model",
                     "Wm.GoRelay.extracted_forward_eq_model",
                     "Wm.GoHandle.handle_skeleton_eq_model", "Wm.GoHandle.publish_skeleton_eq_model"],
    "harness": "c17",
    "race": True,
    "driver": "drv_c17",
    "nontrivial": nontrivial,
    "classify": classify,
    "rule": "Every case drives the real component (its internal message.Router running) with a scripted source subscriber and a scripted "
            "destination publisher that (besides accepting or returning an error it can PANIC on scripted calls and accept again afterwards: the consumed message must then be Nacked, never acked) records, inside Publish, topic/uuid/payload/metadata, object identity and whether the consumed message "
            "was still unsettled, and fails on scripted calls; settlement is read from Acked()/Nacked(). "
            "rq: Requeuer (default and caller-supplied Router) - counter table {absent, 0, 1, 7, +5, ' 5', x, -3, 007, MaxInt64-1, MaxInt64 (known "
            "finding), 2^63, MinInt64, 1_0, non-ASCII digits, ...}, 150 (quick) / 4500 (thorough) random messages with arbitrary-byte "
            "uuids/metadata, topic generator ok/error, destination failing at random or from the k-th message on, cancelled contexts, "
            "12-fold repeated requeue of one message, concurrent bursts of 4..15 messages, Delay>0 with live and cancelled contexts. "
            "rqp: GeneratePublishTopic functions that READ the message they are shown and record its metadata - retry budgets "
            "'retries >= k -> dead_letter' for k in {1,2,3,5} with prior counters k-2..k+1, absent, non-numeric, '+n', ' n', plus random "
            "(k, prior) pairs; topic named by a metadata value, including by the retries header itself; rule: the topic function is applied "
            "to the message as consumed (counter not yet raised) and is shown exactly that metadata, the published message carries counter+1. "
            "fwd: Forwarder (default topic and custom topics) with AckWhenCannotUnwrap off/on; destination topics drawn in a third of the cases from a pool holding the forwarder's OWN topic name, look-alikes of it (trailing/leading space, upper case, suffix) and plain names (a valid envelope is forwarded whatever its destination is called); x 21 payload classes (wrap, hand-written JSON, minimal, extra fields, "
            "case-insensitive keys, duplicate keys, nulls, empty destination, no destination, null, {}, garbage, empty, truncated, trailing "
            "bytes, wrong types, bad base64, array, string, number) x destination failing on every k-th message, plus concurrent bursts. "
            "fpubr: the caller hands ONE batch (its own slice of messages) to forwarder.Publisher twice - to a second destination topic, or again after the first attempt failed - and both calls must envelope the caller's messages (uuid/payload/metadata intact, topic of that call). " 
            "fpub: forwarder.Publisher batches of 0..4 messages, default/custom forwarder topic, empty destination topic, failing wrapped "
            "publisher; envelopes decoded with a generic JSON decode. e2e: Publisher -> scripted transport or blocking GoChannel -> Forwarder (also one given its Router by the caller, Config.Router, with the forwarder topic left to its default on both sides) -> "
            "scripted destination. fanin: 1/2/4 source topics, destination failing from the k-th message on, bursts; constructor validation table. "
            "fanout: 0/1/3 subscribers per topic, two topics, idempotent AddSubscription. atoi/itoa/utf8: the strconv and utf8 models against the "
            "library on edge tables and seeded random strings. Non-trivial = a message went through a running component (or a non-empty "
            "Publisher batch); distinct = distinct (request, observation) pairs.",
    "trusted_base": [
        "Lean 4.33.0 kernel; axioms per theorem listed under theorem_axioms (subset of propext, Classical.choice, Quot.sound)",
        "extractor harness/cmd/extract/c17.go (go/ast printer of Requeuer.handler, Forwarder.forwardMessage, unwrapMessageFromEnvelope + "
        "structural facts on Publisher.Publish, NewFanIn, FanOut.AddSubscription, PassthroughHandler, envelope struct tags, validate) and the "
        "interpreters in WmModel/GoRelay.lean as the semantics of those Go statements",
        "the Router's settle rule (error => Nack; outputs published, Ack iff accepted) is inlined in the model; it is the subject of C02 and is "
        "here exercised through the real Routers the components run",
        "encoding/json and base64: decoding inverts encoding on envelopes whose strings are valid UTF-8 - hypothesis hrt of "
        "forwarder_end_to_end, tested on every run (Publisher output decoded generically; e2e through the real code), not proved",
        "strconv.Atoi/Itoa, Go int wrap-around and utf8.Valid are modelled executably (WmModel/Relay.lean) and differentially tested against the library",
        "GoChannel (FanOut's internal Pub/Sub) delivers a copy to every current subscriber (C04); only its acceptance of Publish is used here",
        "differential harness harness/cmd/c17 + Lean driver Driver/C17.lean (model diff and independent monitor); Go race detector (runtime fact)",
    ],
    "assumptions": [
        "Forwarder clauses (Publisher, envelope, Forwarder, end to end) are scoped to destination topics, uuids and metadata that are valid UTF-8 "
        "(payload bytes arbitrary): JSON is the wire contract and encoding/json replaces invalid bytes by U+FFFD (reproduced: uuid 'id-\\xff' "
        "arrives as 'id-\\ufffd'); generators for these flows emit valid UTF-8 only, FanIn/FanOut/Requeuer get arbitrary bytes everywhere",
        "messages have a non-nil Metadata map (message.NewMessage); FanIn source topics are pairwise distinct (duplicate names make AddHandler panic)",
        "destination publishers accept, return an error, or panic (a panic is recovered by the Router, which Nacks; it is exercised for Forwarder, Requeuer and FanIn); a destination that blocks forever is outside the model; GeneratePublishTopic is a function of the message",
        "FanOut's destination is its internal GoChannel, which cannot be made to fail while running: only acceptance is exercised there",
        "Delay>0 with a context cancelled during the wait (rather than before it) is a race between two ready select cases and is not exercised",
    ],
    "explanation": "Theorems quantify over all messages, prior counter strings, envelopes, flags, topics and destination outcomes and, by induction, "
                   "over all message streams with destination failures at any positions; three tie theorems are re-proved against the bodies "
                   "extracted from the current source; 42 structural facts pin the remaining wiring; the harness validates the models on the real "
                   "components, sequentially and in concurrent bursts. Known finding D16 (counter overflow at MaxInt64) is modelled as the code "
                   "behaves, guarded in requeuer_counter_partial and witnessed by requeuer_counter_overflow_witness.",
    "level_text": "Machine-checked (Lean 4) theorems over executable models of the four relay components composed with the Router's settle rule; "
                  "models tied to the current source by generated deep embeddings with equality theorems, structural facts and differential "
                  "execution of the real components.",
    "level_note": "The settle rule applied to the relay handlers' errors is derived from the handleMessage model of C02 (Props/C17Router.lean) whose tie is re-proved in this check. Proved about the models, not about the Go code; the tie is checked on every run. encoding/json round-trip (valid UTF-8), "
                  "GoChannel delivery and the Router's settle rule are assumed/modelled here and verified elsewhere (C16, C04, C02). "
                  "requeuer_counter_partial excludes prior counter = MaxInt64 (open finding retries=MaxInt64).",
    "technique": "Lean 4 theorems over a hand-written executable model + structural facts + differential correspondence check against the Go code",
}
