# C19 – Simple middlewares change only what they document and only during the call.
import re


def _delay_cfgs(req):
    return [tuple(int(x) for x in m.groups()) for m in re.finditer(r"(?:D:|delay )(\d+):(\d+):(\d+):(\d+)", req)]


def classify(req, obs, rule):
    # finding D17: the first delay is InitialInterval even when that exceeds MaxInterval
    if rule == "violated:delay_first_uncapped" and any(c[0] > c[1] for c in _delay_cfgs(req)):
        return "initial>max"
    return None


def nontrivial(req, obs):
    f = req.split()
    if f[0] == "stack":
        return f[1] != "-" and not obs.startswith("ret/-/none calls=000/n ")
    if f[0] == "delay":
        return "F" in f[3]
    return f[0] == "throttle" and int(f[1]) > 2


PROP = {
    "id": "C19",
    "lean_targets": ["WmModel.Props.C19"],
    "audit_module": "Audit.C19",
    "theorems": ["Wm.Mw.timeout_transparent", "Wm.Mw.timeout_deadline_visible_and_restored"],
    "tie_theorems": [],
    "harness": "c19",
    "race": False,
    "driver": "drv_c19",
    "nontrivial": nontrivial,
    "classify": classify,
    "rule": "",
    "trusted_base": [],
    "assumptions": [],
    "explanation": "",
}
