# C19 – Simple middlewares change only what they document and only during the call.
import re


def _delay_cfgs(req):
    return [tuple(int(x) for x in m.groups()) for m in re.finditer(r"(?:D:|delay )(\d+):(\d+):(\d+):(\d+)", req)]


def _open_patterns():
    import json, os
    try:
        kf = json.load(open(os.path.join(os.path.dirname(os.path.abspath(__file__)), "..", "known-findings.json")))
        return {f.get("pattern") for f in kf.get("findings", []) if f.get("property") == "C19" and f.get("status") == "open"}
    except (OSError, ValueError):
        return set()


def classify(req, obs, rule):
    # finding D17 (open, pattern "initial>max"): with InitialInterval > MaxInterval the first failure on a message
    # without usable delay metadata writes InitialInterval.  The monitor names exactly that case
    # `delay_first_uncapped` (k = 1, observed delay = InitialInterval > MaxInterval) and reports it only when the
    # case shows no other violation; here we additionally require the configuration in the request to have init > max.
    if rule == "violated:delay_first_uncapped" and any(c[0] > c[1] for c in _delay_cfgs(req)):
        return "initial>max"
    # candidate finding "breaker+panicnil": in a program running with GODEBUG=panicnil=1 the CircuitBreaker middleware
    # reports a handler that called panic(nil) as success (gobreaker v1.0.0 re-panics only when recover() != nil).
    # These cases are generated only while the pattern is listed as open (harness flag -breaker-panicnil below).
    f = req.split()
    if f[0] == "stackn" and "B" in f[1].split(",") and "pn/n" in f[3].split(";") and \
            rule in ("violated:transparent_result", "violated:recoverer_panic_becomes_error", "violated:retry_attempt_count", "violated:handler_called_exactly_once", "diff"):
        return "breaker+panicnil"
    return None


def nontrivial(req, obs):
    f = req.split()
    if f[0] in ("stack", "stackn"):
        # at least one middleware and something other than "handler returned nothing, nothing observable happened"
        return f[1] != "-" and not (obs.startswith("ret/-/none ") and "calls=000/n " in obs and f[2] == "live/n/n/n")
    if f[0] == "conc":
        return f[1] != "-" and int(f[4]) >= 2     # a middleware and at least two goroutines
    if f[0] == "delay":
        return f[3].count("F") >= 2      # the recurrence is exercised
    return f[0] == "throttle" and int(f[1]) > 2


_T = "Wm.Mw."
PROP = {
    "id": "C19",
    "lean_targets": ["WmModel.Props.C19", "WmModel.Props.C19Tie"],
    "audit_module": "Audit.C19",
    "theorems": [_T + n for n in [
        "timeout_transparent", "timeout_deadline_visible_and_restored", "Old.timeout_leaves_context_done",
        "correlation_transparent", "correlation_copied_not_overwritten",
        "recoverer_never_escapes", "recoverer_transparent",
        "ignore_errors_only_listed", "ignore_errors_cause",
        "instant_ack_before_call", "throttle_transparent", "breaker_transparent",
        "throttle_rate", "throttle_window_count", "throttle_model_admissible", "throttle_lifetime_rate", "throttle_valid_is_lax",
        "throttle_takes_tick_whatever_the_context", "Legacy.breaker_swallows_nil_panic", "simple_never_introduces_panic",
        "delay_transparent", "delay_recurrence", "delay_seq_failures",
        "delay_closed_form_bound_partial", "delay_capped_from_second", "delay_first_uncapped_witness",
        "delay_gap_bound", "Old.delay_fraction_truncated",
        "stack_context_restored", "simple_calls_inner_once", "compose_with_retry",
        "compose_with_retry_attempts", "retry_own_attempts_all_fail", "retry_own_attempts",
        "compose_with_retry_around_and_inside",
    ]],
    "tie_theorems": ["Wm.GoMw." + n for n in [
        "extracted_timeout_eq_model", "extracted_instantAck_eq_model", "extracted_throttle_eq_model",
        "extracted_delayMw_eq_model", "extracted_applyDelay_eq_model",
    ]],
    "harness": "c19",
    "harness_args": (["-breaker-panicnil"] if "breaker+panicnil" in _open_patterns() else []),
    "race": False,         # a sequential property: the middlewares hold no mutable state (Throttle's ticker is only received from); a
                           # race build would add the race runtime's 1 s exit sleep to every corpus replay for nothing
    "driver": "drv_c19",
    "nontrivial": nontrivial,
    "classify": classify,
    "rule": "stack: the bare handler and each of 18 configured middlewares (Timeout 1h / Timeout 0, CorrelationID, Recoverer, "
            "IgnoreErrors x4 lists, InstantAck, Throttle, closed CircuitBreaker, DelayOnError x3 configurations, Retry MaxRetries "
            "0..3; plus 2 DelayOnError configurations with init>max on a small sample) x 23 handler results (outputs with/without/with-empty correlation id, plain / "
            "pkg-errors-wrapped / fmt-%w-wrapped / nested errors, panics with string, empty string, error and nil) x 84 messages "
            "(context live / cancelled / with deadline; correlation id absent / empty / set; delay metadata absent / 2µs / empty / "
            "unparseable; handler rewrites the incoming correlation id or not; plus 12 messages with a caller-set deadline beyond every Timeout (1000h) "
            "and/or acked / nacked before they enter the chain), exhaustively; results now 20: also an error of a slice type (not "
            "comparable / hashable) plain, pkg-wrapped and unlisted, a panic with a []string value, and the context sentinels context.DeadlineExceeded / context.Canceled plain, pkg-wrapped and %w-wrapped (a handler reporting its per-attempt context's error; scripts with 2..4 such failures in a row under Retry); the handler classifies the "
            "deadline it sees (none / within the Timeouts' horizon / later) and the settlement (none / acked / nacked); every ordered pair and (enumerated by kind, with Retry at each position) ordered triples "
            "with at most one Retry, multi-attempt scripts (fail k times then succeed / panic / listed-unlisted mixes) and "
            "messages drawn from the seed. Observed per case: result, and for every handler invocation Deadline() ok, ctx.Err(), "
            "Acked, delay metadata; afterwards msg.Context() identity/Deadline/Err, Acked, delay keys, remaining metadata. "
            "delay: DelayOnError called repeatedly on one message for every failure/success sequence up to length 6 (quick) / 8 "
            "(thorough) x 7 configurations (multipliers 1, 1.5, 2, 2.5, 3) x prior metadata, plus seeded random configurations "
            "(multipliers k/1, k/2, k/4; durations < 2^44 ns so that float64 arithmetic is exact), metadata read after each call. "
            "stackn: the same chains (without CircuitBreaker) executed with GODEBUG=panicnil=1 switched on in the harness process "
            "(recover() returns nil for panic(nil), as in programs whose go.mod says go < 1.21): every middleware x panic(nil) / other "
            "panics / errors / successes, every pair containing a Recoverer (and a quarter of the others) x 7 scripts around "
            "panic(nil), seeded triples; expectation unchanged (a nil panic is a panic: an error under Recoverer, retried by Retry). "
            "conc: ONE wrapped handler value (built once, as Router.AddHandler does) called by 2..16 goroutines at the same time with "
            "400..1600 (quick) / 2000..8000 (thorough) messages, message i scripted with one of 5 templates (outputs, error with "
            "outputs, wrapped error, panic, nothing) and its output uuids / panic strings tagged with i: each single middleware and "
            "30 (150) seeded stacks of 2-3, a third of them with the CircuitBreaker; observed per template the distinct per-call "
            "observations with counts - every call must return its own handler's outputs and error. "
            "throttle: n calls by 1..16 concurrent callers through a fresh Throttle against the real clock, with messages whose context is live, "
            "already cancelled, or under a Timeout(period/8) outside the Throttle that expires during the wait; only the lower bound "
            "(n-2)·period ≤ elapsed (measured from before the ticker's creation) is judged. Non-trivial = a stack case with a middleware and an observable effect, a delay "
            "sequence with >= 2 failures, a throttle case with > 2 starts; distinct = distinct (request, observation) pairs.",
    "trusted_base": [
        "Lean 4.33.0 kernel; axioms per theorem listed under theorem_axioms (subset of propext, Classical.choice, Quot.sound)",
        "hand-written model WmModel/Middleware.lean: Go defer/recover semantics (deferred restore runs on return and on panic), "
        "context.WithTimeout as 'child context with a deadline, done at once iff timeout <= 0', Metadata as association list",
        "float64: Multiplier is modelled as an exact rational num/den and time.Duration(float64(d)*Multiplier) as the floor of the "
        "exact product; this is exact for the multipliers and durations the harness uses (k/1, k/2, k/4, d < 2^44 ns); float "
        "rounding for other multipliers is outside the model",
        "time.Duration.String / time.ParseDuration round trip (the harness checks every delayed_for value it reads is in canonical "
        "form), RFC 3339 formatting of delayed_until (only presence is compared)",
        "github.com/pkg/errors Cause/Wrap/WithStack and fmt.Errorf %w as modelled by Err.cause / Err.text; the text of a recovered "
        "panic error contains a stack trace and is assumed never to equal a listed error text",
        "sony/gobreaker v1.0.0 in closed state with ReadyToTrip = never (Execute calls the function once, re-panics the same value); "
        "under GODEBUG=panicnil=1 gobreaker itself swallows panic(nil) (re-panics only when recover() != nil) – candidate finding "
        "'breaker+panicnil' in checks/c19.findings.json, witness Legacy.breaker_swallows_nil_panic; the stackn group leaves the "
        "CircuitBreaker out unless that pattern is listed as open in known-findings.json",
        "GODEBUG=panicnil=1 is switched on at run time through os.Setenv (the Go runtime re-reads GODEBUG); the harness verifies with a "
        "probe that recover() really returns nil for panic(nil) before it runs the stackn group",
        "Retry is modelled minimally (attempt rule, single read of msg.Context() after the first attempt, outputs dropped when "
        "retries are exhausted); back-off waits, MaxElapsedTime and the hook are C12's subject",
        "time.Ticker as a one-slot channel: throttle_rate / throttle_window_count assume punctual delivery at multiples of the "
        "period (validRun); throttle_lifetime_rate only assumes that a tick is never delivered before its nominal time and that "
        "ticks are consumed in order (laxRun) – that is the inequality sampled on the real clock (n starts take >= n periods "
        "from before the ticker's creation; judged with two periods to spare)",
        "extractor harness/cmd/extract/c19.go (go/ast printer of five bodies + structural facts) and the interpreters "
        "WmModel/GoMw.lean as the semantics of those Go statements",
        "differential harness harness/cmd/c19 + Lean driver Driver/C19.lean (model printer and the independently written monitor)",
    ],
    "assumptions": [
        "handlers leave on the message the context they found (CtxNeutral); a handler that itself replaces the message context "
        "and does not put it back is outside compose_with_retry (Timeout still restores its own original)",
        "the middlewares keep no state per wrapped handler (fact middlewares_with_state_outside_the_handler_literal = []): in the model "
        "every call is a function of its own message, so concurrent calls cannot influence each other; the conc cases sample exactly "
        "that on the real code (an interleaving-dependent check: a change that only misbehaves under a rare interleaving may need "
        "several runs to show a failing input, the fact flags it at once)",
        "Timeout(d) is modelled by classes: the derived context's deadline lies within the horizon of the chain's Timeouts (far = "
        "false) whatever later deadline the caller had set; the harness uses Timeout(1h) / Timeout(0) and a caller deadline of 1000h "
        "and classifies deadlines by 'within 2h' – the exact instant is not compared",
        "InstantAck on a message nacked before: Ack() is a no-op returning false; the handler is still called and its result passes "
        "(ackMsg); a message acked before stays acked",
        "outputs are distinct non-nil messages built with NewMessage (non-nil Metadata) and different from the incoming message",
        "durations are non-negative; Multiplier >= 1 (num >= den > 0)",
        "'k-th consecutive failure' counts the failures of this message since its delay metadata was absent or unparseable; a "
        "success in between writes nothing (clause 'successes untouched') and therefore neither counts nor restarts the chain; "
        "a parseable prior delayed_for value d0 is the 'previous delay': the k-th failure then yields min(d0·m^k, max)",
        "the delay equals min(Initial·m^(k-1), Max) up to the rounding of each multiplication to whole nanoseconds "
        "(delay_closed_form_bound_partial: short by at most gapBound/den^(k-1) < (m^(k-1)-1)/(m-1) ns, exact for integer m)",
        "'handler starts no faster than the configured rate' is read as the window bound: n further starts take at least (n-1)·d, "
        "a window of length L holds at most L/d + 2 starts – one tick may wait in the ticker's slot after an idle phase, so two "
        "starts can be arbitrarily close (DESIGN.md Appendix B states L/d + 1, which the one-slot ticker does not satisfy)",
        "'lacks a correlation id' = Metadata.Get(correlation_id) == \"\"; the key is set even when the incoming id is empty",
        "a Retry placed inside a Timeout that is already expired when it starts stops after one attempt: that is Retry's documented "
        "reaction to a done context, not a leak of Timeout's effect (excluded from compose_with_retry by retryOutsideExpired)",
    ],
    "explanation": "Transparency theorems hold for every wrapped handler function and every message state; compose_with_retry "
                   "shows for stacks of any length and order that Retry's read of the message context never decides (the run "
                   "equals the run in which Retry ignores the context), because every middleware leaves the context as it found "
                   "it (Timeout restores it even on panic). DelayOnError is proved over exact integers for every rational "
                   "multiplier >= 1; the first-delay cap is open finding D17 (guarded theorem + witness). Five closure bodies are "
                   "re-extracted from the source on every run and proved equal to the model; 47 structural facts pin the rest. "
                   "The harness runs the real middlewares on ~58k (quick) / ~260k+ (thorough) cases and both diffs them against the model and "
                   "evaluates the statement clause by clause with an independently written monitor.",
    "level_text": "Theorems (kernel-checked, no sorry) over a hand-written executable model of the nine middlewares: transparency for "
                  "all handlers/messages, context restoration and Retry composition for all stacks, DelayOnError closed form for "
                  "all rational multipliers >= 1 and all k (guard init <= max, finding D17), throttle window bound over an abstract "
                  "ticker; the tie to the Go code is a checked correspondence (generated bodies + facts + differential harness with "
                  "a property monitor), which is sampling, not proof.",
    "level_note": "Proved for the model: timeout_*, correlation_*, recoverer_*, ignore_errors_*, instant_ack_before_call, "
                  "throttle_transparent/rate/window_count/lifetime_rate, breaker_transparent, delay_transparent/recurrence/seq_failures/"
                  "capped_from_second/gap_bound, stack_context_restored, simple_calls_inner_once, compose_with_retry(_attempts), "
                  "retry_own_attempts(_all_fail), compose_with_retry_around_and_inside. Conditional: delay_closed_form_bound_partial (guard InitialInterval <= MaxInterval; "
                  "the unguarded statement is false, witness delay_first_uncapped_witness = open finding D17 'initial>max'). "
                  "Witnesses of repaired defects: Old.timeout_leaves_context_done (D2), Old.delay_fraction_truncated (D3). "
                  "Model-validated only: real time (Timeout's deadline firing, Throttle's rate on the wall clock – one lower-bound "
                  "inequality), float64 rounding for multipliers that are not small dyadic rationals, gobreaker outside the closed "
                  "state, Retry's back-off (C12). Tie: extracted_{timeout,instantAck,throttle,delayMw,applyDelay}_eq_model re-proved "
                  "against the bodies extracted on every run, 47 structural facts, differential harness + monitor.",
    "technique": "Lean 4 theorems over a hand-written executable model + generated deep-embedded bodies with tie theorems + "
                 "structural facts + differential correspondence check (model diff and property monitor) against the Go code",
}
