# C10 – Router lifecycle (model RouterLife, shared with C06).
def _evs(req):
    return req.split()[5:]


def nontrivial(req, obs):
    # a lifecycle trace with at least one handler started and one of: Stop, a RunHandlers call, a cancel, a second Run
    e = _evs(req)
    return any(t.startswith("st,") for t in e) and any(t.startswith(("stp,", "rhc,", "cx", "rc,1")) for t in e)


def classify(req, obs, rule):
    return None


PROP = {
    "id": "C10",
    "lean_targets": ["WmModel.Props.C10", "WmModel.Props.C10Old", "WmModel.Props.C10SelfClose"],
    "audit_module": "Audit.C10",
    "theorems": [
        "Wm.RouterLife.running_after_all_subscribed", "Wm.RouterLife.runhandlers_once",
        "Wm.RouterLife.started_implies_stoppable", "Wm.RouterLife.stop_isolated", "Wm.RouterLife.stop_ends_handler",
        "Wm.RouterLife.second_run_errors", "Wm.RouterLife.self_close_progress", "Wm.RouterLife.run_returned_means_closed",
        "Wm.RouterLife.cancel_winds_handlers_down", "Wm.RouterLife.runhandlers_nil_means_all_started",
        "Wm.RouterLife.runhandlers_error_is_retried", "Wm.RouterLife.other_handlers_keep_dispatching",
        "Wm.RouterLife.loop_tail_waits_for_nobody", "Wm.RouterLife.failed_run_leaves_running_open",
        "Wm.RouterLife.close_signals_only_outside_runhandlers",
        "Wm.RouterLife.Old.started_before_stopfn_witness", "Wm.RouterLife.Old.watcher_lost_wakeup_witness",
    ],
    "tie_theorems": [],
    "harness": "c10",
    "race": True,
    "driver": "drv_c10",
    "nontrivial": nontrivial,
    "classify": classify,
    "harness_timeout_s": {"quick": 400, "thorough": 1700},
    "rule": "lifecycle programs on the real message.Router over {AddHandler, Run, RunHandlers xN (sequential and concurrent), wait Started, "
            "Stop, wait Stopped, cancel Run ctx, Close, second Run} with 1..5 handlers (scripted subscribers whose Subscribe calls are "
            "counted; GoChannel for delivery right after Running()), handlers added before and after Run; Stop issued while RunHandlers is "
            "parked at runhandlers.started (right after Started() closed); a router started empty with the self-close watcher parked "
            "before its select while the first handler is added; stop-one / stop-all / cancel families; 4-12 goroutines polling IsClosed() while both handlers are stopped / the Run context is "
            "cancelled (the router must still close itself, Run return nil; 6 rounds, 14 thorough; child processes); Close arriving "
            "while Run's RunHandlers is inside the slow second Subscribe of 2-3 handlers sharing one GoChannel (start-up must finish: "
            "Running() closed, all Started() closed, then Run and Close return nil); a router started empty whose Run context is cancelled before the first AddHandler, or "
            "after AddHandler+RunHandlers while the watcher is parked before its select (4 rounds): the handler ends, the router must close "
            "itself and Run return nil; the failed-Subscribe scenarios run in child processes (a wrong handlersWg count panics in a router goroutine); a start-up in which one of three subscriptions is refused (Run returns the error, "
            "Running() must be found open, a second Run is refused, a later RunHandlers starts all three); a second Run issued while the "
            "first is inside a gated Subscribe (refused at once, bounded call; the first goes on normally; child process); a handler function gated beyond CloseTimeout while the router is closed by a caller / "
            "closes itself after cancel / after Stop of the last handler (the Close times out; Run must still return nil within the "
            "bound and a second Run is refused); Stop of a handler whose function is still busy while 3 messages each go to the other "
            "handlers (they must be handled, Stopped() of the stopped one must close, before the busy function is released); a scripted subscriber whose first Subscribe call(s) fail, then RunHandlers again (a RunHandlers "
            "that returned nil must have started every handler added before it: one successful Subscribe, Started() closed - also when Run "
            "itself failed on the Subscribe error); a redundant RunHandlers held at its own log line (handlersLock taken) while Close x2 "
            "arrives or the Run context is cancelled - every call must return, Run with nil; seeded random programs with "
            "yield injection. Every trace goes through the C10 monitor (clauses of the statement); traces marked for conformance must be "
            "traces of the Lean model RouterLife. Non-trivial = a handler was started and a Stop / RunHandlers / cancel / second Run occurs.",
    "trusted_base": [
        "Lean 4.33.0 kernel; axioms per theorem under theorem_axioms",
        "RouterLife (lean/WmModel/RouterLife.lean) as a model of Run/RunHandlers/AddHandler/Stop/watchAllHandlersStopped/Close: atomic steps = "
        "lock-delimited regions, channel operations, select alternatives; Go mutex, WaitGroup, (buffered) channel, select semantics",
        "structural facts (skeletons + order facts: stopFn/stopped before close(startedCh), handlerAdded capacity 1, RunHandlers under "
        "handlersLock, skips started handlers; facts/expected/C10.json) re-extracted from the source on every run",
        "trace conformance by subset construction (lean/WmModel/RouterConf.lean) and the monitors (lean/WmModel/RouterMon.lean)",
        "harness/rl (one event log under one mutex; liveness bound 20 s per wait; goroutine census by stack dump)",
        "Go race detector",
    ],
    "assumptions": [
        "environment contract of the property: handlers are not added while/after the router shuts down; Stop is called after Started() fired",
        "subscribers honour their Subscribe context (the scripted subscriber and GoChannel close the channel when it is cancelled): "
        "'the Run context is cancelled => the router closes itself' is stated for such subscribers",
    ],
    "level_text": "Proof (Lean 4) over every reachable state of the Router life-cycle model - any number of handlers, RunHandlers / Stop / Close "
                  "callers, every interleaving - that Running() implies every pre-registered handler is started and subscribed exactly once, "
                  "Subscribe is called at most once per handler, Started() implies Stop()/Stopped() usable and nothing ever panics, Stop changes "
                  "only its own handler, a second Run only reports the error, and (progress, no fairness assumption) that once every handler loop has ended the "
                  "watcher/Close/Run chain always has an enabled step until Run has returned; the model is tied to the code by structural facts and trace inclusion.",
    "technique": "Lean 4 invariant proofs over an LTS model of the Router + trace-inclusion conformance and property monitors on hook-instrumented executions",
    "explanation": "the lifecycle invariants (LifeOk, RunOk) are inductive over all 48 actions of RouterLife; Old witnesses replay D7 and D14.",
}


def extra(run):
    """conformance statistics (model states / transitions explored, inconclusive traces) into the evidence"""
    import os, subprocess
    cases = os.path.join(os.path.dirname(os.path.dirname(os.path.abspath(__file__))), ".build", "%s.cases" % PROP["id"])
    exe = os.path.join(os.path.dirname(os.path.dirname(os.path.abspath(__file__))), "lean", ".lake", "build", "bin", PROP["driver"])
    if not (os.path.exists(cases) and os.path.exists(exe)):
        return
    lines = ["S " + l[4:].rstrip("\n") for l in open(cases, errors="replace") if l.startswith("REQ trace ")]
    if not lines:
        return
    try:
        out = subprocess.run([exe], input="\n".join(lines) + "\n", stdout=subprocess.PIPE, text=True, timeout=900).stdout.split("\n")
    except Exception as e:  # statistics only
        run.cov["conformance"] = {"error": str(e)}
        return
    st = {"traces_checked": 0, "inconclusive_fuel": 0, "rejected": 0, "max_state_set": 0, "model_transitions": 0, "not_marked": 0}
    for l in out:
        if l.startswith("skipped"):
            st["not_marked"] += 1
        elif l.startswith(("true", "false")):
            st["traces_checked"] += 1
            f = dict(x.split("=") for x in l.split()[1:])
            st["rejected"] += l.startswith("true")
            st["inconclusive_fuel"] += f.get("exhausted") == "true"
            st["max_state_set"] = max(st["max_state_set"], int(f.get("states", 0)))
            st["model_transitions"] += int(f.get("trans", 0))
    run.cov["conformance"] = st


PROP["extra"] = extra
