# C04 – see DESIGN.md section 6.
def nontrivial(req, obs):
    f = req.split()
    if f[0] == "sub":
        return sum(1 for t in f[2:] if t == "R") >= 2
    if f[0] == "reg":
        return sum(1 for t in f[3:] if t.startswith("ps,")) >= 1 and sum(1 for t in f[3:] if t.startswith("sg,")) >= 1
    if f[0] == "topic":
        return sum(1 for t in f[1:] if t.startswith("PS")) >= 1 and sum(1 for t in f[1:] if t.startswith("SG")) >= 1
    if f[0] == "top":
        return sum(1 for t in f[5:] if t.startswith("rv,")) >= 2
    return False


PROP = {
    "id": "C04",
    "lean_targets": ["WmModel.Props.C04Prod", "WmModel.Props.C05Prod", "WmModel.Props.C04Exit", "WmModel.Props.C05Reg", 'WmModel.Props.C04', 'WmModel.Props.C11'],
    "audit_module": "Audit.C04",
    "theorems": ["Wm.GcProd.send_starts_sender_for_registered", "Wm.GcProd.send_starts_nothing_for_other_topics", "Wm.GcProd.no_sender_is_lost", "Wm.GcProd.delivery_witness", "Wm.GcProd.publications_are_the_log", "Wm.GcProd.exactly_once_when_all_acked", "Wm.GcProd.prod_witness", "Wm.GcSub.acked_exit_means_delivered_and_acked", "Wm.GcSub.unacked_exit_means_closing", "Wm.GcSub.sender_exits_once", "Wm.GcReg.send_starts_one_sender_per_registered", 'Wm.GcSub.redelivery_only_after_nack', 'Wm.GcSub.at_most_one_live_copy', 'Wm.GcSub.delivery_uses_fresh_copy', 'Wm.GcSub.unsettled_copy_has_live_sender', 'Wm.GcSub.nack_means_resend', 'Wm.GcSub.one_unsettled_inv', 'Wm.GcTopic.mid_publish'],
    "tie_theorems": [],
    "harness": "c04",
    "race": True,
    "driver": "drv_c04",
    "nontrivial": nontrivial,
    "rule": 'seeded scenarios on the real GoChannel (buffer 0/1/3 x persistent x blocking, 1-3 topics/publishers/subscribers, consumers that ack, nack k times, mutate the received copy, delay, cancel; Subscribe before/during/after the publishers) with yield injection at the gochannel.* hook points. Every delivery is checked against the published original (uuid, payload, metadata), for being a new object with its own metadata map, for a context derived from the Subscribe context, live on receipt and cancelled after the Ack; redelivery only after a Nack; at the point where the harness saw all owed deliveries acked, every (subscription, message) obligation must be met. Per-subscription streams must be traces of M_sub, per-topic streams (persistent mode) traces of M_topic. Non-trivial = at least two deliveries / one publish and one registration.',
    "trusted_base": [
        "Lean 4.33.0 kernel; axioms per theorem under theorem_axioms",
        "M_sub (lean/WmModel/GcSub.lean) and M_topic (lean/WmModel/GcTopic.lean) as models of pubsub/gochannel/pubsub.go: atomic steps = lock-delimited "
        "regions, channel operations, select alternatives; Go mutex/RWMutex/channel/select/close semantics; the composition of the two models is an "
        "argument on paper (M_sub lets senders arrive at any time, which over-approximates what M_topic starts)",
        "structural facts (skeletons of the GoChannel functions, facts/expected) re-extracted from the source on every run",
        "trace conformance by subset construction (lean/WmModel/Conf.lean, GcConf.lean, GcTopicConf.lean, GcRegConf.lean) and the monitors (lean/WmModel/GcMon.lean)",
        "harness/gc (one event log under one mutex; consumer settlements and cancels logged before the call, hook events inside the critical sections; "
        "liveness bound 30 s per wait; goroutine census by stack dump)",
        "Go race detector",
    ],
    "assumptions": ['payload bytes are shared between copies (message.Copy aliases the slice); metadata and settlement are what the theorems and the monitor cover'],
    "level_text": "Proof (Lean 4), for every reachable state of the subscription model, that a message is delivered again only after the previous copy was nacked, that every delivery is a fresh copy, and that an unsettled copy's sender (hence its context) is still alive; the delivery obligations (every current subscriber, no other topic) are decided by monitors on recorded executions.",
    "level_note": 'Partial: the which-subscriptions-get-it clause and cross-topic isolation are monitor-checked on sampled schedules (the registry theorem exists for persistent mode only, Props/C11); copies share payload bytes by design (Copy aliases the slice) - the statement speaks of metadata and settlement.',
    "technique": "Lean 4 invariant proofs over LTS models of the subscription and the topic registry + trace-inclusion conformance and property monitors on hook-instrumented executions of the real GoChannel",
    "explanation": "Proof (Lean 4), for every reachable state of the subscription model, that a message is delivered again only after the previous copy was nacked, that every delivery is a fresh copy, and that an unsettled copy's sender (hence its context) is still alive; the delivery obligations (every current subscriber, no other topic) are decided by monitors on recorded executions.",
}
