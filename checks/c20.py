# C20 – Pub/Sub decorators are transparent; delay stamps and metrics count exactly.
import re


def _probe(obs):
    m = re.search(r"\|probe=(\d+)/(\d+)/(\d+)/(\d+)\|", obs)
    return tuple(int(x) for x in m.groups()) if m else None


def _metrics_total(obs, fam):
    m = re.search(r"\|metrics=([^|]*)", obs)
    if not m or m.group(1) == "-":
        return 0
    return sum(int(n) for f, n in re.findall(r"(\w+)\{[^}]*\}=(\d+)", m.group(1)) if f == fam)


def _hdl_counts(obs):
    m = re.search(r"\|metrics=([^|]*)", obs)
    t = f = 0
    if m and m.group(1) != "-":
        for labels, n in re.findall(r"hdl\{([^}]*)\}=(\d+)", m.group(1)):
            if "success=74727565" in labels:      # hex("true")
                t += int(n)
            elif "success=66616c7365" in labels:  # hex("false")
                f += int(n)
    return t, f


def classify(req, obs, rule):
    """Open findings of C20, each matched by its exact arithmetic so that any other violation stays a violation.

    D15: the metrics publisher decorator does not observe (a) a call whose first message object already carries the
    publishObserved mark, (b) an empty batch.  Only cases in which the undercount is exactly the number of such calls
    (as counted by the harness' probe above the decorator) are attributed to it.

    handler-middleware-applied-twice: the handler middleware has no 'already observed' mark.  Only Router cases with the
    middleware registered km >= 2 times in which every invocation is observed exactly km times with the right label
    (over-count = (km-1) x invocations) are attributed to it; the monitor checks this rule last, so everything else in
    the case is as the property says."""
    if rule == "violated:metrics_handler_once" and req.startswith("rt "):
        f = req.split()
        try:
            km = int(f[3])
        except (IndexError, ValueError):
            return None
        if km < 2:
            return None
        outs = [] if f[5] == "-" else f[5].split(",")
        ok = sum(1 for o in outs if o[:1] in ("s", "t"))   # success with fresh outputs / pass-through
        bad = len(outs) - ok
        m = re.search(r"\|inv=(\d+)\|", obs)
        if not m or int(m.group(1)) != len(outs) or not outs:
            return None
        if _hdl_counts(obs) != (km * ok, km * bad):
            return None
        return "handler-middleware-applied-twice"
    if rule != "violated:metrics_publish_once" or not req.startswith("pub "):
        return None
    p = _probe(obs)
    if p is None:
        return None
    ok, err, empty, repub = p
    if empty + repub == 0 or _metrics_total(obs, "pub") != ok + err - empty - repub:
        return None
    return "republish-same-message-object" if repub > 0 else "empty-batch"


def nontrivial(req, obs):
    f = req.split()
    if f[0] == "pub":
        return f[1] != "-" and "p" in f[5]          # at least one decorator and one Publish call
    if f[0] == "sub":
        return f[1] != "-" and (f[6] != "0" or "1" in f[2])   # a decorator and a received message or a refused Subscribe
    if f[0] == "rt":
        return f[5] != "-"
    if f[0] == "rto":
        return f[2] != "0" and f[3] != "-"
    if f[0] == "ch":
        return f[4] != "0" and (f[1] != "-" or f[2] != "-")
    return False


PROP = {
    "id": "C20",
    "lean_targets": ["WmModel.Props.C20", "WmModel.Props.C20Tie"],
    "audit_module": "Audit.C20",
    "theorems": [
        "Wm.Decor.delay_precedence",
        "Wm.Decor.delay_stamp_exact",
        "Wm.Decor.delay_one_source",
        "Wm.Decor.delay_stamp_once",
        "Wm.Decor.delay_for_until_agree",
        "Wm.Decor.delay_until_saturates",
        "Wm.Decor.wrapped_duration_witness",
        "Wm.Decor.delay_until_zone_agree",
        "Wm.Decor.wall_clock_relabelled_witness",
        "Wm.Decor.delay_batch_error_iff",
        "Wm.Decor.delay_batch_ok",
        "Wm.Decor.delay_batch_one_call_or_none",
        "Wm.Decor.stack_one_call_or_none",
        "Wm.Decor.transform_pub_transparent",
        "Wm.Decor.close_pub_passes_once",
        "Wm.Decor.transform_same_object",
        "Wm.Decor.transform_sub_in_order",
        "Wm.Decor.settle_outer_settles_inner",
        "Wm.Decor.transform_sub_transparent",
        "Wm.Decor.sub_error_close_pass",
        "Wm.Decor.close_drain_passes_every_message",
        "Wm.Decor.released_first_loses_message_witness",
        "Wm.Decor.subscribe_refusal_passes_and_close_returns",
        "Wm.Decor.early_registration_blocks_close_witness",
        "Wm.Decor.close_sub_each_call_passes",
        "Wm.Decor.transform_transparent",
        "Wm.Decor.publish_marked_no_obs",
        "Wm.Decor.metrics_publish_once_partial",
        "Wm.Decor.metrics_publish_at_most_once",
        "Wm.Decor.metrics_publish_once_stacked",
        "Wm.Decor.republish_undercount_witness",
        "Wm.Decor.empty_batch_witness",
        "Wm.Decor.metrics_subscribe_once",
        "Wm.Decor.metrics_subscribe_counts_after_cancel",
        "Wm.Decor.cancel_aware_watcher_undercount_witness",
        "Wm.Decor.metrics_subscribe_none",
        "Wm.Decor.metrics_subscribe_once_run",
        "Wm.Decor.handler_label",
        "Wm.Decor.old_panic_label_witness",
        "Wm.Decor.deliver_keeps_pub",
        "Wm.Decor.metrics_publish_once_after_receive",
        "Wm.Decor.outputs_head",
        "Wm.Decor.router_step_no_output",
        "Wm.Decor.router_step_output",
        "Wm.Decor.metrics_handler_once_partial",
        "Wm.Decor.handler_applied_twice_witness",
        "Wm.Decor.router_metrics_exact",
        "Wm.Decor.metrics_handler_order_independent",
        "Wm.Decor.metrics_handler_each_application",
    ],
    # re-proved on every run against the bodies of applyDelay, of the metrics publisher decorator's Publish and of the handler
    # middleware, and the shapes of the two Publish loops, printed from the current Go source
    "tie_theorems": ["Wm.GoDelay.extracted_applyDelay_eq_model", "Wm.GoDelay.extracted_publish_shapes",
                     "Wm.GoMetrics.publish_metrics_eq", "Wm.GoMetrics.extracted_metricsPublish_eq_model",
                     "Wm.GoMetrics.extracted_handler_eq_model"],
    "harness": "c20",
    "race": True,
    "driver": "drv_c20",
    "nontrivial": nontrivial,
    "classify": classify,
    "harness_timeout_s": {"quick": 300, "thorough": 1500},
    "rule": "pub: every publisher stack of depth 0..3 over {transform, metrics, delay(no generator), delay(AllowNoDelay), "
            "delay(generator For 1m), delay(failing generator)} (259 stacks, exhaustively) with a fixed program of 4 Publish calls + Close over "
            "7 messages (no delay / pre-set metadata / context For / context Until / metadata+context / empty delayed_for / zero Delay), plus "
            "seeded random cases: stack depth 0..3 (incl. the same metrics decorator 2-3 times, two delay publishers), generator "
            "nil | error | Delay{} | For(d) | Until(t) | error-for-odd-messages, AllowNoDelay on/off, 0..6 messages mixing pre-set metadata "
            "(valid, malformed, empty), context For/Until with past, zero, 1 ns, fractional, days and ~250 years, Until(t) with t carrying UTC or a non-UTC "
            "location (+02:00, -05:00, +05:30, -00:30: what time.Now() gives in a non-UTC process or a parsed offset timestamp), "
            "Until at absolute sentinel dates outside the ±292 years of a time.Duration (2400-01-01, 9999-12-31, the zero time, 1500-01-01) "
            "and just inside it (2200, 1800): delayed-for must be the distance SATURATED like Time.Sub, 1..4 Publish calls with "
            "inner failure scripts, Close (with error); 10% of the random cases re-publish the same message objects and 10% publish an empty "
            "batch (finding D15, reported as KNOWN-FINDING). sub: every subscriber stack of depth 0..3 over {transform a, transform b, "
            "metrics} x 13 programs (a wrapped subscriber with a graceful Close that hands out 2-3 already fetched messages WHILE its Close runs, one at a "
            "time, each waiting to be settled, the consumer reading until the channel is closed – every one must reach the consumer; ack/nack/late ack, Close error, no message, Subscribe refused, Subscribe refused once or twice and then accepted "
            "on a retry with messages and acks flowing, a further Subscribe refused after the messages flowed – each followed by Close; every "
            "Subscribe / Close call runs under a watchdog: a call that does not return within 5 s is observed as `stuck` "
            "(rules subscribe_did_not_return, close_did_not_return), ack and nack AFTER the subscription context was "
            "cancelled next to ones settled while subscribed, the wrapped Close failing and the caller retrying: 2-3 Close calls with scripted "
            "inner errors) + random cases incl. Close with unread messages, 1-3 Close calls, settle-after-cancel; the scripted subscriber gives "
            "every message a context derived from the subscription context and cancels it on Close, like the real subscribers. rt: a real message.Router with one handler, publisher/subscriber decorated 0..3 times with the metrics decorators, "
            "middleware once (in 1 of 8 random cases twice = finding handler-middleware-applied-twice, reported as KNOWN-FINDING; in 1 of 16 "
            "not at all = outside the property, model conformance only), handler outcome sequences over success "
            "(0-2 outputs) / error / panic / pass-through (the handler returns the CONSUMED message object itself, alone or between 0-2 "
            "fresh outputs) with publisher failure scripts. rto: OVERLAPPING invocations of one Router handler (per round the handler holds every invocation until all have started and lets "
            "them return together with scripted success / error / panic; 40 rounds x 4-10 invocations per scenario, 120 rounds in the thorough "
            "tier), each scenario run in a child process so that a Go fatal error (concurrent map writes) is observed as `crashed:` (rule "
            "overlapping_invocations_crashed_process) instead of killing the harness. ch: a message received through a subscriber stack is handed, same object, to a "
            "publisher stack (all pairs of stacks of depth <= 2 over {transform, metrics} + random pairs of depth <= 3): the subscribe mark "
            "left by the metrics subscriber decorator must not be taken for the publish mark. Prometheus: "
            "private registry, Gather() sample COUNTS per sorted label set compared with the harness' own counts (probe above the metrics "
            "decorator, scripted inner publisher, settled messages, handler invocations). Non-trivial = at least one decorator and one "
            "Publish call / one received message / one handler invocation; distinct = distinct (request, observation) pairs.",
    "trusted_base": [
        "Lean 4.33.0 kernel; axioms per theorem listed under theorem_axioms (subset of propext, Classical.choice, Quot.sound)",
        "the hand-written model WmModel/Decor.lean: messages as values with an object identity, the message context as the five fields "
        "the decorators read or write, in-place mutation as returned messages (no two entries of a batch alias the same object)",
        "extractor harness/cmd/extract/c20.go (go/ast printer of applyDelay, of the metrics publisher decorator's Publish, of the "
        "handler middleware and of statement shapes) and the interpreters WmModel/GoDelay.lean, WmModel/GoMetrics.lean as the "
        "semantics of those Go statements (incl. defer running on return and on panic, named results)",
        "harness canonical forms: a stamp is read back with Go's own time.Parse(RFC3339) / time.ParseDuration and accepted as t<sec> / "
        "d<ns> only if re-formatting gives the same string; RFC 3339 and Duration.String themselves are not modelled",
        "Prometheus client: Observe / Inc add 1 to the sample count of the labelled series; Gather reports them (library, only tested)",
        "differential harness harness/cmd/c20 + Lean driver Driver/C20.lean (model M and the independent monitor P); the Go race detector",
        "the clock readings inside delay.For / delay.Until are bracketed by two time.Now() calls of the harness; the model is given the "
        "reading inferred from the stamp and checks that it lies in the bracket (2 s / 1 s slack)",
    ],
    "assumptions": [
        "a time rendered by delay.Message is compared by the instant it denotes; the model also predicts its rendering (suffix Z for a "
        "UTC time, +hh:mm for a time that carries another location), which only the model comparison looks at",
        "'delayed-for and delayed-until agree' for an Until delay means delayed-for = Time.Sub(until, now): the exact distance within the "
        "range of a time.Duration, the largest / smallest duration beyond it (so the sign is always right); delay.For stays within 250 years",
        "'delayed-for and delayed-until agree' is demanded for delays built by delay.For / delay.Until; the zero value delay.Delay{} "
        "(until = 0001-01-01T00:00:00Z, for = 0s) is stamped as it is and only its precedence is checked",
        "transform functions change metadata only; a transform that replaces the message context would also remove the "
        "'already observed' marks (user code, outside the property)",
        "a message handed out during the wrapped subscriber's Close is demanded at the consumer when the wrapped Close waits for its "
        "settlement before it returns (a graceful, draining Close); a wrapped Close that returns while a message it just handed out is "
        "still inside the pump races with the release of the pump (the `closing` signal of the Close-does-not-hang repair): not generated",
        "the messages of one batch are distinct objects; the innermost subscriber hands out fresh message objects (as every "
        "watermill subscriber does)",
        "the publish mark and the subscribe mark are two different context keys (fact ctx_mark_keys_distinct, computed from the const "
        "declarations); the model keeps them as two fields, so a message that was only received is counted on its first Publish "
        "(theorem metrics_publish_once_after_receive); finding D15 is only about a mark left by an earlier PUBLISH of the same object",
        "the handler metrics middleware not registered at all (km = 0) is outside the property: such Router cases are only compared "
        "with the model",
        "counts of subscriber_messages_received_total are read at quiescence (the increment happens in a goroutine after the "
        "settlement): all goroutines of the case ended, or the count reached the expected value and stayed unchanged",
    ],
    "explanation": "Theorems: transparency of arbitrary decorator stacks (one inner Publish call or none, same topic/objects/order, inner "
                   "result returned; subscriber side same objects in order, Subscribe error and Close pass once), the applyDelay precedence "
                   "chain with exactly one stamp that is never overwritten, for/until agreement for every clock reading, one-call-or-none for "
                   "the batch, and exact-once counting of the three metrics for any number of stacked decorators and any outcome / failure "
                   "sequence. metrics_publish_once is proved under the guard 'first message object not yet marked, batch non-empty' "
                   "(finding D15 open) with two witness theorems for the unguarded statement; metrics_handler_once under the guard 'middleware "
                   "registered once' (finding handler-middleware-applied-twice open: no idempotency mark, each registration observes every "
                   "invocation) with handler_applied_twice_witness and metrics_handler_each_application as the description of the code. Three tie theorems re-interpret the bodies of "
                   "applyDelay, of the metrics publisher decorator's Publish and of the handler middleware printed from the current source; "
                   "structural facts pin the loops, the pump, the subscriber's counting goroutine, the marks, For/Until/Message; the harness validates the model on the real decorators and a real Router.",
    "level_text": "proof",
    "level_note": "Proved for all inputs over the model (Lean 4, no sorry): transform_transparent / stack_one_call_or_none (every stack, any "
                  "depth), delay_precedence, delay_stamp_exact, delay_stamp_once, delay_for_until_agree (abstract clock), "
                  "delay_batch_one_call_or_none, metrics_subscribe_once(_run), router_step_*/router_metrics_exact "
                  "(decorators applied k+1 times). Conditional: metrics_publish_once_partial (guard: first message object unmarked, "
                  "non-empty batch) while finding D15 is open, with republish_undercount_witness / empty_batch_witness; "
                  "metrics_handler_once_partial (guard: middleware registered once) while finding handler-middleware-applied-twice is open, "
                  "with handler_applied_twice_witness and metrics_handler_each_application (what the code does for any number of registrations). Tie to the code: "
                  "generated tie theorems for applyDelay, the metrics publisher decorator and the handler middleware + structural facts + differential harness on the real decorators (sampled "
                  "validation, not a proof); RFC 3339 / Duration.String, Prometheus and real time are outside the model.",
    "technique": "executable functional model with effect lists (Lean 4) + kernel-checked theorems by induction over decorator stacks, batches "
                 "and outcome sequences; deep-embedded bodies of applyDelay, metrics Publish and the handler middleware extracted by go/ast with interpreters and tie theorems; structural "
                 "facts; differential execution of the real decorators (scripted inner publisher/subscriber, private Prometheus registry, real "
                 "Router) against the model plus an independent property monitor",
}
