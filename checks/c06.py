# C06 – Router.Close is graceful (model RouterLife, shared with C10).
def _evs(req):
    return req.split()[5:]


def nontrivial(req, obs):
    # a trace in which Close met a message somewhere on its path: an emission and a Close call, and either a handler
    # invocation or an abandoned/dropped hand-over
    e = _evs(req)
    return any(t.startswith("cc,") for t in e) and any(t.startswith("em,") for t in e)


def classify(req, obs, rule):
    return None


PROP = {
    "id": "C06",
    "lean_targets": ["WmModel.Props.C06", "WmModel.Props.C06Old"],
    "audit_module": "Audit.C06",
    "theorems": [
        "Wm.RouterLife.close_nil_means_quiet", "Wm.RouterLife.no_start_after_close_nil", "Wm.RouterLife.message_fate",
        "Wm.RouterLife.publisher_closed_before_close_returns", "Wm.RouterLife.publisher_closed_at_most_once",
        "Wm.RouterLife.subscriber_closed_by_handle_close", "Wm.RouterLife.close_timeout_returns_error",
        "Wm.RouterLife.runhandlers_progress", "Wm.RouterLife.every_close_call_can_proceed",
        "Wm.RouterLife.close_again_returns_nil", "Wm.RouterLife.run_returns_only_after_closed",
        "Wm.RouterLife.handle_close_cancels_context_when_close_fails",
        "Wm.RouterLife.Old.close_race_witness", "Wm.RouterLife.Old.close_skips_subscriber_witness",
    ],
    "tie_theorems": [],
    "harness": "c06",
    "race": True,
    "driver": "drv_c06",
    "nontrivial": nontrivial,
    "classify": classify,
    "harness_timeout_s": {"quick": 400, "thorough": 1700},
    "rule": "real message.Router with scripted subscribers/publishers (and GoChannel): a message is parked at each point of its path "
            "(decorator pump, received, dispatched/handle.start, before_publish, before_settle) while Close / two Close calls / Stop / "
            "cancel of the Run context arrives; Close itself parked at close.signalled, loops_wait_done, running_wait_done and handleClose "
            "before its select while a second Close / Stop / cancel / a new emission runs; subscribers that hand over 1-2 more messages "
            "inside their Close (deterministic D5 reproduction) or when their context ends; handler durations 0, < CloseTimeout (gate "
            "released when Close signalled), > CloseTimeout (gate released after every Close returned) with 1..8 concurrent callers; "
            "Close before Run / from a plugin during Run's start-up / racing the Run call, with a message ready at Subscribe time and one "
            "handed over inside the subscriber's Close (such a Close answers the timeout error on the unchanged router - no promise; after a "
            "nil no invocation may start); lock order: Run's RunHandlers or a later RunHandlers call held inside a slow (gated) Subscribe or "
            "at its own log line right after taking handlersLock while 2-3 Close callers arrive - every Close/RunHandlers/Run must return "
            "(bounded controller calls; 8 s bound); "
            "a handler whose first Subscribe call(s) failed, started by a later RunHandlers, with its handleClose parked so that its loop ends "
            "last and its subscriber hands a message over when finally closed (run in a child process with the events streamed to a file: an "
            "unrecovered panic in a router goroutine becomes the event `crash`); "
            "a handler whose first Subscribe call(s) failed, started by a later RunHandlers, with its handleClose parked so that its loop ends "
            "last and its subscriber hands a message over when finally closed (run in a child process with the events streamed to a file: an "
            "unrecovered panic in a router goroutine becomes the event `crash`); "
            "a router-level subscriber decorator whose Close fails before it reaches the wrapped subscriber, with a handler started by a "
            "later RunHandlers under the caller's context (the router must still end it through the handler context: publisher closed, "
            "no goroutine left; run in a child process); a negative CloseTimeout with a handler still running (Close must answer the "
            "error at once, 1 and 3 callers, Run returns); "
            "4-12 goroutines polling the public IsClosed() while Close is called once (the call must return; 6 rounds, 16 in the thorough "
            "tier; child process); AddHandler with a taken name (documented DuplicateHandlerNameError panic, recovered) followed by Close / "
            "Run + traffic + Close / RunHandlers for another handler; "
            "seeded random programs (1-3 handlers, outcomes ok/out/err/pubfail/panic, yields). Every trace goes through the C06 monitor "
            "(clauses of the statement); traces marked for conformance must be traces of the Lean model RouterLife (subset construction). "
            "Non-trivial = a trace with at least one emitted message and one Close call.",
    "trusted_base": [
        "Lean 4.33.0 kernel; axioms per theorem under theorem_axioms",
        "RouterLife (lean/WmModel/RouterLife.lean) as a model of Router.Close/waitForHandlers/Run/RunHandlers/handler.run/handleClose/"
        "handleMessage/watchAllHandlersStopped/AddHandler/Stop and the MessageTransform subscriber decorator: atomic steps = lock-delimited "
        "regions, channel operations, select alternatives; Go mutex, WaitGroup (an Add after Wait returned is not covered), channel, select semantics",
        "structural facts (skeletons of those functions + order facts, facts/expected/C06.json) re-extracted from the source on every run",
        "trace conformance by subset construction (lean/WmModel/RouterConf.lean) and the monitors (lean/WmModel/RouterMon.lean)",
        "harness/rl (one event log under one mutex; calls logged before, returns after; settlement read synchronously right after Close/Run "
        "returned; liveness bound 20 s per wait; goroutine census by stack dump)",
        "Go race detector",
    ],
    "assumptions": [
        "environment contract of the property: handlers are not added while/after the router shuts down (model: AddHandler only while not closed)",
        "a Close call on an already closed router returns nil by contract even if the first one timed out (DESIGN.md Appendix B)",
        "the subscriber's Close is called by a goroutine Close does not wait for: demanded at quiescence, not at the instant Close returns",
    ],
    "level_text": "Proof (Lean 4) over every reachable state of the Router life-cycle model - any number of handlers, messages and Close callers, "
                  "every interleaving, subscribers emitting while being closed - that a nil return of the performing Close implies no invocation "
                  "in progress, every receive loop ended, and no start or dispatch step enabled ever after; the model is tied to the code by "
                  "structural facts and by trace inclusion of recorded executions; the remaining clauses are checked by monitors on executions "
                  "forced through every hook point.",
    "technique": "Lean 4 invariant proofs over an LTS model of the Router + trace-inclusion conformance and property monitors on hook-instrumented executions",
    "explanation": "close_nil_means_quiet / no_start_after_close_nil follow from an inductive invariant over all 48 actions of RouterLife "
                   "(once the loops' wait succeeded no loop can dispatch; hence the running-handlers wait is stable).",
}


def extra(run):
    """conformance statistics (model states / transitions explored, inconclusive traces) into the evidence"""
    import os, subprocess
    cases = os.path.join(os.path.dirname(os.path.dirname(os.path.abspath(__file__))), ".build", "%s.cases" % PROP["id"])
    exe = os.path.join(os.path.dirname(os.path.dirname(os.path.abspath(__file__))), "lean", ".lake", "build", "bin", PROP["driver"])
    if not (os.path.exists(cases) and os.path.exists(exe)):
        return
    lines = ["S " + l[4:].rstrip("\n") for l in open(cases, errors="replace") if l.startswith("REQ trace ")]
    if not lines:
        return
    try:
        out = subprocess.run([exe], input="\n".join(lines) + "\n", stdout=subprocess.PIPE, text=True, timeout=900).stdout.split("\n")
    except Exception as e:  # statistics only
        run.cov["conformance"] = {"error": str(e)}
        return
    st = {"traces_checked": 0, "inconclusive_fuel": 0, "rejected": 0, "max_state_set": 0, "model_transitions": 0, "not_marked": 0}
    for l in out:
        if l.startswith("skipped"):
            st["not_marked"] += 1
        elif l.startswith(("true", "false")):
            st["traces_checked"] += 1
            f = dict(x.split("=") for x in l.split()[1:])
            st["rejected"] += l.startswith("true")
            st["inconclusive_fuel"] += f.get("exhausted") == "true"
            st["max_state_set"] = max(st["max_state_set"], int(f.get("states", 0)))
            st["model_transitions"] += int(f.get("trans", 0))
    run.cov["conformance"] = st


PROP["extra"] = extra
