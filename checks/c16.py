# C16 – value semantics: Copy/Equals laws and codec round-trips are identities.


def nontrivial(req, obs):
    f = req.split()
    if not f:
        return False
    k = f[0]
    if k == "pair":
        return "=" in req                      # at least one message carries metadata entries
    if k == "heap":
        ops = [t[0] for t in f[1:]]
        # a copy or a shallow struct copy followed by a metadata write (ownership is exercised), or an Equals on a non-empty heap
        made = [i for i, o in enumerate(ops) if o in "ca"]
        return (bool(made) and any(o == "s" for o in ops[made[0]:])) or "e" in ops
    if k in ("env", "fpub"):
        return len(f) > 2 and f[2 if k == "fpub" else 1] != "-" and obs.startswith("ok")
    if k in ("cqrs",):
        return f[3] == "s"
    if k == "reply":
        return f[1] == "s"
    return k in ("unenv", "unreply", "jenv", "jdec")


GOGO_FINDING = "gogo-marshaler-new-api-message-unknown-fields"


def _finding_listed():
    import json
    import os
    try:
        path = os.path.join(os.path.dirname(os.path.dirname(os.path.abspath(__file__))), "known-findings.json")
        return any(f.get("property") == "C16" and f.get("status") == "open" and f.get("pattern") == GOGO_FINDING
                   for f in json.load(open(path)).get("findings", []))
    except (OSError, ValueError):
        return False


# the cases of the finding are generated only once it is listed as open (then they are counted as KNOWN-FINDING)
if _finding_listed():
    import os
    os.environ["C16_GOGO_STD_UNKNOWN"] = "1"


def classify(req, obs, rule):
    """gogo ProtobufMarshaler x message of the new protobuf API x unknown fields present (value seed divisible by 3)"""
    f = req.split()
    if len(f) == 7 and f[0] == "cqrs" and f[1] == "gogo":
        g = f[6].split(".")
        if len(g) == 5 and g[0] == "s" and g[2].isdigit() and int(g[2]) != 0 and int(g[2]) % 3 == 0:
            return GOGO_FINDING
    return None


_T = "Wm.Value."
PROP = {
    "id": "C16",
    "lean_targets": ["WmModel.Props.C16", "WmModel.Props.C16Tie", "WmModel.Props.C16Json"],
    "audit_module": "Audit.C16",
    "theorems": [_T + n for n in [
        # Equals is true exactly when UUID, payload bytes and the complete metadata key/value set coincide
        "equals_iff", "equals_iff_entries", "equals_refl", "equals_symm", "equals_trans", "equalsLoop_perm",
        # the repaired defect D1 stays machine-checked
        "Old.equals_witness", "Old.equals_not_iff",
        # Copy() Equals the original and owns its metadata
        "copy_equals", "copy_fresh_store", "copy_owns_metadata", "copy_writable", "heap_copy_equals", "alias_shares", "reachable_invariants",
        # forwarder envelope
        "wrap_ok_iff", "envelope_round_trip", "envelope_round_trip_total", "envelope_round_trip_equals",
        "wrap_empty_destination", "publisher_round_trip",
        # CQRS marshalers
        "lossy_encoder_breaks_round_trip", "marshal_round_trip", "name_from_message", "marshal_shape", "marshal_isSome_iff", "fallback_round_trips",
        # request-reply
        "replyErrOf_replyMeta", "reply_round_trip", "reply_shape",
        # the codec hypothesis is satisfiable
        "Wire.wire_round_trips", "Wire.token_round_trips",
        # stretch: no codec hypothesis for the envelope over the modelled JSON codec (string escaping, base64, sorted objects)
        "Json.parseString_jsonString", "Json.unb64_base64", "Json.decodeText_envelopeText", "Json.json_dec_enc",
        "Json.lookup_perm", "Json.json_round_trips_up_to_order", "Json.json_envelope_round_trip",
    ]],
    # theorems over code regenerated from the Go source on every run (WmModel/Gen/ValueBody.lean, ValueGlue.lean)
    "tie_theorems": [_T + "Go." + n for n in [
        "extracted_equals_eq_model", "extracted_copy_eq_model",
        "extracted_reply_meta_eq_model", "extracted_reply_err_eq_model", "extracted_cqrs_glue_eq_model",
        "extracted_envelope_build_eq_model", "extracted_envelope_unbuild_eq_model", "extracted_envelope_shape_eq_model",
    ]],
    "harness": "c16",
    "race": False,          # pure, single-goroutine code
    "driver": "drv_c16",
    "nontrivial": nontrivial,
    "classify": classify,
    "rule": "pair: every ordered pair of metadata maps over keys {'',a,b} x values {'',x} (27x27), nil map against every map, 5 UUIDs x 7 payloads "
            "(nil, empty, content, length) squared, exhaustively; plus seeded random messages (UUID/keys/values: any valid UTF-8 incl. empty, control, "
            "multi-byte, U+2028, <>&; payload: nil/empty/binary) each paired with a variant differing in exactly one component (13 kinds incl. keys renamed "
            "under an empty value, nil vs empty map/payload, reordered insertion). heap: all write-after-copy / write-after-shallow-copy patterns "
            "(writer x key x value, observed through Get, Equals and the field dump); Copy of every kind of original - NewMessage (empty map / entries), "
            "struct literal with NIL Metadata, each also behind a shallow copy and behind the forwarder envelope (decoded message: \"metadata\": null stays nil) "
            "- followed by a write to the copy and a write to the original in both orders, read back through Get/Equals, and a copy of the copy "
            "(monitor rule copy_owns_metadata_nil_original: a write through a copy never panics) plus seeded random programs (<= 30 ops, <= 6 objects) over "
            "NewMessage/&Message{}/Copy/shallow copy/envelope round trip/Set/Get/Equals/field writes/payload cut to a shorter view of the same buffer (t:I:N), "
            "with nil-metadata originals copied and written; two views of one payload buffer with the same start (Copy and shallow copy share the payload slice; "
            "either side cut to every length 0..len) compared both ways - exhaustively for a 4-byte payload and in the random programs; after every op all objects are dumped. env/fpub/unenv: wrap -> generic "
            "JSON view of the envelope -> unwrap for random messages x destination topics, forwarder.Publisher on a capturing publisher, 21 malformed "
            "envelopes; jenv: the JSON text of the envelope from the Lean model of encoding/json against the real encoder byte for byte (every ASCII "
            "character, U+2028/9, 2-4 byte runes, all payload lengths mod 3, all byte values); jdec: the Lean decoder against json.Unmarshal on those texts. "
            "cqrs/reply/unreply: JSON, Protobuf and gogo-Protobuf marshalers in 4-8 configurations on a family of 11 JSON types, 12 + 11 "
            "well-known protobuf types - every third protobuf value carries UNKNOWN FIELDS (1-4 well-formed varint/bytes/fixed fields with numbers >= 1000, "
            "set through protoreflect SetUnknown / XXX_unrecognized), and the value is compared by its exported fields, its unknown bytes and its "
            "deterministic re-marshalling - 300 protobuf values per quick run whose Go OBJECT HAS A PAST (proto.Size / a first Marshal through the same marshaler / proto.Marshal was "
            "called on it, then 1-3 nested messages were edited in place so that their encoded length grows or shrinks) - the edited value is a value "
            "like any other and must marshal and round-trip - JSON types with UNTYPED members (interface{}, map[string]interface{}, []interface{} at any depth) holding what encoding/json itself decodes "
            "there (nil, bool, string, float64 incl. integral and > 2^53 values, non-nil slices and maps), so the plain round trip is the identity; "
            "protobuf: Unmarshal into a USED target (the message of another value of the type was decoded into it before; ^seed suffix), the value "
            "being any value and, every other case, the all-defaults value of the type (empty encoding; value seed 0); non-serialisable values; "
            "7 name configurations per marshaler incl. closures of ONE function literal (NamedStruct with two fallbacks, "
            "two prefixes, built by non-inlined constructors) and a value-dependent Name(); the reference name is the configured generator applied to the "
            "value (not marshaler.Name); 900 cases per quick run come AFTER an earlier Marshal in the same process (~seed_variant suffix: another value of "
            "the type, another configuration sharing the function literal, the same value under another configuration) and run first, so a failing one "
            "replays on its own; replies over 11 result types x {no error, empty text, any text}; 33 hand-made replies. "
            "Non-trivial = metadata present (pair) / a copy followed by a write or an Equals (heap) / non-empty destination (env) / serialisable value "
            "(cqrs, reply). Thorough = 12x the random volume.",
    "trusted_base": [
        "Lean 4.33.0 kernel; axioms per theorem listed under theorem_axioms (subset of propext, Classical.choice, Quot.sound)",
        "CODEC HYPOTHESIS (library behaviour, tested not proved): encoding/json, google.golang.org/protobuf and gogo/protobuf decode what they "
        "encoded to the same value (Codec.RoundTrips: forall x b, enc x = some b -> dec b = some x) on the envelope shape and on the type families; "
        "the cases counted under test.codec_round_trip.* are TESTS of it; Wire.wire_round_trips shows the hypothesis is satisfiable",
        "reflection-based naming (FullyQualifiedStructName / GenerateName) is a parameter of the marshaler model; the name the Go code computes is data of the request",
        "extractor harness/cmd/extract/c16.go (go/ast printer of the Equals/Copy bodies and of the codec glue: envelope field sources/targets, "
        "metadata keys with constants resolved, reply markers; plus structural facts) and the interpreters of WmModel/ValueGo.lean as the semantics of "
        "those Go statements; calls the printer cannot interpret are compared in a positional normal form (R receiver, A0.. parameters)",
        "Go map semantics: an association list without duplicate keys (NoDupKeys), nil map reads as empty and panics on write; range order is "
        "unspecified (equalsLoop_perm: the verdict does not depend on it)",
        "differential harness harness/cmd/c16 (reads message fields directly, never through Equals/Copy) + Lean driver Driver/C16.lean; "
        "the driver's monitor states `coincide` by sorting, independently of the model's `equals`",
    ],
    "assumptions": [
        "strings are valid UTF-8 (the property's quantifier): encoding/json replaces invalid bytes, so the envelope is not the identity on them",
        "Copy shares the payload slice with the original (the property speaks about metadata ownership only); in-place payload writes are not modelled",
        "gogo/protobuf loses the sign of -0.0 in double fields (its generated encoders skip `v != 0`); the gogo family avoids -0.0 (library behaviour)",
        "finding gogo-marshaler-new-api-message-unknown-fields (checks/c16.findings.json): the deprecated gogo ProtobufMarshaler loses unknown fields "
        "of new-API messages in Marshal; those cases are generated only once the finding is listed in known-findings.json",
        "JSON family: typed fields, and untyped members restricted to the values encoding/json decodes into an interface{} (no ints, no typed nil "
        "inside an interface: those do not round-trip by library design); no omitempty on slices/maps, finite floats; used targets only for protobuf "
        "(json.Unmarshal merges into maps of a used target by design)",
        "WmModel/ValueJson.lean models the text encoding/json (Go 1.22+: \\b \\f short escapes, HTML escaping on) emits for the envelope and is compared "
        "byte for byte with the real encoder (jenv cases); its decoder is a Lean decoder for that shape, proved to invert the encoder "
        "(Json.json_envelope_round_trip needs no codec hypothesis); that Go's json.Unmarshal computes the same inverse is tested (jdec, env cases), not proved",
    ],
    "explanation": "equals_iff (counting argument over duplicate-free key lists), Copy laws and metadata ownership (heap with addressed stores) are "
                   "theorems for all strings, byte lists and maps of any size; the round-trip theorems hold for every codec satisfying the stated "
                   "hypothesis and model the watermill-side glue exactly (envelope fields, name key, has-error/error encoding); the Equals and Copy "
                   "bodies and the codec glue (envelope fields, metadata keys, reply markers) are re-extracted and re-proved equal to the model on every run; the harness validates model and property on real executions "
                   "and tests the library part of the codec hypothesis.",
    "level_text": "Proof (Lean 4 theorems over the executable model for all inputs) + checked correspondence (generated ties for Equals/Copy, "
                  "structural facts for the codec glue, differential harness); codec round-trips are proved conditional on an explicit, tested library hypothesis.",
    "level_note": "Library codecs (encoding/json, protobuf) are a hypothesis of the round-trip theorems and are only tested (labelled test.codec_round_trip.*).",
    "technique": "Lean 4 theorems over a hand-written executable model + generated deep-embedded bodies with tie theorems + differential correspondence check against the Go code",
}
