# C03 – Message Ack/Nack is a linearizable first-wins state machine.
# This file is the annotated example of a per-property configuration.
import re


def _overlap(req):
    evs = []
    for t in req.split()[2:]:
        p = t.split(":")
        evs.append((int(p[1]), int(p[2])))
    return any(a[0] < b[1] and b[0] < a[1] for i, a in enumerate(evs) for b in evs[i + 1:])


def nontrivial(req, obs):
    f = req.split()
    if f[0] == "seq":
        # at least two settle calls, i.e. the first-wins rule is exercised
        return len(re.findall(r"[an]", f[2] if len(f) > 2 else "")) >= 2
    if f[0] == "hist":
        return _overlap(req)   # at least one pair of genuinely overlapping calls
    return False


def shrink(req):
    f = req.split()
    if f[0] != "seq" or len(f) < 3 or f[2] == "-":
        return []
    ops = f[2]
    return ["seq %s %s" % (f[1], (ops[:i] + ops[i + 1:]) or "-") for i in range(len(ops))]


PROP = {
    "shrink": shrink,
    "id": "C03",
    # Lean modules holding the property theorems (built on every run) and the generated tie
    "lean_targets": ["WmModel.Props.C03", "WmModel.Props.C03Tie"],
    "audit_module": "Audit.C03",
    # property theorems whose axioms are audited (names as printed by #print axioms)
    "theorems": [
        "Wm.Ack.never_panics", "Wm.Ack.first_wins", "Wm.Ack.ack_true_iff", "Wm.Ack.nack_true_iff",
        "Wm.Ack.settled_frozen", "Wm.Ack.idempotent", "Wm.Ack.chan_closed_iff", "Wm.Ack.read_closed_iff",
        "Wm.Ack.concurrent_same_winner",
    ],
    # theorems over code regenerated from the Go source on every run
    "tie_theorems": ["Wm.GoAck.extracted_ack_eq_model", "Wm.GoAck.extracted_nack_eq_model", "Wm.GoAck.extracted_bodies_locked"],
    "harness": "c03",      # harness/cmd/c03
    "race": True,           # build with -race
    "driver": "drv_c03",    # lean_exe
    "nontrivial": nontrivial,
    "rule": "seq: every call sequence over {Ack,Nack,Acked(),Nacked()} up to length 6 (quick) / 8 (thorough) on NewMessage, Copy and "
            "zero-value messages, exhaustively; hist: seeded concurrent histories of 2..16 goroutines x 1..4 calls with a spin barrier per "
            "round and yield injection, each checked linearizable against the Lean step function; parked: the deciding Ack/Nack is held at the hook "
            "points between the state write and the channel close (message.ack|nack.decided, .closing - inside the critical section of the unchanged code) "
            "while a second goroutine runs every script of length <= 3 (4 thorough) over the four calls, again checked linearizable. Non-trivial = a sequence with >= 2 settle "
            "calls, or a history with >= 1 pair of overlapping calls; distinct = distinct (request, observation) pairs.",
    "trusted_base": [
        "Lean 4.33.0 kernel; axioms per theorem listed under theorem_axioms (subset of propext, Classical.choice, Quot.sound)",
        "extractor harness/cmd/extract (go/ast printer of the Ack/Nack bodies) and the interpreter WmModel/GoAck.lean as the semantics of those Go statements",
        "atomicity of Ack/Nack = sync.Mutex semantics (fact: both bodies start with Lock(); defer Unlock())",
        "differential harness harness/cmd/c03 + Lean driver Driver/C03.lean (Wing-Gong linearizability search)",
        "Go race detector for data-race freedom (runtime fact, not a theorem)",
    ],
    "assumptions": [
        "Acked()/Nacked() on a zero-value message concurrently with Ack/Nack read a field the settle call writes without the mutex; "
        "concurrent histories on zero values therefore use Ack/Nack only (reads are covered sequentially)",
    ],
    "explanation": "Theorems quantify over all call sequences (= all linearisations) on all three message kinds; the tie theorems are "
                   "re-proved against the bodies extracted from the current source; the harness validates the model on real executions.",
}
