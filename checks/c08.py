# C08 – Router routes per handler: right function, right topic, unmodified outputs.
import json
import os

_HERE = os.path.dirname(os.path.abspath(__file__))
STALE = "stale-context-empty-field"


def nontrivial(req, obs):
    # at least two handlers, and at least one Publish call or one no-publisher Nack was observed
    return req.count(" h=") >= 2 and ("@" in obs or "/N/-" in obs)


def _stale_applies(req):
    """True iff some message arrives with router keys already on its context at a handler whose corresponding
    field is empty (the only situation the open finding describes)."""
    subs, pubs, hs, ds = {}, {}, [], []
    for t in req.split()[1:]:
        k, _, v = t.partition("=")
        if k == "h":
            hs.append(v.split(":"))
        elif k == "d":
            ds.append(v.split(":"))
        elif k.startswith("S"):
            subs[k[1:]] = v
        elif k.startswith("P"):
            pubs[k[1:]] = v
    for d in ds:
        if len(d) != 5:
            continue
        keys = [e.split("_")[0] for e in d[4].split(".")]
        for h in hs:
            name, sub, st, spec, pt, _mw = h
            if sub != d[0] or st != d[1]:
                continue
            pub_name = pubs.get(spec[1:], "x") if spec.startswith("p") else "x"   # np / nil: non-empty internal names
            field = {"0": name, "1": pub_name, "2": subs.get(sub, "x"), "3": st, "4": pt if spec != "np" else "-"}
            if any(field.get(k) == "-" for k in keys):
                return True
    return False


def classify(req, obs, rule):
    if rule in ("violated:ctx_in_handler", "violated:ctx_on_produced") and _stale_applies(req):
        return STALE
    return None


def _finding_open():
    try:
        kf = json.load(open(os.path.join(_HERE, "..", "known-findings.json")))
        return any(f.get("property") == "C08" and f.get("pattern") == STALE and f.get("status") == "open"
                   for f in kf.get("findings", []))
    except (OSError, ValueError):
        return False


PROP = {
    "id": "C08",
    "lean_targets": ["WmModel.Props.C08", "WmModel.Props.C08Tie"],
    "audit_module": "Audit.C08",
    "theorems": [
        "Wm.Route.ctx5_addHandlerContext", "Wm.Route.ctx5_addHandlerContext_idem", "Wm.Route.ctx_values_partial",
        "Wm.Route.ctx_values_nonempty", "Wm.Route.stale_context_shows_through",
        "Wm.Route.ctx_in_handler_partial", "Wm.Route.ctx_on_produced_partial",
        "Wm.Route.handleOne_fn", "Wm.Route.publishes_only_own", "Wm.Route.published_iff",
        "Wm.Route.nopub_middleware_outputs_nack", "Wm.Route.routes_to_own_fn", "Wm.Route.route_order_irrelevant",
        "Wm.Route.only_own_function", "Wm.Route.subscriptions_bijective",
    ],
    # re-proved on every run against lean/WmModel/Gen/RouteCtx.lean, printed by the extractor from router.go / router_context.go
    "tie_theorems": [
        "Wm.RouteGo.model_ctx_law", "Wm.RouteGo.extracted_ctx_law", "Wm.RouteGo.extracted_ctx_simulates_model",
        "Wm.RouteGo.extracted_ctx_describes_empty",
    ],
    "harness": "c08",
    # the cases that exhibit the finding are generated only once it is listed as open in known-findings.json
    # (then they are reported as KNOWN-FINDING); until the integrator has decided they would be plain violations
    "harness_args": ["-stale"] if _finding_open() else [],
    "race": True,
    "driver": "drv_c08",
    "nontrivial": nontrivial,
    "classify": classify,
    "rule": "Router configurations against the real Router with scripted subscribers (a message arriving at (subscriber, topic) is "
            "handed, one fresh copy each, to every subscription made for that pair), recording publishers (topic, pointer identity, "
            "order, content snapshot, context of every message of every Publish call), handler functions tagged by handler and "
            "recording the five context accessors; subscriptions are fed concurrently, one message at a time each. pairs: all 144 "
            "two-handler wirings {shared/separate subscriber, subscribe topic, publisher, publish topic} x {publisher, "
            "AddNoPublisherHandler, nil publisher}^2 with every output shape (fresh, consumed message itself, same object twice, "
            "none, error, mixed) and optional middleware outputs; random: 5000 (quick) / 60000 (thorough) seeded configurations of "
            "1..6 handlers over 1..3 subscribers, publishers and topics (sharing allowed; empty, non-ASCII and look-alike names and "
            "topics; three Go types per side incl. fmt.Stringer with arbitrary names), 1..4 messages per listened (subscriber, "
            "topic) in shuffled order, plus messages nobody listens to. Observation canonical per handler (Go map order in "
            "RunHandlers is random). Oracles: model observation equality and the property monitor. Non-trivial = >= 2 handlers and "
            ">= 1 Publish call or no-publisher Nack.",
    "trusted_base": [
        "Lean 4.33.0 kernel; axioms per theorem listed under theorem_axioms (subset of propext, Classical.choice, Quot.sound)",
        "extractor harness/cmd/extract/c08.go (go/ast: the set statements of handler.addHandlerContext, the key each of the five "
        "accessors reads, the values of the key constants; 22 structural facts: AddHandler stores its parameters and computes the "
        "type names from its own objects, RunHandlers subscribes h.subscriber on h.subscribeTopic and gives the channel to the same "
        "handler, handleMessage passes the returned slice untouched through addHandlerContext to one Publish(h.publishTopic, "
        "produced...) on h.publisher, guards for empty output / nil publisher, disabledPublisher) and the interpreter "
        "WmModel/RouteGo.lean as the semantics of those statements (context.WithValue / Value as an innermost-first list)",
        "differential harness harness/cmd/c08 (+ supervisor: cases run in child processes so that a panic in a router goroutine "
        "is an observation) and Lean driver Driver/C08.lean (model M and independent monitor P)",
        "Go race detector (runtime fact, not a theorem)",
    ],
    "assumptions": [
        "A subscriber delivers a message that arrives for (subscriber object, topic) to every subscription made for that pair, "
        "one copy each (broker semantics); which subscription belongs to which handler is identified by the handler function "
        "that receives its copies.",
        "'unmodified' = the very objects the chain returned (pointer identity, repetitions kept) with UUID, payload and metadata "
        "as they were at return time; the message context is the one thing the router sets (clause 3 of the statement). The "
        "number of Publish calls is not fixed by the statement (the monitor concatenates them); the model has exactly one.",
        "Incoming message contexts carry none of the router's five context keys (guard `Fresh` of the *_partial theorems). "
        "Without it an empty field of the handler lets an upstream handler's value show through - finding "
        "stale-context-empty-field, reproduced against the real code with `-stale`, witness theorem "
        "Wm.Route.stale_context_shows_through.",
        "For a handler without publisher the publisher type name reported by the context (\"message.disabledPublisher\" / "
        "\"<nil>\") is compared with the model only; the monitor demands the other four values.",
        "Message objects are not shared between two handlers at the same time (that would be a data race on SetContext).",
    ],
    "explanation": "routes_to_own_fn / only_own_function / route_order_irrelevant: for every configuration, script and map order a "
                   "handler processes exactly the messages arriving at its (subscriber, topic), with its own function; "
                   "publishes_only_own / published_iff: at most one Publish per consumed message, on the handler's own publisher "
                   "and publish topic, carrying exactly the returned objects in order; nopub_middleware_outputs_nack; "
                   "ctx5_addHandlerContext (exact law for any incoming context), ctx_values_nonempty, ctx_*_partial (fresh "
                   "incoming context). The context code (set statements, accessors, key constants) is re-extracted on every run and "
                   "proved to obey the same law as the model (tie theorems).",
    "level_text": "Machine-checked (Lean 4) theorems over an executable model of per-handler routing (subscription per handler in any "
                  "map order, handleMessage/publishProducedMessages decision, addHandlerContext and the five accessors) for all "
                  "configurations, scripts and output shapes; the context code is extracted from the current source and proved to "
                  "obey the model's law on every run; model and an independent monitor are compared with the real Router on all "
                  "two-handler wirings and on random configurations of 1..6 handlers with interleaved streams.",
    "level_note": "Proved about the model, not about the Go code; the routing theorems are close to the model's definitions, the "
                  "weight is on the correspondence (differential harness with pointer-identity recording publishers, 22 structural "
                  "facts, generated context code + 4 tie theorems, -race). The context clause is proved under the guard of a fresh "
                  "incoming context; the unguarded statement fails on the real code (open finding stale-context-empty-field).",
    "technique": "Lean 4 theorems over a hand-written executable model + generated deep-embedded context code with tie theorems + "
                 "differential correspondence check against the Go code",
}
