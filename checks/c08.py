# C08 – Router routes per handler: right function, right topic, unmodified outputs.

def nontrivial(req, obs):
    # at least two handlers, and at least one Publish call or one no-publisher Nack was observed
    return req.count(" h=") >= 2 and ("@" in obs or "/N/-" in obs)


PROP = {
    "id": "C08",
    "lean_targets": ["WmModel.Props.C08", "WmModel.Props.C08Tie", "WmModel.Props.C08Router", "WmModel.Props.C02Tie"],
    # handleOne is derived from the handleMessage model: its body is re-extracted and its tie re-proved here too
    "extract_also": ["C02"],
    "audit_module": "Audit.C08",
    "theorems": [
        "Wm.Route.ctx_values", "Wm.Route.ctx_get", "Wm.Route.ctx5_addHandlerContext_idem",
        "Wm.Route.ctx_in_handler", "Wm.Route.ctx_on_produced", "Wm.Route.app_values_never_shadow",
        # the defect repaired by fix 5846d09, kept as a witness over the Old model (WmModel/RouteOld.lean)
        "Wm.Route.Old.stale_context_shows_through", "Wm.Route.Old.agrees_on_nonempty",
        "Wm.Route.handleOne_fn", "Wm.Route.publishes_only_own", "Wm.Route.done_context_irrelevant",
        "Wm.Route.returned_outputs_published", "Wm.Route.outputs_keep_own_context", "Wm.Route.published_iff",
        # RunHandlers as an operation on the router state
        "Wm.Route.rexec_keeps_started", "Wm.Route.runHandlers_idempotent", "Wm.Route.decorated_exactly_once",
        "Wm.Route.unstarted_undecorated", "Wm.Route.failed_attempt_then_retry", "Wm.Route.nil_publisher_never_decorated",
        "Wm.Route.nopub_middleware_outputs_nack", "Wm.Route.routes_to_own_fn", "Wm.Route.route_order_irrelevant",
        "Wm.Route.only_own_function", "Wm.Route.subscriptions_bijective",
        # handleOne derived from the C02/C03 models (Props/C08Router.lean)
        "Wm.Route.handleOne_settle_eq_handle", "Wm.Route.handleOne_calls_eq_handle", "Wm.Route.disabled_outputs_nack",
    ],
    # re-proved on every run against lean/WmModel/Gen/RouteCtx.lean, printed by the extractor from router.go / router_context.go
    "tie_theorems": [
        "Wm.GoHandle.handle_skeleton_eq_model", "Wm.GoHandle.publish_skeleton_eq_model",
        "Wm.RouteGo.model_ctx_law", "Wm.RouteGo.extracted_ctx_law", "Wm.RouteGo.extracted_ctx_simulates_model",
        "Wm.RouteGo.extracted_ctx_describes_empty",
    ],
    "harness": "c08",
    "race": True,
    "driver": "drv_c08",
    "nontrivial": nontrivial,
    "rule": "Router configurations against the real Router with scripted subscribers (a message arriving at (subscriber, topic) is "
            "handed, one fresh copy each, to every subscription made for that pair), recording publishers (topic, pointer identity, "
            "order, content snapshot, context of every message of every Publish call), handler functions tagged by handler and "
            "recording the five context accessors; subscriptions are fed concurrently, one message at a time each. pairs: all 144 "
            "two-handler wirings {shared/separate subscriber, subscribe topic, publisher, publish topic} x {publisher, "
            "AddNoPublisherHandler, nil publisher}^2 with every output shape (fresh, consumed message itself, same object twice, "
            "none, error, mixed) and optional middleware outputs; random: 5000 (quick) / 60000 (thorough) seeded configurations of "
            "1..6 handlers over 1..3 subscribers, publishers and topics (sharing allowed; empty, non-ASCII and look-alike names and "
            "topics; three Go types per side incl. fmt.Stringer with arbitrary names), 1..4 messages per listened (subscriber, "
            "topic) in shuffled order, plus messages nobody listens to, about 1 in 12 messages arriving with an upstream handler's "
            "values already on its context; stale: 25 fixed cases - incoming context pre-loaded (through a real upstream Router) with "
            "one, several or all five values of another handler, at handlers with all fields set, all fields empty, "
            "AddNoPublisherHandler, nil publisher, empty publish topic; done_context: about 1 in 10 random messages and 6 fixed cases "
            "(every output shape x {context already cancelled at delivery, cancelled by the function during the call, deadline the "
            "function overruns} at publisher / middleware-output / no-publisher / nil-publisher handlers sharing the subscription, "
            "with and without stale values) - the function returns normally, so outputs must be published as returned; "
            "runhandlers_steps: 8 fixed programs and about a third of the random configurations are built in steps - recording "
            "publisher / subscriber decorators (AddPublisherDecorators / AddSubscriberDecorators), Run, handlers added to the running "
            "router, RunHandlers one to three times in a row, more decorators in between - then messages through all handlers: every "
            "Publish call must have passed each publisher decorator registered before ITS handler's start exactly once, every "
            "consumed message each such subscriber decorator exactly once. The recording publisher decorators READ the five context values of every message handed to them: the handler's "
            "values must be there at every publisher decorator and at the publisher. app_wrapped_subscriber: 4 fixed wirings and "
            "about a quarter of the random subscriber objects are subscribers the APPLICATION has wrapped itself with the public "
            "MessageTransformSubscriberDecorator (alone, shared by handlers, next to raw ones, with router decorators) - the context "
            "clause is unchanged for their handlers. failing_decorator_and_app_context_values: 10 fixed programs (3 of them with a SUBSCRIBER decorator failing once, no "
            "publisher decorators; a quarter of the stepwise random configurations are of that kind too) - formerly 7 fixed programs and the stepwise random "
            "configurations use publisher decorators that return an error the first time they are applied (D<id>!, only after Run): "
            "RunHandlers reports the error and is called again until it succeeds - the handler must then be decorated like any other; "
            "token K (a fifth of the random configurations): application code keeps values of its own in the message context under "
            "the plain string keys handler_name / publisher_name / subscriber_name / subscribe_topic / publish_topic (in a subscriber "
            "decorator and in a middleware, i.e. after the router set its values) - the accessors must still report the router's. "
            "stop_and_re_add_under_the_same_name (5 fixed programs): a running handler is stopped (T<n>, never the last one), a new "
            "handler is added under ITS NAME (on the same or another subscriber / topic / publisher) and started by RunHandlers - it is "
            "a handler of its own: decorated like any other, context values inside the function and on the outputs, the stopped one "
            "receives nothing. Every message object (consumed copy, each fresh output, "
            "each middleware output) carries a marker on its OWN context from its creation; the publisher records for every element "
            "of every call which marker its context still has (own context kept, none replaced by another element's). Observation canonical per handler (Go map order in "
            "RunHandlers is random). Oracles: model observation equality and the property monitor. Non-trivial = >= 2 handlers and "
            ">= 1 Publish call or no-publisher Nack.",
    "trusted_base": [
        "Lean 4.33.0 kernel; axioms per theorem listed under theorem_axioms (subset of propext, Classical.choice, Quot.sound)",
        "extractor harness/cmd/extract/c08.go (go/ast: the set statements of handler.addHandlerContext with their guards if any, the "
        "key each of the five accessors reads, the values of the key constants; 29 structural facts: decorateHandlerPublisher leaves a nil publisher alone, the context key type is a private defined type (not an alias of string), the subscriber context decorator is applied unconditionally, RunHandlers decorates inside its one loop after the started-guard, the exact control-flow skeletons of handleMessage and publishProducedMessages, five unconditional WithValue sets,  AddHandler stores its parameters and computes the "
        "type names from its own objects, RunHandlers subscribes h.subscriber on h.subscribeTopic and gives the channel to the same "
        "handler, handleMessage passes the returned slice untouched through addHandlerContext to one Publish(h.publishTopic, "
        "produced...) on h.publisher, guards for empty output / nil publisher, disabledPublisher) and the interpreter "
        "WmModel/RouteGo.lean as the semantics of those statements (context.WithValue / Value as an innermost-first list)",
        "differential harness harness/cmd/c08 (+ supervisor: cases run in child processes so that a panic in a router goroutine "
        "is an observation) and Lean driver Driver/C08.lean (model M and independent monitor P)",
        "Go race detector (runtime fact, not a theorem)",
    ],
    "assumptions": [
        "A subscriber delivers a message that arrives for (subscriber object, topic) to every subscription made for that pair, "
        "one copy each (broker semantics); which subscription belongs to which handler is identified by the handler function "
        "that receives its copies.",
        "'unmodified' = the very objects the chain returned (pointer identity, repetitions kept) with UUID, payload and metadata "
        "as they were at return time; the message context is the one thing the router sets (clause 3 of the statement). The "
        "number of Publish calls is not fixed by the statement (the monitor concatenates them); the model has exactly one.",
        "A stale incoming context is produced the only way the unexported keys allow: the message passes a real one-handler "
        "upstream Router first and the context its handler function sees is put on the incoming message.",
        "For a handler without publisher the publisher type name reported by the context (\"message.disabledPublisher\" / "
        "\"<nil>\") is compared with the model only; the monitor demands the other four values.",
        "The router decides on the error the handler function returns, not on the state of the consumed message's context: a "
        "function that returns (outputs, nil) while that context is cancelled or past its deadline has its outputs published and "
        "the message acked (model field Delivery.done is ignored by handleOne; theorems done_context_irrelevant, "
        "returned_outputs_published). The monitor demands the publication (the statement's clause); the Ack is compared with the "
        "model only, since C08's statement speaks about settlement only for the no-publisher case.",
        "'unmodified' also covers what the router does AROUND the handler's publisher and to the message contexts: an output "
        "passes each publisher decorator registered before its handler's start exactly once (RunHandlers decorates only handlers "
        "with started = false, model Wm.Route.rstep; theorems runHandlers_idempotent, decorated_exactly_once), and each produced "
        "message's context stays a child of that message's own context (theorem outputs_keep_own_context).",
        "No-publisher clause read as a characterisation: a handler without publisher whose function returns no error is Nacked "
        "exactly when its chain returns messages ('nevertheless returns messages') - monitor rule nopub_nack_without_outputs; for "
        "handlers WITH a publisher the Ack is compared with the model only.",
        "Failing decorators: a failed decorateHandlerPublisher commits nothing (theorem failed_attempt_then_retry). A SUBSCRIBER "
        "decorator failing once (E<id>!) is generated only in configurations without publisher decorators: with them the code as it "
        "is wraps the late handler's publisher a second time on the retry (recorded in DESIGN.md as an observation outside the "
        "properties); RunHandlers must report the failure, the retried call starts the handler fully decorated.",
        "For a handler WITHOUT publisher the publisher type name the context reports is whatever the handler holds as its publisher "
        "(\"<nil>\" for a nil publisher, the router's placeholder type for AddNoPublisherHandler); the statement speaks of the "
        "handler's Pub/Sub type names, so the monitor does not demand a particular text there - a change of the placeholder (seed6_C08_3) "
        "is a model / fact difference, not a violation.",
        "A handler registered with a nil publisher is not decorated (fix: decorateHandlerPublisher returns at once when "
        "h.publisher == nil): model RH.pubPath stays [] (theorem nil_publisher_never_decorated), it is Nacked exactly when its "
        "chain returns messages, and closing the router does not call Close on a wrapped nil (cases "
        "nil_publisher_with_transform_publisher_decorator, token M<id> = watermill's MessageTransformPublisherDecorator).",
        "Message objects are not shared between two handlers at the same time (that would be a data race on SetContext).",
    ],
    "explanation": "routes_to_own_fn / only_own_function / route_order_irrelevant: for every configuration, script and map order a "
                   "handler processes exactly the messages arriving at its (subscriber, topic), with its own function; "
                   "publishes_only_own / published_iff: at most one Publish per consumed message, on the handler's own publisher "
                   "and publish topic, carrying exactly the returned objects in order; nopub_middleware_outputs_nack; "
                   "ctx_values / ctx_in_handler / ctx_on_produced: for ANY incoming context (stale router values included) the five "
                   "accessors report the handler's own values, empty ones as \"\"; Old.stale_context_shows_through keeps the defect "
                   "repaired by fix 5846d09 as a witness over the old code's model. The context code (set statements, accessors, key constants) is re-extracted on every run and "
                   "proved to obey the same law as the model (tie theorems).",
    "level_text": "Machine-checked (Lean 4) theorems over an executable model of per-handler routing (subscription per handler in any "
                  "map order, handleMessage/publishProducedMessages decision, addHandlerContext and the five accessors) for all "
                  "configurations, scripts and output shapes; the context code is extracted from the current source and proved to "
                  "obey the model's law on every run; model and an independent monitor are compared with the real Router on all "
                  "two-handler wirings and on random configurations of 1..6 handlers with interleaved streams.",
    "level_note": "handleOne's settlement and Publish calls are derived from the handleMessage model of C02 (Props/C08Router.lean) whose tie to the source is re-proved in this check. Proved about the model, not about the Go code; the routing theorems are close to the model's definitions, the "
                  "weight is on the correspondence (differential harness with pointer-identity recording publishers, 29 structural "
                  "facts, generated context code + 4 tie theorems, -race). The context clause is proved without a guard on the "
                  "incoming context (fix 5846d09); the pre-fix behaviour is kept as an Old witness model.",
    "technique": "Lean 4 theorems over a hand-written executable model + generated deep-embedded context code with tie theorems + "
                 "differential correspondence check against the Go code",
}
