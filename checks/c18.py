# C18 – Request-reply: replies reach only their requester and listeners always finish.
def nontrivial(req, obs):
    f = req.split()
    if f[0] == "cmd":
        # the handler got as far as publishing a reply (both the order and the table are exercised)
        return "pub," in obs
    if f[0] == "lst":
        # a request whose listener held at least two replies for the caller (several replies, a full channel is possible)
        return sum(1 for t in f[4:] if t == "S") >= 2
    if f[0] == "top":
        # at least two concurrent requests and at least one redelivery (a request with more than one handler invocation)
        evs = f[5:]
        hs = [t.split(",") for t in evs if t.startswith("hs,")]
        return int(f[4]) >= 2 and any(h[3] != "0" for h in hs)
    return False


PROP = {
    "id": "C18",
    "lean_targets": ["WmModel.Props.C18", "WmModel.Props.C18Router", "WmModel.Props.C02Tie"],
    # the settle effect of `command` is derived from the handleMessage model: its body is re-extracted and its tie re-proved here too
    "extract_also": ["C02"],
    "audit_module": "Audit.C18",
    "theorems": [
        "Wm.ReqReply.replies_only_own", "Wm.ReqReply.operation_ids_distinct", "Wm.ReqReply.never_another_requests_reply",
        "Wm.ReqReply.reply_carries_result_and_error_text", "Wm.ReqReply.published_reply_carries_outcome",
        "Wm.ReqReply.unmarshal_reply_is_own", "Wm.ReqReply.replies_bounded_by_own_notifications", "Wm.ReqReply.acks_every_notification",
        "Wm.ReqReply.ack_nack_table", "Wm.ReqReply.settles_exactly_once", "Wm.ReqReply.ack_after_reply_published",
        "Wm.ReqReply.reply_publish_failure_nacks", "Wm.ReqReply.early_error_publishes_nothing",
        "Wm.ReqReply.invocations_follow_table",
        "Wm.ReqReply.never_panics", "Wm.ReqReply.closed_is_final", "Wm.ReqReply.listener_progress",
        "Wm.ReqReply.listener_steps_bounded", "Wm.ReqReply.ctx_ended_stable", "Wm.ReqReply.finished_listener_is_good",
        "Wm.ReqReply.finished_calls", "Wm.ReqReply.listener_terminates", "Wm.ReqReply.closed_once_finished_once",
        "Wm.ReqReply.Old.listener_stuck_witness", "Wm.ReqReply.Old.listener_stuck_witness_one",
        # the settle effect derived from the C02/C03 models (Props/C18Router.lean)
        "Wm.ReqReply.command_settle_eq_handle",
    ],
    "tie_theorems": ["Wm.GoHandle.handle_skeleton_eq_model", "Wm.GoHandle.publish_skeleton_eq_model"],
    "harness": "c18",
    "race": True,
    "driver": "drv_c18",
    "nontrivial": nontrivial,
    "harness_timeout_s": {"quick": 400, "thorough": 1500},
    "rule": "cmd: every combination of AckCommandErrors x early failure (marshal / missing operation id / ModifyNotificationMessage / "
            "GeneratePublishTopic) x reply Publish outcome (ok / error / error kept by ReplyPublishErrorHandler / error swallowed) x handler "
            "error x unmarshalable result, plus seeded random texts, through the real NewCommandHandlerWithResult + OnCommandProcessed; the "
            "effect list must equal the Lean function. top/lst: scenarios on the real PubSubBackend over GoChannel, cqrs CommandBus/"
            "CommandProcessor and a Router: 1..32 concurrent SendWithReplies / SendWithReply callers on a shared reply topic or per-operation "
            "topics; handler scripts {result, error, unmarshalable result, panic, failing reply publish} with redelivery after Nack (several "
            "replies); AckCommandErrors on/off; no / 15-45 ms / 1 h ListenForReplyTimeout; callers {drain, read one then stop, never read, end "
            "the context before any reply, SendWithReply, parent context cancelled, SendWithReplies failing to send}; foreign notifications "
            "injected; the reply Pub/Sub closed while contexts are alive (subscriber-closed path); a reply Pub/Sub that waits for subscriber acks "
            "(replies published after a listener ended by time-out while the caller never cancels must still be published and their commands "
            "settled within the liveness bound); a Router time-out middleware ending the command message's context while the handler works "
            "(reply published and command settled per AckCommandErrors all the same; a settlement without a published reply is a violation); "
            "SendWithReply / SendWithReplies failing to send; two command types with their own concurrently "
            "running handlers whose successful replies overlap between operation-id stamping and Publish (rendezvous in "
            "ModifyNotificationMessage); a configured ListenForReplyTimeout of zero / a negative one (passed at once); "
            "requests issued inside a request handler through a bus whose OnSend propagates the handled message's metadata (the operation id "
            "stamped by SendWithReplies must have the last word); handler errors of every construction kind (errors.New, %w, pkg/errors Wrap/Wrapf/WithMessage/"
            "WithStack, an own type with a Cause method); handler error texts containing % patterns, "
            "compared byte for byte; caller contexts with their own deadline later / earlier than ListenForReplyTimeout and without a backend "
            "time-out; scenarios with and without an "
            "OnListenForReplyFinished hook configured (without it the end of the listeners is taken from the goroutine census and the channel "
            "itself must be found closed); the hook made to wait until the draining caller saw the close (order close -> hook, conformance leg); "
            "the listener parked at "
            "requestreply.listen.before_send with a full reply channel, the context cancelled, then released (D12 interleaving); seeded yield "
            "injection. Per request the recorded stream must be a trace of the Lean listener model (subset construction); the whole trace must "
            "satisfy the property monitor (own replies only, result and error text of an own handler invocation, settlement per "
            "AckCommandErrors and only after the reply Publish returned, channel closed for every request whether or not a hook is configured, "
            "OnListenForReplyFinished exactly once where configured, no listener goroutine left, nothing beyond the 20 s liveness bound). Non-trivial = published reply (cmd), >= 2 replies "
            "held for the caller (lst), >= 2 requests with a redelivery (top).",
    "trusted_base": [
        "Lean 4.33.0 kernel; axioms per theorem under theorem_axioms",
        "the listener model (lean/WmModel/ReqReply.lean): atomic steps = channel operations, select alternatives and deferred calls of the "
        "goroutine started by ListenForNotifications; Go channel, select, defer and context semantics; the reply topic delivers any accepted "
        "notification to any listener in any order and multiplicity (over-approximation of the Pub/Sub, C04)",
        "the composition with the Router / command processor (error returned => Nack, nil => Ack: C02, C15) is part of `command`",
        "structural facts (facts/expected/C18.json: every send on the reply channel sits in a select with default or ctx.Done; close and the "
        "finished callback are deferred once each; operation-id filter; Publish before the ack decision), re-extracted on every run",
        "trace conformance by subset construction (lean/WmModel/Conf.lean, ReqReplyConf.lean) and the monitors (lean/WmModel/ReqReplyMon.lean)",
        "harness/cmd/c18 (one event log under one mutex; cancels logged before the call, reads after; settlement observed inside the wrapping "
        "publisher and by one watcher per command message; liveness bound 20 s; goroutine census on the listener frame)",
        "Go race detector",
    ],
    "assumptions": [
        "operation ids are unique (watermill.NewUUID): the model allocates fresh ids",
        "data-race freedom and the absence of leftover goroutines are runtime facts (race detector, stack census), not theorems",
        "termination is proved as progress-without-the-caller plus a step bound; that the Go scheduler keeps running a runnable goroutine is assumed",
    ],
    "level_text": "Proof (Lean 4) over every reachable state and every run of a transition-system model of the reply listeners - any number of "
                  "concurrent requests on the shared reply topic, any number of replies per request, every caller behaviour, time-outs, every "
                  "interleaving - that a caller's channel only ever holds replies made from notifications with its own operation id, repeating "
                  "the result and error text of a handler invocation for its own command; that once the context has ended every remaining listener "
                  "step is enabled without the caller, the listener's steps are bounded, and a finished listener has closed the channel exactly "
                  "once and run OnListenForReplyFinished exactly once (double close / send after close are unreachable panic states); and of the "
                  "ack/nack table and publish-before-settle order of the command side. The model is tied to the code by structural facts, by "
                  "differential execution of the command side and by trace inclusion of recorded executions; the property monitor judges every "
                  "recorded execution. The pre-repair listener (D12) is kept as a machine-checked stuck witness.",
    "level_note": "The settle effect of `command` is derived from the handleMessage model of C02 (Props/C18Router.lean) whose tie is re-proved in this check. The Pub/Sub between handler and listener is over-approximated (any delivery order/multiplicity), not modelled; goroutine and "
                  "race freedom are runtime checks.",
    "technique": "Lean 4 invariant, progress and measure proofs over an LTS model + effect-list function; trace-inclusion conformance, differential "
                 "execution and property monitors on hook-instrumented executions of the real code",
    "explanation": "replies_only_own / reply_carries_result_and_error_text are inductive invariants over all actions of the model (any number of "
                   "listeners); listener_terminates combines a progress lemma that needs no caller step with a measure bounding the listener's steps; "
                   "the harness forces the D12 interleaving with the before_send hook.",
}
