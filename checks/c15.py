# C15 – CQRS buses and processors dispatch by type name with the configured ack policy.
import re


def _msgs(req):
    return req.split()[6:]


def nontrivial(req, obs):
    f = req.split()
    if f[0] == "bus":
        # a send that got as far as the hook or the publisher (not a trivially failing marshal / topic generator)
        return " P:" in " " + obs or " H:" in " " + obs
    if f[0] == "proc":
        # at least one handler invocation and at least one delivery that was not handled (other type / malformed /
        # failing handler), i.e. both sides of the dispatch rule and of the ack policy are exercised
        invoked = re.search(r"\d+\.[0-9a-f-]+\.[osz]", obs) is not None
        return invoked and ("-=" in obs or "=n" in obs)
    return False


PROP = {
    "id": "C15",
    "lean_targets": ["WmModel.Props.C15", "WmModel.Props.C15Tie", "WmModel.Props.C15Router", "WmModel.Props.C02Tie"],
    # settleOf is derived from the handleMessage model: its body is re-extracted and its tie re-proved here too
    "extract_also": ["C02"],
    "audit_module": "Audit.C15",
    "theorems": [
        "Wm.Cqrs.bus_publishes_once", "Wm.Cqrs.bus_name_metadata", "Wm.Cqrs.bus_hook_before_publish",
        "Wm.Cqrs.bus_error_aborts", "Wm.Cqrs.bus_result_ok_iff", "Wm.Cqrs.bus_publish_error_once", "Wm.Cqrs.bus_each_send_on_its_own_topic",
        "Wm.Cqrs.invoked_iff_name_matches", "Wm.Cqrs.name_from_metadata", "Wm.Cqrs.ack_table",
        "Wm.Cqrs.original_message_in_ctx", "Wm.Cqrs.processMsg_delivery",
        "Wm.Cqrs.group_order_prefix", "Wm.Cqrs.group_invoked_iff", "Wm.Cqrs.group_invoked_increasing",
        "Wm.Cqrs.group_stops_at_first_error", "Wm.Cqrs.group_stop_reason", "Wm.Cqrs.group_invoked_only_matching",
        "Wm.Cqrs.ack_table_group", "Wm.Cqrs.group_handler_error_nack",
        "Wm.Cqrs.unknown_type_policy", "Wm.Cqrs.flags_scope", "Wm.Cqrs.per_message_independent",
        "Wm.Cqrs.value_round_trip", "Wm.Cqrs.value_round_trip_group",
        # settleOf derived from the C02/C03 models (Props/C15Router.lean)
        "Wm.Cqrs.settleOf_eq_handle", "Wm.Cqrs.processor_handler_never_publishes",
    ],
    # theorems over the closure bodies regenerated from the Go source on every run
    "tie_theorems": [
        "Wm.GoHandle.handle_skeleton_eq_model", "Wm.GoHandle.publish_skeleton_eq_model",
        "Wm.GoCqrs.extracted_command_eq_model", "Wm.GoCqrs.extracted_event_eq_model",
        "Wm.GoCqrs.extracted_group_eq_model", "Wm.GoCqrs.extracted_no_unknown",
    ],
    "harness": "c15",
    "race": False,   # sequential property: one message at a time per subscription; the Router's concurrency is C01/C02/C06
    "driver": "drv_c15",
    "nontrivial": nontrivial,
    "search_seeds": 3,
    "rule": "bus: the whole configuration space {command, event bus} x {JSON, Protobuf} x 6 name generators x 5 value types (one that "
            "cannot be marshalled) x 4 topic generators (prefix, empty prefix, constant, failing) x OnSend/OnPublish {none, ok, error} x "
            "modify {none, ok, error} x publisher {ok, error} (quick: the corners thinned 1:3, thorough: all, 4 values each) plus the "
            "deprecated constructors; observation = the ordered effects (topic generator call, hook call with the message as it is then, "
            "modify call, Publish(topic, metadata, payload)) and the result class. "
            "busseq: 2..6 values, mostly of one or two types with different contents, through ONE bus object (2 / 12 sequences per bus kind "
            "x marshaler x name generator x generator mode) whose GeneratePublishTopic reads params.Event / params.Command (topic per "
            "tenant derived from the content; one tenant without a topic = error) and/or a switch the application flips between sends, "
            "publisher result varying per send; rule: every send publishes once on GeneratePublishTopic(that value, state at that moment), "
            "evaluated by the harness outside the bus. "
            "proc: every processor kind {command, event, event group} x AckCommandHandlingErrors x AckOnUnknownEvent x OnHandle {nil, "
            "pass-through} x {JSON, Protobuf} x 6 name generators (default, StructName, NamedStruct, names differing only in case with a "
            "collision, the empty name, names equal only under Unicode case folding), 6 (quick) / 60 (thorough) random registries of 1..5 "
            "handlers over 4 Go types – JSON: 6, including two instantiations Changed[OrderPlaced] / Changed[UserCreated] of one generic "
            "struct, whose names the harness writes out by hand for every generator (two types, two names: 'OrderPlaced]' / 'UserCreated]' "
            "under StructName and NamedStruct(StructName)), and OrderPlaced behind two pointers (a **OrderPlaced sent through the buses, a "
            "handler declared for *OrderPlaced: same name as OrderPlaced under every library generator – the name functions ignore pointers "
            "at any depth – except that NamedStruct finds no Name() method there); 1 in 5 JSON registries holds both instantiations side by side – (duplicates frequent) each with a stream of 10 / 14 messages mixing known (produced by the real "
            "marshaler), unknown-name, name-under-another-key, malformed-payload and foreign (name of one type, payload of another) messages, "
            "scripted handler outcomes ok/error/panic, a stale 'original message' in the incoming context in 1/4 of the messages; real "
            "message.Router, scripted subscribers, each delivered message object awaited on Acked()/Nacked(); plus an exhaustive decision "
            "table (every kind x flag setting x registry over two Go types of length 1..3 x message name {type 0, type 1, nobody's} x "
            "payload {type 0, type 1, malformed} x every ok/error/panic outcome assignment, both marshalers; thorough: also with OnHandle) "
            "(and the same table over the two generic instantiations under StructName) and corpus/C15 (minimised cases that separated the "
            "self-test mutants; form @ty.seed = the message the marshaler under test produces for that value); concurrent cases (info suffix .c; 2 / 12 per "
            "kind x flags x OnHandle x marshaler x name generator): the whole stream of 2..5 messages is handed to a subscription without "
            "waiting for acks (the Router runs one goroutine per message) and a wrapping marshaler holds every message inside Unmarshal "
            "until all of the batch are there – past the per-message context set-up, before any handler call – invocations are attributed "
            "to their message by goroutine, rule: each invocation's context exposes ITS message; plus the deprecated "
            "NewCommandProcessor/NewEventProcessor facade. Observation per delivery = (handler positions invoked in order, each with the "
            "canonical re-encoding of the value it received and whether OriginalMessageFromCtx is the delivered object; ack/nack). "
            "Non-trivial = a bus case that reached the hook or the publisher; a processor case with at least one invocation and at least one "
            "delivery that was not handled or was nacked; distinct = distinct (request, observation) pairs.",
    "trusted_base": [
        "Lean 4.33.0 kernel; axioms per theorem listed under theorem_axioms (subset of propext, Classical.choice, Quot.sound)",
        "library behaviour as parameters of the model, only tested by the harness: encoding/json and google.golang.org/protobuf "
        "(encode, decode into a Go type, round trip), reflection-based naming (fmt %T) and user-supplied GenerateName / topic generators / "
        "OnSend / OnPublish / modify / OnHandle callbacks",
        "message.Router turns the closure's result into Ack (nil) / Nack (error or recovered panic) for a NoPublisherHandler (C02; "
        "fact: both processors register with AddNoPublisherHandler)",
        "extractor harness/cmd/extract/c15.go (go/ast printer of the three router handler closures, def-use resolution of the compared "
        "names) and the interpreter WmModel/GoCqrs.lean as the semantics of those Go statements; context.WithValue shadowing as an "
        "association list with innermost-first lookup",
        "differential harness harness/cmd/c15 (scripted subscribers, capturing publisher) + Lean driver Driver/C15.lean",
    ],
    "assumptions": [
        "the closures keep no state between messages (theorem per_message_independent; tie theorems: every variable of the closures "
        "is per call): the model of several messages in flight at once is the per-message model of each; this is validated with "
        "forced rendezvous inside Unmarshal, not proved for the Go memory model (the Router's own concurrency is C01/C02/C06)",
        "a bus keeps no state between sends (model sendSeq, theorem bus_each_send_on_its_own_topic; facts: the constructors store "
        "the configuration unchanged)",
        "OnHandle, when configured, calls params.Handler.Handle(params.Message.Context(), params.Command|Event) – a hook that does not "
        "call the handler is outside the property",
        "a handler panic is modelled (router recovers, Nack) and compared with the model but not demanded by the monitor: the property "
        "speaks about handler errors",
        "a message whose name matches but whose payload does not decode: no handler is called (there is no value) and the message is "
        "nacked – the reading of DESIGN.md section 6 (ack_table: 'decode error nack')",
    ],
    "explanation": "Theorems (25, all inputs, no bounds): the bus publishes at most once and exactly once on success, on the generated topic, "
                   "with metadata name = type name and payload = encoding, hook before publish, every earlier error aborts; a command/event "
                   "processor calls exactly the handler whose type name equals the message name (exact string equality) with the decoded "
                   "value; the group calls the matching handlers in registration order up to and including the first failing one (stated as "
                   "a prefix theorem, a position-wise iff and a stop-reason trichotomy); complete ack tables for all three kinds and both "
                   "flags; the original message is in every handler's context whatever the incoming context; bus -> processor delivers a "
                   "value equal to the one sent under the codec round-trip hypothesis. Tie: the three handler closures are re-extracted "
                   "from the Go source on every run and proved equal to the model (4 tie theorems), 51 structural facts pin the bus call "
                   "order, the metadata key, and ctx.go; the harness validates model = implementation and the property monitor on every case.",
    "level_text": "proof",
    "level_note": "settleOf is derived from the handleMessage model of C02 (Props/C15Router.lean) whose tie is re-proved in this check. Model-level theorems for all registries, flags, messages and outcome assignments; correspondence to the Go code by "
                  "generated tie theorems (closure bodies), structural facts (buses, marshaler glue, ctx) and differential execution "
                  "against the real Router/processors/buses. json/protobuf codecs and reflection naming are parameters (tested only).",
    "technique": "decision functions + effect lists in Lean 4; structural induction over the registry for the group loop; deep-embedded "
                 "Go closure bodies with an interpreter and tie theorems; differential testing with an independent property monitor",
}
