# C02 – Router settles each message once: Ack iff handled and outputs published.
import re


def _scripts(req):
    return req.split()[2:]


def nontrivial(req, obs):
    """a case exercises the property when something can go wrong in it: the handler settles the message itself,
    a Publish call is made, the chain fails/panics, or several messages are in flight together"""
    sc = _scripts(req)
    if len(sc) >= 2:
        return True
    if not sc:
        return False
    self_, res, pub = sc[0].split(".")
    return self_ != "-" or res[0] in "ecp" or ";P" in obs or res != "r0"


PROP = {
    "id": "C02",
    "lean_targets": ["WmModel.Props.C02", "WmModel.Props.C02Inflight", "WmModel.Props.C02Tie"],
    "audit_module": "Audit.C02",
    "theorems": [
        "Wm.Handle.handler_called_first_once", "Wm.Handle.settles_exactly_once", "Wm.Handle.settle_is_last_before_done",
        "Wm.Handle.ack_iff", "Wm.Handle.ack_iff_with", "Wm.Handle.nack_iff", "Wm.Handle.not_ack_and_nack",
        "Wm.Handle.nack_on_error", "Wm.Handle.nack_on_panic", "Wm.Handle.nack_on_publish_failure", "Wm.Handle.nopub_outputs_nack",
        "Wm.Handle.publish_before_ack", "Wm.Handle.publish_before_ack_idx",
        "Wm.Handle.no_publish_on_error", "Wm.Handle.no_publish_on_panic",
        "Wm.Handle.publish_effects", "Wm.Handle.publish_at_most_once_in_order", "Wm.Handle.no_publish_when_no_outputs", "Wm.Handle.publish_call_then_ret",
        "Wm.Handle.always_settled", "Wm.Handle.self_settlement_wins", "Wm.Handle.final_settlement", "Wm.Handle.state_inside_publish",
        "Wm.Handle.proj_interleave", "Wm.Handle.inflight_independent", "Wm.Handle.inflight_settles_exactly_once",
        "Wm.Handle.inflight_publish_before_ack", "Wm.Handle.inflight_ack_iff", "Wm.Handle.inflight_self_settlement_wins",
        "Wm.Handle.chain_pass_id", "Wm.Handle.chain_outs",
    ],
    "tie_theorems": ["Wm.GoHandle.handle_skeleton_eq_model", "Wm.GoHandle.publish_skeleton_eq_model", "Wm.GoHandle.skeleton_defers"],
    "harness": "c02",
    "race": True,
    "driver": "drv_c02",
    "nontrivial": nontrivial,
    "rule": "run: a real message.Router (one per case) with a scripted subscriber, handler and publisher. Exhaustive matrix: handler kind "
            "{AddHandler+publisher, AddHandler+nil publisher, AddNoPublisherHandler, AddNoPublisherHandler+recording publisher decorator} x "
            "middleware prefix {-, p, o, po, op, oo, P, O, pO, Op, r, R, ro, or} (p passthrough, o output-adding, r rebuilds the output "
            "slice = empty but non-nil when there are no outputs; lower case router level, upper case handler level) x handler self-settlement {none, Ack, Nack} x result "
            "{0 outputs as nil slice and as empty non-nil slice, 1/3 outputs; plain error with 0/1/3 outputs; context.Canceled with 0/2 outputs; panic(value|error|nil)} x publisher "
            "{accept, error, panic, refuse-iff-the-call-contains-output-k for k = 0,1,2 and the middleware outputs}; plus seeded batches of 2..64 messages in flight together on one handler (all handlers parked at a gate, "
            "released in seeded order, half of them overlapping; in every other batch all publishing messages are additionally parked "
            "inside Publish together and released in a second seeded order), second half of the batches (and, thorough, a second pass over the matrix) "
            "with yield injection at router.handle.start/before_publish/before_settle and inside Publish. The publisher samples the "
            "consumed message's Acked()/Nacked() inside Publish (entry and exit); the final settlement is read after Router.Close() "
            "returned (barrier: all handleMessage goroutines finished). Oracle: per-message event list equal to the Lean model's, and the "
            "property monitor on the implementation's events. Non-trivial = a case with a self-settlement, a failure, a Publish call or "
            ">= 2 messages in flight; distinct = distinct (request, observation) pairs.",
    "trusted_base": [
        "Lean 4.33.0 kernel; axioms per theorem listed under theorem_axioms (subset of propext, Classical.choice, Quot.sound)",
        "extractor harness/cmd/extract/c02.go (go/ast printer of the handleMessage / publishProducedMessages / disabledPublisher.Publish "
        "skeletons; logger calls, hook points and the msgFields literal are skipped) and the interpreter WmModel/GoHandle.lean as the "
        "semantics of those Go statements (defer LIFO, recover, early return, nil-interface call panics)",
        "settlement = WmModel/Ack.lean (first-wins), itself tied to Message.Ack/Nack by C03",
        "differential harness harness/cmd/c02 + Lean driver Driver/C02.lean (model diff and independent monitor); Router.Close() as the "
        "barrier after which the final settlement is read (C06: Close waits for running handlers)",
        "Go race detector for data-race freedom of the per-message code (runtime fact, not a theorem)",
    ],
    "assumptions": [
        "the handler chain settles the message (if at all) before it returns or panics; a goroutine it leaves behind that settles later is outside the model",
        "the chain returns non-nil output messages (a nil element makes addHandlerContext panic, which is recovered and Nacked like any panic)",
        "per-message code shares no mutable handler state (facts: handleMessage/publishProducedMessages assign no receiver field and start no goroutine); "
        "the publisher and the handler function themselves may of course share state – their behaviour per message is a parameter",
        "panic(nil) is recovered as *runtime.PanicNilError (main module go >= 1.21, GODEBUG panicnil unset); with panicnil=1 recover() returns nil, "
        "handleMessage would neither recover nor settle – the harness module is built with go 1.21 semantics",
        "a publisher decorator installed on a nil publisher (non-nil wrapper around nil) is outside the model",
    ],
    "explanation": "Theorems quantify over all handler configurations, all behaviours of the handler chain (any number of outputs of any type, "
                   "error or not, any panic value, own settlement or not), all publisher behaviours and, by the interleaving theorems, any number "
                   "of messages in flight; the tie theorem is re-proved against the skeletons of handleMessage / publishProducedMessages / "
                   "disabledPublisher.Publish extracted from the current source; the harness validates the model on the real Router.",
    "level_text": "Machine-checked (Lean 4) theorems over an executable effect-list model of handler.handleMessage / publishProducedMessages "
                  "composed with the first-wins settlement model of C03; the model is tied to the current source by a generated deep embedding "
                  "with an equality theorem for all inputs, by structural facts and by differential execution of the real Router.",
    "level_note": "Proved about the model, not about the Go code; the tie is checked on every run (generated skeleton + interpreter, facts, "
                  "differential harness with the settlement sampled inside Publish). Real scheduling of concurrent messages is sampled "
                  "(gated batches, yield injection, -race), the independence of per-message effect lists is a theorem only under the "
                  "fact-checked assumption that handleMessage shares no mutable handler state.",
    "technique": "Lean 4 theorems over a hand-written executable model + generated deep-embedded body with tie theorem + differential correspondence check against the Go code",
}
