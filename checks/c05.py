# C05 – GoChannel: one unsettled message per subscription; blocking publish waits.
def nontrivial(req, obs):
    f = req.split()
    if f[0] == "sub":
        # a stream with at least two deliveries (so "next only after settle" is exercised)
        return sum(1 for t in f[2:] if t == "R") >= 2
    if f[0] == "reg":
        return sum(1 for t in f[3:] if t.startswith("ps,")) >= 1 and sum(1 for t in f[3:] if t.startswith("sg,")) >= 1
    if f[0] == "top":
        return sum(1 for t in f[5:] if t.startswith("rv,")) >= 2
    return False


def classify(req, obs, rule):
    f = req.split()
    # known finding D11: the dedicated scenario (tag d11: blocking mode, the subscriber publishes to another topic
    # before acking, a Subscribe is pending on the write lock) never returns from Publish
    if f[0] == "top" and len(f) > 4 and f[4] == "d11" and rule.startswith("violated:stuck"):
        return "nested-publish+pending-writer"
    return None


PROP = {
    "id": "C05",
    "lean_targets": ["WmModel.Props.C05SerialNeg", "WmModel.Props.C05Serial", "WmModel.Props.C05Order", "WmModel.Props.C05Prod", "WmModel.Props.C05Live", "WmModel.Props.C04Exit", "WmModel.Props.C05Reg", "WmModel.Props.C05"],
    "audit_module": "Audit.C05",
    "theorems": ["Wm.GcReg.dispatcher_waited_for", "Wm.GcProd.blocking_senders_serialised", "Wm.GcProd.blocking_deliveries_in_publish_order", "Wm.GcProd.serial_witness", "Wm.GcProd.nonblocking_order_not_guaranteed_witness", "Wm.GcSub.ended_sender_deliveries_first", "Wm.GcSub.deliveries_in_exit_order", "Wm.GcProd.blocking_publish_returns_only_after_ack", "Wm.GcProd.prod_witness", "Wm.GcProd.prod_sender_done_waits_for_msub", "Wm.GcReg.nonblocking_no_deadlock", "Wm.GcReg.blocking_deadlock_needs_nested_publish", "Wm.GcReg.closing_no_deadlock", "Wm.GcReg.d11_has_nested_publish", "Wm.GcSub.acked_exit_means_delivered_and_acked", "Wm.GcSub.unacked_exit_means_closing", "Wm.GcSub.sender_exits_once", "Wm.GcReg.blocking_order", "Wm.GcReg.blocking_publish_waits", "Wm.GcReg.blocking_send_then_wait", "Wm.GcReg.blocking_deadlock_witness", "Wm.GcReg.blocking_without_pending_writer_returns", "Wm.GcReg.writer_unique", 
        "Wm.GcSub.one_unsettled_inv", "Wm.GcSub.unsettled_is_owned", "Wm.GcSub.no_send_while_unsettled",
        "Wm.GcSub.never_panics", "Wm.GcSub.close_flags_consistent", "Wm.GcSub.holder_can_leave_when_closing",
    ],
    "tie_theorems": [],
    "harness": "c05",
    "race": True,
    "driver": "drv_c05",
    "nontrivial": nontrivial,
    "classify": classify,
    "rule": "seeded scenarios on the real GoChannel (buffer 0/1/3 x persistent x blocking; 1-3 topics, publishers, subscribers; consumers that "
            "ack, nack k times, mutate, delay, cancel mid-delivery leaving the message unsettled, never settle, publish from the receive loop; "
            "late Subscribe; Close racing the publishers; first a blocking-mode receive loop that publishes to 96 other topics of the same Pub/Sub before it acks) with seeded yield injection at the gochannel.* hook points. Per subscription the "
            "recorded stream of hook + consumer events must be a trace of the Lean model M_sub (subset construction) and satisfy the "
            "one-unsettled monitor; the topic-level trace must satisfy the blocking-publish and publisher-order monitors. "
            "Non-trivial = at least two deliveries in the stream/trace.",
    "trusted_base": [
        "Lean 4.33.0 kernel; axioms per theorem under theorem_axioms",
        "M_sub (lean/WmModel/GcSub.lean) as a model of subscriber/sendMessageToSubscriber/subscriber.Close: atomic steps = lock-delimited regions, "
        "channel operations and select alternatives; Go mutex, channel, select and close semantics",
        "structural facts (skeletons of the GoChannel functions, facts/expected/C05.json) re-extracted from the source on every run",
        "trace conformance by subset construction (lean/WmModel/Conf.lean, GcConf.lean) and the monitors (lean/WmModel/GcMon.lean)",
        "harness/gc (event log under one mutex; consumer settlements and cancels are logged before the call, hook events inside the critical sections)",
        "Go race detector",
    ],
    "assumptions": [
        "the registry model M_reg (lean/WmModel/GcReg.lean: RWMutex with writer announcement, topic mutexes, closedLock, WaitGroup, dispatchers) "
        "carries blocking_publish_waits and the D11 witness; it is tied to the code by the function skeletons and by trace inclusion of the recorded API+hook streams (lean/WmModel/GcRegConf.lean, GcProdConf.lean (registry + subscription streams merged, against the composition M_prod)); "
        "publisher order and 'returns at all' are decided by the monitors on recorded traces",
        "known finding D11 (nested publish + pending writer deadlocks a blocking Publish) is recorded, see known-findings.json",
    ],
    "level_text": "Proof (Lean 4) that in every reachable state of the subscription model - any buffer size, any number of senders, nacks, cancel "
                  "and close at any point, every interleaving - at most one delivered copy is unsettled and no further copy can be sent while one is; "
                  "on the registry model M_reg (RWMutex with writer announcement, topic mutexes, closedLock; any number of Publish/Subscribe/Close calls): "
                  "a blocking Publish leaves its wait only when every sender it started has finished or the Pub/Sub is closing (blocking_publish_waits), a sender "
                  "finishes 'acked' only after an acked delivery (acked_exit_means_delivered_and_acked), the next message of a batch is sent only afterwards "
                  "(blocking_order); deadlock freedom: non-blocking mode never deadlocks, a blocking-mode deadlock needs a consumer that publishes before it acks "
                  "(blocking_deadlock_needs_nested_publish; D11 is exactly that state), and after Close has signalled nothing is stuck. "
                  "The models are tied to the code by structural facts and by trace inclusion of recorded executions; monitors re-check the clauses on those executions.",
    "level_note": "The composition is machine-checked too: M_prod (lean/WmModel/GcProd.lean) is M_reg in parallel with the M_sub instance of one arbitrary subscription, every product step projects to an M_reg step and a finite M_sub run (Lemmas/GcProdProj.lean), and blocking_publish_returns_only_after_ack states the clause end to end (the sender the dispatcher waited for ended with a delivered, received, acked copy - or the subscription was closing/closed). Partial only in that "
                  "'it does return once they have, also when subscribers publish from their receive loop' is false of the code in one configuration - the recorded "
                  "finding D11 (theorem blocking_deadlock_witness) - and proved for all others in the model.",
    "technique": "Lean 4 invariant proof over an LTS model of the subscription + trace-inclusion conformance and monitors on hook-instrumented executions",
    "explanation": "one_unsettled_inv is an inductive invariant over all 16 actions of M_sub; conformance replays every recorded per-subscription "
                   "stream through the model.",
}
