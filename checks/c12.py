# C12 – Retry middleware: bounded attempts, back-off, first success wins, error kept.


def _kv(req):
    return dict(t.split("=", 1) for t in req.split()[1:] if "=" in t)


def nontrivial(req, obs):
    # at least one retry was made (the loop, the back-off and the hook are exercised)
    try:
        return int(_kv(req).get("n", "0")) >= 2
    except ValueError:
        return False


PROP = {
    "id": "C12",
    "lean_targets": ["WmModel.Props.C12"],
    "audit_module": "Audit.C12",
    "theorems": [
        "Wm.Retry.never_out_of_fuel", "Wm.Retry.at_most_max_retries",
    ],
    "tie_theorems": [],
    "harness": "c12",
    "race": True,
    "driver": "drv_c12",
    "nontrivial": nontrivial,
    "rule": "",
    "trusted_base": [],
    "assumptions": [],
    "explanation": "",
}
