# C12 – Retry middleware: bounded attempts, back-off, first success wins, error kept.
#
# Request (see harness/cmd/c12/main.go, lean/Driver/C12.lean):
#   retry mr= init= max= mul=p/q rf=a/b el= hook= log= outs=<f|u|c|d|s><k>,… cancel=<j|-> ctxend=<call|pre|deadline|-> sleep=<j>:<ns>|-   (inputs)
#         pass=<P>:<idx>|-                                                                        (input: the same message object handled P times)
#         conc=<M>:<idx>:<stagger>|-                                                              (input: M messages through one instance)
#         n= d= ts= te= tr= tq=                                                                    (recorded from the run)
# Observation: n=<calls> hooks=<num>:<delay>,… res=<msgs>/<err> time=ok


def _kv(req):
    return dict(t.split("=", 1) for t in req.split()[1:] if "=" in t)


def nontrivial(req, obs):
    # at least one retry was made: the loop, the back-off and (when set) the hook were exercised
    try:
        return int(_kv(req).get("n", "0")) >= 2
    except ValueError:
        return False


PROP = {
    "id": "C12",
    "lean_targets": ["WmModel.Props.C12", "WmModel.Props.C12Tie", "WmModel.Props.C12Router", "WmModel.Props.C02Tie"],
    # the composition with the Router is stated on the handleMessage model: its body is re-extracted and its tie re-proved here too
    "extract_also": ["C02"],
    "audit_module": "Audit.C12",
    "theorems": [
        "Wm.Retry.never_out_of_fuel", "Wm.Retry.attempts_follow_script",
        "Wm.Retry.first_success_wins", "Wm.Retry.at_most_max_retries", "Wm.Retry.exhausts_all_retries",
        "Wm.Retry.gives_up_early_only_for_a_reason", "Wm.Retry.backoff_stop_needs_max_elapsed",
        "Wm.Retry.result_is_last_attempts", "Wm.Retry.last_error_returned", "Wm.Retry.never_invents_success",
        "Wm.Retry.returned_messages",
        "Wm.Retry.hooks_in_order", "Wm.Retry.no_hook_calls_without_hook", "Wm.Retry.hook_reports_wait",
        "Wm.Retry.interval_closed_form", "Wm.Retry.interval_closed_form_frac",
        "Wm.Retry.wait_at_least_backoff", "Wm.Retry.wait_at_least_configured_backoff",
        "Wm.Retry.wait_at_least_configured_backoff_frac", "Wm.Retry.reported_delay_in_interval", "Wm.Retry.waited_reported_delay",
        "Wm.Retry.gives_up_on_ctx_end", "Wm.Retry.gives_up_keeps_error",
        "Wm.Retry.gives_up_on_elapsed", "Wm.Retry.gives_up_on_elapsed_observable",
        "Wm.Retry.old_retry_after_stop_witness",
        # Retry inside a Router: composition with the C02/C03 models (Props/C12Router.lean)
        "Wm.Retry.acked_under_retry_iff", "Wm.Retry.published_under_retry", "Wm.Retry.nacked_when_all_attempts_fail",
    ],
    # over the closure body regenerated from message/router/middleware/retry.go on every run
    "tie_theorems": ["Wm.GoRetry.extracted_retry_eq_model", "Wm.GoRetry.extracted_ctx_deadline", "Wm.GoHandle.handle_skeleton_eq_model", "Wm.GoHandle.publish_skeleton_eq_model"],
    "harness": "c12",
    "race": True,
    "driver": "drv_c12",
    "nontrivial": nontrivial,
    "search_seeds": 3,
    "rule": "Real middleware.Retry with the real cenkalti/backoff and the real clock. logic: MaxRetries -1..8 x first success at call "
            "0..1+MaxRetries or never x hook set/unset, zero intervals, exhaustively; cancel: the context cancelled from inside call j for "
            "every j (MaxRetries 1,2,3,4,6,8 quick / 1..8 thorough) with the racing wait >= 10 ms; cancel.zero: waits of exactly 0 (InitialInterval 0, or 1 ms with MaxInterval 0) x the context ending during call j for every j <= MaxRetries-2 (MaxRetries 2..8) by cancel() inside the call, by being cancelled before Retry is invoked, or by a deadline that falls during the call - at most ONE call after the context ended is accepted there (closed ctx.Done() racing time.After(0)); both cancellation groups also with a far MaxElapsedTime (10 s, 1 h) so that the derived context has to follow the message's; ctxerr: handler errors that wrap context.Canceled / the call's own DeadlineExceeded while the message context is alive (fail^i then succeed / fail forever, MaxRetries 1..8) - they are retried like any failure; errtype: handler errors of uncomparable dynamic types (a slice-typed error list, a struct with a map field) with a Logger set and >= 2 failed retries, MaxRetries 2..8 - Retry only passes errors on (a panic is a violation); repass: the SAME message object handled 2..3 times in a row through the wrapped handler (redelivery / an outer layer), the caller leaving its context alone, MaxElapsedTime 0 / 10 s / 1 h: every pass is reported as its own case and must behave like a first pass; schedule: 260 (quick) / 2600 (thorough) seeded "
            "configurations, InitialInterval 0..3 ms, MaxInterval up to 5 ms, Multiplier {1, 3/2, 2, 3}, RandomizationFactor {0, 1/2, 1}, "
            "fail^i then succeed or fail forever, 0..2 output messages per call (also from failing calls); elapsed: MaxElapsedTime 30 ms with "
            "a call sleeping 150 ms at call 0..4, MaxElapsedTime 2..12 ms against waits of 1..6 ms, and 10 s (no effect); elapsed.wait: the wait before call k exceeds what is left of MaxElapsedTime by >= 40 ms (300 ms vs 60 ms, 20/40/80 ms vs 100 ms, ...): the call count is predicted by counting; concurrent: 2..4 messages staggered through ONE middleware instance and ONE wrapped handler, each message reported as its own case and held to its own schedule; odd: "
            "InitialInterval > MaxInterval, Multiplier 1/2, MaxInterval 0, MaxRetries <= 0, nanosecond intervals with truncation. Compared "
            "exactly: number of calls, hook numbers, reported delays (each must be reproducible by a draw in [0,1) from the model's interval), "
            "returned messages and error identity. Giving up with retries left must have a stated reason (context ended, or the call returned >= MaxElapsedTime after the first failure). By inequality only: gap between calls >= wait, no call begun after MaxElapsedTime, early "
            "give-up only when the context can have ended, no call after a wait whose end lies > 25 ms past the budget's latest possible deadline. Non-trivial = at least one retry was made; distinct = distinct (request, observation).",
    "trusted_base": [
        "Lean 4.33.0 kernel; axioms per theorem listed under theorem_axioms (subset of propext, Classical.choice, Quot.sound)",
        "hand-written model WmModel/Retry.lean of retry.go and of cenkalti/backoff v3.2.2 exponential.go (NextBackOff, incrementCurrentInterval, "
        "getRandomValueFromInterval), with integer nanoseconds and fractions in place of float64 (exact for the generated values: multipliers "
        "and factors are dyadic or 3/2, intervals < 2^50 ns)",
        "extractor harness/cmd/extract/c12.go (go/ast printer of the closure body) and the interpreter WmModel/GoRetry.lean as the semantics "
        "of those Go statements (select = scripted choice between ctx.Done() and the timer; time.After never fires early; Stop = -1 ns is due at once)",
        "differential harness harness/cmd/c12 + Lean driver Driver/C12.lean (reconstruction of draws, lags and select picks from the recorded run)",
        "Go runtime: monotonic clock, time.After, context cancellation; math/rand.Float64 in [0,1)",
    ],
    "assumptions": [
        "which alternative a select with both channels ready takes is not determined by Go: after the context ended, ONE further call is "
        "accepted when the wait before it was shorter than 10 ms (reported delay, else measured gap), none when it was longer, never two; the "
        "harness re-runs a scenario up to 2 more times before reporting a call made after the context ended",
        "a context deadline that precedes the timer's due time by more than 25 ms wakes the select first (Go runtime: the parked select is "
        "resumed by the first event); the harness re-runs a scenario up to 2 more times before such a call is reported",
        "real time is sampled: waits are checked as lower bounds only (gap >= reported delay >= model lower bound), never as upper bounds",
        "OnRetryHook unset: delays are not observable, the model then assumes the smallest wait of each interval",
        "negative durations and RandomizationFactor > 1 are outside the model (rejected as bad-op, not generated)",
    ],
    "explanation": "Theorems cover every clause of the statement for all configurations and all scripts (outcomes, draws, select picks, "
                   "lags, durations): first success wins, at most MaxRetries re-invocations (and exactly that many when nothing ends the "
                   "loop), hooks 1,2,.. one per failed retry with the wait of that pass, closed form of the interval from the library's "
                   "update rule (exact for integer multipliers, within the library's integer truncation for fractional ones), wait >= "
                   "floor(cur_k(1-rf)), reported delay within the jitter interval, last error returned, no invented success, give-up on "
                   "ctx.Done and on MaxElapsedTime with the error kept. The closure body is re-extracted from the source on every run and "
                   "proved equal to the model (extracted_retry_eq_model); the harness validates the model against the real code and clock.",
    "level_text": "proof",
    "level_note": "Retry inside a Router (Ack iff the last call succeeded and its outputs were accepted; only that call's outputs are published) is composed from the retry model and the handleMessage model of C02 (Props/C12Router.lean); both ties are re-proved in this check. All clauses are theorems over the model for all inputs; the model is tied to the current source by a kernel-checked "
                  "equality with the extracted closure body and by differential execution. Real-time behaviour (timers, scheduler) and the "
                  "back-off library are modelled and validated by the harness, not verified.",
    "technique": "executable Lean model with time and randomness as script inputs; induction over the loop fuel; deep-embedded Go body + "
                 "interpreter + equality theorem; differential harness in check mode (model explains the recorded run) + independent monitor",
}
