# C07 – see DESIGN.md section 6.
def nontrivial(req, obs):
    f = req.split()
    if f[0] == "sub":
        return sum(1 for t in f[2:] if t == "R") >= 2
    if f[0] == "reg":
        return sum(1 for t in f[3:] if t.startswith("ps,")) >= 1 and sum(1 for t in f[3:] if t.startswith("sg,")) >= 1
    if f[0] == "topic":
        return sum(1 for t in f[1:] if t.startswith("PS")) >= 1 and sum(1 for t in f[1:] if t.startswith("SG")) >= 1
    if f[0] == "top":
        return sum(1 for t in f[5:] if t.startswith("rv,")) >= 2
    return False


def classify_race(text):
    # known finding: messageTransformSubscriberDecorator.Subscribe does subscribeWg.Add(1) while a concurrent Close is in
    # subscribeWg.Wait() (WaitGroup misuse: Add from zero concurrent with Wait) - reported by the race detector
    if "messageTransformSubscriberDecorator).Close" in text and "messageTransformSubscriberDecorator).Subscribe" in text:
        return "decorator-subscribe-races-close"
    return None


PROP = {
    "classify_race": classify_race,
    "id": "C07",
    "lean_targets": ["WmModel.Props.C07Prod", "WmModel.Props.C05Live", "WmModel.Props.C07Dec", "WmModel.Props.C07Close", "WmModel.Props.C07Locks", "WmModel.Props.C07Term", "WmModel.Props.C05Reg", 'WmModel.Props.C07'],
    "audit_module": "Audit.C07",
    "theorems": ["Wm.GcProd.after_close_channel_closed", "Wm.GcProd.close_witness", "Wm.GcProd.close_waits_for_msub", "Wm.GcReg.nonblocking_no_deadlock", "Wm.GcReg.blocking_deadlock_needs_nested_publish", "Wm.GcReg.closing_no_deadlock", "Wm.GcReg.d11_has_nested_publish", "Wm.GcReg.removed_only_after_own_cancel_or_close", "Wm.GcReg.subs_change", "Wm.GcDec.dec_never_panics", "Wm.GcDec.dec_close_never_stuck", "Wm.GcDec.dec_quiescent_closed", "Wm.GcDec.dec_steps_bounded", "Wm.GcDec.dec_close_terminates", "Wm.GcDec.dec_after_close", "Wm.GcDec.dec_forwarding", "Wm.GcDec.dec_one_pump_per_channel", "Wm.GcDec.dec_witness", "Wm.GcReg.close_never_stuck", "Wm.GcReg.quiescent_closed", "Wm.GcReg.thread_steps_bounded", "Wm.GcReg.close_terminates", "Wm.GcReg.after_close_returned", "Wm.GcReg.close_dissolves_deadlock", "Wm.GcReg.writer_excludes_readers", "Wm.GcReg.writers_exclusive", "Wm.GcReg.topic_mutex_exclusive", "Wm.GcReg.publish_and_subscribe_regions_exclusive", "Wm.GcReg.after_close_errors", "Wm.GcReg.close_returned_means_closed", "Wm.GcReg.closed_lock_owner", "Wm.GcSub.internal_steps_bounded", "Wm.GcSub.cur_unsettled_at_sendSel", "Wm.GcReg.registry_never_panics", "Wm.GcReg.publish_after_close_errs", "Wm.GcReg.subscribe_after_close_errs", "Wm.GcReg.writer_unique", 'Wm.GcSub.never_panics', 'Wm.GcSub.close_flags_consistent', 'Wm.GcSub.holder_can_leave_when_closing', 'Wm.GcSub.close_progress', 'Wm.GcSub.outchan_closed_at_most_once', 'Wm.GcSub.closed_is_final'],
    "tie_theorems": [],
    "harness": "c07",
    "harness_timeout_s": {"quick": 480, "thorough": 2400},
    "race": True,
    "driver": "drv_c07",
    "nontrivial": nontrivial,
    "rule": 'pairwise: the first goroutine reaching each of 21 hook points (incl. inside the persistent replay loop and the dispatcher loop) of Publish / Subscribe (incl. persistent replay) / send loop / subscriber close / unsubscribe / Close / decorator pump is parked while one of {Close, cancel, Publish, Subscribe} runs, then released (bare Pub/Sub and 1-2 MessageTransform subscriber decorators; persistent and blocking modes; a second Close racing the first; Publish and Subscribe after Close); plus seeded random concurrent programs with cancels, never-settling consumers and Close racing the publishers. Monitor: no API call panics, every Close returns, every output channel is closed exactly once and nothing is delivered after it, Publish/Subscribe after Close fail, no goroutine of the Pub/Sub or the decorator remains (stack census), nothing runs into the 30 s liveness bound. Non-trivial = at least two deliveries.',
    "trusted_base": [
        "Lean 4.33.0 kernel; axioms per theorem under theorem_axioms",
        "M_sub (lean/WmModel/GcSub.lean) and M_topic (lean/WmModel/GcTopic.lean) as models of pubsub/gochannel/pubsub.go: atomic steps = lock-delimited "
        "regions, channel operations, select alternatives; Go mutex/RWMutex/channel/select/close semantics; the composition of the two models is an "
        "argument on paper (M_sub lets senders arrive at any time, which over-approximates what M_topic starts)",
        "structural facts (skeletons of the GoChannel functions, facts/expected) re-extracted from the source on every run",
        "trace conformance by subset construction (lean/WmModel/Conf.lean, GcConf.lean, GcTopicConf.lean, GcRegConf.lean, GcDecConf.lean) and the monitors (lean/WmModel/GcMon.lean)",
        "harness/gc (one event log under one mutex; consumer settlements and cancels logged before the call, hook events inside the critical sections; "
        "liveness bound 30 s per wait; goroutine census by stack dump)",
        "Go race detector",
    ],
    "assumptions": ['data-race freedom and goroutine-leak freedom are runtime facts (race detector, stack census), not theorems'],
    "level_text": 'Proof (Lean 4): (a) subscription model M_sub, every reachable state: the close protocol never panics (no double close, no send on a closed channel), closes the output channel at most once and can always make progress without the consumer once cancel/Close was signalled; (b) registry model M_reg (RWMutex with writer announcement, topic mutexes, closedLock, subscribersWg; any number of Publish/Subscribe/Close calls and unsubscribe goroutines, persistent or not, blocking or not, every interleaving): the registry never panics, a Close call that has not returned is never stuck (close_never_stuck), threads cannot spin (thread_steps_bounded), hence every schedule ends after at most phi(s) steps with every Close returned (close_terminates), and once any Close has returned no unsubscribe goroutine or half-done Subscribe is left, every subscription is removed, the backlog is dropped and Publish/Subscribe fail (after_close_returned, after_close_errors), and a subscription leaves the registry only through its own unsubscribe goroutine, which gets there only after its own context was cancelled or the Pub/Sub is closing (removed_only_after_own_cancel_or_close: cancelling one leaves the others). (c) decorator model M_dec (message/decorator.go: subscribeWg, subscribeWgLock, closing+Once, the pump goroutine; any number of concurrent Subscribe/Close calls, a consumer that may stop reading, any inner-subscriber behaviour C07 allows): never panics (no double close, WaitGroup never negative, Add never concurrent with Wait), Close is never stuck and terminates, after Close every pump finishes on its own and closes its out channel exactly once, nothing is dropped before closing (dec_* theorems). The absence of leftover goroutines in the real process and data races are checked on forced interleavings of the real code.',
    "level_note": 'M_reg and M_sub are composed in Lean (M_prod, lean/WmModel/GcProd.lean: after_close_channel_closed - once any Close call has returned, the M_sub instance of every subscription is closed, its output channel is closed, nothing panicked). Partial: M_dec is composed with them on paper - it assumes of its inner subscriber what the M_reg/M_sub theorems state (Close returns only after every handed-out channel is closed; Subscribe fails afterwards), M_reg abstracts what a sender goroutine does inside a subscription (that is M_sub; the two are composed on paper: M_sub lets senders arrive at any time). All are exercised by the pairwise park/release enumeration with a liveness bound, the goroutine census and -race; recorded hook streams must be traces of M_sub and M_reg, and the event streams of the real decorator around a scripted inner subscriber (harness/cmd/c07/dec.go: concurrent Subscribe/Close calls, refused and late Subscribe calls, cancelled channels, consumers that stop reading) must be traces of M_dec (GcDecConf.lean).',
    "technique": "Lean 4 invariant proofs over LTS models of the subscription and the topic registry + trace-inclusion conformance and property monitors on hook-instrumented executions of the real GoChannel",
    "explanation": 'Proof (Lean 4), for every reachable state of the subscription model, that its close protocol never panics (no double close, no send on a closed channel), closes the output channel at most once and can always make progress without the consumer once cancel/Close was signalled; termination of whole-Pub/Sub Close, the decorators, and the absence of leftover goroutines/data races are checked on forced interleavings of the real code.',
}
