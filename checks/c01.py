# C01 – end-to-end at-least-once through Router pipelines connected by GoChannel topics, under handler/publisher faults.


def _events(req):
    return req.split()[8:]


def nontrivial(req, obs):
    # at least one injected fault AND at least one redelivery (a second handler start of the same stage+lineage)
    evs = _events(req)
    if not any(e.startswith("ft.") for e in evs):
        return False
    seen = set()
    for e in evs:
        if e.startswith("hs."):
            k = tuple(e.split(".")[1:3])
            if k in seen:
                return True
            seen.add(k)
    return False


PROP = {
    "id": "C01",
    "lean_targets": ["WmModel.Props.C01", "WmModel.Props.C01Conf", "WmModel.Props.C01Stage", "WmModel.Props.C01Sub", "WmModel.Props.C01Prod", "WmModel.Props.C02Tie"],
    # the stage facts (H1) are derived from the handleMessage model, so the body of handleMessage is re-extracted and its tie re-proved here too
    "extract_also": ["C02"],
    "audit_module": "Audit.C01",
    "theorems": [
        "Wm.Pipeline.no_loss_inv", "Wm.Pipeline.ack_after_accept", "Wm.Pipeline.publishOk_creates_downstream",
        "Wm.Pipeline.published_only_via_publishOk", "Wm.Pipeline.only_ack_removes", "Wm.Pipeline.fault_redelivers",
        "Wm.Pipeline.sink_sound", "Wm.Pipeline.all_runs_finite", "Wm.Pipeline.all_runs_finite_init",
        "Wm.Pipeline.terminal_delivered", "Wm.Pipeline.maximal_run_delivers", "Wm.Pipeline.pipeline_refines",
        "Wm.Pipeline.realEff_facts",
        # what an accepted trace means (Props/C01Conf.lean): the driver's replay is a terminating run of the model
        "Wm.Pipeline.candidates_complete", "Wm.Pipeline.enabled_empty_terminal", "Wm.Pipeline.conf_ok_sound",
        "Wm.Pipeline.conf_ok_delivers",
        # H1 derived from the C02/C03 models (Props/C01Stage.lean)
        "Wm.Pipeline.ackCond_iff_ok", "Wm.Pipeline.stage_effect_eq_realEff", "Wm.Pipeline.classify_rep", "Wm.Pipeline.rep_wf",
        "Wm.Pipeline.handle_stage_facts", "Wm.Pipeline.pipeline_refines_handle", "Wm.Pipeline.nopub_stage_never_acks_outputs",
        # H3 derived on M_prod (Props/C01Prod.lean): a Publish creates a pending token at every registered subscription, nothing elsewhere
        "Wm.GcProd.fresh_publication_is_pending", "Wm.GcProd.publish_creates_pending_token", "Wm.GcProd.publish_creates_nothing_elsewhere",
        # H2 (safety half) derived from M_sub (Props/C01Sub.lean): a subscription moves a token only along the pipeline model's edges
        "Wm.GcSub.tokIs_total", "Wm.GcSub.tokIs_unique", "Wm.GcSub.copies_step", "Wm.GcSub.acked_mono", "Wm.GcSub.ack_only_from_hand", "Wm.GcSub.hand_left_only_by_settle", "Wm.GcSub.hand_entered_only_by_delivery", "Wm.GcSub.sub_step_refines_token", "Wm.GcSub.sub_run_acked_stays",
    ],
    "tie_theorems": ["Wm.GoHandle.handle_skeleton_eq_model", "Wm.GoHandle.publish_skeleton_eq_model"],
    "harness": "c01",
    "race": True,
    "driver": "drv_c01",
    "nontrivial": nontrivial,
    "harness_timeout_s": {"quick": 400, "thorough": 1700},
    "rule": "real message.Routers (one per stage / one with all handlers) connected by one real GoChannel (buffer 0/1/4 x blocking x persistent), "
            "chains of 1..4 stages and three fan-out/fan-in shapes, 1..5 messages carrying a lineage id, scripted faults {handler error, handler "
            "panic, publish error, publish panic, error after the message was handed on, handler error / publish error that wraps "
            "context.Canceled} on the k-th call of a stage, injected by a handler wrapper "
            "and a publisher wrapper (passed to AddHandler or installed with AddPublisherDecorators), optional foreign subscriber (tap) on the source "
            "topic, seeded yield injection at all router.* / gochannel.* hook points and in the wrappers. Stages may emit 2..3 outputs per input (derived lineages l*w+j, the sink must see "
            "every derived lineage); px faults refuse the Publish call that contains output #j of the k-th invocation of a stage. "
            "Topic names are arbitrary strings derived from the case seed; in an eighth of the cases one topic (source, inner or final) is "
            "named by the empty string, which GoChannel accepts. A Nack of an invocation that neither a scripted fault nor a failure of the stage itself "
            "explains is recorded as an unscripted failure too (uf...nack: the output was refused by something else than the fault script). A fifth of the cases publish the source messages as struct literals "
            "(&message.Message{UUID, Payload}: nil Metadata, lineage in the UUID only). Every stage honours the context of the message it is handed "
            "(a delivery whose context is already cancelled fails with ctx.Err()) and writes the metadata of its copy; failures that no scripted fault "
            "explains (uf events) go to the Router like any other, are paused 1..50 ms, and more than 20 of them for one (stage, lineage) end the case as "
            "a livelock. Every handler edits the copy it received in place (payload field replaced, hop counter incremented, mark set) "
            "and every delivery is compared with the message as published. Quick: every placement of <= 2 faults "
            "(7 kinds x stage x call 1..3) on chains of <= 2 stages with <= 2 messages (2272 cases) + every placement of <= 2 faults among "
            "{px x invocation 1..2 x position, 5 kinds x stage x call 1} on the multi-output chains 1x2, 1x3, 1x2/2, 1/2x2 (650 cases) "
            "+ 24 stop-sibling scenarios (request word ps: fan-out topic with 2..3 subscribed handlers, the dispatcher is held at hook "
            "gochannel.dispatch.next between its first and second subscription while the branch handler that already got the message is "
            "stopped with Handler.Stop() and removed; every lineage must reach the final topic through every surviving branch; monitor only) "
            "+ 200 random longer scripts (a third of the chains with multi-output stages); thorough adds every "
            "placement of <= 3 faults of the 5 plain kinds (15226 cases) and of <= 2 faults of all 7 kinds (2017 cases) on the 3-stage chain (calls 1..3), larger multi-output universes (1x2/2x2, 1/2x2/3, 1x3/2x2), 300 stop-sibling scenarios and 5000 random. Oracle: the recorded event trace must be a run "
            "of the Lean model Pipeline.act ending in a terminal state (M line) and must satisfy the C01 monitor (P line): Ack only after the "
            "real Publish returned nil for EVERY output of that invocation, sink lineages derive from a published source lineage, every derived "
            "lineage of every successfully published source lineage is at the sink at quiescence (liveness bound 30 s), every Nacked copy was followed by a later delivery, and every delivered copy is the message as published "
            "(no trace of the in-place edits of a failed attempt), and no delivery keeps failing once the scripted faults are used up "
            "(rule delivered(livelock:...)). Non-trivial = a case with an "
            "injected fault and a redelivery.",
    "trusted_base": [
        "Lean 4.33.0 kernel; axioms per theorem under theorem_axioms",
        "the obligation model lean/WmModel/Pipeline.lean: one token per (lineage, subscription) with phases pending/handling/published; its steps "
        "abstract handler.handleMessage and the GoChannel send loop as documented in the file header",
        "pipeline_refines hypotheses H1-H4 (Props/C01.lean, structure StageFacts): H1 = C02 (Router acks iff handler ok and outputs published, Ack "
        "never before Publish returned; proved in Props/C02.lean), H2 = C04/C05 (GoChannel resends after Nack until Ack: Props/C04.lean "
        "redelivery_only_after_nack, nack_means_resend), H3 = C04/C11 (Publish starts one sender per registered subscription), H4 = finite fault "
        "script; the composition of the per-stage models into the pipeline model is an argument on paper plus trace conformance, not one Lean refinement",
        "structural facts facts/expected/C01.json (skeletons of handleMessage, publishProducedMessages, sendMessageToSubscriber, sendMessage and the "
        "derived facts: Nack+return in both error branches, recover block Nacks, Ack is the single last statement, send loop continues on Nacked)",
        "harness/cmd/c01 (event log under one mutex; wrapper events are logged before the action they announce; settlements are read from the "
        "consumed copy's Acked()/Nacked() channels by a watcher goroutine, so a settle event may be logged late but never early), the monitor and the "
        "conformance replay in lean/WmModel/PipelineMon.lean",
        "Go race detector; liveness bound 30 s for quiescence",
    ],
    "assumptions": [
        "livelock shortcut: a case in which the deliveries of one copy have failed more than 20 times in a row without any scripted fault is ended "
        "as stuck without waiting for the 30 s liveness bound (on the unchanged tree not a single unscripted failure occurs, so the shortcut can "
        "only shorten runs that are failing anyway)",
        "stop-sibling class (ps): a Handler.Stop of a sibling branch is not one of the fault kinds the statement lists; it is read as a fault of "
        "that branch's chain only, and the at-least-once clause is demanded of every chain of the DAG whose handlers keep running (per-branch "
        "arrival at the final topic). These traces are judged by the monitor alone - the Lean model has no Stop step. The harness's publisher "
        "wrapper does not forward Close, because a stopped Router handler closes its publisher, which would close the shared GoChannel",
        "all subscriptions exist before the first source message is published and none is cancelled while messages flow (blocking mode would otherwise "
        "run into the known finding C05 nested-publish+pending-writer)",
        "every handler forwards 1..3 outputs per input, all returned together; faults are finite (script) and hit at most once each",
        "multi-output stages: the Lean model keeps its source-lineage abstraction (a stage of width w is a successor list repeated w times, so the "
        "model counts the copies owed and its theorems speak about source lineages); that EVERY derived lineage reaches the sink and that the Ack "
        "follows the acceptance of EVERY output is decided by the monitor on the recorded traces, not by a theorem; multi-output stages are "
        "generated in chains only",
        "real goroutine schedules are sampled (yield/sleep injection), the theorems quantify over all schedules of the model",
    ],
    "level_text": "Proof (Lean 4) over all pipeline DAGs, all source and fault scripts and all schedules of the obligation model: no published lineage is "
                  "ever without a holder (no_loss_inv), a token is given up only when the lineage is held strictly downstream (ack_after_accept), "
                  "sink entries are published lineages (sink_sound), every run is finite and ends with every lineage at the sink (all_runs_finite, "
                  "terminal_delivered); the model is tied to the code by structural facts and by conformance of recorded traces of real Router/GoChannel "
                  "pipelines under exhaustive small and random larger fault placements.",
    "level_note": "H1 (one invocation of a stage: Ack iff handled and published, Ack only after the output was handed on) is derived in Lean from the handleMessage model of C02 and the settlement model of C03 (Props/C01Stage.lean: stage_effect_eq_realEff, handle_stage_facts, pipeline_refines_handle), and that model is re-tied to the current source in this check (extract_also C02, handle_skeleton_eq_model). H2 (safety half: a subscription moves a token only along the pipeline model's edges) is derived from M_sub (Props/C01Sub.lean: sub_step_refines_token) and H3 (a Publish creates one pending token at every registered subscription and nothing elsewhere) on M_prod (Props/C01Prod.lean: publish_creates_pending_token); M_sub/M_prod are tied to the code by the conformance instances run by C04/C05/C07/C11. The liveness half of H2 (after a Nack a new copy is delivered) is nack_means_resend + progress of C04/C07; H4 is the finiteness of the fault script. What is not machine-checked is the assembly of these per-component facts into one global simulation of a multi-stage pipeline by Pipeline.act (the components are composed by the fact-checked wiring of Router and GoChannel).",
    "technique": "Lean 4 invariant + termination-measure proof over an LTS obligation model; trace conformance and property monitor on fault-injected executions",
    "explanation": "Good (Lemmas/PipelineInv.lean) is an inductive invariant over the six actions; mu (Lemmas/PipelineMeasure.lean) is a Nat measure "
                   "that drops on every step, so Lts.steps_bounded_reach bounds every run; the harness replays each recorded trace through Pipeline.act; "
                   "conf_ok_sound/conf_ok_delivers show that an accepted trace is a run of the model ending in a terminal state with every lineage at the sink.",
}
