// Package wh holds helpers shared by the per-property harness binaries:
// a seeded PRNG, the line-protocol writer, hex coding and canonical forms.
//
// Every harness binary writes, for each case, two lines to its output file:
//
//	REQ <request understood by the Lean driver of that property>
//	OBS <canonical observation of the real code>
//
// and optional "STAT key value" / "NOTE text" lines that go into the evidence.
package wh

import (
	"bufio"
	"encoding/hex"
	"flag"
	"fmt"
	"os"
	"sort"
	"strconv"
	"strings"
	"sync"
)

// Rng is a small deterministic PRNG (splitmix64); every random choice of a run derives from one seed.
type Rng struct{ s uint64 }

func NewRng(seed uint64) *Rng {
	// run the seed through the finaliser so that neighbouring seeds give unrelated streams
	z := (seed + 0x1234567) * 0x9E3779B97F4A7C15
	z = (z ^ (z >> 30)) * 0xBF58476D1CE4E5B9
	z = (z ^ (z >> 27)) * 0x94D049BB133111EB
	return &Rng{s: z ^ (z >> 31)}
}

func (r *Rng) Next() uint64 {
	r.s += 0x9E3779B97F4A7C15
	z := r.s
	z = (z ^ (z >> 30)) * 0xBF58476D1CE4E5B9
	z = (z ^ (z >> 27)) * 0x94D049BB133111EB
	return z ^ (z >> 31)
}

// Intn returns a number in [0,n).
func (r *Rng) Intn(n int) int {
	if n <= 0 {
		return 0
	}
	return int(r.Next() % uint64(n))
}

func (r *Rng) Bool() bool { return r.Next()&1 == 1 }

// Pick returns one of the strings.
func (r *Rng) Pick(xs ...string) string { return xs[r.Intn(len(xs))] }

// Fork derives an independent generator (for goroutines) deterministically.
func (r *Rng) Fork() *Rng { return NewRng(r.Next()) }

// Hex encodes bytes as one token; the empty string is "-".
func Hex(b []byte) string {
	if len(b) == 0 {
		return "-"
	}
	return hex.EncodeToString(b)
}

func HexS(s string) string { return Hex([]byte(s)) }

// Meta renders a metadata map canonically: key=value pairs (hex), sorted by key, comma separated; empty map is "-".
func Meta(m map[string]string) string {
	if len(m) == 0 {
		return "-"
	}
	keys := make([]string, 0, len(m))
	for k := range m {
		keys = append(keys, k)
	}
	sort.Strings(keys)
	parts := make([]string, len(keys))
	for i, k := range keys {
		parts[i] = HexS(k) + "=" + HexS(m[k])
	}
	return strings.Join(parts, ",")
}

// Out is the case writer.
type Out struct {
	mu    sync.Mutex
	w     *bufio.Writer
	f     *os.File
	Cases int
	stats map[string]int
}

func NewOut(path string) *Out {
	f, err := os.Create(path)
	if err != nil {
		fmt.Fprintln(os.Stderr, "cannot create", path, err)
		os.Exit(2)
	}
	return &Out{w: bufio.NewWriterSize(f, 1<<20), f: f, stats: map[string]int{}}
}

// Case writes one request/observation pair.
func (o *Out) Case(req, obs string) {
	o.mu.Lock()
	defer o.mu.Unlock()
	o.Cases++
	fmt.Fprintf(o.w, "REQ %s\nOBS %s\n", req, obs)
}

// Flush writes buffered cases to the file (call it after a case that hit a liveness bound, so that the evidence survives
// if the run is stopped from outside).
func (o *Out) Flush() {
	o.mu.Lock()
	o.w.Flush()
	o.mu.Unlock()
}

// Count increments a named counter reported in the evidence (input distribution, branches hit).
func (o *Out) Count(key string) { o.Add(key, 1) }

func (o *Out) Add(key string, n int) {
	o.mu.Lock()
	o.stats[key] += n
	o.mu.Unlock()
}

func (o *Out) Note(text string) {
	o.mu.Lock()
	fmt.Fprintf(o.w, "NOTE %s\n", strings.ReplaceAll(text, "\n", " "))
	o.mu.Unlock()
}

// Begin marks the start of a unit of work (one scenario) and flushes: when the process dies inside the unit (a panic in
// a library goroutine cannot be recovered by the harness) the check attributes the crash to this unit.
func (o *Out) Begin(text string) {
	o.Note("BEGIN " + text)
	o.Flush()
}

func (o *Out) Close() {
	o.mu.Lock()
	defer o.mu.Unlock()
	keys := make([]string, 0, len(o.stats))
	for k := range o.stats {
		keys = append(keys, k)
	}
	sort.Strings(keys)
	for _, k := range keys {
		fmt.Fprintf(o.w, "STAT %s %d\n", k, o.stats[k])
	}
	o.w.Flush()
	o.f.Close()
}

// Args are the flags every harness binary understands.
type Args struct {
	Tier   string
	Seed   uint64
	Out    string
	Replay string
}

func ParseArgs() Args {
	var a Args
	flag.StringVar(&a.Tier, "tier", "quick", "quick|thorough")
	flag.Uint64Var(&a.Seed, "seed", 1, "PRNG seed")
	flag.StringVar(&a.Out, "out", "cases.txt", "output file")
	flag.StringVar(&a.Replay, "replay", "", "replay one request line instead of generating")
	flag.Parse()
	if a.Tier != "quick" && a.Tier != "thorough" {
		fmt.Fprintln(os.Stderr, "bad tier")
		os.Exit(2)
	}
	return a
}

func (a Args) Thorough() bool { return a.Tier == "thorough" }

func Itoa(n int) string { return strconv.Itoa(n) }

// PanicText maps a recovered panic value to a stable token.
func PanicText(v interface{}) string {
	return "panic(" + HexS(fmt.Sprint(v)) + ")"
}
