package gc

import "wmverif/wh"

// Focus selects which behaviours a generated scenario stresses.
type Focus struct {
	Blocking   int // permille of scenarios with BlockPublishUntilSubscriberAck
	Persistent int
	Cancel     int // permille of subscriptions that cancel their context at some delivery
	Hold       int // permille of subscriptions that never settle
	Nested     int // permille of subscriptions publishing to another topic before acking
	Late       int // permille of subscriptions created concurrently with / after the publishers
	CloseRace  int // permille of scenarios closing the Pub/Sub while publishers run
	Decorators int // permille of scenarios with 1..2 transform decorators
	MaxSubs    int
	MaxPubs    int
	MaxMsgs    int
}

// Random builds a seeded scenario.
func Random(r *wh.Rng, f Focus) Scenario {
	sc := Scenario{Seed: r.Next(), YieldPermille: []int{0, 100, 300, 600}[r.Intn(4)]}
	sc.Buf = []int{0, 0, 1, 3}[r.Intn(4)]
	sc.Blocking = r.Intn(1000) < f.Blocking
	sc.Persistent = r.Intn(1000) < f.Persistent
	sc.CloseDuring = r.Intn(1000) < f.CloseRace
	sc.SecondClose = r.Intn(3) == 0
	sc.LateOps = r.Intn(2) == 0
	if r.Intn(1000) < f.Decorators {
		sc.Decorators = 1 + r.Intn(2)
	}
	topics := 1 + r.Intn(3)
	nsub := 1 + r.Intn(f.MaxSubs)
	for i := 0; i < nsub; i++ {
		s := SubSpec{Topic: r.Intn(topics), CancelAtRecv: -1, NestedTopic: -1}
		if r.Intn(1000) < f.Late {
			s.Phase = 1 + r.Intn(2)
		}
		switch r.Intn(4) {
		case 0:
			s.NackFirst = 1 + r.Intn(3)
			s.NackEvery = 1 + r.Intn(3)
		case 1:
			s.Mutate = true
			s.NackFirst = r.Intn(2)
		case 2:
			s.SlowUs = r.Intn(300)
		}
		if r.Intn(1000) < f.Cancel {
			s.CancelAtRecv = r.Intn(3)
			s.LeaveUnsettle = r.Bool()
		}
		if r.Intn(1000) < f.Hold {
			s.HoldAll = true
		}
		if r.Intn(1000) < f.Nested && topics > 1 {
			// publishing to the own topic from the receive loop would feed itself forever
			s.NestedTopic = (s.Topic + 1) % topics
		}
		sc.Subs = append(sc.Subs, s)
	}
	// a nested publish must not land on a topic whose subscribers nest back (endless ping-pong)
	nestTargets := map[int]bool{}
	for _, s := range sc.Subs {
		if s.NestedTopic >= 0 {
			nestTargets[s.NestedTopic] = true
		}
	}
	for i := range sc.Subs {
		if sc.Subs[i].NestedTopic >= 0 && nestTargets[sc.Subs[i].Topic] {
			sc.Subs[i].NestedTopic = -1
		}
	}
	if sc.Blocking {
		// known finding D11: a blocking Publish holds the read lock while it waits for the acks; a pending writer
		// (Subscribe / unsubscribe after cancel) then blocks the subscriber's nested Publish. The dedicated
		// scenario D11() reproduces it; random scenarios keep clear of it (each hit would cost the liveness bound).
		writer := false
		for _, s := range sc.Subs {
			if s.Phase != 0 || s.CancelAtRecv >= 0 || s.HoldAll {
				writer = true
			}
		}
		if writer {
			for i := range sc.Subs {
				sc.Subs[i].NestedTopic = -1
			}
		}
	}
	npub := 1 + r.Intn(f.MaxPubs)
	for i := 0; i < npub; i++ {
		sc.Pubs = append(sc.Pubs, PubSpec{Topic: r.Intn(topics), Calls: 1 + r.Intn(f.MaxMsgs), Batch: 1 + r.Intn(2)})
	}
	return sc
}

// D11 reproduces the known finding "nested publish + pending writer" deterministically.
func D11() Scenario {
	return Scenario{Buf: 0, Blocking: true, Tag: "d11", Wait: 3 * 1000 * 1000 * 1000, Seed: 11,
		Subs:     []SubSpec{{Topic: 0, CancelAtRecv: -1, NestedTopic: 1, SlowUs: 80000}},
		Pubs:     []PubSpec{{Topic: 0, Calls: 1, Batch: 1}},
		ParkHook: "gochannel.publish.wait_ack", ParkOp: "subscribe"}
}

// NestedFan: blocking mode, a subscriber that publishes to many other topics of the same Pub/Sub from its receive loop
// before acking ("also when subscribers publish from their receive loop") - every one of those calls must return.
func NestedFan(seed uint64, fan int) Scenario {
	return Scenario{Buf: 0, Blocking: true, Seed: seed, Wait: 10 * 1000 * 1000 * 1000,
		Subs: []SubSpec{{Topic: 0, CancelAtRecv: -1, NestedTopic: -1, NestedFan: fan}},
		Pubs: []PubSpec{{Topic: 0, Calls: 1, Batch: 1}}}
}

// BigBacklog: persistent mode with a backlog of well over a thousand messages (the property quantifies over all message
// counts): one subscription arrives while the publisher is still running and the backlog is already large, one after
// the publisher finished.
func BigBacklog(seed uint64) Scenario {
	calls := 160 + int(seed%100)
	if calls*8%1000 == 0 {
		calls++
	}
	return Scenario{Buf: 4, Persistent: true, Seed: seed, Big: true,
		Subs: []SubSpec{
			{Topic: 0, Phase: 1, AfterPubs: calls - 25, CancelAtRecv: -1, NestedTopic: -1},
			{Topic: 0, Phase: 2, CancelAtRecv: -1, NestedTopic: -1}},
		Pubs: []PubSpec{{Topic: 0, Calls: calls, Batch: 8}}}
}

// DupUUIDs: persistent mode, messages that share a UUID or have none; one subscription before, one during, one after.
func DupUUIDs(seed uint64) Scenario {
	return Scenario{Buf: int(seed % 3), Persistent: true, Seed: seed, Big: true, DupUUID: true,
		Subs: []SubSpec{
			{Topic: 0, Phase: 0, CancelAtRecv: -1, NestedTopic: -1},
			{Topic: 0, Phase: 1, AfterPubs: 3, CancelAtRecv: -1, NestedTopic: -1, NackFirst: 1, NackEvery: 3},
			{Topic: 0, Phase: 2, CancelAtRecv: -1, NestedTopic: -1}},
		Pubs: []PubSpec{{Topic: 0, Calls: 6, Batch: 2}, {Topic: 0, Calls: 4, Batch: 1}}}
}

// FreshTopics: persistent mode, three publishers whose n-th calls start together and go to a topic nobody has used
// before; afterwards one subscription per topic, which must be replayed all three messages.
func FreshTopics(seed uint64, n int) Scenario {
	sc := Scenario{Buf: 1, Persistent: true, Seed: seed, Big: true, LockStep: true,
		Pubs: []PubSpec{{Topic: 2000, Calls: n, Batch: 1, TopicPerCall: true}, {Topic: 2000, Calls: n, Batch: 1, TopicPerCall: true},
			{Topic: 2000, Calls: n, Batch: 1, TopicPerCall: true}}}
	for c := 0; c < n; c++ {
		sc.Subs = append(sc.Subs, SubSpec{Topic: 2000 + c, Phase: 2, CancelAtRecv: -1, NestedTopic: -1})
	}
	return sc
}
