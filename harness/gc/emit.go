package gc

import (
	"strings"

	"wmverif/wh"
)

var stuckTotal int

// EmitProd: also emit the merged registry+subscription streams for the conformance check with M_prod (set by the harness of C05).
var EmitProd bool

// TooManyStuck reports that several scenarios ran into the liveness bound: the caller stops generating
// (every further hit costs the full bound; the evidence already contains the failures).
func TooManyStuck() bool { return stuckTotal >= 3 }

// Emit writes the protocol lines of one scenario and its statistics.
func Emit(out *wh.Out, res *Result) {
	if len(res.Stuck) > 0 && res.Sc.Tag == "" {
		stuckTotal++
	}
	if !res.Sc.Big {
		for _, l := range res.SubStreams() {
			out.Case(l, "ok")
		}
		for _, l := range res.TopicStreams() {
			out.Case(l, "ok")
		}
		if l := res.RegStream(); l != "" {
			out.Case(l, "ok")
			if EmitProd {
				for _, pl := range res.ProdStreams() {
					out.Case(pl, "ok")
				}
			}
		}
	}
	out.Case(res.TopTrace(), "ok")
	out.Add("events", len(res.Events))
	for _, e := range res.Events {
		switch e.Kind {
		case "rv":
			out.Count("deliveries")
		case "nk":
			out.Count("nacks")
		case "cx":
			out.Count("cancels")
		case "note":
			out.Note(strings.Join(e.F, " "))
		}
	}
	for _, s := range res.Stuck {
		out.Note("STUCK: " + s + " :: " + res.Sc.Describe())
		out.Count("stuck")
	}
	out.Flush() // keep the file current: a run stopped from outside must not lose the evidence gathered so far
	if res.Leftover > 0 {
		out.Note("LEFTOVER goroutine: " + strings.ReplaceAll(res.LeftDump, "\n", " | "))
	}
}
