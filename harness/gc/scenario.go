package gc

import (
	"bytes"
	"context"
	"fmt"
	"reflect"
	"runtime"
	"strconv"
	"strings"
	"sync"
	"sync/atomic"
	"time"

	"github.com/ThreeDotsLabs/watermill"
	"github.com/ThreeDotsLabs/watermill/message"
	"github.com/ThreeDotsLabs/watermill/pubsub/gochannel"
)

// SubSpec scripts one subscription and its consumer.
type SubSpec struct {
	Topic         int
	Phase         int  // 0: subscribed before the publishers start, 1: concurrently with them, 2: after they finished
	NackFirst     int  // nack each selected message this many times before acking it
	NackEvery     int  // select every n-th distinct message for nacking (0/1 = all)
	CancelAtRecv  int  // cancel the Subscribe context on the k-th delivery (-1: never)
	LeaveUnsettle bool // the delivery during which the context is cancelled is never settled
	Mutate        bool // edit the received copy's metadata before settling it
	SlowUs        int  // delay before settling
	RecvDelayUs   int  // delay after settling, before the consumer receives again
	HoldAll       bool // never settle; the controller cancels the subscription later
	HoldQuiet     bool // with HoldAll: the consumer does not cancel by itself either (only the controller does, after the delivery goals of the others)
	NestedTopic   int  // publish a fresh message to this topic before acking (-1: no)
	AfterPubs     int  // phase 1 only: subscribe once this many Publish calls were started (a backlog has built up)
	PreCancel     bool // the Subscribe context is already cancelled when Subscribe is called
	PlainCtx      bool // the Subscribe context cannot be cancelled at all (context.Background() with a value): the subscription ends with Close
	NoRead        bool // the consumer does not read from its channel until a Close of the Pub/Sub has returned (senders stay blocked in the hand-over)
	NestedFan     int  // on the first delivery additionally publish one message to each of this many other topics before acking
}

// PubSpec scripts one publisher goroutine: Calls sequential Publish calls of Batch messages each.
type PubSpec struct {
	Topic        int
	Calls        int
	Batch        int
	TopicPerCall bool // call c goes to topic Topic+c (every call opens a topic nobody has used before)
}

type Scenario struct {
	Buf           int
	Persistent    bool
	Blocking      bool
	Subs          []SubSpec
	Pubs          []PubSpec
	YieldPermille int
	SlowLogUs     int  // the Pub/Sub's logger takes this long per Debug call (widens every window that contains such a log statement)
	EmptyFirst    bool // before anything else: one Publish call with no messages on topic 0 (legal; Big scenarios only - it is not part of the token streams)
	CloseDuring   bool // Close runs concurrently with the publishers
	CloseAfterUs  int  // CloseDuring: start the Close this long after the publishers (0: a random moment within 300 µs)
	SecondClose   bool // a second Close call races the first
	LateOps       bool // Publish and Subscribe after Close returned (must fail)
	Decorators    int  // MessageTransform subscriber decorators in front of the Pub/Sub
	Seed          uint64
	// Parks: hook points at which the first arriving goroutine is held until the controller's interfering op ran.
	ParkHook string
	ParkOp   string // "close" | "cancel0" | "publish" | "subscribe"
	DupUUID  bool          // half of the messages share the UUID "dup" or have an empty UUID (UUIDs are for debugging only; legal)
	LockStep bool          // the publisher goroutines wait for each other before every call (their calls start together)
	Big      bool          // many messages: only the top-level trace is emitted (monitors), not the per-model conformance streams
	Tag      string        // names a hand-written scenario (e.g. the reproduction of a known finding)
	Wait     time.Duration // liveness bound (default 30s)
}

func (sc Scenario) Cfg() string {
	b := func(x bool) string {
		if x {
			return "1"
		}
		return "0"
	}
	tag := sc.Tag
	if tag == "" {
		tag = "rnd"
	}
	return fmt.Sprintf("%d %s %s %s", sc.Buf, b(sc.Persistent), b(sc.Blocking), tag)
}

// Describe renders the scenario script (for replay files and diagnostics).
func (sc Scenario) Describe() string { return fmt.Sprintf("%+v", sc) }

type Result struct {
	Sc       Scenario
	Events   []Event
	SubUUID  map[int]string // sid -> subscriber uuid inside GoChannel ("" if unknown, e.g. behind decorators)
	Stuck    []string       // liveness problems (publishers / goals / close / consumers did not finish in time)
	Leftover int            // goroutines still inside pubsub/gochannel or the transform decorator at the end
	LeftDump string
	Wall     time.Duration

	// filled by RegStream for ProdStreams: the registry tokens, the index of the log event each comes from, uuid numbering
	regToks   []string
	regIdx    []int
	regUuidNo map[string]int
}

type subCtxKey struct{}

var poisoned int32 // a previous scenario of this process left goroutines behind: the census is meaningless from then on

type orig struct {
	uuid    string
	payload []byte
	meta    map[string]string
	metaPtr uintptr
}

var endedCtx = func() context.Context {
	c, cancel := context.WithCancel(context.Background())
	cancel()
	return c
}()

// slowLogger stands for a logger that does real work (formatting, I/O): every Debug/Trace call takes a while.
type slowLogger struct{ d time.Duration }

func (l slowLogger) Error(string, error, watermill.LogFields) {}
func (l slowLogger) Info(string, watermill.LogFields)         {}
func (l slowLogger) Debug(string, watermill.LogFields)        { time.Sleep(l.d) }
func (l slowLogger) Trace(string, watermill.LogFields)        {}
func (l slowLogger) With(watermill.LogFields) watermill.LoggerAdapter {
	return l
}

func scenarioLogger(sc Scenario) watermill.LoggerAdapter {
	if sc.SlowLogUs > 0 {
		return slowLogger{time.Duration(sc.SlowLogUs) * time.Microsecond}
	}
	return watermill.NopLogger{}
}

// Run executes one scenario against the real GoChannel and returns the recorded log.
func Run(sc Scenario) *Result {
	t0 := time.Now()
	waitLong := 30 * time.Second
	if sc.Wait > 0 {
		waitLong = sc.Wait
	}
	rec := NewRec(sc.Seed, sc.YieldPermille)
	message.SetVerifHook(rec.Hook)
	defer message.SetVerifHook(nil)
	res := &Result{Sc: sc, SubUUID: map[int]string{}}
	closeReturned := make(chan struct{}) // closed when the first Close call of the scenario has returned
	var closeReturnedOnce sync.Once

	ps := gochannel.NewGoChannel(gochannel.Config{
		OutputChannelBuffer:            int64(sc.Buf),
		Persistent:                     sc.Persistent,
		BlockPublishUntilSubscriberAck: sc.Blocking,
	}, scenarioLogger(sc))
	var sub message.Subscriber = ps
	// one decorator value applied to every layer (what Router.AddSubscriberDecorators does per handler): the layers must
	// not share anything through it
	dec := message.MessageTransformSubscriberDecorator(func(m *message.Message) {})
	for i := 0; i < sc.Decorators; i++ {
		d, _ := dec(sub)
		sub = d
	}

	var mu sync.Mutex
	originals := map[int]*orig{}
	seenPtr := map[*message.Message]bool{}
	seenMeta := map[uintptr]bool{}
	var nextU int64
	newMsg := func() (*message.Message, int) {
		u := int(atomic.AddInt64(&nextU, 1))
		x := splitmix(sc.Seed ^ uint64(u)*77)
		payload := []byte(fmt.Sprintf("p%d-%x", u, x))
		if x%7 == 0 {
			payload = nil
		}
		m := message.NewMessage("m"+strconv.Itoa(u), payload)
		if sc.DupUUID && u%2 == 0 {
			// identified by its payload instead ("p<u>-…")
			payload = []byte(fmt.Sprintf("p%d-%x", u, x))
			id := "dup"
			if u%4 == 0 {
				id = ""
			}
			// the UUID is set on the struct (not through the constructor): a cleared or never-set UUID is legal
			m = message.NewMessage("x", payload)
			m.UUID = id
			m.Metadata.Set("k", "v"+strconv.Itoa(u))
		} else if x%11 == 5 {
			// a message built without the constructor: no metadata map at all (legal; every delivery must still be a
			// usable message with a metadata map of its own)
			m = &message.Message{UUID: "m" + strconv.Itoa(u), Payload: payload}
		} else {
			m.Metadata.Set("k", "v"+strconv.Itoa(u))
			if x%3 == 0 {
				m.Metadata.Set("", "")
			}
			if x%5 == 1 {
				// metadata is a map of Go strings: bytes that are not valid UTF-8 are legal and must arrive as they are
				m.Metadata["bin\xff"] = "\xfe\x80" + strconv.Itoa(u)
				m.Metadata["bin\xfe"] = "other"
			}
		}
		if x%13 == 3 {
			// the publisher's message carries a context of its own that has already ended (a consumed message published again, a
			// request whose deadline passed): it is the publisher's business only - deliveries get the Subscribe context
			m.SetContext(endedCtx)
		}
		o := &orig{uuid: m.UUID, payload: append([]byte(nil), payload...), meta: map[string]string{}, metaPtr: reflect.ValueOf(m.Metadata).Pointer()}
		for k, v := range m.Metadata {
			o.meta[k] = v
		}
		mu.Lock()
		originals[u] = o
		seenPtr[m] = true
		seenMeta[o.metaPtr] = true
		mu.Unlock()
		return m, u
	}
	// reMsg re-registers an object the publisher already used under a new UUID, with its current contents as the original
	reMsg := func(m *message.Message) (*message.Message, int) {
		u := int(atomic.AddInt64(&nextU, 1))
		m.UUID = "m" + strconv.Itoa(u)
		o := &orig{uuid: m.UUID, payload: append([]byte(nil), m.Payload...), meta: map[string]string{}, metaPtr: reflect.ValueOf(m.Metadata).Pointer()}
		for k, v := range m.Metadata {
			o.meta[k] = v
		}
		mu.Lock()
		originals[u] = o
		mu.Unlock()
		return m, u
	}
	recycle := map[int][]*message.Message{}
	topic := func(t int) string { return "t" + strconv.Itoa(t) }
	b01 := func(x bool) string {
		if x {
			return "1"
		}
		return "0"
	}

	var pidCounter, pubStarted int64
	publish := func(t int, batch int, thread int) {
		pid := int(atomic.AddInt64(&pidCounter, 1))
		msgs := make([]*message.Message, batch)
		us := make([]string, batch)
		for i := range msgs {
			var u int
			// every fourth call of a publisher thread recycles the message objects of its previous call: same objects,
			// new UUID, whatever payload and metadata they have by now (Publish must treat them like any other message)
			mu.Lock()
			old := recycle[thread]
			mu.Unlock()
			if pid%4 == 0 && i < len(old) {
				msgs[i], u = reMsg(old[i])
			} else {
				msgs[i], u = newMsg()
			}
			us[i] = strconv.Itoa(u)
		}
		mu.Lock()
		recycle[thread] = msgs
		mu.Unlock()
		usStr := strings.Join(us, "+")
		if batch == 0 {
			usStr = "-" // a Publish call without messages (legal)
		}
		rec.Log("pc", itoa(pid), itoa(t), usStr, itoa(thread))
		atomic.AddInt64(&pubStarted, 1)
		out := "ok"
		func() {
			defer func() {
				if r := recover(); r != nil {
					out = "panic"
					rec.Log("note", fmt.Sprint("publish panic: ", r))
				}
			}()
			if err := ps.Publish(topic(t), msgs...); err != nil {
				out = "err"
			}
		}()
		// the publisher goes on using its own message objects once Publish has returned: deliveries (live, redelivered
		// after a Nack, replayed) must come from the copies Publish took, so none of this may ever be seen by a consumer
		// (Message.Copy shares the payload's backing array, hence the field is replaced, not written through)
		for _, m := range msgs {
			m.Payload = []byte("edited-after-publish")
			if m.Metadata == nil {
				m.Metadata = message.Metadata{}
			}
			m.Metadata.Set("k", "edited-after-publish")
			m.Metadata.Set("late", "1")
		}
		rec.Log("pr", itoa(pid), out)
	}

	cancels := map[int]context.CancelFunc{}
	var consumers sync.WaitGroup
	lateSid := int64(len(sc.Subs))
	subscribe := func(spec SubSpec, sid int) {
		if sid < 0 {
			sid = int(atomic.AddInt64(&lateSid, 1)) - 1
		}
		ctx, cancel := context.WithCancel(context.WithValue(context.Background(), subCtxKey{}, sid))
		if spec.PlainCtx {
			cancel() // (the derived context is not used)
			ctx, cancel = context.WithValue(context.Background(), subCtxKey{}, sid), func() {}
		}
		mu.Lock()
		cancels[sid] = cancel
		mu.Unlock()
		rec.Log("sc", itoa(sid), itoa(spec.Topic))
		if spec.PreCancel {
			rec.Log("cx", itoa(sid))
			cancel()
		}
		var ch <-chan *message.Message
		var err error
		out := "ok"
		func() {
			defer func() {
				if r := recover(); r != nil {
					out = "panic"
					rec.Log("note", fmt.Sprint("subscribe panic: ", r))
				}
			}()
			ch, err = sub.Subscribe(ctx, topic(spec.Topic))
			if err != nil {
				out = "err"
			}
		}()
		rec.Log("sr", itoa(sid), out, fmt.Sprintf("%p", ch))
		if out != "ok" {
			return
		}
		consumers.Add(1)
		go func() {
			defer consumers.Done()
			if spec.NoRead {
				// nobody reads: whatever is handed over stays in the hand-over until the Pub/Sub is closed; afterwards the
				// channel (closed by then) is drained without settling anything
				select {
				case <-closeReturned:
				case <-time.After(2 * waitLong):
				}
				for range ch {
					rec.Log("dr", itoa(sid)) // a copy that sat in the channel's buffer; never settled
				}
				rec.Log("zz", itoa(sid))
				return
			}
			nacks := map[int]int{}
			distinct := 0
			k := 0
			for msg := range ch {
				u, _ := strconv.Atoi(strings.TrimPrefix(msg.UUID, "m"))
				if !strings.HasPrefix(msg.UUID, "m") && len(msg.Payload) > 1 && msg.Payload[0] == 'p' {
					if i := bytes.IndexByte(msg.Payload, '-'); i > 1 {
						u, _ = strconv.Atoi(string(msg.Payload[1:i]))
					}
				}
				mu.Lock()
				o := originals[u]
				mp := reflect.ValueOf(msg.Metadata).Pointer()
				fresh := !seenPtr[msg] && !seenMeta[mp]
				seenPtr[msg] = true
				seenMeta[mp] = true
				mu.Unlock()
				same := o != nil && msg.UUID == o.uuid && bytes.Equal(msg.Payload, o.payload) && len(msg.Metadata) == len(o.meta)
				if same {
					for kk, v := range o.meta {
						if vv, ok := msg.Metadata[kk]; !ok || vv != v {
							same = false
						}
					}
				}
				live := msg.Context().Err() == nil
				derives := msg.Context().Value(subCtxKey{}) == sid
				rec.Log("rv", itoa(sid), itoa(k), itoa(u), itoa(len(ch)), b01(live), b01(same), b01(fresh), b01(derives))
				if spec.Mutate {
					msg.Metadata.Set("mutated-by", itoa(sid))
					msg.Metadata.Set("k", "overwritten")
				}
				if spec.SlowUs > 0 {
					time.Sleep(time.Duration(spec.SlowUs) * time.Microsecond)
				}
				cancelNow := spec.CancelAtRecv == k
				if cancelNow {
					rec.Log("cx", itoa(sid))
					cancel()
				}
				if spec.HoldAll && !spec.HoldQuiet && k == 0 {
					// never settles: the subscription is cancelled a little later (blocking publishers wait for that)
					go func() {
						time.Sleep(time.Millisecond)
						rec.Log("cx", itoa(sid))
						cancel()
					}()
				}
				if spec.HoldAll || (cancelNow && spec.LeaveUnsettle) {
					k++
					continue
				}
				if spec.NestedTopic >= 0 {
					publish(spec.NestedTopic, 1, 100+sid)
				}
				if spec.NestedFan > 0 && k == 0 {
					// the property quantifies over all topic names: a receive loop that publishes to many other topics
					for t := 0; t < spec.NestedFan; t++ {
						publish(1000+t, 1, 100+sid)
					}
				}
				if _, ok := nacks[u]; !ok {
					n := spec.NackFirst
					if spec.NackEvery > 1 && distinct%spec.NackEvery != 0 {
						n = 0
					}
					nacks[u] = n
					distinct++
				}
				if nacks[u] > 0 {
					nacks[u]--
					rec.Log("nk", itoa(sid), itoa(k), itoa(len(ch)))
					msg.Nack()
				} else {
					rec.Log("ak", itoa(sid), itoa(k), itoa(len(ch)))
					msg.Ack()
					// "cancelled after the Ack": the sender observes the Ack, returns and cancels the copy's context
					select {
					case <-msg.Context().Done():
						rec.Log("cd", itoa(sid), itoa(k), "1")
					case <-time.After(waitLong):
						rec.Log("cd", itoa(sid), itoa(k), "0")
					}
				}
				k++
				if spec.RecvDelayUs > 0 {
					// busy elsewhere before it comes back for the next message (which meanwhile waits in the channel's buffer)
					time.Sleep(time.Duration(spec.RecvDelayUs) * time.Microsecond)
				}
			}
			rec.Log("zz", itoa(sid))
		}()
	}

	doClose := func(cid int) chan struct{} {
		done := make(chan struct{})
		go func() {
			defer close(done)
			defer closeReturnedOnce.Do(func() { close(closeReturned) })
			rec.Log("cc", itoa(cid))
			out := "ok"
			func() {
				defer func() {
					if r := recover(); r != nil {
						out = "panic"
						rec.Log("note", fmt.Sprint("close panic: ", r))
					}
				}()
				if err := sub.Close(); err != nil {
					out = "err"
				}
			}()
			rec.Log("cr", itoa(cid), out)
		}()
		return done
	}
	waitCh := func(ch chan struct{}, what string) bool {
		bound := waitLong
		if len(res.Stuck) > 0 {
			bound = time.Second // the scenario already ran into the liveness bound once: do not pay it again for every later wait
		}
		select {
		case <-ch:
			return true
		case <-time.After(bound):
			res.Stuck = append(res.Stuck, what)
			return false
		}
	}
	waitWG := func(wg *sync.WaitGroup, what string) bool {
		ch := make(chan struct{})
		go func() { wg.Wait(); close(ch) }()
		return waitCh(ch, what)
	}

	if sc.EmptyFirst {
		func() {
			defer func() {
				if r := recover(); r != nil {
					rec.Log("note", fmt.Sprint("publish panic: ", r))
				}
			}()
			err := ps.Publish(topic(0))
			rec.Log("note", fmt.Sprint("empty Publish on topic 0 returned ", err))
		}()
	}
	// ---- phase 0
	for i, s := range sc.Subs {
		if s.Phase == 0 {
			subscribe(s, i)
		}
	}
	// ---- optional park: hold the first goroutine arriving at ParkHook while ParkOp runs
	var park *Park
	if sc.ParkHook != "" {
		park = rec.ParkAt(sc.ParkHook, nil)
	}
	// ---- phase 1
	var pubs sync.WaitGroup
	var stepArrived int64
	for i, p := range sc.Pubs {
		p, i := p, i
		pubs.Add(1)
		go func() {
			defer pubs.Done()
			for c := 0; c < p.Calls; c++ {
				if sc.LockStep {
					atomic.AddInt64(&stepArrived, 1)
					for spins := 0; atomic.LoadInt64(&stepArrived) < int64(len(sc.Pubs)*(c+1)); spins++ {
						if spins > 500 {
							runtime.Gosched()
						}
					}
				}
				t := p.Topic
				if p.TopicPerCall {
					t += c
				}
				publish(t, p.Batch, i)
			}
		}()
	}
	var phase1 sync.WaitGroup
	for i, s := range sc.Subs {
		if s.Phase == 1 {
			s, i := s, i
			phase1.Add(1)
			go func() {
				defer phase1.Done()
				for deadline := time.Now().Add(5 * time.Second); int(atomic.LoadInt64(&pubStarted)) < s.AfterPubs && time.Now().Before(deadline); {
					runtime.Gosched()
				}
				subscribe(s, i)
			}()
		}
	}
	var closeDone []chan struct{}
	closed := false
	if park != nil {
		if sc.ParkOp == "close2" {
			// the hook lies on the path a Close call waits for: a first Close is started so that somebody gets there,
			// the interfering operation is a second, overlapping Close
			closeDone = append(closeDone, doClose(0))
			closed = true
		}
		if park.WaitArrived(300 * time.Millisecond) {
			rec.Log("note", "parked at "+sc.ParkHook+" running "+sc.ParkOp)
			opDone := make(chan struct{})
			go func() {
				defer close(opDone)
				switch sc.ParkOp {
				case "close":
					<-doClose(0)
				case "close2":
					<-doClose(1)
				case "cancel0":
					mu.Lock()
					c := cancels[0]
					mu.Unlock()
					if c != nil {
						rec.Log("cx", "0")
						c()
						// the cancel takes effect in the unsubscribe goroutine: let it get as far as it can while the other side is held
						time.Sleep(2 * time.Millisecond)
					}
				case "publish":
					publish(0, 1, 200)
				case "subscribe":
					subscribe(SubSpec{Topic: 0, Phase: 1, CancelAtRecv: -1, NestedTopic: -1}, -1)
				}
			}()
			// the interfering op may legitimately block until the parked goroutine moves on: give it a moment, then release
			select {
			case <-opDone:
			case <-time.After(30 * time.Millisecond):
			}
			park.Release()
			waitCh(opDone, "interfering op "+sc.ParkOp+" at "+sc.ParkHook)
			if sc.ParkOp == "close" {
				closed = true
			}
		} else {
			rec.Log("note", "nobody reached "+sc.ParkHook)
			park.Release()
		}
	}
	if sc.CloseDuring && !closed {
		if sc.CloseAfterUs > 0 {
			time.Sleep(time.Duration(sc.CloseAfterUs) * time.Microsecond)
		} else {
			time.Sleep(time.Duration(splitmix(sc.Seed)%300) * time.Microsecond)
		}
		closeDone = append(closeDone, doClose(0))
		if sc.SecondClose {
			closeDone = append(closeDone, doClose(1))
		}
		closed = true
	}
	pubsOK := waitWG(&pubs, "publishers did not return")
	waitWG(&phase1, "concurrent Subscribe calls did not return")
	// ---- phase 2
	if !closed {
		for i, s := range sc.Subs {
			if s.Phase == 2 {
				subscribe(s, i)
			}
		}
	}
	// ---- wait for the delivery goals (computed from the log exactly as the monitors compute obligations)
	if pubsOK && !closed {
		deadline := time.Now().Add(waitLong)
		lastPending, lastLen := -1, 0
		nextProgressCheck := time.Now()
		for {
			// the marker must describe the log exactly as it is when it is written: a consumer's nested Publish is not one of the
			// publishers waited for above and may log a new message at any moment (false alarm of sweep 8, C04 thorough seed 51)
			if rec.LogIf(func(evs []Event) bool { return len(PendingGoals(evs, sc)) == 0 }, "goals") {
				break
			}
			// the bound is on the time without progress, not on the whole wait: a backlog of thousands of messages on a loaded machine
			// legitimately takes longer than the bound (false alarm of sweep 9, C11 thorough seed 65)
			if now := time.Now(); now.After(nextProgressCheck) {
				nextProgressCheck = now.Add(250 * time.Millisecond)
				if n := rec.Len(); n != lastLen {
					lastLen = n
					if p := len(PendingGoals(rec.Snapshot(), sc)); p != lastPending {
						lastPending = p
						deadline = now.Add(waitLong)
					}
				}
			}
			if time.Now().After(deadline) {
				res.Stuck = append(res.Stuck, fmt.Sprintf("delivery goals not reached: %v", PendingGoals(rec.Snapshot(), sc)))
				break
			}
			time.Sleep(200 * time.Microsecond)
		}
	}
	// ---- release subscriptions that never settle
	for i, s := range sc.Subs {
		if s.HoldAll {
			mu.Lock()
			c := cancels[i]
			mu.Unlock()
			if c != nil {
				rec.Log("cx", itoa(i))
				c()
			}
		}
	}
	if !closed {
		closeDone = append(closeDone, doClose(0))
		if sc.SecondClose {
			closeDone = append(closeDone, doClose(1))
		}
	}
	for i, d := range closeDone {
		waitCh(d, fmt.Sprintf("Close call %d did not return", i))
	}
	waitWG(&consumers, "consumers did not see their channel closed")
	if sc.LateOps {
		late := make(chan struct{})
		go func() {
			defer close(late)
			publish(0, 1, 201)
			publish(0, 0, 202) // … also a Publish call without messages
			subscribe(SubSpec{Topic: 0, Phase: 3, CancelAtRecv: -1, NestedTopic: -1}, -1)
		}()
		waitCh(late, "Publish/Subscribe after Close did not return")
	}
	// ---- goroutine census (quiescence): nothing of the Pub/Sub or the decorator may remain
	deadline := time.Now().Add(5 * time.Second)
	for atomic.LoadInt32(&poisoned) == 0 {
		res.Leftover, res.LeftDump = GoroutinesIn("pubsub/gochannel.", "messageTransformSubscriberDecorator")
		if res.Leftover == 0 || time.Now().After(deadline) || len(res.Stuck) > 0 {
			break
		}
		time.Sleep(time.Millisecond)
	}
	if len(res.Stuck) > 0 || res.Leftover > 0 {
		atomic.StoreInt32(&poisoned, 1)
	}
	mu.Lock()
	for _, c := range cancels {
		c()
	}
	mu.Unlock()
	res.Events = rec.Snapshot()
	// sid -> subscriber uuid through the channel id (only without decorators)
	chanToUUID := map[string]string{}
	for _, e := range res.Events {
		if e.Kind == "h" && e.F[0] == "gochannel.subscribe.created" && len(e.F) >= 4 {
			chanToUUID[e.F[3]] = e.F[2]
		}
	}
	if sc.Decorators == 0 {
		for _, e := range res.Events {
			if e.Kind == "sr" && e.F[1] == "ok" {
				sid, _ := strconv.Atoi(e.F[0])
				res.SubUUID[sid] = chanToUUID[e.F[2]]
			}
		}
	}
	res.Wall = time.Since(t0)
	return res
}

// PendingGoals lists "sid/u" pairs that still have to be acked: subscription sid is owed message u when
// sid's Subscribe returned before the Publish call of u started (any mode) or, in persistent mode, whenever
// both succeeded; sid was never cancelled; the Publish call succeeded; topics agree.
func PendingGoals(evs []Event, sc Scenario) []string {
	type subInfo struct {
		topic     string
		srIdx     int
		cancelled bool
	}
	subs := map[string]*subInfo{}
	type msgInfo struct {
		topic string
		pcIdx int
		pid   string
	}
	msgs := map[string]*msgInfo{}
	pidOK := map[string]bool{}
	acked := map[string]bool{}
	rvU := map[string]string{} // sid/k -> u
	for i, e := range evs {
		switch e.Kind {
		case "sc":
			subs[e.F[0]] = &subInfo{topic: e.F[1], srIdx: -1}
		case "sr":
			if e.F[1] == "ok" {
				subs[e.F[0]].srIdx = i
			}
		case "cx":
			if s := subs[e.F[0]]; s != nil {
				s.cancelled = true
			}
		case "pc":
			for _, u := range strings.Split(e.F[2], "+") {
				msgs[u] = &msgInfo{topic: e.F[1], pcIdx: i, pid: e.F[0]}
			}
		case "pr":
			pidOK[e.F[0]] = e.F[1] == "ok"
		case "rv":
			rvU[e.F[0]+"/"+e.F[1]] = e.F[2]
		case "ak":
			acked[e.F[0]+"/"+rvU[e.F[0]+"/"+e.F[1]]] = true
		}
	}
	var out []string
	for sid, s := range subs {
		if s.srIdx < 0 || s.cancelled {
			continue
		}
		if n, err := strconv.Atoi(sid); err == nil && n < len(sc.Subs) && sc.Subs[n].HoldAll {
			continue // never settles by script; it is cancelled by the controller afterwards
		}
		for u, m := range msgs {
			if m.topic != s.topic || !pidOK[m.pid] {
				continue
			}
			if !(sc.Persistent || s.srIdx < m.pcIdx) {
				continue
			}
			if !acked[sid+"/"+u] {
				out = append(out, sid+"/"+u)
			}
		}
	}
	return out
}
