// Package gc drives the real GoChannel Pub/Sub (pubsub/gochannel) through the verification hook points,
// records one totally ordered event log per scenario and projects it to the line protocol of the
// Lean drivers (per-subscription streams for conformance with M_sub, topic-level traces for the monitors).
package gc

import (
	"fmt"
	"runtime"
	"strings"
	"sync"
	"sync/atomic"
	"time"
)

// Event is one entry of the global log.
type Event struct {
	Kind string   // API events: pc pr sc sr rv ak nk cx cc cr zz ; hook events: h
	F    []string // fields
	G    int64    // id of the goroutine that logged the event
}

// Rec is the recorder + hook-driven scheduler of one scenario.
type Rec struct {
	mu   sync.Mutex
	evs  []Event
	seed uint64

	yieldPermille int
	arrivals      uint64

	parkMu sync.Mutex
	parks  []*Park

	hookCount map[string]int
}

func NewRec(seed uint64, yieldPermille int) *Rec {
	return &Rec{seed: seed, yieldPermille: yieldPermille, hookCount: map[string]int{}}
}

// gid returns the id of the calling goroutine (parsed from the stack header; used only to attribute hook events to API calls).
func gid() int64 {
	var buf [64]byte
	n := runtime.Stack(buf[:], false)
	// "goroutine 123 [running]:"
	var id int64
	for _, c := range buf[10:n] {
		if c < '0' || c > '9' {
			break
		}
		id = id*10 + int64(c-'0')
	}
	return id
}

func (r *Rec) Log(kind string, f ...string) int {
	g := gid()
	r.mu.Lock()
	r.evs = append(r.evs, Event{kind, f, g})
	n := len(r.evs)
	r.mu.Unlock()
	return n
}

// LogIf appends the event only if cond holds of the log as it is at that very moment (evaluated under the recorder's lock: nothing can
// be logged between the evaluation and the event).
func (r *Rec) LogIf(cond func(evs []Event) bool, kind string, f ...string) bool {
	g := gid()
	r.mu.Lock()
	defer r.mu.Unlock()
	if !cond(r.evs) {
		return false
	}
	r.evs = append(r.evs, Event{kind, f, g})
	return true
}

func (r *Rec) Snapshot() []Event {
	r.mu.Lock()
	defer r.mu.Unlock()
	return append([]Event(nil), r.evs...)
}

func (r *Rec) Len() int {
	r.mu.Lock()
	defer r.mu.Unlock()
	return len(r.evs)
}

// Park describes a goroutine held at a hook point.
type Park struct {
	name    string
	match   func(args []string) bool
	arrived chan struct{}
	release chan struct{}
	used    int32
}

// ParkAt arranges that the next goroutine reaching hook `name` (with matching args) blocks until Release.
func (r *Rec) ParkAt(name string, match func(args []string) bool) *Park {
	p := &Park{name: name, match: match, arrived: make(chan struct{}), release: make(chan struct{})}
	r.parkMu.Lock()
	r.parks = append(r.parks, p)
	r.parkMu.Unlock()
	return p
}

// WaitArrived waits until a goroutine is parked; false on timeout.
func (p *Park) WaitArrived(d time.Duration) bool {
	select {
	case <-p.arrived:
		return true
	case <-time.After(d):
		return false
	}
}

func (p *Park) Release() {
	select {
	case <-p.release:
	default:
		close(p.release)
	}
}

func splitmix(x uint64) uint64 {
	x += 0x9E3779B97F4A7C15
	x = (x ^ (x >> 30)) * 0xBF58476D1CE4E5B9
	x = (x ^ (x >> 27)) * 0x94D049BB133111EB
	return x ^ (x >> 31)
}

// Hook is installed with message.SetVerifHook.
func (r *Rec) Hook(name string, args ...string) {
	r.Log("h", append([]string{name}, args...)...)
	r.parkMu.Lock()
	var hit *Park
	for _, p := range r.parks {
		if p.name == name && atomic.LoadInt32(&p.used) == 0 && (p.match == nil || p.match(args)) {
			if atomic.CompareAndSwapInt32(&p.used, 0, 1) {
				hit = p
				break
			}
		}
	}
	r.parkMu.Unlock()
	if hit != nil {
		close(hit.arrived)
		<-hit.release
		return
	}
	if r.yieldPermille > 0 {
		n := atomic.AddUint64(&r.arrivals, 1)
		x := splitmix(r.seed ^ n*0x100000001B3)
		if int(x%1000) < r.yieldPermille {
			if x&0x1000 != 0 {
				time.Sleep(time.Duration(x>>20%200) * time.Microsecond)
			} else {
				runtime.Gosched()
			}
		}
	}
}

func (e Event) String() string { return e.Kind + " " + strings.Join(e.F, " ") }

// GoroutinesIn counts goroutines whose stack mentions one of the substrings (e.g. "pubsub/gochannel").
func GoroutinesIn(subs ...string) (int, string) {
	buf := make([]byte, 1<<22)
	n := runtime.Stack(buf, true)
	cnt := 0
	var first string
	for _, g := range strings.Split(string(buf[:n]), "\n\n") {
		for _, s := range subs {
			if strings.Contains(g, s) {
				cnt++
				if first == "" {
					first = g
				}
				break
			}
		}
	}
	return cnt, first
}

func itoa(n int) string { return fmt.Sprint(n) }
