package gc

import (
	"fmt"
	"sort"
	"strconv"
	"strings"
)

// SubStreams projects the log to one event stream per subscription in the token language of
// lean/WmModel/GcConf.lean: "sub <cap> <tok>*".
func (r *Result) SubStreams() []string {
	var out []string
	sids := make([]int, 0, len(r.SubUUID))
	for sid := range r.SubUUID {
		sids = append(sids, sid)
	}
	sort.Ints(sids)
	for _, sid := range sids {
		uuid := r.SubUUID[sid]
		if uuid == "" {
			continue
		}
		s := strconv.Itoa(sid)
		var toks []string
		for _, e := range r.Events {
			switch e.Kind {
			case "h":
				if len(e.F) < 2 || e.F[1] != uuid {
					continue
				}
				switch e.F[0] {
				case "gochannel.send.locked":
					toks = append(toks, "L")
				case "gochannel.send.before_chan":
					toks = append(toks, "B")
				case "gochannel.send.wait_settle":
					toks = append(toks, "W")
				case "gochannel.sub.close.before_lock":
					toks = append(toks, "C")
				case "gochannel.sub.close.locked":
					toks = append(toks, "K")
				}
			case "rv", "dr":
				if e.F[0] == s {
					toks = append(toks, "R")
				}
			case "ak":
				if e.F[0] == s {
					toks = append(toks, "A"+e.F[1])
				}
			case "nk":
				if e.F[0] == s {
					toks = append(toks, "N"+e.F[1])
				}
			case "cx":
				if e.F[0] == s {
					toks = append(toks, "X")
				}
			case "cc":
				toks = append(toks, "G")
			case "zz":
				if e.F[0] == s {
					toks = append(toks, "Z")
				}
			}
		}
		if len(toks) == 0 {
			toks = []string{"-"}
		}
		out = append(out, fmt.Sprintf("sub %d %s", r.Sc.Buf, strings.Join(toks, " ")))
	}
	return out
}

// TopTrace renders the topic-level trace for the monitors:
// "top <buf> <persistent> <blocking> <ev>*" with comma separated fields per event.
func (r *Result) TopTrace() string {
	uuidToSid := map[string]string{}
	for sid, u := range r.SubUUID {
		if u != "" {
			uuidToSid[u] = strconv.Itoa(sid)
		}
	}
	var toks []string
	for _, e := range r.Events {
		switch e.Kind {
		case "pc", "pr", "sc", "rv", "ak", "nk", "cx", "cc", "cr", "zz", "cd":
			toks = append(toks, e.Kind+","+strings.Join(e.F, ","))
		case "sr":
			toks = append(toks, "sr,"+e.F[0]+","+e.F[1])
		case "goals":
			toks = append(toks, "goals")
		case "h":
			switch e.F[0] {
			case "gochannel.publish.sent":
				if !strings.HasPrefix(e.F[2], "m") {
					break // a message without a UUID of its own (Scenario.DupUUID): the hook cannot name it
				}
				toks = append(toks, "hs,"+strings.TrimPrefix(e.F[1], "t")+","+strings.TrimPrefix(e.F[2], "m"))
			case "gochannel.subscribe.registered":
				if sid, ok := uuidToSid[e.F[2]]; ok {
					toks = append(toks, "hr,"+sid)
				}
			case "gochannel.unsubscribe.before_remove":
				if sid, ok := uuidToSid[e.F[2]]; ok {
					toks = append(toks, "hu,"+sid)
				}
			}
		}
	}
	stuck := "0"
	if len(r.Stuck) > 0 {
		stuck = "1"
	}
	toks = append(toks, fmt.Sprintf("end,%s,%d", stuck, r.Leftover))
	return "top " + r.Sc.Cfg() + " " + strings.Join(toks, " ")
}

// TopicStreams projects the log of a persistent scenario to one hook-event stream per topic, in the token language of
// lean/WmModel/GcTopicConf.lean: "topic <tok>*". Where the harness logged `goals` (all owed deliveries acked, so every sender
// goroutine has run) an EX<sid>:<u+u+…> token lists, for every subscription still registered and never cancelled, the
// messages for which a sender really ran (gochannel.send.locked events so far); the model must have started exactly those.
func (r *Result) TopicStreams() []string {
	if !r.Sc.Persistent || r.Sc.Decorators > 0 || len(r.Stuck) > 0 {
		return nil
	}
	uuidToSid := map[string]string{}
	for sid, u := range r.SubUUID {
		if u != "" {
			uuidToSid[u] = strconv.Itoa(sid)
		}
	}
	toks := map[string][]string{}
	var topics []string
	add := func(t, tok string) {
		if _, ok := toks[t]; !ok {
			topics = append(topics, t)
		}
		toks[t] = append(toks[t], tok)
	}
	senders := map[string][]string{} // sid -> message numbers whose sender ran
	subTopic := map[string]string{}
	removed := map[string]bool{}
	cancelled := map[string]bool{}
	var regOrder []string
	for _, e := range r.Events {
		switch e.Kind {
		case "cx":
			cancelled[e.F[0]] = true
		case "goals":
			for _, sid := range regOrder {
				if n, err := strconv.Atoi(sid); err == nil && n < len(r.Sc.Subs) && (r.Sc.Subs[n].HoldAll || r.Sc.Subs[n].CancelAtRecv >= 0) {
					continue // not part of the delivery goals: its queued senders need not have run yet
				}
				if !removed[sid] && !cancelled[sid] {
					add(subTopic[sid], "EX"+sid+":"+strings.Join(senders[sid], "+"))
				}
			}
		case "h":
			switch e.F[0] {
			case "gochannel.publish.locked":
				add(e.F[1], "PL")
			case "gochannel.publish.persisted":
				add(e.F[1], "PP")
			case "gochannel.publish.sent":
				add(e.F[1], "PS"+strings.TrimPrefix(e.F[2], "m"))
			case "gochannel.subscribe.locked":
				add(e.F[1], "SL")
			case "gochannel.subscribe.replay":
				add(e.F[1], "SR")
			case "gochannel.subscribe.registered":
				sid, ok := uuidToSid[e.F[2]]
				if !ok {
					return nil // a subscription the harness cannot name (Subscribe did not return): no stream
				}
				add(e.F[1], "SG"+sid)
				subTopic[sid] = e.F[1]
				regOrder = append(regOrder, sid)
			case "gochannel.unsubscribe.before_remove":
				if sid, ok := uuidToSid[e.F[2]]; ok {
					add(e.F[1], "UN"+sid)
					removed[sid] = true
				}
			case "gochannel.send.locked":
				if sid, ok := uuidToSid[e.F[1]]; ok {
					senders[sid] = append(senders[sid], strings.TrimPrefix(e.F[2], "m"))
				}
			}
		}
	}
	var out []string
	sort.Strings(topics)
	for _, t := range topics {
		out = append(out, "topic "+strings.Join(toks[t], " "))
	}
	return out
}
