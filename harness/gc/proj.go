package gc

import (
	"fmt"
	"sort"
	"strconv"
	"strings"
)

// SubStreams projects the log to one event stream per subscription in the token language of
// lean/WmModel/GcConf.lean: "sub <cap> <tok>*".
func (r *Result) SubStreams() []string {
	var out []string
	sids := make([]int, 0, len(r.SubUUID))
	for sid := range r.SubUUID {
		sids = append(sids, sid)
	}
	sort.Ints(sids)
	for _, sid := range sids {
		uuid := r.SubUUID[sid]
		if uuid == "" {
			continue
		}
		s := strconv.Itoa(sid)
		var toks []string
		for _, e := range r.Events {
			switch e.Kind {
			case "h":
				if len(e.F) < 2 || e.F[1] != uuid {
					continue
				}
				switch e.F[0] {
				case "gochannel.send.locked":
					toks = append(toks, "L")
				case "gochannel.send.before_chan":
					toks = append(toks, "B")
				case "gochannel.send.wait_settle":
					toks = append(toks, "W")
				case "gochannel.sub.close.before_lock":
					toks = append(toks, "C")
				case "gochannel.sub.close.locked":
					toks = append(toks, "K")
				}
			case "rv":
				if e.F[0] == s {
					toks = append(toks, "R")
				}
			case "ak":
				if e.F[0] == s {
					toks = append(toks, "A"+e.F[1])
				}
			case "nk":
				if e.F[0] == s {
					toks = append(toks, "N"+e.F[1])
				}
			case "cx":
				if e.F[0] == s {
					toks = append(toks, "X")
				}
			case "cc":
				toks = append(toks, "G")
			case "zz":
				if e.F[0] == s {
					toks = append(toks, "Z")
				}
			}
		}
		if len(toks) == 0 {
			toks = []string{"-"}
		}
		out = append(out, fmt.Sprintf("sub %d %s", r.Sc.Buf, strings.Join(toks, " ")))
	}
	return out
}

// TopTrace renders the topic-level trace for the monitors:
// "top <buf> <persistent> <blocking> <ev>*" with comma separated fields per event.
func (r *Result) TopTrace() string {
	uuidToSid := map[string]string{}
	for sid, u := range r.SubUUID {
		if u != "" {
			uuidToSid[u] = strconv.Itoa(sid)
		}
	}
	var toks []string
	for _, e := range r.Events {
		switch e.Kind {
		case "pc", "pr", "sc", "rv", "ak", "nk", "cx", "cc", "cr", "zz", "cd":
			toks = append(toks, e.Kind+","+strings.Join(e.F, ","))
		case "sr":
			toks = append(toks, "sr,"+e.F[0]+","+e.F[1])
		case "goals":
			toks = append(toks, "goals")
		case "h":
			switch e.F[0] {
			case "gochannel.publish.sent":
				toks = append(toks, "hs,"+strings.TrimPrefix(e.F[1], "t")+","+strings.TrimPrefix(e.F[2], "m"))
			case "gochannel.subscribe.registered":
				if sid, ok := uuidToSid[e.F[2]]; ok {
					toks = append(toks, "hr,"+sid)
				}
			case "gochannel.unsubscribe.before_remove":
				if sid, ok := uuidToSid[e.F[2]]; ok {
					toks = append(toks, "hu,"+sid)
				}
			}
		}
	}
	stuck := "0"
	if len(r.Stuck) > 0 {
		stuck = "1"
	}
	toks = append(toks, fmt.Sprintf("end,%s,%d", stuck, r.Leftover))
	return "top " + r.Sc.Cfg() + " " + strings.Join(toks, " ")
}
