package gc

import (
	"strconv"
	"strings"
)

// RegStream projects the log to the token language of lean/WmModel/GcRegConf.lean ("reg <persistent> <blocking> <tok>*"):
// API calls become threads of the registry model M_reg, hook events are attributed to the API call running on the same
// goroutine (replay and unsubscribe goroutines through the subscriber uuid). Nothing is emitted for scenarios behind
// decorators, with panics, or that ran into the liveness bound.
func (r *Result) RegStream() string {
	if r.Sc.Decorators > 0 || len(r.Stuck) > 0 {
		return ""
	}
	b := func(x bool) string {
		if x {
			return "1"
		}
		return "0"
	}
	cur := map[int64]string{}   // goroutine -> name of the API call it is executing
	uuidNo := map[string]int{}  // subscriber uuid -> small number
	uuidOwner := map[string]string{}
	preCancelled := map[string]bool{}
	no := func(u string) string {
		if _, ok := uuidNo[u]; !ok {
			uuidNo[u] = len(uuidNo)
		}
		return strconv.Itoa(uuidNo[u])
	}
	sidUUID := map[string]string{}
	for sid, u := range r.SubUUID {
		sidUUID[strconv.Itoa(sid)] = u
	}
	var toks []string
	r.regIdx, r.regToks, r.regUuidNo = nil, nil, uuidNo
	curEi := 0
	add := func(parts ...string) {
		toks = append(toks, strings.Join(parts, ","))
		r.regIdx = append(r.regIdx, curEi)
	}
	for ei, e := range r.Events {
		curEi = ei
		switch e.Kind {
		case "note":
			if strings.Contains(strings.Join(e.F, " "), "panic") {
				return ""
			}
		case "pc":
			n := "P" + e.F[0]
			cur[e.G] = n
			add("np", n, e.F[1], e.F[2])
		case "pr":
			if e.F[1] == "panic" {
				return ""
			}
			add("pr", "P"+e.F[0], e.F[1])
			delete(cur, e.G)
		case "sc":
			n := "S" + e.F[0]
			cur[e.G] = n
			add("ns", n, e.F[1])
		case "sr":
			if e.F[1] == "panic" {
				return ""
			}
			add("sr", "S"+e.F[0], e.F[1])
			delete(cur, e.G)
		case "cc":
			n := "C" + e.F[0] + "g" + strconv.FormatInt(e.G, 10)
			cur[e.G] = n
			add("nc", n)
		case "cr":
			if e.F[1] == "panic" {
				return ""
			}
			if n, ok := cur[e.G]; ok {
				add("cr", n)
				delete(cur, e.G)
			}
		case "cx":
			if u := sidUUID[e.F[0]]; u != "" {
				if _, known := uuidNo[u]; known {
					add("cx", no(u))
				} else {
					// cancelled before the subscriber object exists (Subscribe called with a dead context): the cancel
					// takes effect for the model as soon as the object is created
					preCancelled[u] = true
				}
			}
		case "h":
			name := e.F[0]
			own := cur[e.G]
			switch name {
			case "gochannel.publish.after_closed_check":
				add("pa", own)
			case "gochannel.publish.locked":
				add("pl", own)
			case "gochannel.publish.persisted":
				add("pp", own)
			case "gochannel.publish.sent":
				add("ps", own, strings.TrimPrefix(e.F[2], "m"))
			case "gochannel.publish.wait_ack":
				add("pw", own)
			case "gochannel.subscribe.after_closed_check":
				add("sa", own)
			case "gochannel.subscribe.locked":
				add("sl", own)
			case "gochannel.subscribe.created":
				uuidOwner[e.F[2]] = own
				add("sc8", own, no(e.F[2]))
				if preCancelled[e.F[2]] {
					add("cx", no(e.F[2]))
				}
			case "gochannel.subscribe.replay":
				add("sy", uuidOwner[e.F[2]])
			case "gochannel.subscribe.registered":
				add("sg", uuidOwner[e.F[2]])
			case "gochannel.sub.close.before_lock":
				if _, known := uuidNo[e.F[1]]; known {
					add("tb", no(e.F[1]))
				}
			case "gochannel.unsubscribe.before_remove":
				if _, known := uuidNo[e.F[2]]; known {
					add("tr", no(e.F[2]))
				}
			case "gochannel.close.signalled":
				add("cs", own)
			}
		}
	}
	for _, t := range toks {
		if strings.Contains(t, ",,") || strings.HasSuffix(t, ",") {
			return "" // an event could not be attributed to an API call (should not happen): no stream rather than a wrong one
		}
	}
	r.regToks = toks
	return "reg " + b(r.Sc.Persistent) + " " + b(r.Sc.Blocking) + " " + strings.Join(toks, " ")
}
