package gc

import (
	"fmt"
	"sort"
	"strconv"
	"strings"
)

// ProdStreams merges, for every subscription whose subscriber object the registry stream names, the registry tokens of the scenario
// (RegStream must have been called) with that subscription's own hook/consumer tokens in log order, for
// lean/WmModel/GcProdConf.lean: "prod <cap> <persistent> <blocking> <me> <tok>*" (subscription tokens prefixed "s:").
// `me` is the subscription id the registry model hands out: ids are given in the order in which subscriber objects are created.
func (r *Result) ProdStreams() []string {
	if len(r.regToks) == 0 {
		return nil
	}
	b := func(x bool) string {
		if x {
			return "1"
		}
		return "0"
	}
	var out []string
	sids := make([]int, 0, len(r.SubUUID))
	for sid := range r.SubUUID {
		sids = append(sids, sid)
	}
	sort.Ints(sids)
	for _, sid := range sids {
		uuid := r.SubUUID[sid]
		me, known := r.regUuidNo[uuid]
		if uuid == "" || !known {
			continue
		}
		s := strconv.Itoa(sid)
		type it struct {
			idx int
			tok string
		}
		var subToks []it
		for ei, e := range r.Events {
			add := func(t string) { subToks = append(subToks, it{ei, "s:" + t}) }
			switch e.Kind {
			case "h":
				if len(e.F) < 2 || e.F[1] != uuid {
					continue
				}
				switch e.F[0] {
				case "gochannel.send.locked":
					if len(e.F) < 3 || !strings.HasPrefix(e.F[2], "m") {
						return nil // a message without a UUID of its own (Scenario.DupUUID): the hook cannot name it
					}
					add("L" + strings.TrimPrefix(e.F[2], "m"))
				case "gochannel.send.before_chan":
					add("B")
				case "gochannel.send.wait_settle":
					add("W")
				case "gochannel.sub.close.before_lock":
					add("C")
				case "gochannel.sub.close.locked":
					add("K")
				}
			case "rv", "dr":
				if e.F[0] == s {
					add("R")
				}
			case "ak":
				if e.F[0] == s {
					add("A" + e.F[1])
				}
			case "nk":
				if e.F[0] == s {
					add("N" + e.F[1])
				}
			case "zz":
				if e.F[0] == s {
					add("Z")
				}
			}
		}
		// merge by event index; a registry token of the same event goes first
		var toks []string
		i, j := 0, 0
		for i < len(r.regToks) || j < len(subToks) {
			if j >= len(subToks) || (i < len(r.regToks) && r.regIdx[i] <= subToks[j].idx) {
				toks = append(toks, r.regToks[i])
				i++
			} else {
				toks = append(toks, subToks[j].tok)
				j++
			}
		}
		out = append(out, fmt.Sprintf("prod %d %s %s %d %s", r.Sc.Buf, b(r.Sc.Persistent), b(r.Sc.Blocking), me, strings.Join(toks, " ")))
	}
	return out
}
