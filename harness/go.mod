// The checks build this module with -modfile=<generated go.mod> (see checklib.modfile): requirements are
// copied from the repository's own go.mod and the replace directive points at the tree under test.
// This file only makes the directory a module for editors and for ./setup.sh.
module wmverif

go 1.21

require github.com/ThreeDotsLabs/watermill v0.0.0

replace github.com/ThreeDotsLabs/watermill => /repo
