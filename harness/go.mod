module wmverif

go 1.21

require github.com/ThreeDotsLabs/watermill v0.0.0

require (
	github.com/google/uuid v1.6.0 // indirect
	github.com/lithammer/shortuuid/v3 v3.0.7 // indirect
	github.com/oklog/ulid v1.3.1 // indirect
	github.com/pkg/errors v0.9.1 // indirect
)

replace github.com/ThreeDotsLabs/watermill => /repo
