package rl

import (
	"context"
	"errors"
	"strconv"
	"sync"
	"time"

	"github.com/ThreeDotsLabs/watermill/message"
)

func itoa(n int) string { return strconv.Itoa(n) }

// ScriptSub is a scripted message.Subscriber for ONE handler: an unbuffered output channel fed by a single emitter
// goroutine (so emissions reach the router in queue order), closed when Close is called or the Subscribe context ends.
// It can hand over "one last message" from inside Close / when the context ends, before the channel is closed.
type ScriptSub struct {
	rec *Rec
	h   int
	sc  *run

	mu         sync.Mutex
	out        chan *message.Message
	queue      chan *emitReq
	stop       chan struct{} // closed when the channel is going to be closed: pending sends are abandoned
	stopOnce   sync.Once
	closedOnce sync.Once
	emitterWg  sync.WaitGroup
	subscribed int
	stopped    bool

	LastOnClose int  // messages emitted inside Close() before the channel closes
	LastOnCtx   int  // … when the context is cancelled
	IgnoreCtx   bool // the subscription ends only through Close (a subscriber that does not watch its context)
	Preload     int  // messages ready when Subscribe is called
	SubGate     bool // Subscribe blocks until the scenario's sub gate opens
	SubFail     int  // the first n Subscribe calls return an error
	calls       int
}

type emitReq struct {
	msg  *message.Message
	u    int
	done chan bool // true: accepted by the reader
}

func (s *ScriptSub) Subscribe(ctx context.Context, topic string) (<-chan *message.Message, error) {
	s.mu.Lock()
	s.calls++
	fail := s.calls <= s.SubFail
	s.mu.Unlock()
	if fail {
		s.rec.Log("sube", itoa(s.h))
		return nil, errors.New("scripted subscriber: broker temporarily unavailable")
	}
	s.rec.Log("sub", itoa(s.h))
	s.sc.gateSubscribe(s.SubGate)
	s.mu.Lock()
	defer s.mu.Unlock()
	s.subscribed++
	if s.out != nil {
		// a second Subscribe on the same scripted subscriber (RunHandlers started the handler twice): give it a dead channel
		ch := make(chan *message.Message)
		go func() { <-ctx.Done(); close(ch) }()
		return ch, nil
	}
	s.out = make(chan *message.Message)
	s.queue = make(chan *emitReq, 64)
	s.stop = make(chan struct{})
	s.emitterWg.Add(1)
	go s.emitter()
	for i := 0; i < s.Preload; i++ {
		m, u := s.sc.newMsg(s.h)
		s.queue <- &emitReq{msg: m, u: u, done: make(chan bool, 1)}
	}
	go func() {
		if s.IgnoreCtx {
			return
		}
		select {
		case <-ctx.Done():
			for i := 0; i < s.LastOnCtx; i++ {
				s.emitSync(300 * time.Millisecond)
			}
			s.shutdown()
		case <-s.stop:
		}
	}()
	return s.out, nil
}

func (s *ScriptSub) emitter() {
	defer s.emitterWg.Done()
	for {
		select {
		case r := <-s.queue:
			s.rec.Log("em", itoa(s.h), itoa(r.u))
			select {
			case s.out <- r.msg:
				r.done <- true
			case <-s.stop:
				s.rec.Log("ea", itoa(s.h), itoa(r.u)) // abandoned: never handed over
				r.done <- false
			}
		case <-s.stop:
			for { // whatever was queued before the stop is never handed over
				select {
				case r := <-s.queue:
					r.done <- false
				default:
					return
				}
			}
		}
	}
}

// Emit queues a fresh message; the returned channel reports whether the router side took it.
func (s *ScriptSub) Emit() (int, chan bool) {
	m, u := s.sc.newMsg(s.h)
	r := &emitReq{msg: m, u: u, done: make(chan bool, 1)}
	s.mu.Lock()
	defer s.mu.Unlock()
	if s.queue == nil || s.stopped {
		r.done <- false
		return u, r.done
	}
	select {
	case s.queue <- r:
	default:
		r.done <- false
	}
	return u, r.done
}

// emitSync emits one message and waits (bounded) until it was taken; used for the "last message" hand-overs.
func (s *ScriptSub) emitSync(d time.Duration) {
	_, done := s.Emit()
	select {
	case <-done:
	case <-time.After(d):
	}
}

func (s *ScriptSub) shutdown() {
	s.mu.Lock()
	s.stopped = true
	s.mu.Unlock()
	s.stopOnce.Do(func() { close(s.stop) })
	s.emitterWg.Wait()
	s.closedOnce.Do(func() { close(s.out) })
}

func (s *ScriptSub) Close() error {
	s.rec.Log("sc", itoa(s.h))
	s.mu.Lock()
	started := s.out != nil
	s.mu.Unlock()
	if started {
		for i := 0; i < s.LastOnClose; i++ {
			s.emitSync(300 * time.Millisecond)
		}
		s.shutdown()
	}
	s.rec.Log("scr", itoa(s.h))
	return nil
}

// ScriptPub is a scripted message.Publisher for one handler.
type ScriptPub struct {
	rec  *Rec
	h    int
	Fail bool
	// CloseErr: Close reports an error (after doing its work)
	CloseErr bool
}

func (p *ScriptPub) Publish(topic string, msgs ...*message.Message) error {
	p.rec.Log("pb", itoa(p.h), itoa(len(msgs)))
	if p.Fail {
		return errors.New("scripted publish failure")
	}
	return nil
}

func (p *ScriptPub) Close() error {
	p.rec.Log("pc", itoa(p.h))
	if p.CloseErr {
		return errors.New("scripted publisher: connection already closed")
	}
	return nil
}

// LogSub wraps a real subscriber (GoChannel) and logs Subscribe / Close calls for handler h.
type LogSub struct {
	rec   *Rec
	h     int
	inner message.Subscriber
	sc    *run
}

func (s *LogSub) Subscribe(ctx context.Context, topic string) (<-chan *message.Message, error) {
	s.rec.Log("sub", itoa(s.h))
	if s.sc != nil {
		s.sc.gateSubscribe(false)
	}
	return s.inner.Subscribe(ctx, topic)
}

func (s *LogSub) Close() error {
	s.rec.Log("sc", itoa(s.h))
	err := s.inner.Close()
	s.rec.Log("scr", itoa(s.h))
	return err
}

// LogPub wraps a real publisher and logs Publish / Close calls for handler h; Close is not forwarded when the
// publisher is shared with the harness (the harness closes the Pub/Sub itself at the end).
type LogPub struct {
	rec     *Rec
	h       int
	inner   message.Publisher
	forward bool
}

func (p *LogPub) Publish(topic string, msgs ...*message.Message) error {
	p.rec.Log("pb", itoa(p.h), itoa(len(msgs)))
	return p.inner.Publish(topic, msgs...)
}

func (p *LogPub) Close() error {
	p.rec.Log("pc", itoa(p.h))
	if p.forward {
		return p.inner.Close()
	}
	return nil
}

// failCloseSub is what a router-level subscriber decorator returns in FailSubDecorator scenarios: Subscribe passes through,
// Close fails in the decorator's own work and never reaches the wrapped subscriber (the subscription stays open; the router
// still has the handler's context to end it).
type failCloseSub struct {
	message.Subscriber
	rec *Rec
}

func (f *failCloseSub) Close() error {
	f.rec.Log("scd")
	return errors.New("scripted decorator: flushing offsets failed")
}
