package rl

import (
	"fmt"

	"wmverif/wh"
)

func addAll(n int, spec func(h int) HandlerSpec) ([]HandlerSpec, []string) {
	var hs []HandlerSpec
	var p []string
	for h := 0; h < n; h++ {
		hs = append(hs, spec(h))
		p = append(p, fmt.Sprintf("add:%d", h))
	}
	return hs, p
}

// Lifecycle: fixed lifecycle programs over {AddHandler, Run, RunHandlers xN, wait Started, Stop, cancel, Close}.
func Lifecycle(rng *wh.Rng, thorough bool) []Scenario {
	var out []Scenario
	plain := func(h int) HandlerSpec { return HandlerSpec{Outcomes: []string{"ok", "out"}} }
	for n := 1; n <= 5; n++ {
		// handlers before Run; Stop the first, the others keep processing; then Close
		hs, p := addAll(n, plain)
		p = append(p, "run", "wrun")
		for h := 0; h < n; h++ {
			p = append(p, fmt.Sprintf("wst:%d", h), fmt.Sprintf("emit:%d:1", h))
		}
		p = append(p, fmt.Sprintf("whe:%d", n), "stop:0", "wsd:0")
		if n > 1 {
			for h := 1; h < n; h++ {
				p = append(p, fmt.Sprintf("emit:%d:2", h))
			}
			p = append(p, fmt.Sprintf("whe:%d", n+2*(n-1)), "close:1", "wclose", "wrr")
		} else {
			p = append(p, "wrr", "close:1", "wclose") // the only handler stopped: the router closes itself
		}
		out = append(out, Scenario{Handlers: hs, Prog: p, Seed: rng.Next(), Conf: n <= 2, Tag: fmt.Sprintf("life/stop-one/%d", n)})

		// every handler stopped one after the other: the router closes itself, Run returns nil
		hs, p = addAll(n, plain)
		p = append(p, "run", "wrun")
		for h := 0; h < n; h++ {
			p = append(p, fmt.Sprintf("wst:%d", h), fmt.Sprintf("stop:%d", h), fmt.Sprintf("wsd:%d", h))
		}
		p = append(p, "wrr", "close:1", "wclose")
		out = append(out, Scenario{Handlers: hs, Prog: p, Seed: rng.Next(), Yield: 300, Conf: n <= 2, Tag: fmt.Sprintf("life/stop-all/%d", n)})
		if n <= 3 {
			// the same with publishers whose Close reports an error (every handler, or only the first): Stopped() still closes,
			// the router still closes itself when the last handler ended
			for _, all := range []bool{true, false} {
				hs2 := append([]HandlerSpec{}, hs...)
				for h := range hs2 {
					hs2[h].PubCloseErr = all || h == 0
				}
				tag := "first"
				if all {
					tag = "all"
				}
				out = append(out, Scenario{Handlers: hs2, Prog: p, Seed: rng.Next(), Conf: n <= 2, WaitMs: 8000, Tag: fmt.Sprintf("life/stop-all/pub-close-err-%s/%d", tag, n)})
			}
		}

		// Run context cancelled: the router closes itself, Run returns nil
		hs, p = addAll(n, plain)
		p = append(p, "run", "wrun", "emit:0:2", "cancel", "wrr", "wacc", "close:1", "wclose")
		out = append(out, Scenario{Handlers: hs, Prog: p, Seed: rng.Next(), Conf: n <= 2, Tag: fmt.Sprintf("life/cancel/%d", n)})

		// handlers added after Run, RunHandlers called 1..4 times (some concurrently); Subscribe counted per subscriber
		for _, calls := range []int{1, 3} {
			hs = nil
			for h := 0; h < n; h++ {
				hs = append(hs, plain(h))
			}
			p = prog("add:0", "run", "wrun")
			for h := 1; h < n; h++ {
				p = append(p, fmt.Sprintf("add:%d", h))
				for c := 0; c < calls; c++ {
					if c%2 == 1 {
						p = append(p, "rhbg")
					} else {
						p = append(p, "rh")
					}
				}
				p = append(p, "wrh", fmt.Sprintf("wst:%d", h), fmt.Sprintf("emit:%d:1", h))
			}
			p = append(p, "rh", "rh", fmt.Sprintf("whe:%d", n-1), "close:2", "wclose", "wrr")
			out = append(out, Scenario{Handlers: hs, Prog: p, Seed: rng.Next(), Yield: 100, Conf: n <= 2 && calls == 1, Tag: fmt.Sprintf("life/late/%d/%d", n, calls)})
		}
	}
	// Stop immediately after Started() fired: RunHandlers is held right after close(startedCh)  (D7)
	for n := 1; n <= 3; n++ {
		hs, p := addAll(n, plain)
		p = append(p, "park:kg:h0", "run", "wpark", "wst:0", "stop:0", "rel", "wsd:0", "wrun")
		if n == 1 {
			p = append(p, "wrr", "close:1", "wclose")
		} else {
			p = append(p, "emit:1:1", "whe:1", "close:1", "wclose", "wrr")
		}
		out = append(out, Scenario{Handlers: hs, Prog: p, Seed: rng.Next(), Conf: n == 1, Tag: fmt.Sprintf("life/stop-at-started/%d", n)})
	}
	// a router started without handlers; the first handler arrives while the watcher has not reached its select (D14)
	for _, parkWatcher := range []bool{true, false} {
		p := prog()
		if parkWatcher {
			p = append(p, "park:kw")
		}
		p = append(p, "run", "wrun")
		if parkWatcher {
			p = append(p, "wpark")
		}
		p = append(p, "add:0")
		if parkWatcher {
			p = append(p, "rel")
		}
		p = append(p, "rh", "wst:0", "emit:0:1", "whe:1", "stop:0", "wsd:0", "wrr", "close:1", "wclose")
		out = append(out, Scenario{Handlers: []HandlerSpec{plain(0)}, Prog: p, Seed: rng.Next(), Conf: true, Tag: fmt.Sprintf("life/empty-start/%v", parkWatcher)})
	}
	// a handler whose Subscribe fails the first time(s): RunHandlers returns the error, a later call must start it
	out = append(out, Scenario{Handlers: []HandlerSpec{plain(0), {SubFail: 1, Outcomes: []string{"ok"}}}, Seed: rng.Next(), Conf: true, Isolate: true, Tag: "life/subfail/late",
		Prog: prog("add:0", "run", "wrun", "add:1", "rh", "rh", "cst:1", "emit:1:1", "whe:1", "rh", "stop:1", "wsd:1", "emit:0:1", "whe:2", "close:1", "wclose", "wrr")})
	out = append(out, Scenario{Handlers: []HandlerSpec{plain(0), {SubFail: 2}, plain(2)}, Seed: rng.Next(), Isolate: true, Tag: "life/subfail/twice",
		Prog: prog("add:0", "run", "wrun", "add:1", "add:2", "rh", "rh", "rh", "cst:1", "cst:2", "emit:1:1", "emit:2:1", "whe:2", "close:2", "wclose", "wrr")})
	out = append(out, Scenario{Handlers: []HandlerSpec{{SubFail: 1}}, Seed: rng.Next(), Conf: true, Isolate: true, Tag: "life/subfail/run",
		Prog: prog("add:0", "run", "wrr", "rh", "cst:0", "emit:0:1", "whe:1", "close:1", "wclose")})
	// a (redundant) RunHandlers call is held right after it took handlersLock – at its own log line – while the router is
	// closed by a caller / closes itself after cancel: every call must return, Run with nil
	for _, op := range []string{"close:2", "cancel"} {
		p := prog("add:0", "run", "wrun", "wst:0", "park:kl", "rhbg", "wpark", op, "nap:40", "rel", "wrh")
		if op == "cancel" {
			p = append(p, "wrr", "close:1", "wclose")
		} else {
			p = append(p, "wclose", "wrr")
		}
		out = append(out, Scenario{Handlers: []HandlerSpec{plain(0)}, Prog: p, Seed: rng.Next(), Conf: true, WaitMs: 8000, Tag: "life/rh-vs-shutdown/" + op})
	}
	// a handler function that outlives CloseTimeout: the router is closed by a caller / closes itself after cancel / after the
	// last handler was stopped; the Close times out - and Run must still return (nil), a second Run is refused
	for _, trig := range []string{"close", "cancel", "stop"} {
		p := prog("add:0", "run", "wrun", "emit:0:1", "whs:1")
		switch trig {
		case "close":
			p = append(p, "close:2", "wclose")
		case "cancel":
			p = append(p, "cancel", "wev:wce")
		case "stop":
			p = append(p, "stop:0", "wev:wce")
		}
		p = append(p, "wrr", "run2", "gate", "whe:1", "close:1", "wclose")
		out = append(out, Scenario{Handlers: []HandlerSpec{{GateAt: 1}}, Prog: p, Seed: rng.Next(), Conf: true, WaitMs: 8000, Tag: "life/timeout/" + trig})
	}
	// Stop of a handler whose function is still busy: its Stopped() closes all the same and the other handlers keep processing
	for n := 2; n <= 3; n++ {
		hs, p := addAll(n, func(h int) HandlerSpec {
			if h == 0 {
				return HandlerSpec{GateAt: 1}
			}
			return plain(h)
		})
		p = append(p, "run", "wrun", "emit:0:1", "whs:1", "stop:0")
		for h := 1; h < n; h++ {
			p = append(p, fmt.Sprintf("emit:%d:3", h))
		}
		p = append(p, fmt.Sprintf("whe:%d", 3*(n-1)), "wsd:0", "gate", fmt.Sprintf("whe:%d", 3*(n-1)+1), "close:1", "wclose", "wrr")
		out = append(out, Scenario{Handlers: hs, Prog: p, Seed: rng.Next(), Conf: n == 2, WaitMs: 8000, Tag: fmt.Sprintf("life/stop-busy/%d", n)})
	}
	// a start-up that fails (one of three subscriptions is refused): Run returns the error, Running() stays open, a second Run is
	// still refused; a later RunHandlers starts everything
	out = append(out, Scenario{Handlers: []HandlerSpec{plain(0), {SubFail: 1}, plain(2)}, Seed: rng.Next(), Conf: true, WaitMs: 8000, Isolate: true, Tag: "life/failed-start",
		Prog: prog("add:0", "add:1", "add:2", "run", "wrr", "crun", "run2", "crun", "rh", "cst:0", "cst:1", "cst:2", "emit:1:1", "whe:1", "close:1", "wclose")})
	// a second Run while the first one is still starting up (inside a slow Subscribe): refused at once; the first goes on normally
	for n := 1; n <= 2; n++ {
		hs, p := addAll(n, func(h int) HandlerSpec { return HandlerSpec{SubGate: true} })
		p = append(p, "run", "wev:sub", "run2", "crun", "subgo", "wrun", "run2", "emit:0:1", "whe:1", "close:1", "wclose", "wrr")
		out = append(out, Scenario{Handlers: hs, Prog: p, Seed: rng.Next(), Conf: n == 1, WaitMs: 8000, Isolate: true, Tag: fmt.Sprintf("life/run-during-startup/%d", n)})
	}
	// a router started empty whose Run context is cancelled before the first handler is known to the watcher (cancel before
	// AddHandler; or everything done while the watcher is parked before its select): the handler, started with the cancelled
	// context, ends at once - the last handler ended, so the router closes itself and Run returns nil
	out = append(out, Scenario{Handlers: []HandlerSpec{plain(0)}, Seed: rng.Next(), Conf: true, WaitMs: 8000, Tag: "life/empty-start/cancel-first",
		Prog: prog("run", "wrun", "cancel", "add:0", "rh", "wst:0", "wsd:0", "wrr", "close:1", "wclose")})
	for i := 0; i < 4; i++ {
		out = append(out, Scenario{Handlers: []HandlerSpec{plain(0)}, Seed: rng.Next(), Conf: i == 0, WaitMs: 8000, Tag: fmt.Sprintf("life/empty-start/cancel-parked/%d", i),
			Prog: prog("park:kw", "run", "wrun", "wpark", "add:0", "rh", "wst:0", "cancel", "wsd:0", "rel", "wrr", "close:1", "wclose")})
	}
	// the application polls IsClosed() from several goroutines while every handler is stopped / the Run context is cancelled: the
	// router must close itself all the same and Run return nil (child processes: a router that stays open leaves goroutines)
	rounds := 6
	if thorough {
		rounds = 14
	}
	for i := 0; i < rounds; i++ {
		hs, p := addAll(2, plain)
		p = append(p, "run", "wrun", "wst:0", "wst:1", fmt.Sprintf("poll:%d", 4+4*(i%3)), "nap:2")
		if i%2 == 0 {
			p = append(p, "stop:0", "stop:1")
		} else {
			p = append(p, "cancel")
		}
		p = append(p, "wsd:0", "wsd:1", "wrr", "close:1", "wclose")
		out = append(out, Scenario{Handlers: hs, Prog: p, Seed: rng.Next(), Isolate: true, WaitMs: 8000, Tag: fmt.Sprintf("life/poll-selfclose/%d", i)})
	}
	// Close arrives while Run's RunHandlers is between two handlers that share one Pub/Sub (the second Subscribe is slow): the
	// start-up finishes first - Running() closes, every handler is started - then the router closes; Run and Close return nil
	for _, n := range []int{2, 3} {
		hs, p := addAll(n, func(h int) HandlerSpec { return HandlerSpec{GoChannel: true} })
		p = append(p, "run", "wev:sub:2", "close:1", "nap:100", "subgo", "wrun")
		for h := 0; h < n; h++ {
			p = append(p, fmt.Sprintf("cst:%d", h))
		}
		p = append(p, "wclose", "wrr")
		out = append(out, Scenario{Handlers: hs, Prog: p, SubGateFrom: 2, Seed: rng.Next(), Isolate: true, WaitMs: 8000, Tag: fmt.Sprintf("life/close-during-startup/%d", n)})
	}
	// a second Run returns an error; RunHandlers on a router that is not running returns an error
	out = append(out, Scenario{Handlers: []HandlerSpec{plain(0)}, Seed: rng.Next(), Conf: true, Tag: "life/second-run",
		Prog: prog("add:0", "run", "wrun", "run2", "emit:0:1", "whe:1", "run2", "close:1", "wclose", "wrr")})
	// GoChannel (not persistent): a message published the instant Running() closes must reach every handler
	for n := 1; n <= 5; n++ {
		hs, p := addAll(n, func(h int) HandlerSpec { return HandlerSpec{GoChannel: true} })
		p = append(p, "run", "wrun")
		for h := 0; h < n; h++ {
			p = append(p, fmt.Sprintf("pub:%d:1", h))
		}
		p = append(p, fmt.Sprintf("whs:%d", n), fmt.Sprintf("whe:%d", n), "close:1", "wclose", "wrr")
		out = append(out, Scenario{Handlers: hs, Prog: p, Seed: rng.Next(), Yield: []int{0, 300}[n%2], Tag: fmt.Sprintf("life/gochan-running/%d", n)})
	}
	return out
}

// RandomLife: seeded lifecycle programs in an order the API permits.
func RandomLife(rng *wh.Rng) Scenario {
	n := 1 + rng.Intn(5)
	pre := rng.Intn(n + 1) // handlers added before Run
	sc := Scenario{Seed: rng.Next(), Yield: []int{0, 100, 300, 600}[rng.Intn(4)], Tag: "random"}
	for h := 0; h < n; h++ {
		sc.Handlers = append(sc.Handlers, HandlerSpec{Outcomes: []string{rng.Pick("ok", "out", "err"), "ok"}})
	}
	sc.Conf = n <= 2
	p := prog()
	for h := 0; h < pre; h++ {
		p = append(p, fmt.Sprintf("add:%d", h))
	}
	parked := rng.Intn(3) == 0
	if parked {
		p = append(p, "park:"+rng.Pick("kg", "kw", "kh"))
	}
	p = append(p, "run")
	if parked { // RunHandlers parked at runhandlers.started keeps Running() open: release before waiting for it
		p = append(p, "wparkopt", "nap:1", "rel")
	}
	p = append(p, "wrun")
	for h := pre; h < n; h++ {
		p = append(p, fmt.Sprintf("add:%d", h))
		for c := 0; c <= rng.Intn(3); c++ {
			p = append(p, rng.Pick("rh", "rhbg"))
		}
		p = append(p, "rh")
	}
	p = append(p, "wrh")
	expect := 0
	alive := map[int]bool{}
	for h := 0; h < n; h++ {
		p = append(p, fmt.Sprintf("wst:%d", h))
		alive[h] = true
	}
	steps := 2 + rng.Intn(6)
	ended := false
	for s := 0; s < steps && !ended; s++ {
		h := rng.Intn(n)
		switch rng.Intn(6) {
		case 0, 1, 2:
			if alive[h] {
				k := 1 + rng.Intn(2)
				p = append(p, fmt.Sprintf("emit:%d:%d", h, k))
				expect += k
				p = append(p, fmt.Sprintf("whe:%d", expect))
			}
		case 3:
			if alive[h] {
				p = append(p, fmt.Sprintf("stop:%d", h), fmt.Sprintf("wsd:%d", h))
				alive[h] = false
			}
		case 4:
			p = append(p, "rh")
		case 5:
			if rng.Intn(3) == 0 {
				p = append(p, "cancel", "wrr")
				ended = true
			}
		}
	}
	anyAlive := false
	for _, a := range alive {
		anyAlive = anyAlive || a
	}
	if !ended && !anyAlive {
		p = append(p, "wrr")
	}
	if rng.Intn(4) == 0 {
		p = append(p, "run2")
	}
	p = append(p, fmt.Sprintf("close:%d", 1+rng.Intn(3)), "wclose", "wrr", "wacc")
	sc.Prog = p
	return sc
}
