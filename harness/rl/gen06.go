package rl

import (
	"fmt"

	"wmverif/wh"
)

func prog(ops ...string) []string { return ops }

// PathPoints: a message is held at every point of its path while Close / a second Close / Stop / cancel arrives.
func PathPoints(rng *wh.Rng, thorough bool) []Scenario {
	var out []Scenario
	points := []string{"kd", "kr", "ks", "kp", "kb"}
	outcomes := [][]string{{"ok"}, {"out"}, {"err"}, {"pubfail"}}
	for _, pt := range points {
		for _, op := range []string{"close", "close2", "stop", "cancel"} {
			for oi, oc := range outcomes {
				if !thorough && oi != int(rng.Next()%uint64(len(outcomes))) && !(pt == "kp" && oi == 1) {
					continue
				}
				if (pt == "kp" || pt == "kb") && (oc[0] == "err") {
					continue // the hook is never reached
				}
				if pt == "kb" && oc[0] == "pubfail" {
					continue
				}
				sc := Scenario{Handlers: []HandlerSpec{{Outcomes: oc}}, Conf: true, Seed: rng.Next(),
					Tag: fmt.Sprintf("path/%s/%s/%s", pt, op, oc[0])}
				p := prog("add:0", "run", "wrun", "park:"+pt, "emit:0:1", "wpark")
				switch op {
				case "close":
					p = append(p, "close:1", "wev:kS", "rel", "wclose", "wrr")
				case "close2":
					p = append(p, "close:2", "wev:kS", "rel", "wclose", "wrr")
				case "stop":
					p = append(p, "stop:0", "rel", "wsd:0", "wacc", "close:1", "wclose", "wrr")
				case "cancel":
					p = append(p, "cancel", "rel", "wrr", "wacc", "close:1", "wclose")
				}
				sc.Prog = p
				out = append(out, sc)
			}
		}
	}
	return out
}

// ClosePoints: the Close call itself / its waiter / handleClose is held while another operation runs.
func ClosePoints(rng *wh.Rng, thorough bool) []Scenario {
	var out []Scenario
	for _, pt := range []string{"kS", "kL", "kR"} {
		for _, op := range []string{"close:1", "close:3", "stop:0", "cancel", "emit:0:1"} {
			sc := Scenario{Handlers: []HandlerSpec{{Outcomes: []string{"ok", "out"}}}, Conf: true, Seed: rng.Next(),
				Tag: fmt.Sprintf("closept/%s/%s", pt, op)}
			sc.Prog = prog("add:0", "run", "wrun", "emit:0:1", "whe:1", "park:"+pt, "close:1", "wpark", op, "nap:5", "rel", "wclose", "wrr", "wacc")
			out = append(out, sc)
		}
	}
	// handleClose parked before its select while Stop / cancel ends the handler's context (no Close yet: the subscriber is not closed by the router)
	for _, op := range []string{"stop:0", "cancel"} {
		sc := Scenario{Handlers: []HandlerSpec{{}}, Conf: true, Seed: rng.Next(), Tag: "closept/kh/" + op}
		sc.Prog = prog("add:0", "park:kh", "run", "wpark", "wrun", "emit:0:1", "whe:1", op, "nap:2", "rel", "wrr", "close:2", "wclose", "wacc")
		out = append(out, sc)
	}
	// handleClose parked before its select: Close signals, Run cancels the context, then both alternatives are ready (D6)
	for _, n := range []int{1, 2, 3} {
		sc := Scenario{Conf: n == 1, Seed: rng.Next(), Tag: fmt.Sprintf("closept/kh/close/%d", n)}
		p := prog()
		for h := 0; h < n; h++ {
			sc.Handlers = append(sc.Handlers, HandlerSpec{})
			p = append(p, fmt.Sprintf("add:%d", h))
		}
		p = append(p, "park:kh", "run", "wpark", "wrun", "emit:0:1", "whe:1", "close:1", "wev:kS", "nap:5", "rel", "wclose", "wrr", "wacc")
		sc.Prog = p
		out = append(out, sc)
	}
	return out
}

// LastMessage: the subscriber hands over one more message during / after its Close began, while an earlier
// invocation is still running (the deterministic reproduction of D5), and when its context ends.
func LastMessage(rng *wh.Rng, thorough bool) []Scenario {
	var out []Scenario
	for _, last := range []int{1, 2} {
		for _, slow := range []string{"ok", "out"} {
			sc := Scenario{Handlers: []HandlerSpec{{GateAt: 1, LastOnClose: last, IgnoreCtx: true, SlowMs: 20, Outcomes: []string{slow}}}, Conf: true, Seed: rng.Next(),
				Tag: fmt.Sprintf("last/close/%d/%s", last, slow)}
			sc.Prog = prog("add:0", "run", "wrun", "emit:0:1", "whs:1", "close:1", "wev:scr", "gate", "wclose", "wrr", "wacc")
			out = append(out, sc)
		}
	}
	sc := Scenario{Handlers: []HandlerSpec{{GateAt: 1, LastOnCtx: 1}}, Conf: true, Seed: rng.Next(), Tag: "last/ctx"}
	sc.Prog = prog("add:0", "run", "wrun", "emit:0:1", "whs:1", "cancel", "wev:kS", "gate", "wrr", "wacc", "close:1", "wclose")
	out = append(out, sc)
	return out
}

// Durations: handler durations {0, < CloseTimeout, > CloseTimeout} x 1..8 concurrent Close callers.
func Durations(rng *wh.Rng, thorough bool) []Scenario {
	var out []Scenario
	callers := []int{1, 2, 3, 5, 8}
	if thorough {
		callers = []int{1, 2, 3, 4, 5, 6, 7, 8}
	}
	for _, n := range callers {
		c := fmt.Sprintf("close:%d", n)
		// 0: the handler finished before Close
		out = append(out, Scenario{Handlers: []HandlerSpec{{}}, Conf: n <= 2, Seed: rng.Next(), Tag: fmt.Sprintf("dur/zero/%d", n),
			Prog: prog("add:0", "run", "wrun", "emit:0:2", "whe:2", c, "wclose", "wrr")})
		// < timeout: the handler is released once Close has signalled
		out = append(out, Scenario{Handlers: []HandlerSpec{{GateAt: 1}}, Conf: n <= 2, Seed: rng.Next(), Tag: fmt.Sprintf("dur/short/%d", n),
			Prog: prog("add:0", "run", "wrun", "emit:0:1", "whs:1", c, "wev:kS", "gate", "wclose", "wrr")})
		// > timeout: the handler is released only after every Close call returned
		out = append(out, Scenario{Handlers: []HandlerSpec{{GateAt: 1}}, Conf: n <= 2, Seed: rng.Next(), Tag: fmt.Sprintf("dur/long/%d", n),
			Prog: prog("add:0", "run", "wrun", "emit:0:1", "whs:1", c, "wclose", "wrr", "gate", "whe:1")})
	}
	// a later Close after a timed-out one returns nil by contract
	out = append(out, Scenario{Handlers: []HandlerSpec{{GateAt: 1}}, Conf: true, Seed: rng.Next(), Tag: "dur/long/again",
		Prog: prog("add:0", "run", "wrun", "emit:0:1", "whs:1", "close:1", "wclose", "close:1", "wclose", "gate", "whe:1", "wrr")})
	return out
}

// GoChan: the same with the real GoChannel as subscriber and publisher.
func GoChan(rng *wh.Rng, thorough bool) []Scenario {
	var out []Scenario
	for _, n := range []int{1, 2, 3} {
		for _, closers := range []int{1, 4} {
			sc := Scenario{Seed: rng.Next(), Yield: 300, Tag: fmt.Sprintf("gochan/%d/%d", n, closers)}
			p := prog()
			for h := 0; h < n; h++ {
				sc.Handlers = append(sc.Handlers, HandlerSpec{GoChannel: true, Outcomes: []string{"ok", "out"}})
				p = append(p, fmt.Sprintf("add:%d", h))
			}
			p = append(p, "run", "wrun")
			for h := 0; h < n; h++ {
				p = append(p, fmt.Sprintf("pub:%d:3", h))
			}
			p = append(p, fmt.Sprintf("close:%d", closers), "wclose", "wrr")
			sc.Prog = p
			out = append(out, sc)
		}
	}
	// a message parked in the pipeline of a GoChannel-fed handler while Close arrives
	for _, pt := range []string{"kd", "kr", "ks", "kb"} {
		sc := Scenario{Handlers: []HandlerSpec{{GoChannel: true}}, Seed: rng.Next(), Tag: "gochan/park/" + pt}
		sc.Prog = prog("add:0", "run", "wrun", "park:"+pt, "pub:0:1", "wpark", "close:1", "wev:kS", "rel", "wclose", "wrr")
		out = append(out, sc)
	}
	return out
}

// RandomClose: seeded programs – 1..3 handlers, messages flowing, yields, 1..8 Close callers, optional park.
func RandomClose(rng *wh.Rng) Scenario {
	n := 1 + rng.Intn(3)
	sc := Scenario{Seed: rng.Next(), Yield: []int{0, 100, 300, 600}[rng.Intn(4)], Tag: "random"}
	p := prog()
	for h := 0; h < n; h++ {
		hs := HandlerSpec{Outcomes: []string{rng.Pick("ok", "out", "err", "pubfail", "panic"), rng.Pick("ok", "out")}}
		if rng.Intn(3) == 0 {
			hs.LastOnClose = 1 + rng.Intn(2)
		}
		if rng.Intn(4) == 0 {
			hs.LastOnCtx = 1
		}
		if rng.Intn(5) == 0 {
			hs.NoPublisher = true
		}
		sc.Handlers = append(sc.Handlers, hs)
		p = append(p, fmt.Sprintf("add:%d", h))
	}
	closers := 1 + rng.Intn(8)
	sc.Conf = n == 1 && closers <= 3
	p = append(p, "run", "wrun")
	parked := rng.Intn(2) == 0
	if parked {
		p = append(p, "park:"+rng.Pick("kd", "kr", "ks", "kp", "kb", "kS", "kL", "kR", "kh"))
	}
	for h := 0; h < n; h++ {
		p = append(p, fmt.Sprintf("emit:%d:%d", h, rng.Intn(4)))
	}
	switch rng.Intn(4) {
	case 0:
		if !parked { // with a goroutine parked in the pipeline the hand-overs cannot complete before the release
			p = append(p, "wacc")
		}
	case 1:
		p = append(p, fmt.Sprintf("stop:%d", rng.Intn(n)))
	case 2:
		p = append(p, "cancel")
	}
	p = append(p, fmt.Sprintf("close:%d", closers), "wparkopt", "nap:2", "rel", "wclose", "wrr", "wacc")
	sc.Prog = p
	return sc
}

// BeforeRunning: Close arrives before Run or inside Run's start-up (a plugin that closes the router, Close racing the
// Run call) while the subscriber has a message ready and hands one more over inside its Close. On the unchanged router
// such a Close waits for the never-started handlers and answers the timeout error (no promise); whatever it answers,
// no invocation may start after a nil.
func BeforeRunning(rng *wh.Rng, thorough bool) []Scenario {
	var out []Scenario
	for n := 1; n <= 2; n++ {
		spec := func(h int) HandlerSpec {
			return HandlerSpec{Preload: 1, LastOnClose: 1, IgnoreCtx: true, Outcomes: []string{"ok", "out"}}
		}
		hs, adds := addAll(n, spec)
		out = append(out, Scenario{Handlers: hs, Seed: rng.Next(), Conf: n == 1, Tag: fmt.Sprintf("pre/close-then-run/%d", n),
			Prog: append(append(prog(), adds...), "close:1", "wclose", "run", "wrr", "wacc")})
		out = append(out, Scenario{Handlers: hs, Seed: rng.Next(), Conf: n == 1, Tag: fmt.Sprintf("pre/plugin-close/%d", n),
			Prog: append(append(prog(), adds...), "plugclose", "run", "wrr", "wacc")})
		out = append(out, Scenario{Handlers: hs, Seed: rng.Next(), Yield: 300, Conf: n == 1, Tag: fmt.Sprintf("pre/close-racing-run/%d", n),
			Prog: append(append(prog(), adds...), "close:2", "run", "wclose", "wrr", "wacc")})
	}
	return out
}

// LockOrder: RunHandlers (Run's own, or a later call for two new handlers) is inside a slow Subscribe while Close is
// called from several goroutines; every call must return (CloseTimeout 150 ms + the liveness bound of the scenario).
func LockOrder(rng *wh.Rng, thorough bool) []Scenario {
	var out []Scenario
	for _, n := range []int{2, 3} {
		hs, adds := addAll(n, func(h int) HandlerSpec { return HandlerSpec{SubGate: true} })
		out = append(out, Scenario{Handlers: hs, Seed: rng.Next(), Conf: n == 2, WaitMs: 8000, Tag: fmt.Sprintf("lockorder/run/%d", n),
			Prog: append(append(prog(), adds...), "run", "wev:sub", "close:3", "nap:40", "subgo", "wclose", "wrr")})
	}
	// a RunHandlers call for one new handler is held right after it took handlersLock (at its log line) while Close arrives
	out = append(out, Scenario{Handlers: []HandlerSpec{{}, {}}, Seed: rng.Next(), Conf: true, WaitMs: 8000, Tag: "lockorder/logline",
		Prog: prog("add:0", "run", "wrun", "add:1", "park:kl", "rhbg", "wpark", "close:2", "nap:40", "rel", "wclose", "wrh", "wrr")})
	hs := []HandlerSpec{{}, {SubGate: true}, {SubGate: true}}
	out = append(out, Scenario{Handlers: hs, Seed: rng.Next(), Conf: false, WaitMs: 8000, Tag: "lockorder/runhandlers",
		Prog: prog("add:0", "run", "wrun", "add:1", "add:2", "rhbg", "wev:sub:2", "close:2", "nap:40", "subgo", "wclose", "wrh", "wrr")})
	return out
}

// SubscribeRetry: a handler whose first Subscribe failed is started by a second RunHandlers call; Close arrives while
// that handler's handleClose is held before its select, so its loop is the last to end and its subscriber hands over one
// more message when it is finally closed. On the unchanged router Close waits for that loop (and times out: no promise).
// Isolated in a child process: a wrong handlersWg count ends in "negative WaitGroup counter" in a router goroutine.
func SubscribeRetry(rng *wh.Rng, thorough bool) []Scenario {
	var out []Scenario
	for _, fails := range []int{1, 2} {
		p := prog("add:0", "run", "wrun", "add:1", "park:kh:h1")
		for i := 0; i <= fails; i++ {
			p = append(p, "rh")
		}
		p = append(p, "wpark", "wst:1", "emit:0:1", "whe:1", "close:1", "wclose", "rel", "wev:scr:2", "wacc", "wrr")
		out = append(out, Scenario{Handlers: []HandlerSpec{{}, {SubFail: fails, LastOnClose: 1, IgnoreCtx: true}}, Seed: rng.Next(),
			Isolate: true, Tag: fmt.Sprintf("subfail/close-late/%d", fails), Prog: p})
	}
	// the same without the park: Close right after the retry, several callers
	out = append(out, Scenario{Handlers: []HandlerSpec{{}, {SubFail: 1, LastOnClose: 1, IgnoreCtx: true}}, Seed: rng.Next(), Yield: 300,
		Isolate: true, Tag: "subfail/close", Prog: prog("add:0", "run", "wrun", "add:1", "rh", "rh", "wst:1", "emit:1:1", "whe:1", "close:3", "wclose", "wrr", "wacc")})
	return out
}

// CloseFails: the (decorated) subscriber's Close returns an error without ending the subscription; the router must still end
// the handler through its context - also for handlers that were started by RunHandlers with the caller's context, which
// Run's own cancel does not reach. Isolated: if the handler is not ended its goroutines stay behind.
func CloseFails(rng *wh.Rng, thorough bool) []Scenario {
	var out []Scenario
	out = append(out, Scenario{Handlers: []HandlerSpec{{}, {}}, FailSubDecorator: true, Isolate: true, Seed: rng.Next(), Tag: "closefail/late",
		Prog: prog("add:0", "run", "wrun", "add:1", "rh", "wst:1", "emit:1:1", "emit:0:1", "whe:2", "close:1", "wclose", "wrr", "wacc")})
	out = append(out, Scenario{Handlers: []HandlerSpec{{}, {}}, FailSubDecorator: true, Isolate: true, Seed: rng.Next(), Tag: "closefail/run",
		Prog: prog("add:0", "add:1", "run", "wrun", "emit:1:1", "whe:1", "close:2", "wclose", "wrr", "wacc")})
	return out
}

// NegativeTimeout: CloseTimeout below zero (legal: Validate accepts it, only the zero value is defaulted). A handler that is
// still running has outlived it by definition: Close must answer the error at once, never hang; Run must return.
func NegativeTimeout(rng *wh.Rng, thorough bool) []Scenario {
	var out []Scenario
	for _, n := range []int{1, 3} {
		out = append(out, Scenario{Handlers: []HandlerSpec{{GateAt: 1}}, CloseTimeoutMs: -1, WaitMs: 8000, Seed: rng.Next(), Conf: n == 1,
			Tag:  fmt.Sprintf("negtimeout/%d", n),
			Prog: prog("add:0", "run", "wrun", "emit:0:1", "whs:1", fmt.Sprintf("close:%d", n), "wclose", "wrr", "gate", "whe:1")})
	}
	return out
}

// PollingClose: the application polls the public IsClosed() from several goroutines (it takes closedLock for an instant)
// while Close is called once: the call must return - every call returns, whatever else uses the router's public API.
// Isolated: a Close that never returns leaves the router open and its goroutines behind.
func PollingClose(rng *wh.Rng, thorough bool) []Scenario {
	var out []Scenario
	rounds := 6
	if thorough {
		rounds = 16
	}
	for i := 0; i < rounds; i++ {
		out = append(out, Scenario{Handlers: []HandlerSpec{{}}, Seed: rng.Next(), Isolate: true, WaitMs: 8000, Tag: fmt.Sprintf("poll/close/%d", i),
			Prog: prog("add:0", "run", "wrun", "emit:0:1", "whe:1", fmt.Sprintf("poll:%d", 4+4*(i%3)), "nap:2", "close:1", "wclose", "wrr")})
	}
	return out
}

// DuplicateAdd: AddHandler with a taken name panics with the documented DuplicateHandlerNameError; the application recovers
// it and goes on: Run, traffic and Close must work as if nothing had happened.
func DuplicateAdd(rng *wh.Rng, thorough bool) []Scenario {
	return []Scenario{
		{Handlers: []HandlerSpec{{}}, Seed: rng.Next(), Isolate: true, WaitMs: 8000, Tag: "dupadd/close",
			Prog: prog("add:0", "dup:0", "close:2", "wclose", "run", "wrr")}, // Run afterwards: the handler is started and ends, nothing is left waiting
		{Handlers: []HandlerSpec{{}}, Seed: rng.Next(), Isolate: true, Conf: true, WaitMs: 8000, Tag: "dupadd/before-run",
			Prog: prog("add:0", "dup:0", "run", "wrun", "emit:0:1", "whe:1", "close:2", "wclose", "wrr")},
		{Handlers: []HandlerSpec{{}, {}}, Seed: rng.Next(), Isolate: true, WaitMs: 8000, Tag: "dupadd/running",
			Prog: prog("add:0", "run", "wrun", "dup:0", "add:1", "rh", "wst:1", "emit:1:1", "whe:1", "close:1", "wclose", "wrr")},
	}
}
