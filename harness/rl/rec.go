// Package rl drives the real message.Router (message/router.go, message/decorator.go) through the verification
// hook points with scripted subscribers/publishers (or GoChannel), records one totally ordered event log per
// scenario and renders it as the line protocol of the Lean drivers of C06 (Router.Close is graceful) and
// C10 (Router lifecycle): conformance with the model RouterLife + the property monitors.
package rl

import (
	"os"
	"runtime"
	"strings"
	"sync"
	"sync/atomic"
	"time"
)

// Event is one entry of the global log (kind + fields), rendered as "kind,f1,f2".
type Event struct {
	Kind string
	F    []string
}

func (e Event) String() string {
	if len(e.F) == 0 {
		return e.Kind
	}
	return e.Kind + "," + strings.Join(e.F, ",")
}

// Rec is the recorder + hook-driven scheduler of one scenario.
type Rec struct {
	mu   sync.Mutex
	cond *sync.Cond
	evs  []Event
	seed uint64

	yieldPermille int
	arrivals      uint64

	parkMu sync.Mutex
	parks  []*Park

	stream *os.File // optional: every event is also written here at once (survives a crash of the process)
}

func NewRec(seed uint64, yieldPermille int) *Rec {
	r := &Rec{seed: seed, yieldPermille: yieldPermille}
	r.cond = sync.NewCond(&r.mu)
	return r
}

// Log appends an event under the log mutex and wakes everybody waiting for an event.
func (r *Rec) Log(kind string, f ...string) int {
	r.mu.Lock()
	r.evs = append(r.evs, Event{kind, f})
	n := len(r.evs)
	if r.stream != nil {
		r.stream.WriteString(Event{kind, f}.String() + "\n")
	}
	r.cond.Broadcast()
	r.mu.Unlock()
	return n
}

func (r *Rec) Snapshot() []Event {
	r.mu.Lock()
	defer r.mu.Unlock()
	return append([]Event(nil), r.evs...)
}

// WaitEvent blocks until an event satisfying pred is in the log (also one logged earlier); false on timeout.
func (r *Rec) WaitEvent(pred func(Event) bool, d time.Duration) bool {
	deadline := time.Now().Add(d)
	stop := make(chan struct{})
	defer close(stop)
	go func() { // wake the waiter up at the deadline
		select {
		case <-time.After(d):
			r.mu.Lock()
			r.cond.Broadcast()
			r.mu.Unlock()
		case <-stop:
		}
	}()
	r.mu.Lock()
	defer r.mu.Unlock()
	seen := 0
	for {
		for ; seen < len(r.evs); seen++ {
			if pred(r.evs[seen]) {
				return true
			}
		}
		if !time.Now().Before(deadline) {
			return false
		}
		r.cond.Wait()
	}
}

// WaitCount blocks until at least n events satisfying pred are in the log; false on timeout.
func (r *Rec) WaitCount(pred func(Event) bool, n int, d time.Duration) bool {
	deadline := time.Now().Add(d)
	stop := make(chan struct{})
	defer close(stop)
	go func() {
		select {
		case <-time.After(d):
			r.mu.Lock()
			r.cond.Broadcast()
			r.mu.Unlock()
		case <-stop:
		}
	}()
	r.mu.Lock()
	defer r.mu.Unlock()
	seen, cnt := 0, 0
	for {
		for ; seen < len(r.evs); seen++ {
			if pred(r.evs[seen]) {
				cnt++
			}
		}
		if cnt >= n {
			return true
		}
		if !time.Now().Before(deadline) {
			return false
		}
		r.cond.Wait()
	}
}

// Count returns the number of logged events satisfying pred.
func (r *Rec) Count(pred func(Event) bool) int {
	r.mu.Lock()
	defer r.mu.Unlock()
	n := 0
	for _, e := range r.evs {
		if pred(e) {
			n++
		}
	}
	return n
}

// Park describes a goroutine held at a hook point.
type Park struct {
	name    string
	match   func(args []string) bool
	arrived chan struct{}
	release chan struct{}
	used    int32
}

// ParkAt arranges that the next goroutine reaching hook `name` (with matching args) blocks until Release.
func (r *Rec) ParkAt(name string, match func(args []string) bool) *Park {
	p := &Park{name: name, match: match, arrived: make(chan struct{}), release: make(chan struct{})}
	r.parkMu.Lock()
	r.parks = append(r.parks, p)
	r.parkMu.Unlock()
	return p
}

func (p *Park) WaitArrived(d time.Duration) bool {
	select {
	case <-p.arrived:
		return true
	case <-time.After(d):
		return false
	}
}

func (p *Park) Arrived() bool {
	select {
	case <-p.arrived:
		return true
	default:
		return false
	}
}

func (p *Park) Release() {
	select {
	case <-p.release:
	default:
		close(p.release)
	}
}

// ReleaseAll releases every park (end of scenario / liveness problems).
func (r *Rec) ReleaseAll() {
	r.parkMu.Lock()
	for _, p := range r.parks {
		atomic.StoreInt32(&p.used, 1)
		p.Release()
	}
	r.parkMu.Unlock()
}

func splitmix(x uint64) uint64 {
	x += 0x9E3779B97F4A7C15
	x = (x ^ (x >> 30)) * 0xBF58476D1CE4E5B9
	x = (x ^ (x >> 27)) * 0x94D049BB133111EB
	return x ^ (x >> 31)
}

var hookShort = map[string]string{
	"router.run.received":              "kr",
	"router.handle.start":              "ks",
	"router.handle.before_publish":     "kp",
	"router.handle.before_settle":      "kb",
	"router.close.signalled":           "kS",
	"router.close.loops_wait_done":     "kL",
	"router.close.running_wait_done":   "kR",
	"router.handleclose.before_select": "kh",
	"router.runhandlers.started":       "kg",
	"router.watch.before_select":       "kw",
	"decorator.sub.before_out":         "kd",
	// not a verif hook: the router's own log line "Running router handlers", written by RunHandlers right after it took
	// handlersLock (the harness's LoggerAdapter forwards it here so that a goroutine can be observed / parked there)
	"logger.running_router_handlers": "kl",
}

// Hook is installed with message.SetVerifHook. Hook events of other packages (gochannel.*) are not logged.
func (r *Rec) Hook(name string, args ...string) {
	short, ok := hookShort[name]
	if ok {
		r.Log(short, args...)
	}
	r.parkMu.Lock()
	var hit *Park
	for _, p := range r.parks {
		if p.name == name && atomic.LoadInt32(&p.used) == 0 && (p.match == nil || p.match(args)) {
			if atomic.CompareAndSwapInt32(&p.used, 0, 1) {
				hit = p
				break
			}
		}
	}
	r.parkMu.Unlock()
	if hit != nil {
		close(hit.arrived)
		<-hit.release
		return
	}
	if r.yieldPermille > 0 {
		n := atomic.AddUint64(&r.arrivals, 1)
		x := splitmix(r.seed ^ n*0x100000001B3)
		if int(x%1000) < r.yieldPermille {
			if x&0x1000 != 0 {
				time.Sleep(time.Duration(x>>20%200) * time.Microsecond)
			} else {
				runtime.Gosched()
			}
		}
	}
}

// GoroutinesIn counts goroutines whose stack mentions one of the substrings.
func GoroutinesIn(subs ...string) (int, string) {
	buf := make([]byte, 1<<22)
	n := runtime.Stack(buf, true)
	cnt := 0
	var first string
	for _, g := range strings.Split(string(buf[:n]), "\n\n") {
		for _, s := range subs {
			if strings.Contains(g, s) {
				cnt++
				if first == "" {
					first = g
				}
				break
			}
		}
	}
	return cnt, first
}
