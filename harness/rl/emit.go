package rl

import (
	"strings"

	"wmverif/wh"
)

var stuckTotal int

// TooManyStuck: several scenarios ran into the liveness bound – stop generating (each further hit costs the bound).
func TooManyStuck() bool { return stuckTotal >= 3 }

// TraceLine renders the REQ line: `trace <scenario-hex> <conf 0|1> <handlers> <tag> <event>*`.
func (res *Result) TraceLine() string {
	var b strings.Builder
	b.WriteString("trace ")
	b.WriteString(res.Sc.Encode())
	if res.Sc.Conf {
		b.WriteString(" 1 ")
	} else {
		b.WriteString(" 0 ")
	}
	b.WriteString(itoa(len(res.Sc.Handlers)))
	b.WriteString(" ")
	tag := res.Sc.Tag
	if tag == "" {
		tag = "-"
	}
	b.WriteString(tag)
	for _, e := range res.Events {
		b.WriteString(" ")
		b.WriteString(e.String())
	}
	return b.String()
}

// Emit writes the protocol lines of one scenario and its statistics.
func Emit(out *wh.Out, res *Result) {
	if len(res.Stuck) > 0 {
		stuckTotal++
	}
	out.Case(res.TraceLine(), "ok")
	out.Add("events", len(res.Events))
	out.Count("scenarios")
	if res.Sc.Conf {
		out.Count("scenarios_marked_for_conformance")
	}
	if res.Sc.Tag != "" {
		out.Count("family." + strings.SplitN(res.Sc.Tag, "/", 2)[0])
	}
	out.Count("handlers." + itoa(len(res.Sc.Handlers)))
	for _, e := range res.Events {
		switch e.Kind {
		case "hs":
			out.Count("handler_invocations")
		case "em":
			out.Count("messages_emitted")
		case "ea":
			out.Count("messages_abandoned_by_subscriber")
		case "cc":
			out.Count("close_calls")
		case "cr":
			out.Count("close_ret." + e.F[1])
		case "rr":
			out.Count("run_ret." + e.F[1])
		case "stp":
			out.Count("stop_calls")
		case "cx":
			out.Count("run_ctx_cancels")
		case "sub":
			out.Count("subscribe_calls")
		case "rel":
			out.Count("parks_released")
		}
	}
	for _, op := range res.Sc.Prog {
		if strings.HasPrefix(op, "park:") {
			out.Count("park." + op[5:])
		}
	}
	for _, s := range res.Stuck {
		out.Note("STUCK: " + s + " :: " + res.Sc.Tag + " " + strings.Join(res.Sc.Prog, " "))
		out.Count("stuck")
	}
	if res.Leftover == 0 && res.LeftDump != "" {
		out.Note("ISOLATED (" + res.Sc.Tag + "): " + res.LeftDump)
		out.Count("child_process_died")
	}
	if res.Leftover > 0 {
		out.Note("LEFTOVER goroutine (" + res.Sc.Tag + "): " + strings.ReplaceAll(res.LeftDump, "\n", " | "))
	}
}
