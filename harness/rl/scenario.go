package rl

import (
	"bufio"
	"context"
	"encoding/hex"
	"encoding/json"
	"errors"
	"fmt"
	"os"
	"os/exec"
	"strconv"
	"strings"
	"sync"
	"sync/atomic"
	"time"

	"github.com/ThreeDotsLabs/watermill"
	"github.com/ThreeDotsLabs/watermill/message"
	"github.com/ThreeDotsLabs/watermill/pubsub/gochannel"
)

// HandlerSpec scripts one handler.
type HandlerSpec struct {
	GoChannel   bool     `json:"g,omitempty"`   // subscribe to the shared GoChannel (topic "t<h>") instead of a scripted subscriber
	NoPublisher bool     `json:"np,omitempty"`  // AddNoPublisherHandler
	Outcomes    []string `json:"o,omitempty"`   // per invocation, cyclic: ok | out | pubfail | err | panic  (default ok)
	GateAt      int      `json:"ga,omitempty"`  // the n-th invocation (1-based) blocks on the gate; 0 = none
	LastOnClose int      `json:"lc,omitempty"`  // scripted subscriber hands over this many messages inside its Close
	LastOnCtx   int      `json:"lx,omitempty"`  // … when its context ends
	IgnoreCtx   bool     `json:"ic,omitempty"`  // scripted subscriber ends only through Close
	SlowMs      int      `json:"sl,omitempty"`  // every invocation takes this long (a duration below CloseTimeout)
	Preload     int      `json:"pl,omitempty"`  // messages the scripted subscriber has ready at the moment Subscribe is called
	SubGate     bool     `json:"sg,omitempty"`  // Subscribe blocks (a slow broker round trip) until the program's `subgo`
	SubFail     int      `json:"sf,omitempty"`  // the first n Subscribe calls fail ("broker temporarily unavailable")
	PubCloseErr bool     `json:"pce,omitempty"` // the scripted publisher's Close returns an error (a broker connection that is already gone);
	// the router logs it - a handler that ends is ended all the same: stopped, removed, counted for the self-close
}

// Scenario = handlers + a lifecycle program executed by the controller.
//
// Ops: add:h | run | wrun | rh | rhbg | wrh | wst:h | stop:h | wsd:h | cancel | close:n | wclose | wrr | run2 |
// emit:h:n | wacc | whs:n | whe:n | park:<hook>[:arg] | wpark | rel | wev:<kind>[:n] | gate | pub:h:n | nap:ms |
// crun (is Running() closed?) | poll:n (n goroutines spinning on IsClosed()) | dup:h (AddHandler with h's name again) | plugclose (a plugin that calls Close while Run starts up) | subgo (let gated Subscribe calls return) | cst:h (is Started() closed?)
type Scenario struct {
	Handlers         []HandlerSpec `json:"h"`
	Prog             []string      `json:"p"`
	CloseTimeoutMs   int           `json:"ct,omitempty"`
	Yield            int           `json:"y,omitempty"`
	Seed             uint64        `json:"s,omitempty"`
	Conf             bool          `json:"c,omitempty"` // the trace is also checked for conformance with the Lean model
	Tag              string        `json:"t,omitempty"`
	WaitMs           int           `json:"w,omitempty"`   // liveness bound per wait (default 20000)
	SubGateFrom      int           `json:"sgf,omitempty"` // the n-th Subscribe call of the scenario (1-based) and all later ones wait for `subgo`
	FailSubDecorator bool          `json:"fd,omitempty"`  // a router-level subscriber decorator whose Close fails before it reaches the wrapped subscriber
	Isolate          bool          `json:"iso,omitempty"` // run in a child process: a change under test may panic in a router goroutine
}

func (sc Scenario) Encode() string {
	b, _ := json.Marshal(sc)
	return hex.EncodeToString(b)
}

func Decode(s string) (Scenario, error) {
	var sc Scenario
	b, err := hex.DecodeString(s)
	if err != nil {
		return sc, err
	}
	err = json.Unmarshal(b, &sc)
	return sc, err
}

type Result struct {
	Sc       Scenario
	Events   []Event
	Stuck    []string
	Leftover int
	LeftDump string
	Wall     time.Duration
}

var poisoned int32 // an earlier scenario left goroutines behind: the census is meaningless from then on

type run struct {
	sc  Scenario
	rec *Rec

	mu     sync.Mutex
	nextU  int
	orig   map[int]*message.Message // u -> object whose settlement the router decides (scripted: the emitted object)
	seen   map[int]*message.Message // u -> last object a handler function received (GoChannel: the delivered copy)
	order  []int
	invoke map[int]int // per handler: invocations so far
	gate   chan struct{}

	subGate chan struct{} // closed by `subgo`: gated Subscribe calls return
	bound   time.Duration
	subSeq  int64 // Subscribe calls so far (all subscribers of the scenario)
}

// gateSubscribe blocks a Subscribe call that the scenario wants slow (a broker round trip) until `subgo`
func (r *run) gateSubscribe(own bool) {
	n := atomic.AddInt64(&r.subSeq, 1)
	if own || (r.sc.SubGateFrom > 0 && int(n) >= r.sc.SubGateFrom) {
		select {
		case <-r.subGate:
		case <-time.After(r.bound + 10*time.Second):
		}
	}
}

func (r *run) newMsg(h int) (*message.Message, int) {
	r.mu.Lock()
	r.nextU++
	u := r.nextU
	m := message.NewMessage("m"+strconv.Itoa(u), []byte("p"+strconv.Itoa(u)))
	r.orig[u] = m
	r.order = append(r.order, u)
	r.mu.Unlock()
	return m, u
}

// settleSnapshot renders "u:a|n|-" for every message created so far, read synchronously (non-blocking selects).
func (r *run) settleSnapshot(gochan map[int]bool) string {
	r.mu.Lock()
	defer r.mu.Unlock()
	if len(r.order) == 0 {
		return "-"
	}
	parts := make([]string, 0, len(r.order))
	for _, u := range r.order {
		m := r.orig[u]
		if gochan[u] {
			m = r.seen[u] // GoChannel delivers copies: only a copy a handler saw can be observed
		}
		st := "-"
		if m != nil {
			select {
			case <-m.Acked():
				st = "a"
			default:
				select {
				case <-m.Nacked():
					st = "n"
				default:
				}
			}
		}
		parts = append(parts, itoa(u)+":"+st)
	}
	return strings.Join(parts, "+")
}

type capLogger struct {
	rec *Rec
}

func (l capLogger) Error(msg string, err error, fields watermill.LogFields) {
	if msg == "Cannot close router" {
		l.rec.Log("wce")
	}
}
func (l capLogger) Info(msg string, fields watermill.LogFields) {
	if msg == "Running router handlers" {
		l.rec.Hook("logger.running_router_handlers")
	}
}
func (l capLogger) Debug(msg string, fields watermill.LogFields)            {}
func (l capLogger) Trace(msg string, fields watermill.LogFields)            {}
func (l capLogger) With(fields watermill.LogFields) watermill.LoggerAdapter { return l }

// Run executes one scenario against the real Router and returns the recorded log.
func Run(sc Scenario) *Result {
	t0 := time.Now()
	bound := 20 * time.Second
	if sc.WaitMs > 0 {
		bound = time.Duration(sc.WaitMs) * time.Millisecond
	}
	ct := 150 * time.Millisecond
	if sc.CloseTimeoutMs != 0 { // a negative CloseTimeout is a legal configuration (e.g. time.Until(deadline) after the deadline)
		ct = time.Duration(sc.CloseTimeoutMs) * time.Millisecond
	}
	rec := NewRec(sc.Seed, sc.Yield)
	if path := os.Getenv("RL_STREAM"); path != "" {
		if f, err := os.OpenFile(path, os.O_CREATE|os.O_WRONLY|os.O_TRUNC, 0o644); err == nil {
			rec.stream = f
			defer f.Close()
		}
	}
	message.SetVerifHook(rec.Hook)
	defer message.SetVerifHook(nil)
	res := &Result{Sc: sc}
	rn := &run{sc: sc, rec: rec, orig: map[int]*message.Message{}, seen: map[int]*message.Message{}, invoke: map[int]int{}, gate: make(chan struct{}), subGate: make(chan struct{}), bound: bound}
	gochanU := map[int]bool{}

	router, err := message.NewRouter(message.RouterConfig{CloseTimeout: ct}, capLogger{rec})
	if err != nil {
		res.Stuck = append(res.Stuck, "NewRouter: "+err.Error())
		return res
	}
	if sc.FailSubDecorator {
		router.AddSubscriberDecorators(func(sub message.Subscriber) (message.Subscriber, error) {
			return &failCloseSub{Subscriber: sub, rec: rec}, nil
		})
	}
	var ps *gochannel.GoChannel
	for _, h := range sc.Handlers {
		if h.GoChannel {
			ps = gochannel.NewGoChannel(gochannel.Config{}, watermill.NopLogger{})
			break
		}
	}
	subs := make([]*ScriptSub, len(sc.Handlers))
	handles := make([]*message.Handler, len(sc.Handlers))
	stuck := func(what string) {
		res.Stuck = append(res.Stuck, what)
		// the scenario is lost: do not spend the full liveness bound again on every wait of the wind-down
		if bound > 2*time.Second {
			bound = 2 * time.Second
		}
	}

	handlerFunc := func(h int) message.HandlerFunc {
		spec := sc.Handlers[h]
		return func(msg *message.Message) ([]*message.Message, error) {
			u, _ := strconv.Atoi(strings.TrimPrefix(msg.UUID, "m"))
			rn.mu.Lock()
			rn.invoke[h]++
			k := rn.invoke[h]
			rn.seen[u] = msg
			rn.mu.Unlock()
			rec.Log("hs", itoa(h), itoa(u))
			if spec.GateAt == k {
				rec.Log("hg", itoa(h), itoa(u))
				select {
				case <-rn.gate:
				case <-time.After(bound + 5*time.Second):
				}
			}
			if spec.SlowMs > 0 {
				time.Sleep(time.Duration(spec.SlowMs) * time.Millisecond)
			}
			oc := "ok"
			if len(spec.Outcomes) > 0 {
				oc = spec.Outcomes[(k-1)%len(spec.Outcomes)]
			}
			switch oc {
			case "err":
				rec.Log("he", itoa(h), itoa(u), "err")
				return nil, errors.New("scripted handler error")
			case "panic":
				rec.Log("he", itoa(h), itoa(u), "err")
				panic("scripted handler panic")
			case "out", "pubfail":
				rec.Log("he", itoa(h), itoa(u), "ok")
				return []*message.Message{message.NewMessage("o"+itoa(u), nil)}, nil
			default:
				rec.Log("he", itoa(h), itoa(u), "ok")
				return nil, nil
			}
		}
	}

	runCtx, cancelRun := context.WithCancel(context.Background())
	defer cancelRun()
	var runWg sync.WaitGroup
	var closeWg sync.WaitGroup
	var rhWg sync.WaitGroup
	var emitWg sync.WaitGroup
	var nClose, nRun, nRh int64
	var park *Park
	pollStop := make(chan struct{})
	var pollWg sync.WaitGroup
	gateOpen := false
	openGate := func() {
		if !gateOpen {
			gateOpen = true
			rec.Log("go")
			close(rn.gate)
		}
	}
	waitWG := func(wg *sync.WaitGroup, what string) bool {
		ch := make(chan struct{})
		go func() { wg.Wait(); close(ch) }()
		select {
		case <-ch:
			return true
		case <-time.After(bound):
			stuck(what)
			return false
		}
	}
	waitCh := func(ch <-chan struct{}, what string) bool {
		select {
		case <-ch:
			return true
		case <-time.After(bound):
			stuck(what)
			return false
		}
	}
	// callBounded runs an API call of the controller in its own goroutine: a call that never returns (deadlock in the
	// router) must not take the harness with it
	callBounded := func(what string, f func()) bool {
		done := make(chan struct{})
		go func() { defer close(done); f() }()
		return waitCh(done, what+" did not return")
	}
	kindIs := func(kind string) func(Event) bool { return func(e Event) bool { return e.Kind == kind } }
	doRun := func() {
		id := int(atomic.AddInt64(&nRun, 1)) - 1
		rec.Log("rc", itoa(id))
		r := "nil"
		func() {
			defer func() {
				if rv := recover(); rv != nil {
					r = "panic"
				}
			}()
			if err := router.Run(runCtx); err != nil {
				r = "err"
			}
		}()
		rec.Log("rr", itoa(id), r, rn.settleSnapshot(gochanU))
	}
	doRh := func() {
		id := int(atomic.AddInt64(&nRh, 1)) - 1
		rec.Log("rhc", itoa(id))
		r := "nil"
		func() {
			defer func() {
				if rv := recover(); rv != nil {
					r = "panic"
				}
			}()
			if err := router.RunHandlers(runCtx); err != nil {
				r = "err"
			}
		}()
		rec.Log("rhr", itoa(id), r)
	}

	ok := true
	for _, op := range sc.Prog {
		if !ok {
			break
		}
		f := strings.Split(op, ":")
		arg := func(i int) int {
			if len(f) > i {
				n, _ := strconv.Atoi(f[i])
				return n
			}
			return 0
		}
		switch f[0] {
		case "add":
			h := arg(1)
			spec := sc.Handlers[h]
			var sub message.Subscriber
			var pub message.Publisher
			if spec.GoChannel {
				sub = &LogSub{rec: rec, h: h, inner: ps, sc: rn}
				pub = &LogPub{rec: rec, h: h, inner: ps, forward: false}
			} else {
				subs[h] = &ScriptSub{rec: rec, h: h, sc: rn, LastOnClose: spec.LastOnClose, LastOnCtx: spec.LastOnCtx, IgnoreCtx: spec.IgnoreCtx,
					Preload: spec.Preload, SubGate: spec.SubGate, SubFail: spec.SubFail}
				sub = subs[h]
				fail := false
				for _, o := range spec.Outcomes {
					if o == "pubfail" {
						fail = true
					}
				}
				pub = &ScriptPub{rec: rec, h: h, Fail: fail, CloseErr: spec.PubCloseErr}
			}
			rec.Log("ahc", itoa(h))
			ok = callBounded("AddHandler", func() {
				defer func() {
					if r := recover(); r != nil {
						rec.Log("ahp", itoa(h))
					}
				}()
				if spec.NoPublisher {
					hf := handlerFunc(h)
					handles[h] = router.AddNoPublisherHandler("h"+itoa(h), "t"+itoa(h), sub, func(m *message.Message) error { _, e := hf(m); return e })
				} else {
					handles[h] = router.AddHandler("h"+itoa(h), "t"+itoa(h), sub, "o"+itoa(h), pub, handlerFunc(h))
				}
			})
			if !ok {
				break
			}
			pk := "p"
			if spec.NoPublisher {
				pk = "n"
			}
			rec.Log("ah", itoa(h), pk)
		case "run":
			runWg.Add(1)
			go func() { defer runWg.Done(); doRun() }()
		case "run2":
			ok = callBounded("second Run", doRun) // a second Run while the first is running: must return an error at once
		case "wrun":
			if waitCh(router.Running(), "Running() not closed") {
				rec.Log("rng")
			} else {
				ok = false
			}
		case "poll": // n goroutines poll the public IsClosed() in a tight loop until the scenario ends
			n := arg(1)
			rec.Log("pol", itoa(n))
			for i := 0; i < n; i++ {
				pollWg.Add(1)
				go func() {
					defer pollWg.Done()
					for {
						select {
						case <-pollStop:
							return
						default:
							router.IsClosed()
						}
					}
				}()
			}
		case "dup": // AddHandler with a name that is taken: the documented DuplicateHandlerNameError panic, recovered by the application
			h := arg(1)
			res := "ahn"
			ok = callBounded("AddHandler (duplicate name)", func() {
				defer func() {
					if rv := recover(); rv != nil {
						res = "ahd"
					}
				}()
				router.AddHandler("h"+itoa(h), "t"+itoa(h), &ScriptSub{rec: rec, h: h, sc: rn}, "o"+itoa(h), &ScriptPub{rec: rec, h: h}, handlerFunc(h))
			})
			if ok {
				rec.Log(res, itoa(h))
			}
		case "crun": // is Running() closed? (checked without waiting)
			select {
			case <-router.Running():
				rec.Log("rng")
			default:
				rec.Log("nrng")
			}
		case "rh":
			ok = callBounded("RunHandlers", doRh)
		case "rhbg":
			rhWg.Add(1)
			go func() { defer rhWg.Done(); doRh() }()
		case "wrh":
			ok = waitWG(&rhWg, "RunHandlers did not return")
		case "wst":
			h := arg(1)
			if waitCh(handles[h].Started(), "Started() of handler "+f[1]+" not closed") {
				rec.Log("st", itoa(h))
			} else {
				ok = false
			}
		case "stop":
			h := arg(1)
			rec.Log("stp", itoa(h))
			r := "ok"
			ok = callBounded("Stop", func() {
				defer func() {
					if rv := recover(); rv != nil {
						r = "panic"
					}
				}()
				handles[h].Stop()
			})
			if ok {
				rec.Log("stpr", itoa(h), r)
			}
		case "wsd":
			h := arg(1)
			ch := handles[h].Stopped()
			if ch == nil {
				rec.Log("sdnil", itoa(h))
			} else if waitCh(ch, "Stopped() of handler "+f[1]+" not closed") {
				rec.Log("sd", itoa(h))
			} else {
				ok = false
			}
		case "cancel":
			rec.Log("cx")
			cancelRun()
		case "close":
			n := arg(1)
			if n == 0 {
				n = 1
			}
			for i := 0; i < n; i++ {
				k := int(atomic.AddInt64(&nClose, 1)) - 1
				closeWg.Add(1)
				go func() {
					defer closeWg.Done()
					rec.Log("cc", itoa(k))
					r := "nil"
					func() {
						defer func() {
							if rv := recover(); rv != nil {
								r = "panic"
							}
						}()
						if err := router.Close(); err != nil {
							r = "err"
						}
					}()
					rec.Log("cr", itoa(k), r, rn.settleSnapshot(gochanU))
				}()
			}
		case "wclose":
			ok = waitWG(&closeWg, "Close call(s) did not return")
		case "wrr":
			ok = waitWG(&runWg, "Run did not return")
		case "emit":
			h, n := arg(1), arg(2)
			if subs[h] != nil {
				for i := 0; i < n; i++ {
					_, done := subs[h].Emit()
					emitWg.Add(1)
					go func() { defer emitWg.Done(); <-done }()
				}
			}
		case "wacc":
			ok = waitWG(&emitWg, "emissions neither accepted nor abandoned")
		case "pub":
			h, n := arg(1), arg(2)
			for i := 0; i < n; i++ {
				m, u := rn.newMsg(h)
				rn.mu.Lock()
				gochanU[u] = true
				rn.mu.Unlock()
				rec.Log("em", itoa(h), itoa(u))
				if err := ps.Publish("t"+itoa(h), m); err != nil {
					rec.Log("ea", itoa(h), itoa(u))
				}
			}
		case "whs", "whe":
			n := arg(1)
			kind := f[0][1:]
			if !rec.WaitCount(kindIs(kind), n, bound) {
				stuck(fmt.Sprintf("fewer than %d %s events", n, kind))
				ok = false
			}
		case "park":
			name := ""
			for long, short := range hookShort {
				if short == f[1] {
					name = long
				}
			}
			var match func([]string) bool
			if len(f) > 2 {
				want := f[2]
				match = func(a []string) bool {
					for _, x := range a {
						if x == want {
							return true
						}
					}
					return false
				}
			}
			park = rec.ParkAt(name, match)
		case "wpark":
			if park != nil && !park.WaitArrived(bound) {
				stuck("nobody reached the parked hook")
				ok = false
			}
		case "wparkopt": // the hook may legitimately not be reached: wait a little, go on
			if park != nil {
				park.WaitArrived(300 * time.Millisecond)
			}
		case "rel":
			if park != nil {
				rec.Log("rel")
				park.Release()
			}
		case "wev":
			n := arg(2)
			if n == 0 {
				n = 1
			}
			if !rec.WaitCount(kindIs(f[1]), n, bound) {
				stuck("event " + f[1] + " never logged")
				ok = false
			}
		case "gate":
			openGate()
		case "subgo":
			select {
			case <-rn.subGate:
			default:
				rec.Log("sgo")
				close(rn.subGate)
			}
		case "cst":
			h := arg(1)
			select {
			case <-handles[h].Started():
				rec.Log("st", itoa(h))
			default:
				// not started although it should be: the rest of the program would only run into the liveness bound
				rec.Log("nst", itoa(h))
				ok = false
			}
		case "plugclose":
			router.AddPlugin(func(r *message.Router) error {
				k := int(atomic.AddInt64(&nClose, 1)) - 1
				rec.Log("cc", itoa(k))
				res := "nil"
				func() {
					defer func() {
						if rv := recover(); rv != nil {
							res = "panic"
						}
					}()
					if err := r.Close(); err != nil {
						res = "err"
					}
				}()
				rec.Log("cr", itoa(k), res, rn.settleSnapshot(gochanU))
				return nil
			})
		case "nap":
			time.Sleep(time.Duration(arg(1)) * time.Millisecond)
		default:
			stuck("unknown op " + op)
			ok = false
		}
	}
	// ---- wind down: nothing may stay parked or gated; every call must return; the router must get closed
	close(pollStop) // the harness's own pollers are gone before the census looks at the router's goroutines
	waitWG(&pollWg, "IsClosed() pollers did not return")
	rec.ReleaseAll()
	openGate()
	select {
	case <-rn.subGate:
	default:
		close(rn.subGate)
	}
	waitWG(&closeWg, "Close call(s) did not return (wind-down)")
	waitWG(&rhWg, "RunHandlers did not return (wind-down)")
	waitWG(&emitWg, "emissions pending (wind-down)")
	closedByProg := rec.Count(func(e Event) bool { return e.Kind == "cc" || e.Kind == "cx" }) > 0
	if len(res.Stuck) == 0 && closedByProg {
		waitWG(&runWg, "Run did not return (wind-down)")
	}
	// ---- quiescence: goroutine census
	deadline := time.Now().Add(5 * time.Second)
	for atomic.LoadInt32(&poisoned) == 0 && closedByProg {
		res.Leftover, res.LeftDump = GoroutinesIn("message.(*Router)", "message.(*handler)", "messageTransformSubscriberDecorator", "rl.(*ScriptSub)")
		if res.Leftover == 0 || time.Now().After(deadline) || len(res.Stuck) > 0 {
			break
		}
		time.Sleep(time.Millisecond)
	}
	if closedByProg && atomic.LoadInt32(&poisoned) == 0 && res.Leftover == 0 && len(res.Stuck) == 0 {
		rec.Log("qs") // quiescent: the census ran and no goroutine of the router, a handler, a decorator or a scripted subscriber is left
	}
	st := "0"
	if len(res.Stuck) > 0 {
		st = "1"
	}
	rec.Log("fin", st, itoa(res.Leftover), rn.settleSnapshot(gochanU))
	// ---- cleanup (not part of the trace)
	res.Events = rec.Snapshot()
	cancelRun()
	cdone := make(chan struct{})
	go func() {
		defer close(cdone)
		defer func() { recover() }()
		router.Close()
	}()
	select {
	case <-cdone:
	case <-time.After(bound):
		res.Stuck = append(res.Stuck, "cleanup Close did not return")
	}
	for _, s := range subs {
		if s != nil && s.out != nil {
			s.shutdown()
		}
	}
	if ps != nil {
		ps.Close()
	}
	rdone := make(chan struct{})
	go func() { runWg.Wait(); close(rdone) }()
	select {
	case <-rdone:
	case <-time.After(2 * time.Second):
	}
	if len(res.Stuck) > 0 || res.Leftover > 0 {
		atomic.StoreInt32(&poisoned, 1)
	} else if atomic.LoadInt32(&poisoned) == 0 {
		// the next scenario's census must not see this router's goroutines
		d2 := time.Now().Add(5 * time.Second)
		for {
			n, _ := GoroutinesIn("message.(*Router)", "message.(*handler)", "messageTransformSubscriberDecorator", "rl.(*ScriptSub)", "gochannel.")
			if n == 0 || time.Now().After(d2) {
				if n != 0 {
					atomic.StoreInt32(&poisoned, 1)
				}
				break
			}
			time.Sleep(time.Millisecond)
		}
	}
	res.Wall = time.Since(t0)
	return res
}

// RunMaybeIsolated runs scenarios marked Isolate in a child process (the same binary in -replay mode, events streamed
// to a file): an unrecovered panic in a goroutine of the code under test then costs only that child. The trace is what
// the child streamed; a child that died gets the extra event `crash`.
func RunMaybeIsolated(sc Scenario) *Result {
	if !sc.Isolate || os.Getenv("RL_CHILD") != "" {
		return Run(sc)
	}
	t0 := time.Now()
	tmp, err := os.CreateTemp("", "rl_stream_*")
	if err != nil {
		return Run(sc)
	}
	tmp.Close()
	defer os.Remove(tmp.Name())
	outTmp := tmp.Name() + ".out"
	defer os.Remove(outTmp)
	cmd := exec.Command(os.Args[0], "-tier", "quick", "-seed", "1", "-out", outTmp, "-replay", "trace "+sc.Encode())
	cmd.Env = append(os.Environ(), "RL_CHILD=1", "RL_STREAM="+tmp.Name(), "GORACE=halt_on_error=0 exitcode=66 atexit_sleep_ms=0")
	bound := 120 * time.Second
	var stderr strings.Builder
	cmd.Stderr = &stderr
	done := make(chan error, 1)
	if err := cmd.Start(); err != nil {
		return Run(sc)
	}
	go func() { done <- cmd.Wait() }()
	var werr error
	select {
	case werr = <-done:
	case <-time.After(bound):
		cmd.Process.Kill()
		werr = errors.New("child timed out")
	}
	res := &Result{Sc: sc}
	if f, err := os.Open(tmp.Name()); err == nil {
		scn := bufio.NewScanner(f)
		scn.Buffer(make([]byte, 1<<20), 1<<24)
		for scn.Scan() {
			parts := strings.Split(scn.Text(), ",")
			if parts[0] != "" {
				res.Events = append(res.Events, Event{Kind: parts[0], F: parts[1:]})
			}
		}
		f.Close()
	}
	// what the child logged after `fin` is the harness's own cleanup (cancel, final Close), not part of the trace
	for i, e := range res.Events {
		if e.Kind == "fin" {
			res.Events = res.Events[:i+1]
			break
		}
	}
	race := strings.Contains(stderr.String(), "WARNING: DATA RACE")
	if werr != nil && !(race && len(res.Events) > 0 && res.Events[len(res.Events)-1].Kind == "fin") {
		res.Events = append(res.Events, Event{Kind: "crash"})
		msg := stderr.String()
		if i := strings.Index(msg, "panic:"); i >= 0 {
			msg = msg[i:]
		}
		if len(msg) > 300 {
			msg = msg[:300]
		}
		res.Stuck = nil
		res.LeftDump = "child process died: " + werr.Error() + " :: " + strings.ReplaceAll(msg, "\n", " | ")
	}
	if race {
		fmt.Fprintln(os.Stderr, stderr.String()) // let the pipeline see the race report
	}
	res.Wall = time.Since(t0)
	return res
}
