// Harness for C15: drives the real CQRS buses and processors of components/cqrs.
//
//	REQ bus  <c|e> <name> <topic> <hook> <mod> <pub> <enc> <info>          OBS effect tokens … R:<result>
//	REQ busseq <c|e> <hook> <mod> <info> <send>*                            OBS effect tokens of every send, separated by |
//	REQ proc <c|e|g> <flags> <oh> <reg> <info> <msg>*                      OBS one token per message
//	    info suffix .c: all messages of the stream in flight at once per subscription, rendezvous inside Unmarshal
//
// (field syntax: lean/Driver/C15.lean).  Buses publish into a capturing publisher; processors are built with the
// non-deprecated constructors (or, info flag dep=1, the deprecated facade) on a real message.Router and fed through
// scripted subscribers, one message at a time, the settlement of every delivered message object is awaited.
// Everything the model takes as a parameter (library encoding of a value, whether a payload decodes into a Go type and
// to what, the expected type name under the chosen name generator) is computed here with the library directly,
// not through the code under test.
package main

import (
	"context"
	"encoding/json"
	"errors"
	"fmt"
	"os"
	"runtime"
	"strconv"
	"strings"
	"sync"
	"sync/atomic"
	"time"

	"github.com/ThreeDotsLabs/watermill"
	"github.com/ThreeDotsLabs/watermill/components/cqrs"
	"github.com/ThreeDotsLabs/watermill/message"
	"google.golang.org/protobuf/proto"
	"google.golang.org/protobuf/types/known/durationpb"
	"google.golang.org/protobuf/types/known/wrapperspb"

	"wmverif/wh"
)

// ---------------------------------------------------------------------------------------------- type family

type OrderPlaced struct {
	ID  string `json:"id"`
	Qty int    `json:"qty"`
}

type OrderShipped struct {
	ID   int      `json:"id"` // a payload of OrderPlaced does not decode into this type
	Tags []string `json:"tags"`
}

type UserCreated struct {
	Who string `json:"who"`
	Age uint8  `json:"age"`
}

type Ping struct{}

// Name makes OrderPlaced and UserCreated "named structs" for cqrs.NamedStruct.
func (OrderPlaced) Name() string { return "order-placed" }
func (UserCreated) Name() string { return "user.created" }

// Unsendable cannot be marshalled by either marshaler (channel field; not a proto.Message).
type Unsendable struct {
	C chan int `json:"c"`
}

// Changed is a generic event/command type; its two instantiations (Go types 5 and 6, JSON family only) are different Go
// types whose %T differs only in the type argument: main.Changed[main.OrderPlaced] / main.Changed[main.UserCreated].
type Changed[T any] struct {
	ID    string `json:"id"`
	Value T      `json:"value"`
}

const nTypes = 4 // Go types 0..3 of each family; type 4 = Unsendable (bus only); 5, 6 = instantiations of Changed (JSON only);
// 7 = OrderPlaced behind two pointers (JSON only): the value sent is a **OrderPlaced (`cmd := NewX(); bus.Send(ctx, &cmd)`), a handler
// declared for *OrderPlaced decodes into a **OrderPlaced – same name as OrderPlaced: the name functions ignore pointers

// famTypes lists the Go types of a family that can be marshalled.
func famTypes(marsh byte) []int {
	if marsh == 'j' {
		return []int{0, 1, 2, 3, 5, 6, 7}
	}
	return []int{0, 1, 2, 3}
}

// nDec is the length of the decode table of a message (indexed by Go type; Unsendable never decodes).
func nDec(marsh byte) int {
	if marsh == 'j' {
		return 8
	}
	return nTypes
}

func validType(marsh byte, ty int) bool {
	for _, t := range famTypes(marsh) {
		if t == ty {
			return true
		}
	}
	return false
}

var jsonTypeNames = []string{"OrderPlaced", "OrderShipped", "UserCreated", "Ping", "Unsendable", "Changed[main.OrderPlaced]", "Changed[main.UserCreated]", "OrderPlaced"}
var protoTypeNames = []string{"StringValue", "BytesValue", "Int64Value", "Duration", "Unsendable"}

func newValue(marsh byte, ty int) interface{} {
	if ty == 4 {
		return &Unsendable{}
	}
	if marsh == 'j' {
		switch ty {
		case 0:
			return &OrderPlaced{}
		case 1:
			return &OrderShipped{}
		case 2:
			return &UserCreated{}
		case 3:
			return &Ping{}
		case 5:
			return &Changed[OrderPlaced]{}
		case 6:
			return &Changed[UserCreated]{}
		case 7:
			return new(*OrderPlaced)
		}
	} else {
		switch ty {
		case 0:
			return &wrapperspb.StringValue{}
		case 1:
			return &wrapperspb.BytesValue{}
		case 2:
			return &wrapperspb.Int64Value{}
		case 3:
			return &durationpb.Duration{}
		}
	}
	panic("type")
}

var words = []string{"", "a", "order-1", "żółw", "x y", "\"q\"", "0", "null", "K", "long-long-long-long-long-value"}

// mkValue builds a value of the family deterministically from a seed.
func mkValue(marsh byte, ty int, seed uint64) interface{} {
	r := wh.NewRng(seed)
	if ty == 4 {
		return &Unsendable{}
	}
	if marsh == 'j' {
		switch ty {
		case 0:
			return &OrderPlaced{ID: words[r.Intn(len(words))], Qty: r.Intn(2000) - 1000}
		case 1:
			n := r.Intn(3)
			tags := []string{}
			for i := 0; i < n; i++ {
				tags = append(tags, words[r.Intn(len(words))])
			}
			return &OrderShipped{ID: r.Intn(100000), Tags: tags}
		case 2:
			return &UserCreated{Who: words[r.Intn(len(words))], Age: uint8(r.Intn(256))}
		case 3:
			return &Ping{}
		case 5:
			return &Changed[OrderPlaced]{ID: words[r.Intn(len(words))], Value: OrderPlaced{ID: words[r.Intn(len(words))], Qty: r.Intn(2000) - 1000}}
		case 6:
			return &Changed[UserCreated]{ID: words[r.Intn(len(words))], Value: UserCreated{Who: words[r.Intn(len(words))], Age: uint8(r.Intn(256))}}
		case 7:
			inner := &OrderPlaced{ID: words[r.Intn(len(words))], Qty: r.Intn(2000) - 1000}
			return &inner
		}
	} else {
		switch ty {
		case 0:
			return &wrapperspb.StringValue{Value: words[r.Intn(len(words))]}
		case 1:
			b := make([]byte, r.Intn(5))
			for i := range b {
				b[i] = byte(0x80 + r.Intn(0x80)) // never valid UTF-8 when non-empty
			}
			return &wrapperspb.BytesValue{Value: b}
		case 2:
			return &wrapperspb.Int64Value{Value: int64(r.Intn(1<<30)) - (1 << 29)}
		case 3:
			return &durationpb.Duration{Seconds: int64(r.Intn(100000)), Nanos: int32(r.Intn(1000))}
		}
	}
	panic("type")
}

// libEncode is the library encoding of a value (the model's `encode` parameter).
func libEncode(marsh byte, v interface{}) ([]byte, error) {
	if marsh == 'j' {
		return json.Marshal(v)
	}
	pm, ok := v.(proto.Message)
	if !ok {
		return nil, errors.New("not a proto.Message")
	}
	return proto.MarshalOptions{Deterministic: true}.Marshal(pm)
}

// libDecode decodes a payload into a fresh value of Go type ty with the library (the model's `decode` parameter)
// and returns the canonical form of the decoded value.
func libDecode(marsh byte, ty int, payload []byte) ([]byte, bool) {
	v := newValue(marsh, ty)
	var err error
	if marsh == 'j' {
		err = json.Unmarshal(payload, v)
	} else {
		err = proto.Unmarshal(payload, v.(proto.Message))
	}
	if err != nil {
		return nil, false
	}
	b, err := libEncode(marsh, v)
	if err != nil {
		return nil, false
	}
	return b, true
}

// ---------------------------------------------------------------------------------------------- name generators

const nGens = 6

func typeIndex(v interface{}) int {
	switch v.(type) {
	case *OrderPlaced, OrderPlaced, *wrapperspb.StringValue:
		return 0
	case *OrderShipped, OrderShipped, *wrapperspb.BytesValue:
		return 1
	case *UserCreated, UserCreated, *wrapperspb.Int64Value:
		return 2
	case *Ping, Ping, *durationpb.Duration:
		return 3
	case *Unsendable, Unsendable:
		return 4
	case *Changed[OrderPlaced], Changed[OrderPlaced]:
		return 5
	case *Changed[UserCreated], Changed[UserCreated]:
		return 6
	case **OrderPlaced:
		return 7
	}
	return -1
}

var caseNames = []string{"evt", "EVT", "Evt", "evt", "eVt", "EVt", "evT", "EvT"}      // differ only in case; 0 and 3 collide
var foldNames = []string{"k", "K", "ſ", "s", "S", "ss", "ß", "SS"} // Kelvin sign / long s: equal only under Unicode case folding

// genFunc is the GenerateName handed to the marshaler; nil = the default (FullyQualifiedStructName).
func genFunc(gen int) func(v interface{}) string {
	switch gen {
	case 0:
		return nil
	case 1:
		return cqrs.StructName
	case 2:
		return cqrs.NamedStruct(cqrs.StructName)
	case 3:
		return func(v interface{}) string { return caseNames[typeIndex(v)] }
	case 4:
		return func(v interface{}) string { return "" }
	case 5:
		return func(v interface{}) string { return foldNames[typeIndex(v)] }
	}
	panic("gen")
}

// wantName is the type name this harness expects for Go type ty under generator gen (written out by hand,
// not computed with the functions of name.go).
func wantName(marsh byte, gen, ty int) string {
	pkg, tn := "main", jsonTypeNames[ty]
	if marsh == 'p' && ty < 4 {
		pkg, tn = "wrapperspb", protoTypeNames[ty]
		if ty == 3 {
			pkg = "durationpb"
		}
	}
	if ty == 5 || ty == 6 {
		// %T of an instantiated generic type carries the type argument: "main.Changed[main.OrderPlaced]".  StructName keeps
		// what follows the last dot (the documented "[type name]" of a plain struct; for an instantiation the tail of the
		// type argument) – in any case the two instantiations are two types with two names.
		arg := "OrderPlaced"
		if ty == 6 {
			arg = "UserCreated"
		}
		switch gen {
		case 0:
			return "main.Changed[main." + arg + "]"
		case 1, 2:
			return arg + "]"
		}
	}
	switch gen {
	case 0:
		return pkg + "." + tn
	case 1:
		return tn
	case 2:
		if marsh == 'j' && ty == 0 {
			return "order-placed"
		}
		// (type 7: the method set of **OrderPlaced is empty, NamedStruct falls back to StructName)
		if marsh == 'j' && ty == 2 {
			return "user.created"
		}
		return tn
	case 3:
		return caseNames[ty]
	case 4:
		return ""
	case 5:
		return foldNames[ty]
	}
	panic("gen")
}

func marshaler(marsh byte, gen int) cqrs.CommandEventMarshaler {
	n := 0
	uuid := func() string { n++; return "u" + strconv.Itoa(n) }
	if marsh == 'j' {
		return cqrs.JSONMarshaler{NewUUID: uuid, GenerateName: genFunc(gen)}
	}
	return cqrs.ProtoMarshaler{NewUUID: uuid, GenerateName: genFunc(gen)}
}

// ---------------------------------------------------------------------------------------------- bus

type busCase struct {
	cmd    bool
	topic  string // p:<hex> | k:<hex> | err
	hook   byte   // n o e
	mod    byte   // n o e
	pubOK  bool
	marsh  byte
	gen    int
	ty     int
	seed   uint64
	dep    bool // deprecated constructor (no hook possible)
}

func (b busCase) info() string {
	d := 0
	if b.dep {
		d = 1
	}
	return fmt.Sprintf("%c.%d.%d.%d.%d", b.marsh, b.gen, b.ty, b.seed, d)
}

func topicFn(spec string) func(name string) (string, error) {
	if spec == "err" {
		return func(string) (string, error) { return "", errors.New("no topic") }
	}
	arg, _ := unhex(spec[2:])
	if spec[0] == 'p' {
		return func(n string) (string, error) { return arg + n, nil }
	}
	return func(string) (string, error) { return arg, nil }
}

func unhex(s string) (string, error) {
	if s == "-" {
		return "", nil
	}
	b := make([]byte, len(s)/2)
	if len(s)%2 != 0 {
		return "", errors.New("hex")
	}
	for i := range b {
		x, err := strconv.ParseUint(s[2*i:2*i+2], 16, 8)
		if err != nil {
			return "", err
		}
		b[i] = byte(x)
	}
	return string(b), nil
}

type capturePub struct {
	log *[]string
	ok  bool
}

func (p *capturePub) Publish(topic string, msgs ...*message.Message) error {
	if len(msgs) == 0 {
		*p.log = append(*p.log, "P:"+wh.HexS(topic)+":<empty>:<empty>")
	}
	for _, m := range msgs {
		*p.log = append(*p.log, "P:"+wh.HexS(topic)+":"+wh.Meta(m.Metadata)+":"+wh.Hex(m.Payload))
	}
	if !p.ok {
		return errors.New("publisher down")
	}
	return nil
}
func (*capturePub) Close() error { return nil }

func classify(err error) string {
	if err == nil {
		return "ok"
	}
	s := err.Error()
	switch {
	case strings.Contains(s, "cannot generate topic"):
		return "topic"
	case strings.Contains(s, "cannot execute OnSend"), strings.Contains(s, "cannot execute OnPublish"):
		return "hook"
	case strings.Contains(s, "cannot modify message"):
		return "modify"
	case s == "publisher down":
		return "publish"
	}
	return "marshal" // whatever the marshaler returned
}

func runBus(b busCase) (req, obs string) {
	v := mkValue(b.marsh, b.ty, b.seed)
	name := wantName(b.marsh, b.gen, b.ty)
	enc := "x"
	if e, err := libEncode(b.marsh, v); err == nil {
		enc = wh.Hex(e)
	}
	kind := "e"
	if b.cmd {
		kind = "c"
	}
	pub := "e"
	if b.pubOK {
		pub = "o"
	}
	req = fmt.Sprintf("bus %s %s %s %c %c %s %s %s", kind, wh.HexS(name), b.topic, b.hook, b.mod, pub, enc, b.info())

	var log []string
	tf := topicFn(b.topic)
	m := marshaler(b.marsh, b.gen)
	p := &capturePub{&log, b.pubOK}
	hook := func(name string, msg *message.Message) error {
		if msg == nil {
			log = append(log, "H:nil-message")
			return nil
		}
		log = append(log, "H:"+wh.HexS(name)+":"+wh.Meta(msg.Metadata)+":"+wh.Hex(msg.Payload))
		if b.hook == 'e' {
			return errors.New("hook says no")
		}
		msg.Metadata.Set("x-hook", "1")
		return nil
	}
	var err error
	func() {
		defer func() {
			if r := recover(); r != nil {
				log = append(log, wh.PanicText(r))
				err = errors.New("panic")
			}
		}()
		ctx := context.Background()
		if b.cmd {
			var bus *cqrs.CommandBus
			var cerr error
			if b.dep {
				bus, cerr = cqrs.NewCommandBus(p, func(n string) string {
					log = append(log, "T:"+wh.HexS(n))
					t, _ := tf(n)
					return t
				}, m)
			} else {
				cfg := cqrs.CommandBusConfig{
					GeneratePublishTopic: func(params cqrs.CommandBusGeneratePublishTopicParams) (string, error) {
						log = append(log, "T:"+wh.HexS(params.CommandName))
						return tf(params.CommandName)
					},
					Marshaler: m,
				}
				if b.hook != 'n' {
					cfg.OnSend = func(params cqrs.CommandBusOnSendParams) error { return hook(params.CommandName, params.Message) }
				}
				bus, cerr = cqrs.NewCommandBusWithConfig(p, cfg)
			}
			if cerr != nil {
				panic(cerr)
			}
			if b.mod == 'n' {
				err = bus.Send(ctx, v)
			} else {
				err = bus.SendWithModifiedMessage(ctx, v, func(msg *message.Message) error {
					log = append(log, "M:"+wh.Meta(msg.Metadata)+":"+wh.Hex(msg.Payload))
					if b.mod == 'e' {
						return errors.New("modify says no")
					}
					msg.Metadata.Set("x-mod", "1")
					return nil
				})
			}
		} else {
			var bus *cqrs.EventBus
			var cerr error
			if b.dep {
				bus, cerr = cqrs.NewEventBus(p, func(n string) string {
					log = append(log, "T:"+wh.HexS(n))
					t, _ := tf(n)
					return t
				}, m)
			} else {
				cfg := cqrs.EventBusConfig{
					GeneratePublishTopic: func(params cqrs.GenerateEventPublishTopicParams) (string, error) {
						log = append(log, "T:"+wh.HexS(params.EventName))
						return tf(params.EventName)
					},
					Marshaler: m,
				}
				if b.hook != 'n' {
					cfg.OnPublish = func(params cqrs.OnEventSendParams) error { return hook(params.EventName, params.Message) }
				}
				bus, cerr = cqrs.NewEventBusWithConfig(p, cfg)
			}
			if cerr != nil {
				panic(cerr)
			}
			err = bus.Publish(ctx, v)
		}
	}()
	log = append(log, "R:"+classify(err))
	return req, strings.Join(log, " ")
}

// ---------------------------------------------------------------------------------------------- sequences through one bus

// A bus whose GeneratePublishTopic reads the value (topic per tenant) and/or state the application changes between
// sends (a feature flag); several values – mostly of few types, so that one type name recurs with different contents –
// are sent through the SAME bus object.
type busSend struct {
	ty    int
	seed  uint64
	flag  int // state of the application's switch when this value is sent
	pubOK bool
}

type busSeqCase struct {
	cmd   bool
	hook  byte // n o e
	mod   byte // n o e (command bus)
	marsh byte
	gen   int
	mode  byte // v: topic from the value's tenant; f: from the switch; m: both; e: as v, one tenant has no topic (error)
	sends []busSend
}

var tenants = []string{"acme", "globex", "initech"}
var switchStates = []string{"blue", "green"}

// tenantOf derives a tenant from the content of a value.
func tenantOf(marsh byte, v interface{}) string {
	b, err := libEncode(marsh, v)
	if err != nil {
		return "nobody"
	}
	n := 0
	for _, x := range b {
		n += int(x)
	}
	return tenants[n%len(tenants)]
}

// seqTopic is what the configuration generates for (name, value) with the switch in state flag.
func seqTopic(mode byte, marsh byte, name string, v interface{}, flag int) (string, error) {
	t := tenantOf(marsh, v)
	switch mode {
	case 'v':
		return "ev." + t + "." + name, nil
	case 'f':
		return "ev." + switchStates[flag] + "." + name, nil
	case 'm':
		return "ev." + switchStates[flag] + "." + t + "." + name, nil
	case 'e':
		if t == "initech" {
			return "", errors.New("tenant without a topic")
		}
		return "ev." + t + "." + name, nil
	}
	panic("mode")
}

func runBusSeq(b busSeqCase) (req, obs string) {
	kind := "e"
	if b.cmd {
		kind = "c"
	}
	var rq strings.Builder
	fmt.Fprintf(&rq, "busseq %s %c %c %c.%d.%c", kind, b.hook, b.mod, b.marsh, b.gen, b.mode)
	vals := make([]interface{}, len(b.sends))
	for i, s := range b.sends {
		v := mkValue(b.marsh, s.ty, s.seed)
		vals[i] = v
		name := wantName(b.marsh, b.gen, s.ty)
		enc := "x"
		if e, err := libEncode(b.marsh, v); err == nil {
			enc = wh.Hex(e)
		}
		topic := "err"
		if t, err := seqTopic(b.mode, b.marsh, name, v, s.flag); err == nil {
			topic = "k:" + wh.HexS(t)
		}
		pub := "e"
		if s.pubOK {
			pub = "o"
		}
		fmt.Fprintf(&rq, " %s/%s/%s/%s/%d.%d.%d", wh.HexS(name), topic, pub, enc, s.ty, s.seed, s.flag)
	}
	req = rq.String()

	var log []string
	flag := 0
	pub := &capturePub{&log, true}
	m := marshaler(b.marsh, b.gen)
	hook := func(name string, msg *message.Message) error {
		if msg == nil {
			log = append(log, "H:nil-message")
			return nil
		}
		log = append(log, "H:"+wh.HexS(name)+":"+wh.Meta(msg.Metadata)+":"+wh.Hex(msg.Payload))
		if b.hook == 'e' {
			return errors.New("hook says no")
		}
		msg.Metadata.Set("x-hook", "1")
		return nil
	}
	modify := func(msg *message.Message) error {
		log = append(log, "M:"+wh.Meta(msg.Metadata)+":"+wh.Hex(msg.Payload))
		if b.mod == 'e' {
			return errors.New("modify says no")
		}
		msg.Metadata.Set("x-mod", "1")
		return nil
	}
	var cbus *cqrs.CommandBus
	var ebus *cqrs.EventBus
	var cerr error
	if b.cmd {
		cfg := cqrs.CommandBusConfig{
			GeneratePublishTopic: func(params cqrs.CommandBusGeneratePublishTopicParams) (string, error) {
				log = append(log, "T:"+wh.HexS(params.CommandName))
				return seqTopic(b.mode, b.marsh, params.CommandName, params.Command, flag)
			},
			Marshaler: m,
		}
		if b.hook != 'n' {
			cfg.OnSend = func(params cqrs.CommandBusOnSendParams) error { return hook(params.CommandName, params.Message) }
		}
		cbus, cerr = cqrs.NewCommandBusWithConfig(pub, cfg)
	} else {
		cfg := cqrs.EventBusConfig{
			GeneratePublishTopic: func(params cqrs.GenerateEventPublishTopicParams) (string, error) {
				log = append(log, "T:"+wh.HexS(params.EventName))
				return seqTopic(b.mode, b.marsh, params.EventName, params.Event, flag)
			},
			Marshaler: m,
		}
		if b.hook != 'n' {
			cfg.OnPublish = func(params cqrs.OnEventSendParams) error { return hook(params.EventName, params.Message) }
		}
		ebus, cerr = cqrs.NewEventBusWithConfig(pub, cfg)
	}
	if cerr != nil {
		return req, "setup-error"
	}
	var parts []string
	for i, s := range b.sends {
		log = nil
		flag = s.flag
		pub.ok = s.pubOK
		var err error
		func() {
			defer func() {
				if r := recover(); r != nil {
					log = append(log, wh.PanicText(r))
					err = errors.New("panic")
				}
			}()
			ctx := context.Background()
			switch {
			case !b.cmd:
				err = ebus.Publish(ctx, vals[i])
			case b.mod == 'n':
				err = cbus.Send(ctx, vals[i])
			default:
				err = cbus.SendWithModifiedMessage(ctx, vals[i], modify)
			}
		}()
		log = append(log, "R:"+classify(err))
		parts = append(parts, strings.Join(log, " "))
	}
	if len(parts) == 0 {
		return req, "-"
	}
	return req, strings.Join(parts, " | ")
}

func emitBusSeq(out *wh.Out, b busSeqCase) {
	req, obs := runBusSeq(b)
	out.Case(req, obs)
	out.Count("busseq.cases")
	out.Count("busseq.mode." + string(b.mode))
	out.Add("busseq.sends", len(b.sends))
	// how often a type name recurs with a different generated topic: the situation a per-name cache gets wrong
	seen := map[int]string{}
	for _, s := range b.sends {
		v := mkValue(b.marsh, s.ty, s.seed)
		t, err := seqTopic(b.mode, b.marsh, wantName(b.marsh, b.gen, s.ty), v, s.flag)
		if err != nil {
			t = "err"
		}
		if prev, ok := seen[s.ty]; ok && prev != t {
			out.Count("busseq.same_type_other_topic")
		}
		seen[s.ty] = t
	}
}

func genBusSeq(rng *wh.Rng, cmd bool, marsh byte, gen int, mode byte) busSeqCase {
	b := busSeqCase{cmd: cmd, marsh: marsh, gen: gen, mode: mode, hook: "nnooe"[rng.Intn(5)], mod: 'n'}
	if cmd {
		b.mod = "nnnoe"[rng.Intn(5)]
	}
	n := 2 + rng.Intn(5)
	ft := famTypes(marsh)
	t0, t1 := ft[rng.Intn(len(ft))], ft[rng.Intn(len(ft))]
	for i := 0; i < n; i++ {
		ty := t0
		switch rng.Intn(8) {
		case 0, 1:
			ty = t1
		case 2:
			if rng.Intn(3) == 0 {
				ty = 4 // cannot be marshalled
			}
		}
		b.sends = append(b.sends, busSend{ty: ty, seed: rng.Next() % 1000000, flag: rng.Intn(2), pubOK: rng.Intn(6) != 0})
	}
	return b
}

// ---------------------------------------------------------------------------------------------- processors

type procMsg struct {
	md      map[string]string
	payload []byte
	stale   bool   // the incoming context already carries another "original message"
	outs    string // o/e/p per handler
	sent    string // "-" or "<ty>.<hex canonical value>"
	class   string // statistics only
}

type procCase struct {
	kind   byte // c e g
	ackErr bool
	ackUnk bool
	oh     byte // n p
	marsh  byte
	gen    int
	dep    bool
	conc   bool  // all messages of the stream are in flight at once in every subscription (rendezvous inside Unmarshal)
	reg    []int // Go type of every handler, registration order
	msgs   []procMsg
}

type invocation struct {
	h    int
	val  []byte
	orig byte
}

type scriptedSub struct {
	ch     chan *message.Message
	once   sync.Once
	topics []string
}

func (s *scriptedSub) Subscribe(ctx context.Context, topic string) (<-chan *message.Message, error) {
	s.topics = append(s.topics, topic)
	return s.ch, nil
}

func (s *scriptedSub) Close() error {
	s.once.Do(func() { close(s.ch) })
	return nil
}

type procRun struct {
	pc   procCase
	mu   sync.Mutex
	cur  *message.Message
	outs string
	invs []invocation
	// concurrent mode: several messages in flight in one subscription
	owner    map[uint64]*message.Message // goroutine that ran Unmarshal for a message (the Router starts one per message) -> that message
	flight   map[*message.Message]*inFlight
	arrived  int
	expected int
	release  chan struct{}
	released bool
	strays   []invocation // invocations with a value no Unmarshal call has seen
}

type inFlight struct {
	outs string
	seen bool
	invs []invocation
}

// rendezvousMarshaler wraps the marshaler under test (legal: Marshaler is a configuration option): Unmarshal notes
// which message a fresh value belongs to and holds every message of the batch until all of them are inside Unmarshal,
// i.e. past the context set-up and before the handler call.
type rendezvousMarshaler struct {
	cqrs.CommandEventMarshaler
	r *procRun
}

// A rendezvous that does not complete (only possible when the code under test lets fewer messages reach Unmarshal than
// the dispatch rule says) costs its timeout; after a few of them the remaining ones get a short one so that a run
// against a changed tree still ends quickly.  On the unchanged tree no rendezvous ever times out.
var rendezvousMisses int32

func rendezvousTimeout() time.Duration {
	if atomic.LoadInt32(&rendezvousMisses) >= 3 {
		return 50 * time.Millisecond
	}
	return 3 * time.Second
}

// goid is the id of the calling goroutine (from the first line of its stack trace: "goroutine 123 [running]:").
func goid() uint64 {
	var buf [64]byte
	f := strings.Fields(string(buf[:runtime.Stack(buf[:], false)]))
	if len(f) < 2 {
		return 0
	}
	n, _ := strconv.ParseUint(f[1], 10, 64)
	return n
}

func (m rendezvousMarshaler) Unmarshal(msg *message.Message, v interface{}) error {
	r := m.r
	r.mu.Lock()
	r.owner[goid()] = msg
	rel := r.release
	if f := r.flight[msg]; f != nil && !f.seen {
		f.seen = true
		r.arrived++
		if r.arrived >= r.expected && !r.released {
			// (a changed tree may let more messages reach Unmarshal than the dispatch rule says: release once)
			r.released = true
			close(r.release)
		}
		r.mu.Unlock()
		select {
		case <-rel:
		case <-time.After(rendezvousTimeout()):
			atomic.AddInt32(&rendezvousMisses, 1)
		}
	} else {
		r.mu.Unlock()
	}
	return m.CommandEventMarshaler.Unmarshal(msg, v)
}

var errScripted = errors.New("scripted handler error")

func (r *procRun) invoked(idx int, ctx context.Context, v interface{}) error {
	r.mu.Lock()
	val, err := libEncode(r.pc.marsh, v)
	if err != nil {
		val = []byte("unencodable")
	}
	cur, outs := r.cur, r.outs
	var fl *inFlight
	if r.pc.conc {
		// the message this invocation belongs to: the one decoded on this goroutine (values cannot serve as the key:
		// all pointers to zero-size values such as *Ping are equal)
		cur = r.owner[goid()]
		if fl = r.flight[cur]; fl != nil {
			outs = fl.outs
		}
	}
	o := byte('s')
	switch om := cqrs.OriginalMessageFromCtx(ctx); {
	case om == nil:
		o = 'z'
	case om == cur:
		o = 'o'
	}
	switch {
	case !r.pc.conc:
		r.invs = append(r.invs, invocation{idx, val, o})
	case fl != nil:
		fl.invs = append(fl.invs, invocation{idx, val, o})
	default:
		r.strays = append(r.strays, invocation{idx, val, 's'})
		outs = strings.Repeat("o", idx+1)
	}
	out := byte('o')
	if idx < len(outs) {
		out = outs[idx]
	}
	r.mu.Unlock()
	switch out {
	case 'e':
		return errScripted
	case 'p':
		panic("scripted handler panic")
	}
	return nil
}

func handleFn[T any](r *procRun, idx int) func(ctx context.Context, v *T) error {
	return func(ctx context.Context, v *T) error { return r.invoked(idx, ctx, v) }
}

func (r *procRun) commandHandler(idx, ty int) cqrs.CommandHandler {
	n := "h" + strconv.Itoa(idx)
	if r.pc.marsh == 'j' {
		switch ty {
		case 0:
			return cqrs.NewCommandHandler(n, handleFn[OrderPlaced](r, idx))
		case 1:
			return cqrs.NewCommandHandler(n, handleFn[OrderShipped](r, idx))
		case 2:
			return cqrs.NewCommandHandler(n, handleFn[UserCreated](r, idx))
		case 3:
			return cqrs.NewCommandHandler(n, handleFn[Ping](r, idx))
		case 5:
			return cqrs.NewCommandHandler(n, handleFn[Changed[OrderPlaced]](r, idx))
		case 6:
			return cqrs.NewCommandHandler(n, handleFn[Changed[UserCreated]](r, idx))
		case 7:
			return cqrs.NewCommandHandler(n, handleFn[*OrderPlaced](r, idx))
		}
	} else {
		switch ty {
		case 0:
			return cqrs.NewCommandHandler(n, handleFn[wrapperspb.StringValue](r, idx))
		case 1:
			return cqrs.NewCommandHandler(n, handleFn[wrapperspb.BytesValue](r, idx))
		case 2:
			return cqrs.NewCommandHandler(n, handleFn[wrapperspb.Int64Value](r, idx))
		case 3:
			return cqrs.NewCommandHandler(n, handleFn[durationpb.Duration](r, idx))
		}
	}
	panic("type")
}

func (r *procRun) eventHandler(idx, ty int) cqrs.EventHandler {
	n := "h" + strconv.Itoa(idx)
	if r.pc.marsh == 'j' {
		switch ty {
		case 0:
			return cqrs.NewEventHandler(n, handleFn[OrderPlaced](r, idx))
		case 1:
			return cqrs.NewEventHandler(n, handleFn[OrderShipped](r, idx))
		case 2:
			return cqrs.NewEventHandler(n, handleFn[UserCreated](r, idx))
		case 3:
			return cqrs.NewEventHandler(n, handleFn[Ping](r, idx))
		case 5:
			return cqrs.NewEventHandler(n, handleFn[Changed[OrderPlaced]](r, idx))
		case 6:
			return cqrs.NewEventHandler(n, handleFn[Changed[UserCreated]](r, idx))
		case 7:
			return cqrs.NewEventHandler(n, handleFn[*OrderPlaced](r, idx))
		}
	} else {
		switch ty {
		case 0:
			return cqrs.NewEventHandler(n, handleFn[wrapperspb.StringValue](r, idx))
		case 1:
			return cqrs.NewEventHandler(n, handleFn[wrapperspb.BytesValue](r, idx))
		case 2:
			return cqrs.NewEventHandler(n, handleFn[wrapperspb.Int64Value](r, idx))
		case 3:
			return cqrs.NewEventHandler(n, handleFn[durationpb.Duration](r, idx))
		}
	}
	panic("type")
}

func (r *procRun) groupHandler(idx, ty int) cqrs.GroupEventHandler {
	if r.pc.marsh == 'j' {
		switch ty {
		case 0:
			return cqrs.NewGroupEventHandler(handleFn[OrderPlaced](r, idx))
		case 1:
			return cqrs.NewGroupEventHandler(handleFn[OrderShipped](r, idx))
		case 2:
			return cqrs.NewGroupEventHandler(handleFn[UserCreated](r, idx))
		case 3:
			return cqrs.NewGroupEventHandler(handleFn[Ping](r, idx))
		case 5:
			return cqrs.NewGroupEventHandler(handleFn[Changed[OrderPlaced]](r, idx))
		case 6:
			return cqrs.NewGroupEventHandler(handleFn[Changed[UserCreated]](r, idx))
		case 7:
			return cqrs.NewGroupEventHandler(handleFn[*OrderPlaced](r, idx))
		}
	} else {
		switch ty {
		case 0:
			return cqrs.NewGroupEventHandler(handleFn[wrapperspb.StringValue](r, idx))
		case 1:
			return cqrs.NewGroupEventHandler(handleFn[wrapperspb.BytesValue](r, idx))
		case 2:
			return cqrs.NewGroupEventHandler(handleFn[wrapperspb.Int64Value](r, idx))
		case 3:
			return cqrs.NewGroupEventHandler(handleFn[durationpb.Duration](r, idx))
		}
	}
	panic("type")
}

const settleTimeout = 20 * time.Second

// deliver hands one fresh message object to a subscription and waits for its settlement.
func buildMsg(pm procMsg) *message.Message {
	msg := message.NewMessage("m", append([]byte{}, pm.payload...))
	for k, v := range pm.md {
		msg.Metadata.Set(k, v)
	}
	ctx := context.Background()
	if pm.stale {
		ctx = cqrs.CtxWithOriginalMessage(ctx, message.NewMessage("stale", nil))
	}
	msg.SetContext(ctx)
	return msg
}

func renderDelivery(invs []invocation, st string) string {
	parts := make([]string, len(invs))
	for i, iv := range invs {
		parts[i] = fmt.Sprintf("%d.%s.%c", iv.h, wh.Hex(iv.val), iv.orig)
	}
	s := "-"
	if len(parts) > 0 {
		s = strings.Join(parts, ",")
	}
	return s + "=" + st
}

// reachesUnmarshal: will the closure(s) of subscription j try to decode this message?
func (r *procRun) reachesUnmarshal(j int, pm procMsg) bool {
	name := pm.md["name"]
	if r.pc.kind != 'g' {
		return name == wantName(r.pc.marsh, r.pc.gen, r.pc.reg[j])
	}
	for _, ty := range r.pc.reg {
		if name == wantName(r.pc.marsh, r.pc.gen, ty) {
			return true
		}
	}
	return false
}

// deliverAll hands every message of the stream to subscription j without waiting for settlements in between, then
// waits for all of them; returns the observation of each message.
func (r *procRun) deliverAll(j int, sub *scriptedSub, pms []procMsg) []string {
	msgs := make([]*message.Message, len(pms))
	r.mu.Lock()
	r.owner = map[uint64]*message.Message{}
	r.flight = map[*message.Message]*inFlight{}
	r.arrived, r.expected, r.release, r.released, r.strays = 0, 0, make(chan struct{}), false, nil
	for i, pm := range pms {
		msgs[i] = buildMsg(pm)
		r.flight[msgs[i]] = &inFlight{outs: pm.outs}
		if r.reachesUnmarshal(j, pm) {
			r.expected++
		}
	}
	r.mu.Unlock()
	st := make([]string, len(pms))
	for i, msg := range msgs {
		st[i] = "t"
		select {
		case sub.ch <- msg:
		case <-time.After(settleTimeout):
			st[i] = "T"
		}
	}
	for i, msg := range msgs {
		if st[i] == "T" {
			st[i] = "t"
			continue
		}
		select {
		case <-msg.Acked():
			st[i] = "a"
		case <-msg.Nacked():
			st[i] = "n"
		case <-time.After(settleTimeout):
		}
	}
	r.mu.Lock()
	defer r.mu.Unlock()
	res := make([]string, len(pms))
	for i, msg := range msgs {
		invs := r.flight[msg].invs
		if i == 0 {
			invs = append(append([]invocation{}, invs...), r.strays...)
		}
		res[i] = renderDelivery(invs, st[i])
	}
	return res
}

func (r *procRun) deliver(sub *scriptedSub, pm procMsg) string {
	msg := buildMsg(pm)
	r.mu.Lock()
	r.cur, r.outs, r.invs = msg, pm.outs, nil
	r.mu.Unlock()
	st := "t"
	select {
	case sub.ch <- msg:
		select {
		case <-msg.Acked():
			st = "a"
		case <-msg.Nacked():
			st = "n"
		case <-time.After(settleTimeout):
		}
	case <-time.After(settleTimeout):
	}
	r.mu.Lock()
	defer r.mu.Unlock()
	return renderDelivery(r.invs, st)
}

func b01(b bool) string {
	if b {
		return "1"
	}
	return "0"
}

func (pc procCase) req() string {
	reg := make([]string, len(pc.reg))
	for i, ty := range pc.reg {
		reg[i] = wh.HexS(wantName(pc.marsh, pc.gen, ty)) + "." + strconv.Itoa(ty)
	}
	var sb strings.Builder
	fmt.Fprintf(&sb, "proc %c %s%s %c %s %c.%d.%s", pc.kind, b01(pc.ackErr), b01(pc.ackUnk), pc.oh, strings.Join(reg, ","), pc.marsh, pc.gen, b01(pc.dep))
	if pc.conc {
		sb.WriteString(".c")
	}
	for _, m := range pc.msgs {
		dec := make([]string, nDec(pc.marsh))
		for ty := range dec {
			if !validType(pc.marsh, ty) {
				dec[ty] = "x"
			} else if v, ok := libDecode(pc.marsh, ty, m.payload); ok {
				dec[ty] = wh.Hex(v)
			} else {
				dec[ty] = "x"
			}
		}
		ctx := "n"
		if m.stale {
			ctx = "s"
		}
		fmt.Fprintf(&sb, " %s/%s/%s/%s/%s/%s", wh.Meta(m.md), wh.Hex(m.payload), ctx, strings.Join(dec, ","), m.outs, m.sent)
	}
	return sb.String()
}

func runProc(pc procCase) (req, obs string, err error) {
	req = pc.req()
	defer func() {
		if rec := recover(); rec != nil {
			obs = wh.PanicText(rec)
		}
	}()
	r := &procRun{pc: pc}
	router, rerr := message.NewRouter(message.RouterConfig{CloseTimeout: 20 * time.Second}, watermill.NopLogger{})
	if rerr != nil {
		return req, "", rerr
	}
	m := marshaler(pc.marsh, pc.gen)
	if pc.conc {
		m = rendezvousMarshaler{m, r}
	}
	var subs []*scriptedSub
	newSub := func() *scriptedSub {
		s := &scriptedSub{ch: make(chan *message.Message)}
		subs = append(subs, s)
		return s
	}
	switch pc.kind {
	case 'c':
		cfg := cqrs.CommandProcessorConfig{
			GenerateSubscribeTopic: func(p cqrs.CommandProcessorGenerateSubscribeTopicParams) (string, error) {
				return "cmd." + p.CommandName, nil
			},
			SubscriberConstructor: func(cqrs.CommandProcessorSubscriberConstructorParams) (message.Subscriber, error) { return newSub(), nil },
			Marshaler:                m,
			AckCommandHandlingErrors: pc.ackErr,
		}
		if pc.oh == 'p' {
			cfg.OnHandle = func(p cqrs.CommandProcessorOnHandleParams) error {
				return p.Handler.Handle(p.Message.Context(), p.Command)
			}
		}
		if pc.dep {
			hs := make([]cqrs.CommandHandler, len(pc.reg))
			for i, ty := range pc.reg {
				hs[i] = r.commandHandler(i, ty)
			}
			p, err := cqrs.NewCommandProcessor(hs, func(n string) string { return "cmd." + n },
				func(string) (message.Subscriber, error) { return newSub(), nil }, m, watermill.NopLogger{})
			if err != nil {
				return req, "", err
			}
			if err := p.AddHandlersToRouter(router); err != nil {
				return req, "", err
			}
		} else {
			p, err := cqrs.NewCommandProcessorWithConfig(router, cfg)
			if err != nil {
				return req, "", err
			}
			for i, ty := range pc.reg {
				// one by one: AddHandlers rejects two handlers of one command type in a single call
				if _, err := p.AddHandler(r.commandHandler(i, ty)); err != nil {
					return req, "", err
				}
			}
		}
	case 'e':
		cfg := cqrs.EventProcessorConfig{
			GenerateSubscribeTopic: func(p cqrs.EventProcessorGenerateSubscribeTopicParams) (string, error) {
				return "evt." + p.EventName, nil
			},
			SubscriberConstructor: func(cqrs.EventProcessorSubscriberConstructorParams) (message.Subscriber, error) { return newSub(), nil },
			Marshaler:         m,
			AckOnUnknownEvent: pc.ackUnk,
		}
		if pc.oh == 'p' {
			cfg.OnHandle = func(p cqrs.EventProcessorOnHandleParams) error {
				return p.Handler.Handle(p.Message.Context(), p.Event)
			}
		}
		hs := make([]cqrs.EventHandler, len(pc.reg))
		for i, ty := range pc.reg {
			hs[i] = r.eventHandler(i, ty)
		}
		if pc.dep {
			p, err := cqrs.NewEventProcessor(hs, func(n string) string { return "evt." + n },
				func(string) (message.Subscriber, error) { return newSub(), nil }, m, watermill.NopLogger{})
			if err != nil {
				return req, "", err
			}
			if err := p.AddHandlersToRouter(router); err != nil {
				return req, "", err
			}
		} else {
			p, err := cqrs.NewEventProcessorWithConfig(router, cfg)
			if err != nil {
				return req, "", err
			}
			if err := p.AddHandlers(hs...); err != nil {
				return req, "", err
			}
		}
	case 'g':
		cfg := cqrs.EventGroupProcessorConfig{
			GenerateSubscribeTopic: func(p cqrs.EventGroupProcessorGenerateSubscribeTopicParams) (string, error) {
				return "grp." + p.EventGroupName, nil
			},
			SubscriberConstructor: func(cqrs.EventGroupProcessorSubscriberConstructorParams) (message.Subscriber, error) { return newSub(), nil },
			Marshaler:         m,
			AckOnUnknownEvent: pc.ackUnk,
		}
		if pc.oh == 'p' {
			cfg.OnHandle = func(p cqrs.EventGroupProcessorOnHandleParams) error {
				return p.Handler.Handle(p.Message.Context(), p.Event)
			}
		}
		p, err := cqrs.NewEventGroupProcessorWithConfig(router, cfg)
		if err != nil {
			return req, "", err
		}
		hs := make([]cqrs.GroupEventHandler, len(pc.reg))
		for i, ty := range pc.reg {
			hs[i] = r.groupHandler(i, ty)
		}
		if err := p.AddHandlersGroup("grp", hs...); err != nil {
			return req, "", err
		}
	}
	want := len(pc.reg)
	if pc.kind == 'g' {
		want = 1
	}
	if len(subs) != want {
		return req, "", fmt.Errorf("subscriber constructor called %d times, want %d", len(subs), want)
	}
	runErr := make(chan error, 1)
	go func() { runErr <- router.Run(context.Background()) }()
	select {
	case <-router.Running():
	case e := <-runErr:
		return req, "", fmt.Errorf("router did not start: %v", e)
	case <-time.After(settleTimeout):
		return req, "", errors.New("router did not start")
	}
	toks := make([]string, len(pc.msgs))
	if pc.conc {
		dels := make([][]string, len(subs))
		for j, s := range subs {
			dels[j] = r.deliverAll(j, s, pc.msgs)
		}
		for i := range pc.msgs {
			row := make([]string, len(subs))
			for j := range subs {
				row[j] = dels[j][i]
			}
			toks[i] = strings.Join(row, "|")
		}
	} else {
		for i, pm := range pc.msgs {
			dels := make([]string, len(subs))
			for j, s := range subs {
				dels[j] = r.deliver(s, pm)
			}
			toks[i] = strings.Join(dels, "|")
		}
	}
	if cerr := router.Close(); cerr != nil {
		return req, "", fmt.Errorf("router close: %v", cerr)
	}
	if len(toks) == 0 {
		return req, "-", nil
	}
	return req, strings.Join(toks, " "), nil
}

// ---------------------------------------------------------------------------------------------- generators

var malformed = map[byte][][]byte{
	'j': {[]byte("{"), nil, []byte("nul"), []byte("[1]"), []byte("\"x\""), []byte("{\"id\":}"), []byte("{} {}")},
	'p': {{0xff}, {0x0a, 0x05, 'a'}, {0x08}, {0x0a, 0xff, 0xff, 0xff, 0xff, 0xff, 0xff, 0xff, 0xff, 0xff, 0x01}},
}

func otherCase(s string) string {
	u, l := strings.ToUpper(s), strings.ToLower(s)
	if u != s {
		return u
	}
	return l
}

// genMsg builds one message of a stream for a registry.
func genMsg(rng *wh.Rng, marsh byte, gen int, reg []int) procMsg {
	pm := procMsg{md: map[string]string{}, sent: "-"}
	ft := famTypes(marsh)
	ty := ft[rng.Intn(len(ft))]
	if len(reg) > 0 && rng.Intn(4) != 0 {
		ty = reg[rng.Intn(len(reg))] // mostly a type somebody handles
	}
	v := mkValue(marsh, ty, rng.Next())
	m, err := marshaler(marsh, gen).Marshal(v)
	if err != nil {
		panic(err)
	}
	canon, _ := libEncode(marsh, v)
	name := wantName(marsh, gen, ty)
	switch c := rng.Intn(20); {
	case c < 9: // known: exactly what the marshaler produced
		pm.class = "known"
		pm.md = map[string]string(m.Metadata)
		pm.payload = m.Payload
		pm.sent = fmt.Sprintf("%d.%s", ty, wh.Hex(canon))
	case c < 11: // unknown name, valid payload
		pm.class = "unknown-name"
		pm.md["name"] = rng.Pick("main.Nope", name+" ", " "+name, name+"x", "x", otherCase(name), strings.TrimPrefix(name, "main."))
		if pm.md["name"] == name {
			pm.md["name"] = name + "?"
		}
		pm.payload = m.Payload
	case c < 13: // the name is not where the processor looks for it
		pm.class = "nameless"
		switch rng.Intn(3) {
		case 0:
			pm.md["Name"] = name
		case 1:
			pm.md["type"] = name
		}
		pm.payload = m.Payload
	case c < 16: // known name, payload that does not parse
		pm.class = "malformed"
		pm.md["name"] = name
		ml := malformed[marsh]
		pm.payload = ml[rng.Intn(len(ml))]
	default: // foreign: name of one type, payload of another
		pm.class = "foreign"
		oty := ft[rng.Intn(len(ft))]
		pm.md["name"] = wantName(marsh, gen, oty)
		pm.payload = m.Payload
		if oty == ty {
			pm.sent = fmt.Sprintf("%d.%s", ty, wh.Hex(canon))
		}
	}
	if rng.Intn(3) == 0 {
		pm.md[rng.Pick("trace", "x-hook", "NAME", "name2")] = rng.Pick("", "1", name)
	}
	pm.stale = rng.Intn(4) == 0
	outs := make([]byte, len(reg))
	mode := rng.Intn(10)
	for i := range outs {
		switch {
		case mode < 4:
			outs[i] = 'o'
		case mode < 9:
			outs[i] = "ooeoep"[rng.Intn(6)]
		default:
			outs[i] = 'e'
		}
	}
	pm.outs = string(outs)
	return pm
}

func genReg(rng *wh.Rng, marsh byte) []int {
	n := 1 + rng.Intn(5)
	reg := make([]int, n)
	if marsh == 'j' && rng.Intn(5) == 0 {
		// both instantiations of the generic type (and sometimes its type argument) side by side
		for i := range reg {
			reg[i] = []int{5, 6, 5, 6, 0, 7, 7}[rng.Intn(7)]
		}
		return reg
	}
	few := rng.Intn(2) == 0 // few distinct types: several handlers per type
	for i := range reg {
		if few {
			reg[i] = rng.Intn(2) * (1 + rng.Intn(3))
		} else {
			reg[i] = rng.Intn(nTypes)
		}
	}
	return reg
}

func emitProc(out *wh.Out, pc procCase) {
	req, obs, err := runProc(pc)
	if err != nil {
		out.Note("setup failed: " + err.Error() + " for " + req)
		obs = "setup-error"
	}
	out.Case(req, obs)
	out.Count("proc.kind." + string(pc.kind))
	out.Count("proc.marshaler." + string(pc.marsh))
	out.Count("proc.namegen." + strconv.Itoa(pc.gen))
	out.Count("proc.flags." + b01(pc.ackErr) + b01(pc.ackUnk))
	out.Count("proc.onhandle." + string(pc.oh))
	if pc.dep {
		out.Count("proc.deprecated_constructor")
	}
	if pc.conc {
		out.Count("proc.concurrent_cases")
		out.Add("proc.concurrent_messages_in_flight", len(pc.msgs))
	}
	out.Count("proc.registry.len" + strconv.Itoa(len(pc.reg)))
	out.Add("proc.messages", len(pc.msgs))
	for _, m := range pc.msgs {
		out.Count("proc.msg." + m.class)
		if strings.ContainsAny(m.outs, "ep") {
			out.Count("proc.msg.with_failing_handler")
		}
		if m.stale {
			out.Count("proc.msg.stale_ctx")
		}
	}
	for _, tok := range strings.Fields(obs) {
		for _, d := range strings.Split(tok, "|") {
			out.Count("proc.deliveries")
			if strings.HasSuffix(d, "=a") {
				out.Count("proc.settle.ack")
			} else if strings.HasSuffix(d, "=n") {
				out.Count("proc.settle.nack")
			}
			if !strings.HasPrefix(d, "-") {
				out.Add("proc.invocations", 1+strings.Count(d, ","))
			}
		}
	}
}

func emitBus(out *wh.Out, b busCase) {
	req, obs := runBus(b)
	out.Case(req, obs)
	out.Count("bus.result." + obs[strings.LastIndex(obs, "R:")+2:])
	out.Count("bus.marshaler." + string(b.marsh))
	if b.cmd {
		out.Count("bus.command")
	} else {
		out.Count("bus.event")
	}
	if b.dep {
		out.Count("bus.deprecated_constructor")
	}
}

func generate(out *wh.Out, a wh.Args) {
	rng := wh.NewRng(a.Seed)
	thorough := a.Thorough()
	// --- buses: the whole configuration space, a few values each
	topics := []string{"p:" + wh.HexS("t."), "p:-", "k:" + wh.HexS("all"), "err"}
	nv := 1
	if thorough {
		nv = 6
	}
	for _, cmd := range []bool{true, false} {
		for _, marsh := range []byte{'j', 'p'} {
			for gen := 0; gen < nGens; gen++ {
				for ty := 0; ty <= 7; ty++ {
					if ty != 4 && !validType(marsh, ty) {
						continue
					}
					for _, topic := range topics {
						for _, hook := range []byte{'n', 'o', 'e'} {
							for _, mod := range []byte{'n', 'o', 'e'} {
								if !cmd && mod != 'n' {
									continue
								}
								for _, pubOK := range []bool{true, false} {
									// thin out the less interesting corners in the quick tier
									if !thorough && (gen > 1 && topic != topics[0]) && rng.Intn(3) != 0 {
										continue
									}
									for k := 0; k < nv; k++ {
										emitBus(out, busCase{cmd: cmd, topic: topic, hook: hook, mod: mod, pubOK: pubOK, marsh: marsh, gen: gen, ty: ty, seed: rng.Next() % 1000000})
									}
								}
							}
						}
						// deprecated constructors: no hook, generator cannot fail
						if topic != "err" {
							emitBus(out, busCase{cmd: cmd, topic: topic, hook: 'n', mod: 'n', pubOK: true, marsh: marsh, gen: gen, ty: ty, seed: rng.Next() % 1000000, dep: true})
						}
					}
				}
			}
		}
	}
	// --- processors: every kind x flags x OnHandle x marshaler x name generator, random registries and streams
	per, nmsg := 6, 10
	if thorough {
		per, nmsg = 60, 14
	}
	for _, kind := range []byte{'c', 'e', 'g'} {
		for fl := 0; fl < 4; fl++ {
			for _, oh := range []byte{'n', 'p'} {
				for _, marsh := range []byte{'j', 'p'} {
					for gen := 0; gen < nGens; gen++ {
						for k := 0; k < per; k++ {
							pc := procCase{kind: kind, ackErr: fl&2 != 0, ackUnk: fl&1 != 0, oh: oh, marsh: marsh, gen: gen, reg: genReg(rng, marsh)}
							for i := 0; i < nmsg; i++ {
								pc.msgs = append(pc.msgs, genMsg(rng, marsh, gen, pc.reg))
							}
							emitProc(out, pc)
						}
					}
				}
			}
		}
	}
	// --- decision table, exhaustively on a small space: every kind x flag setting x registry over two Go types of
	// length 1..3 x message name {type 0, type 1, nobody's} x payload {value of type 0, value of type 1, malformed}
	// x every outcome assignment over ok/error/panic, both marshalers; thorough: also with OnHandle set
	outcomeAlphabet := "oep"
	tableMarsh := []byte{'j', 'p'}
	tableOH := []byte{'n'}
	if thorough {
		tableOH = []byte{'n', 'p'}
	}
	// pairs of Go types the table is built over: (0, 1) under the default names; for JSON also the two instantiations of the
	// generic type under StructName
	type tablePair struct {
		marsh  byte
		gen    int
		t0, t1 int
	}
	var pairs []tablePair
	for _, marsh := range tableMarsh {
		pairs = append(pairs, tablePair{marsh, 0, 0, 1})
	}
	pairs = append(pairs, tablePair{'j', 1, 5, 6})
	for _, tp := range pairs {
		marsh, tys := tp.marsh, []int{tp.t0, tp.t1}
		for _, kind := range []byte{'c', 'e', 'g'} {
			for flo := 0; flo < 4*len(tableOH); flo++ {
				fl, oh := flo%4, tableOH[flo/4]
				for n := 1; n <= 3; n++ {
					for shape := 0; shape < 1<<n; shape++ {
						reg := make([]int, n)
						for i := range reg {
							reg[i] = tys[(shape>>i)&1]
						}
						pc := procCase{kind: kind, ackErr: fl&2 != 0, ackUnk: fl&1 != 0, oh: oh, marsh: marsh, gen: tp.gen, reg: reg}
						for nameOf := 0; nameOf < 3; nameOf++ {
							for payOf := 0; payOf < 3; payOf++ {
								var outs []string
								var rec func(prefix string)
								rec = func(prefix string) {
									if len(prefix) == n {
										outs = append(outs, prefix)
										return
									}
									for _, o := range outcomeAlphabet {
										rec(prefix + string(o))
									}
								}
								rec("")
								for _, o := range outs {
									pm := procMsg{md: map[string]string{}, sent: "-", outs: o, class: "table"}
									if nameOf < 2 {
										pm.md["name"] = wantName(marsh, tp.gen, tys[nameOf])
									} else {
										pm.md["name"] = "main.Nobody"
									}
									if payOf < 2 {
										v := mkValue(marsh, tys[payOf], uint64(7+payOf))
										pm.payload, _ = libEncode(marsh, v)
										if nameOf == payOf {
											pm.sent = fmt.Sprintf("%d.%s", tys[payOf], wh.Hex(pm.payload))
										}
									} else {
										pm.payload = malformed[marsh][0]
									}
									pc.msgs = append(pc.msgs, pm)
								}
							}
						}
						emitProc(out, pc)
						out.Count("proc.table_cases")
					}
				}
			}
		}
	}
	// --- several messages in flight at once in one subscription (a subscriber that does not wait for the ack), with a
	// rendezvous inside Unmarshal: every message of the batch is past its context set-up before any handler is called
	cper := 2
	if thorough {
		cper = 12
	}
	for _, kind := range []byte{'c', 'e', 'g'} {
		for fl := 0; fl < 4; fl++ {
			for _, oh := range []byte{'n', 'p'} {
				for _, marsh := range []byte{'j', 'p'} {
					for gen := 0; gen < nGens; gen++ {
						for k := 0; k < cper; k++ {
							pc := procCase{kind: kind, ackErr: fl&2 != 0, ackUnk: fl&1 != 0, oh: oh, marsh: marsh, gen: gen, conc: true, reg: genReg(rng, marsh)}
							n := 2 + rng.Intn(4)
							for i := 0; i < n; i++ {
								pc.msgs = append(pc.msgs, genMsg(rng, marsh, gen, pc.reg))
							}
							emitProc(out, pc)
						}
					}
				}
			}
		}
	}
	// --- sequences of values through one bus whose topic generator reads the value / application state
	sper := 2
	if thorough {
		sper = 12
	}
	for _, cmd := range []bool{true, false} {
		for _, marsh := range []byte{'j', 'p'} {
			for gen := 0; gen < nGens; gen++ {
				for _, mode := range []byte{'v', 'f', 'm', 'e'} {
					for k := 0; k < sper; k++ {
						emitBusSeq(out, genBusSeq(rng, cmd, marsh, gen, mode))
					}
				}
			}
		}
	}
	// --- deprecated facade (cheap): NewCommandProcessor / NewEventProcessor fix the flags
	for _, kind := range []byte{'c', 'e'} {
		for _, marsh := range []byte{'j', 'p'} {
			for gen := 0; gen < nGens; gen++ {
				pc := procCase{kind: kind, ackErr: false, ackUnk: kind == 'e', oh: 'n', marsh: marsh, gen: gen, dep: true, reg: genReg(rng, marsh)}
				for i := 0; i < nmsg; i++ {
					pc.msgs = append(pc.msgs, genMsg(rng, marsh, gen, pc.reg))
				}
				emitProc(out, pc)
			}
		}
	}
}

// ---------------------------------------------------------------------------------------------- replay

func parseMetaTok(s string) (map[string]string, error) {
	md := map[string]string{}
	if s == "-" {
		return md, nil
	}
	for _, kv := range strings.Split(s, ",") {
		p := strings.Split(kv, "=")
		if len(p) != 2 {
			return nil, errors.New("meta")
		}
		k, err := unhex(p[0])
		if err != nil {
			return nil, err
		}
		v, err := unhex(p[1])
		if err != nil {
			return nil, err
		}
		md[k] = v
	}
	return md, nil
}

func replay(out *wh.Out, line string) error {
	f := strings.Fields(line)
	if len(f) == 9 && f[0] == "bus" {
		in := strings.Split(f[8], ".")
		if len(in) != 5 || len(f[4]) != 1 || len(f[5]) != 1 {
			return errors.New("bus info")
		}
		gen, _ := strconv.Atoi(in[1])
		ty, _ := strconv.Atoi(in[2])
		seed, _ := strconv.ParseUint(in[3], 10, 64)
		b := busCase{cmd: f[1] == "c", topic: f[3], hook: f[4][0], mod: f[5][0], pubOK: f[6] == "o", marsh: in[0][0], gen: gen, ty: ty, seed: seed, dep: in[4] == "1"}
		emitBus(out, b)
		return nil
	}
	if len(f) >= 5 && f[0] == "busseq" {
		in := strings.Split(f[4], ".")
		if len(in) != 3 || len(f[2]) != 1 || len(f[3]) != 1 || len(in[0]) != 1 || len(in[2]) != 1 {
			return errors.New("busseq info")
		}
		gen, err := strconv.Atoi(in[1])
		if err != nil || gen < 0 || gen >= nGens || !strings.Contains("vfme", in[2]) {
			return errors.New("busseq generator")
		}
		b := busSeqCase{cmd: f[1] == "c", hook: f[2][0], mod: f[3][0], marsh: in[0][0], gen: gen, mode: in[2][0]}
		for _, sd := range f[5:] {
			p := strings.Split(sd, "/")
			if len(p) != 5 {
				return errors.New("busseq send")
			}
			vi := strings.Split(p[4], ".")
			if len(vi) != 3 {
				return errors.New("busseq value")
			}
			ty, e1 := strconv.Atoi(vi[0])
			seed, e2 := strconv.ParseUint(vi[1], 10, 64)
			flag, e3 := strconv.Atoi(vi[2])
			if e1 != nil || e2 != nil || e3 != nil || (ty != 4 && !validType(b.marsh, ty)) || flag < 0 || flag > 1 {
				return errors.New("busseq value")
			}
			b.sends = append(b.sends, busSend{ty: ty, seed: seed, flag: flag, pubOK: p[2] == "o"})
		}
		emitBusSeq(out, b)
		return nil
	}
	if len(f) >= 6 && f[0] == "proc" {
		in := strings.Split(f[5], ".")
		if (len(in) != 3 && !(len(in) == 4 && in[3] == "c")) || len(f[2]) != 2 {
			return errors.New("proc info")
		}
		gen, _ := strconv.Atoi(in[1])
		pc := procCase{kind: f[1][0], ackErr: f[2][0] == '1', ackUnk: f[2][1] == '1', oh: f[3][0], marsh: in[0][0], gen: gen, dep: in[2] == "1", conc: len(in) == 4}
		for _, e := range strings.Split(f[4], ",") {
			p := strings.Split(e, ".")
			if len(p) != 2 {
				return errors.New("registry")
			}
			ty, err := strconv.Atoi(p[1])
			if err != nil || !validType(pc.marsh, ty) {
				return errors.New("registry type")
			}
			pc.reg = append(pc.reg, ty)
		}
		for _, ms := range f[6:] {
			p := strings.Split(ms, "/")
			if len(p) != 6 {
				return errors.New("message")
			}
			if len(p[4]) != len(pc.reg) {
				return errors.New("outcomes")
			}
			if strings.HasPrefix(p[0], "@") {
				// corpus form "@<ty>.<seed>": the message the marshaler of the tree under test produces for that value
				// (metadata and payload are whatever it writes; the request printed for the driver carries them)
				vi := strings.Split(p[0][1:], ".")
				if len(vi) != 2 {
					return errors.New("marshalled message")
				}
				ty, e1 := strconv.Atoi(vi[0])
				seed, e2 := strconv.ParseUint(vi[1], 10, 64)
				if e1 != nil || e2 != nil || !validType(pc.marsh, ty) {
					return errors.New("marshalled message value")
				}
				v := mkValue(pc.marsh, ty, seed)
				m, err := marshaler(pc.marsh, pc.gen).Marshal(v)
				if err != nil {
					return err
				}
				canon, _ := libEncode(pc.marsh, v)
				pc.msgs = append(pc.msgs, procMsg{md: map[string]string(m.Metadata), payload: m.Payload, stale: p[2] == "s", outs: p[4],
					sent: fmt.Sprintf("%d.%s", ty, wh.Hex(canon)), class: "replay"})
				continue
			}
			md, err := parseMetaTok(p[0])
			if err != nil {
				return err
			}
			pl, err := unhex(p[1])
			if err != nil {
				return err
			}
			pc.msgs = append(pc.msgs, procMsg{md: md, payload: []byte(pl), stale: p[2] == "s", outs: p[4], sent: p[5], class: "replay"})
		}
		emitProc(out, pc)
		return nil
	}
	return errors.New("unknown request")
}

func main() {
	a := wh.ParseArgs()
	out := wh.NewOut(a.Out)
	defer out.Close()
	if a.Replay != "" {
		if err := replay(out, a.Replay); err != nil {
			fmt.Fprintln(os.Stderr, "cannot replay:", err)
			out.Case(a.Replay, "unreplayable")
		}
		return
	}
	generate(out, a)
	out.Add("proc.rendezvous_timeouts", int(atomic.LoadInt32(&rendezvousMisses)))
}
