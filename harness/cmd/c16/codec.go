package main

import (
	"encoding/json"
	"sort"
	"strings"

	"github.com/ThreeDotsLabs/watermill/components/forwarder"
	"github.com/ThreeDotsLabs/watermill/message"

	"wmverif/wh"
)

func envErr(err error) string {
	s := err.Error()
	switch {
	case strings.Contains(s, "unknown destination topic") && strings.Contains(s, "invalid"):
		return "err:invalid"
	case strings.Contains(s, "unknown destination topic"):
		return "err:wrap"
	case strings.Contains(s, "cannot unmarshal"):
		return "err:unmarshal"
	case strings.Contains(s, "cannot marshal"):
		return "err:marshal"
	}
	return "err:other(" + wh.HexS(s) + ")"
}

// envelopeView decodes the wrapper's payload with a generic JSON decoder (not with watermill's struct):
// which of the four fields are there and what they hold. A missing field is "!", unexpected fields are appended.
func envelopeView(payload []byte) string {
	var g map[string]json.RawMessage
	if err := json.Unmarshal(payload, &g); err != nil {
		return "E:notjson"
	}
	field := func(name string, render func(json.RawMessage) string) string {
		raw, ok := g[name]
		if !ok {
			return "!"
		}
		delete(g, name)
		return render(raw)
	}
	str := func(raw json.RawMessage) string {
		var s *string
		if json.Unmarshal(raw, &s) != nil || s == nil {
			return "?"
		}
		return wh.HexS(*s)
	}
	parts := []string{
		field("destination_topic", str),
		field("uuid", str),
		field("payload", func(raw json.RawMessage) string {
			var b []byte
			if json.Unmarshal(raw, &b) != nil {
				return "?"
			}
			return payloadTok(b)
		}),
		field("metadata", func(raw json.RawMessage) string {
			var m map[string]string
			if json.Unmarshal(raw, &m) != nil {
				return "?"
			}
			return metaTok(m)
		}),
	}
	res := "E:" + strings.Join(parts, "/")
	if len(g) > 0 {
		extra := make([]string, 0, len(g))
		for k := range g {
			extra = append(extra, wh.HexS(k))
		}
		sort.Strings(extra)
		res += "+" + strings.Join(extra, "+")
	}
	return res
}

// runEnv: wrap, look at the envelope, unwrap.
func runEnv(dest string, l lit) (obs string) {
	defer func() {
		if r := recover(); r != nil {
			obs = wh.PanicText(r)
		}
	}()
	m := l.build()
	w, err := forwarder.VerifWrapMessageInEnvelope(dest, m)
	if err != nil {
		return envErr(err)
	}
	d, u, err := forwarder.VerifUnwrapMessageFromEnvelope(w)
	if err != nil {
		return envErr(err)
	}
	if w.UUID == "" {
		return "err:wrapper-without-uuid"
	}
	return "ok " + envelopeView(w.Payload) + " W:" + metaTok(w.Metadata) + " U:" + wh.HexS(d) + " " + dump(u)
}

// runJenv: the JSON text of the envelope as produced by the real code (compared byte for byte with the Lean model).
func runJenv(dest string, l lit) (obs string) {
	defer func() {
		if r := recover(); r != nil {
			obs = wh.PanicText(r)
		}
	}()
	w, err := forwarder.VerifWrapMessageInEnvelope(dest, l.build())
	if err != nil {
		return envErr(err)
	}
	return wh.Hex(w.Payload)
}

type capturePublisher struct {
	topics []string
	msgs   [][]*message.Message
}

func (c *capturePublisher) Publish(topic string, messages ...*message.Message) error {
	c.topics = append(c.topics, topic)
	c.msgs = append(c.msgs, messages)
	return nil
}
func (c *capturePublisher) Close() error { return nil }

// runFpub: forwarder.Publisher.Publish(topic, msgs...) on a capturing publisher, every captured message unwrapped.
func runFpub(cfg, topic string, ls []lit) (obs string) {
	defer func() {
		if r := recover(); r != nil {
			obs = wh.PanicText(r)
		}
	}()
	cp := &capturePublisher{}
	p := forwarder.NewPublisher(cp, forwarder.PublisherConfig{ForwarderTopic: cfg})
	msgs := make([]*message.Message, len(ls))
	for i, l := range ls {
		msgs[i] = l.build()
	}
	if err := p.Publish(topic, msgs...); err != nil {
		if len(cp.topics) != 0 {
			return "err:published-despite-error"
		}
		return envErr(err)
	}
	if len(cp.topics) != 1 {
		return "err:publish-calls=" + wh.Itoa(len(cp.topics))
	}
	parts := []string{"ok", "T:" + wh.HexS(cp.topics[0])}
	for _, w := range cp.msgs[0] {
		d, u, err := forwarder.VerifUnwrapMessageFromEnvelope(w)
		if err != nil {
			parts = append(parts, envErr(err))
			continue
		}
		parts = append(parts, wh.HexS(d), dump(u))
	}
	return strings.Join(parts, " ")
}

// mirror of the envelope's JSON shape, owned by the harness: what a decoder makes of a raw payload
type envMirror struct {
	DestinationTopic string            `json:"destination_topic"`
	UUID             string            `json:"uuid"`
	Payload          []byte            `json:"payload"`
	Metadata         map[string]string `json:"metadata"`
}

func decodeMirror(raw []byte) string {
	var e envMirror
	if err := json.Unmarshal(raw, &e); err != nil {
		return "none"
	}
	return wh.HexS(e.DestinationTopic) + "/" + wh.HexS(e.UUID) + "/" + payloadTok(e.Payload) + "/" + metaTok(e.Metadata)
}

func runUnenv(raw []byte) (obs string) {
	defer func() {
		if r := recover(); r != nil {
			obs = wh.PanicText(r)
		}
	}()
	d, u, err := forwarder.VerifUnwrapMessageFromEnvelope(message.NewMessage("w", raw))
	if err != nil {
		return envErr(err)
	}
	return "ok " + wh.HexS(d) + " " + dump(u)
}

var malformed = []string{
	"", "not json", "{", "null", "[]", "{}", `""`, "5", `{"destination_topic":""}`, `{"destination_topic":"t"}`,
	`{"destination_topic":"t","uuid":"u","payload":"cA==","metadata":{"k":"v"}}`,
	`{"destination_topic":"t","uuid":"u","payload":"!!!","metadata":{}}`,
	`{"destination_topic":5}`, `{"destination_topic":"t","metadata":{"k":1}}`,
	`{"destination_topic":"t","uuid":null,"payload":null,"metadata":null}`,
	`{"destination_topic":"t","unknown_field":1,"uuid":"u"}`,
	`{"DESTINATION_TOPIC":"case","UUID":"u"}`,
	`{"destination_topic":"a","destination_topic":"b"}`,
	`{"uuid":"u","payload":"","metadata":{}}`,
	`{"destination_topic":" é","uuid":"😀","payload":"AP8=","metadata":{"":""}}`,
	` {"destination_topic" : "t" } `,
}

func envCases(out *wh.Out, r *wh.Rng, n int) {
	for i := 0; i < n; i++ {
		l := genLit(r)
		dest := genStr(r)
		if dest == "" && i%10 != 0 {
			dest = "topic"
		}
		out.Case("env "+wh.HexS(dest)+" "+l.tok(), runEnv(dest, l))
		countLit(out, "env", l)
		out.Count("env.dest." + strClass(dest))
		if i%2 == 0 {
			raw := runJenv(dest, l)
			out.Case("jenv "+wh.HexS(dest)+" "+l.tok(), raw)
			out.Count("jenv.json_text_byte_for_byte")
			if b, err := unhex(raw); err == nil && !strings.HasPrefix(raw, "err:") {
				// what Go's decoder makes of the text Go's encoder wrote, against the Lean decoder (a TEST of the library)
				out.Case("jdec "+raw, decodeMirror(b))
				out.Count("test.json_decoder_agrees")
			}
		}
	}
	// every single character class through the JSON string escaper: all of ASCII, the two line separators, samples of 2/3/4-byte runes
	for c := rune(0); c < 0x80; c++ {
		l := lit{uuid: string(c), entries: [][2]string{{string(c) + "k", "v" + string(c)}}}
		out.Case("jenv "+wh.HexS("t"+string(c))+" "+l.tok(), runJenv("t"+string(c), l))
		out.Count("jenv.json_text_byte_for_byte")
	}
	for _, c := range []rune{0x80, 0xa0, 0x7ff, 0x800, 0x2027, 0x2028, 0x2029, 0x202a, 0xd7ff, 0xe000, 0xfffd, 0xfffe, 0xffff, 0x10000, 0x1f600, 0x10ffff} {
		l := lit{uuid: string(c), payload: []byte(string(c)), entries: [][2]string{{string(c), string(c)}, {"a" + string(c), ""}}}
		out.Case("jenv "+wh.HexS(string(c))+" "+l.tok(), runJenv(string(c), l))
		out.Count("jenv.json_text_byte_for_byte")
	}
	// base64: every payload length modulo 3, all byte values
	all := make([]byte, 256)
	for i := range all {
		all[i] = byte(i)
	}
	for n := 0; n <= 7; n++ {
		l := lit{uuid: "u", payload: all[:n], metaNil: n%2 == 0}
		out.Case("jenv 74 "+l.tok(), runJenv("t", l))
		out.Count("jenv.json_text_byte_for_byte")
	}
	for _, p := range [][]byte{all, all[250:], {0xfb, 0xff}, {0xff, 0xef, 0xbe}} {
		l := lit{uuid: "u", payload: p}
		out.Case("jenv 74 "+l.tok(), runJenv("t", l))
		out.Count("jenv.json_text_byte_for_byte")
	}
	// fixed corner cases: every combination of nil/empty components
	for _, p := range [][]byte{nil, {}, {0}} {
		for mi := 0; mi < 3; mi++ {
			l := lit{uuid: "", payload: p, metaNil: mi == 0}
			if mi == 2 {
				l.entries = [][2]string{{"", ""}}
			}
			out.Case("env "+wh.HexS("t")+" "+l.tok(), runEnv("t", l))
			out.Count("env.corner")
		}
	}
	for i := 0; i < n/5; i++ {
		k := r.Intn(4)
		ls := make([]lit, k)
		toks := make([]string, k)
		for j := range ls {
			ls[j] = genLit(r)
			toks[j] = ls[j].tok()
		}
		cfg := ""
		if r.Bool() {
			cfg = genStr(r)
		}
		topic := genStr(r)
		if topic == "" && i%10 != 0 {
			topic = "dest"
		}
		out.Case(strings.TrimSpace("fpub "+wh.HexS(cfg)+" "+wh.HexS(topic)+" "+strings.Join(toks, " ")), runFpub(cfg, topic, ls))
		out.Count("fpub.messages" + wh.Itoa(k))
		if cfg == "" {
			out.Count("fpub.default_forwarder_topic")
		}
	}
	for _, raw := range malformed {
		out.Case("unenv "+decodeMirror([]byte(raw))+" "+wh.HexS(raw), runUnenv([]byte(raw)))
		out.Count("unenv.malformed")
	}
}
