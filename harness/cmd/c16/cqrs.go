package main

import (
	"fmt"
	"os"
	"reflect"
	"strconv"
	"strings"

	"github.com/ThreeDotsLabs/watermill/components/cqrs"
	"github.com/ThreeDotsLabs/watermill/message"
	gogotypes "github.com/gogo/protobuf/types"
	"google.golang.org/protobuf/encoding/protowire"
	stdproto "google.golang.org/protobuf/proto"
	"google.golang.org/protobuf/types/known/anypb"
	"google.golang.org/protobuf/types/known/durationpb"
	"google.golang.org/protobuf/types/known/emptypb"
	"google.golang.org/protobuf/types/known/fieldmaskpb"
	"google.golang.org/protobuf/types/known/structpb"
	"google.golang.org/protobuf/types/known/timestamppb"
	"google.golang.org/protobuf/types/known/wrapperspb"

	"wmverif/wh"
)

// ---------------------------------------------------------------------------------------------
// the JSON family

type Simple struct {
	A string
	B int
	C bool
}

type Numbers struct {
	I8  int8
	I16 int16
	I32 int32
	I64 int64
	U8  uint8
	U32 uint32
	U64 uint64
	F32 float32
	F64 float64
}

type Tagged struct {
	Title string  `json:"title"`
	Count int64   `json:"count,string"`
	Opt   *string `json:"opt,omitempty"`
	Raw   []byte  `json:"raw"`
	Esc   string  `json:"<esc&>"`
}

type Embedded struct {
	E1 string
	E2 uint16
}

type Nested struct {
	Name   string
	Tags   []string
	Attrs  map[string]string
	Inner  *Simple
	List   []Simple
	Matrix map[string][]int
	Grid   [2][2]int8
	Embedded
}

type Named struct {
	ID   string
	Kind string
}

// Name makes cqrs.NamedStruct use the value's own name.
func (n Named) Name() string { return "named:" + n.Kind }

// Untyped has members without a static type; they hold what encoding/json produces for such members.
type Untyped struct {
	ID   int64
	Any  interface{}
	Map  map[string]interface{}
	List []interface{}
	Num  interface{} `json:"num"`
}

type Empty struct{}

// Unserialisable cannot be encoded by encoding/json (channel field).
type Unserialisable struct {
	A string
	C chan int
}

var jsonTypes = []reflect.Type{
	reflect.TypeOf(Simple{}), reflect.TypeOf(Numbers{}), reflect.TypeOf(Tagged{}), reflect.TypeOf(Nested{}),
	reflect.TypeOf(Named{}), reflect.TypeOf(Empty{}), reflect.TypeOf(""), reflect.TypeOf(map[string]int{}),
	reflect.TypeOf([]Simple{}), reflect.TypeOf(int64(0)), reflect.TypeOf(Unserialisable{}),
	reflect.TypeOf(Untyped{}), reflect.TypeOf(map[string]interface{}{}),
}

// genJSONValue returns a pointer to a random value of the idx-th type of the family.
func genJSONValue(idx int, seed uint64) reflect.Value {
	p := reflect.New(jsonTypes[idx%len(jsonTypes)])
	r := wh.NewRng(seed)
	fill(r, p.Elem(), 0)
	if u, ok := p.Interface().(*Untyped); ok {
		u.Num = genFloat(r, 64) // an untyped member that always holds a number
		if r.Bool() {
			u.Num = float64(r.Intn(1 << 30))
		}
	}
	return p
}

// ---------------------------------------------------------------------------------------------
// the Protobuf families (well-known types of google.golang.org/protobuf and of gogo/protobuf)

func genPbStr(r *wh.Rng) string { return genStr(r) }

func genPbBytes(r *wh.Rng) []byte {
	b := genPayload(r)
	if len(b) == 0 {
		return nil // protobuf does not distinguish nil and empty
	}
	return b
}

func genStructpb(r *wh.Rng, depth int) *structpb.Struct {
	s := &structpb.Struct{Fields: map[string]*structpb.Value{}}
	n := r.Intn(4)
	for i := 0; i < n; i++ {
		s.Fields[genStr(r)] = genValuepb(r, depth+1)
	}
	return s
}

func genValuepb(r *wh.Rng, depth int) *structpb.Value {
	k := r.Intn(6)
	if depth > 2 && k > 3 {
		k = r.Intn(4)
	}
	switch k {
	case 0:
		return structpb.NewNullValue()
	case 1:
		return structpb.NewNumberValue(genFloat(r, 64))
	case 2:
		return structpb.NewStringValue(genStr(r))
	case 3:
		return structpb.NewBoolValue(r.Bool())
	case 4:
		return structpb.NewStructValue(genStructpb(r, depth))
	}
	l := &structpb.ListValue{}
	n := r.Intn(3)
	for i := 0; i < n; i++ {
		l.Values = append(l.Values, genValuepb(r, depth+1))
	}
	return structpb.NewListValue(l)
}

const nStdTypes = 12

// allDefaultsSeed: the value seed that stands for "no field set" (the zero message, whose encoding is zero bytes long).
const allDefaultsSeed = 0

func genStdProto(idx int, seed uint64) interface{} {
	if seed == allDefaultsSeed {
		return reflect.New(reflect.TypeOf(genStdProto(idx, 1)).Elem()).Interface()
	}
	r := wh.NewRng(seed)
	switch idx % nStdTypes {
	case 0:
		return &wrapperspb.StringValue{Value: genPbStr(r)}
	case 1:
		return &wrapperspb.BytesValue{Value: genPbBytes(r)}
	case 2:
		return &wrapperspb.Int64Value{Value: intCorners[r.Intn(len(intCorners))] ^ int64(r.Next()&0xff)}
	case 3:
		return &wrapperspb.UInt64Value{Value: r.Next() >> uint(r.Intn(64))}
	case 4:
		return &wrapperspb.DoubleValue{Value: genFloat(r, 64)}
	case 5:
		return &wrapperspb.BoolValue{Value: r.Bool()}
	case 6:
		return &timestamppb.Timestamp{Seconds: int64(r.Next()) >> uint(r.Intn(40)), Nanos: int32(r.Intn(1000000000))}
	case 7:
		return &durationpb.Duration{Seconds: int64(r.Next()) >> uint(r.Intn(40)), Nanos: int32(r.Intn(1000000000))}
	case 8:
		return genStructpb(r, 0)
	case 9:
		fm := &fieldmaskpb.FieldMask{}
		n := r.Intn(4)
		for i := 0; i < n; i++ {
			fm.Paths = append(fm.Paths, genStr(r))
		}
		return fm
	case 10:
		return &anypb.Any{TypeUrl: genPbStr(r), Value: genPbBytes(r)}
	}
	return &emptypb.Empty{}
}

func genGogoStruct(r *wh.Rng, depth int) *gogotypes.Struct {
	s := &gogotypes.Struct{Fields: map[string]*gogotypes.Value{}}
	n := r.Intn(4)
	for i := 0; i < n; i++ {
		s.Fields[genStr(r)] = genGogoValue(r, depth+1)
	}
	return s
}

func genGogoValue(r *wh.Rng, depth int) *gogotypes.Value {
	k := r.Intn(6)
	if depth > 2 && k > 3 {
		k = r.Intn(4)
	}
	switch k {
	case 0:
		return &gogotypes.Value{Kind: &gogotypes.Value_NullValue{}}
	case 1:
		return &gogotypes.Value{Kind: &gogotypes.Value_NumberValue{NumberValue: noNegZero(genFloat(r, 64))}}
	case 2:
		return &gogotypes.Value{Kind: &gogotypes.Value_StringValue{StringValue: genStr(r)}}
	case 3:
		return &gogotypes.Value{Kind: &gogotypes.Value_BoolValue{BoolValue: r.Bool()}}
	case 4:
		return &gogotypes.Value{Kind: &gogotypes.Value_StructValue{StructValue: genGogoStruct(r, depth)}}
	}
	l := &gogotypes.ListValue{}
	n := r.Intn(3)
	for i := 0; i < n; i++ {
		l.Values = append(l.Values, genGogoValue(r, depth+1))
	}
	return &gogotypes.Value{Kind: &gogotypes.Value_ListValue{ListValue: l}}
}

const nGogoTypes = 11

// gogo/protobuf's generated encoders skip a double field when `v != 0` is false, which loses the sign of -0.0
// (library behaviour of the deprecated gogo code generator, nothing watermill does): the gogo family avoids -0.0.
func noNegZero(f float64) float64 {
	if f == 0 {
		return 0
	}
	return f
}

func genGogoProto(idx int, seed uint64) interface{} {
	if seed == allDefaultsSeed {
		return reflect.New(reflect.TypeOf(genGogoProto(idx, 1)).Elem()).Interface()
	}
	r := wh.NewRng(seed)
	switch idx % nGogoTypes {
	case 0:
		return &gogotypes.StringValue{Value: genPbStr(r)}
	case 1:
		return &gogotypes.BytesValue{Value: genPbBytes(r)}
	case 2:
		return &gogotypes.Int64Value{Value: intCorners[r.Intn(len(intCorners))] ^ int64(r.Next()&0xff)}
	case 3:
		return &gogotypes.UInt64Value{Value: r.Next() >> uint(r.Intn(64))}
	case 4:
		return &gogotypes.DoubleValue{Value: noNegZero(genFloat(r, 64))}
	case 5:
		return &gogotypes.BoolValue{Value: r.Bool()}
	case 6:
		return &gogotypes.Timestamp{Seconds: int64(r.Next()) >> uint(r.Intn(40)), Nanos: int32(r.Intn(1000000000))}
	case 7:
		return &gogotypes.Duration{Seconds: int64(r.Next()) >> uint(r.Intn(40)), Nanos: int32(r.Intn(1000000000))}
	case 8:
		return genGogoStruct(r, 0)
	case 9:
		fm := &gogotypes.FieldMask{}
		n := r.Intn(4)
		for i := 0; i < n; i++ {
			fm.Paths = append(fm.Paths, genStr(r))
		}
		return fm
	}
	return &gogotypes.Any{TypeUrl: genPbStr(r), Value: genPbBytes(r)}
}

// ---------------------------------------------------------------------------------------------
// cases

// cqrsGen describes how a case was generated, so that a request can be replayed:
// <family>.<type index>.<value seed>.<marshaler variant>.<0 = passed by value | 1 = by pointer | 1+h = by pointer, with history h>
type cqrsGen struct {
	family  string // j = JSON family, s = std protobuf, g = gogo protobuf, n = not serialisable by that marshaler
	typ     int
	seed    uint64
	variant int
	ptr     bool
	// history of the Go object that holds the value (std protobuf family only): 0 = freshly built;
	// 1 = proto.Size was called on it, 2 = it went through Marshal of the same marshaler once (first publish),
	// 3 = proto.Marshal was called on it (e.g. a gRPC send) - and AFTERWARDS a nested message was edited in place.
	// The value that is round-tripped is the edited one; where the Go object has been before is not part of the value.
	history int
	// what the process did BEFORE this case (optional, written as a suffix ~<seed>_<variant>): another value of the same type
	// (value seed primeSeed) was marshalled by a marshaler of the same kind in configuration primeVariant. Marshalers are values
	// without state: what was marshalled before, under whichever configuration, must not change the name of this value.
	prime        bool
	primeSeed    uint64
	primeVariant int
	// the target of Unmarshal is not fresh (optional suffix ^<seed>, protobuf families only): a consumer that keeps one event
	// value decoded the message of another value of the type (value seed usedSeed) into it before. proto.Unmarshal resets its
	// target, so Unmarshal(Marshal(v)) must be v whatever the target held.
	used     bool
	usedSeed uint64
	// the message is not read at once (optional suffix +<seed>): between Marshal and Unmarshal the same marshaler marshals
	// other values of the type (value seeds laterSeed, laterSeed+1, …; the value itself among them). A message owns its payload:
	// what is marshalled later must not change a message already handed out (a publisher that batches does exactly this).
	later     bool
	laterSeed uint64
}

func (g cqrsGen) tok() string {
	p := 0
	if g.ptr {
		p = 1 + g.history
	}
	t := fmt.Sprintf("%s.%d.%d.%d.%d", g.family, g.typ, g.seed, g.variant, p)
	if g.prime {
		t += fmt.Sprintf("~%d_%d", g.primeSeed, g.primeVariant)
	}
	if g.used {
		t += fmt.Sprintf("^%d", g.usedSeed)
	}
	if g.later {
		t += fmt.Sprintf("+%d", g.laterSeed)
	}
	return t
}

func parseGen(s string) (cqrsGen, error) {
	var g cqrsGen
	if i := strings.Index(s, "+"); i >= 0 {
		ls, err := strconv.ParseUint(s[i+1:], 10, 64)
		if err != nil {
			return g, fmt.Errorf("bad generator descriptor %q", s)
		}
		g.later, g.laterSeed = true, ls
		s = s[:i]
	}
	if i := strings.Index(s, "^"); i >= 0 {
		us, err := strconv.ParseUint(s[i+1:], 10, 64)
		if err != nil {
			return g, fmt.Errorf("bad generator descriptor %q", s)
		}
		g.used, g.usedSeed = true, us
		s = s[:i]
	}
	if i := strings.Index(s, "~"); i >= 0 {
		pf := strings.Split(s[i+1:], "_")
		if len(pf) != 2 {
			return g, fmt.Errorf("bad generator descriptor %q", s)
		}
		ps, err1 := strconv.ParseUint(pf[0], 10, 64)
		pv, err2 := strconv.Atoi(pf[1])
		if err1 != nil || err2 != nil {
			return g, fmt.Errorf("bad generator descriptor %q", s)
		}
		g.prime, g.primeSeed, g.primeVariant = true, ps, pv
		s = s[:i]
	}
	f := strings.Split(s, ".")
	if len(f) != 5 {
		return cqrsGen{}, fmt.Errorf("bad generator descriptor %q", s)
	}
	g.family = f[0]
	var err error
	if g.typ, err = strconv.Atoi(f[1]); err != nil {
		return g, err
	}
	if g.seed, err = strconv.ParseUint(f[2], 10, 64); err != nil {
		return g, err
	}
	if g.variant, err = strconv.Atoi(f[3]); err != nil {
		return g, err
	}
	p, err := strconv.Atoi(f[4])
	if err != nil || p < 0 || p > 4 {
		return g, fmt.Errorf("bad generator descriptor %q", s)
	}
	g.ptr = p >= 1
	if p > 1 {
		g.history = p - 1
	}
	return g, nil
}

const fixedUUID = "fixed-uuid-é"

func exoticName(v interface{}) string { return "n <" + cqrs.StructName(v) + ">&\"" }

// marshalerFor builds the marshaler of a kind in one of its configurations; uuid "" = the default generator.
// namedStructWith and prefixed are constructors of name generators. They are deliberately not inlined: every closure
// they return comes from ONE function literal (the one inside cqrs.NamedStruct / the one below), as it does in an
// application that builds its marshaler configurations in a loop or through a helper. Such closures are different
// functions (different captured fallback / prefix) that share a code pointer.
//
//go:noinline
func namedStructWith(fallback func(v interface{}) string) func(v interface{}) string {
	return cqrs.NamedStruct(fallback)
}

//go:noinline
func prefixed(prefix string) func(v interface{}) string {
	return func(v interface{}) string { return prefix + cqrs.StructName(v) }
}

const nNameVariants = 7

// marshalerFor builds the marshaler of a kind in one of its configurations; uuid "" = the default generator.
// nameOf is the configured name generator itself (the default one when none is configured): "the name of the value"
// is what that function returns for the value - not what a marshaler method claims it to be.
func marshalerFor(kind string, variant int) (m cqrs.CommandEventMarshaler, uuid string, nameOf func(v interface{}) string) {
	var newUUID func() string
	var genName func(v interface{}) string
	switch variant % nNameVariants {
	case 1:
		uuid = fixedUUID
		genName = cqrs.StructName
	case 2:
		genName = namedStructWith(cqrs.FullyQualifiedStructName)
	case 3:
		uuid = fixedUUID
		genName = exoticName
	case 4:
		genName = namedStructWith(cqrs.StructName)
	case 5:
		genName = prefixed("commands.")
	case 6:
		uuid = fixedUUID
		genName = prefixed("events.")
	}
	if uuid != "" {
		u := uuid
		newUUID = func() string { return u }
	}
	nameOf = genName
	if nameOf == nil {
		nameOf = cqrs.FullyQualifiedStructName
	}
	switch kind {
	case "json":
		return cqrs.JSONMarshaler{NewUUID: newUUID, GenerateName: genName}, uuid, nameOf
	case "proto":
		return cqrs.ProtoMarshaler{NewUUID: newUUID, GenerateName: genName}, uuid, nameOf
	case "gogo":
		return cqrs.ProtobufMarshaler{NewUUID: newUUID, GenerateName: genName, DisableStdProtoFallback: variant >= nNameVariants}, uuid, nameOf
	}
	panic("marshaler kind")
}

// valueFor regenerates the value of a case: what is passed to Marshal, a pointer to a fresh zero value for
// Unmarshal, and the canonical text of the value.
func valueFor(g cqrsGen) (arg interface{}, target interface{}, opt canonOpt) {
	switch g.family {
	case "j", "n":
		var p reflect.Value
		if g.family == "n" {
			p = reflect.New(reflect.TypeOf(Simple{}))
			fill(wh.NewRng(g.seed), p.Elem(), 0)
		} else {
			p = genJSONValue(g.typ, g.seed)
		}
		target = reflect.New(p.Type().Elem()).Interface()
		if g.ptr {
			return p.Interface(), target, canonOpt{}
		}
		return p.Elem().Interface(), target, canonOpt{}
	case "s":
		v := genStdProto(g.typ, g.seed)
		if withUnknown(g) {
			// a value that came from a richer schema: unknown fields are part of a protobuf value
			// (proto.Equal compares them, proto.Marshal writes them)
			m := v.(stdproto.Message)
			m.ProtoReflect().SetUnknown(genUnknownFields(wh.NewRng(g.seed ^ 0x5eed)))
		}
		return v, reflect.New(reflect.TypeOf(v).Elem()).Interface(), canonOpt{nilEmptySame: true}
	case "g":
		v := genGogoProto(g.typ, g.seed)
		if withUnknown(g) {
			if f := reflect.ValueOf(v).Elem().FieldByName("XXX_unrecognized"); f.IsValid() && f.CanSet() {
				f.SetBytes(genUnknownFields(wh.NewRng(g.seed ^ 0x5eed)))
			}
		}
		return v, reflect.New(reflect.TypeOf(v).Elem()).Interface(), canonOpt{nilEmptySame: true}
	}
	panic("family")
}

// withUnknown: every third protobuf value carries unknown fields (decided by the value seed, so a replay regenerates it).
func withUnknown(g cqrsGen) bool { return g.seed != allDefaultsSeed && g.seed%3 == 0 }

// gogoStdUnknown: the deprecated gogo ProtobufMarshaler given a message of the NEW protobuf API that carries unknown
// fields loses them in Marshal on the unchanged code (gogo's reflective encoder does not see them and reports no error,
// so the std fallback is not taken): finding `gogo-marshaler-new-api-message-unknown-fields`. These cases are generated
// only once that finding is listed as open (checks/c16.py sets the variable), and are then classified as known.
var gogoStdUnknown = os.Getenv("C16_GOGO_STD_UNKNOWN") == "1"

// genUnknownFields builds well-formed wire data for field numbers no well-known type uses (>= 1000):
// a varint, a length-delimited, a fixed64 and a fixed32 field, 1..4 of them.
func genUnknownFields(r *wh.Rng) []byte {
	var b []byte
	n := 1 + r.Intn(4)
	for i := 0; i < n; i++ {
		num := protowire.Number(1000 + r.Intn(5000))
		switch r.Intn(4) {
		case 0:
			b = protowire.AppendTag(b, num, protowire.VarintType)
			b = protowire.AppendVarint(b, r.Next()>>uint(r.Intn(64)))
		case 1:
			b = protowire.AppendTag(b, num, protowire.BytesType)
			b = protowire.AppendBytes(b, []byte(genStr(r)))
		case 2:
			b = protowire.AppendTag(b, num, protowire.Fixed64Type)
			b = protowire.AppendFixed64(b, r.Next())
		default:
			b = protowire.AppendTag(b, num, protowire.Fixed32Type)
			b = protowire.AppendFixed32(b, uint32(r.Next()))
		}
	}
	return b
}

// ageAndEdit gives the Go object of a *structpb.Struct value a past: it is sized / published / encoded once, and afterwards
// nested messages of it are edited in place so that their encoded length changes (grow and shrink). What is then
// round-tripped is the edited value - a value like any other; an encoder that trusts sizes cached in the object
// (proto.MarshalOptions{UseCachedSize: true}) fails on it with "size mismatch".
func ageAndEdit(mar cqrs.CommandEventMarshaler, arg interface{}, g cqrsGen) {
	st, ok := arg.(*structpb.Struct)
	if !ok {
		return
	}
	r := wh.NewRng(g.seed ^ 0xa9ed)
	if st.Fields == nil {
		st.Fields = map[string]*structpb.Value{}
	}
	nested := &structpb.Struct{Fields: map[string]*structpb.Value{"a": structpb.NewNumberValue(1), "s": structpb.NewStringValue(genStr(r))}}
	list := &structpb.ListValue{Values: []*structpb.Value{structpb.NewStringValue("x"), structpb.NewStructValue(&structpb.Struct{Fields: map[string]*structpb.Value{"deep": structpb.NewBoolValue(true)}})}}
	st.Fields["nested"] = structpb.NewStructValue(nested)
	st.Fields["list"] = structpb.NewListValue(list)
	st.Fields["text"] = structpb.NewStringValue("short")
	switch g.history {
	case 1:
		_ = stdproto.Size(st)
	case 2:
		func() {
			defer func() { _ = recover() }()
			_, _ = mar.Marshal(st)
		}()
	default:
		_, _ = stdproto.Marshal(st)
	}
	// in-place edits of nested messages (1..3 of them)
	n := 1 + r.Intn(3)
	for i := 0; i < n; i++ {
		switch r.Intn(6) {
		case 0:
			nested.Fields["added"+wh.Itoa(i)] = structpb.NewStringValue("added after the first publish " + genStr(r))
		case 1:
			list.Values = append(list.Values, structpb.NewNumberValue(float64(r.Intn(1000))), structpb.NewStringValue(genStr(r)))
		case 2:
			st.Fields["text"].Kind = &structpb.Value_StringValue{StringValue: "a considerably longer text than before " + genStr(r)}
		case 3:
			delete(nested.Fields, "s") // shrinks
		case 4:
			if len(list.Values) > 1 {
				list.Values = list.Values[:1]
			}
		default:
			deep := list.Values[len(list.Values)-1]
			if sv := deep.GetStructValue(); sv != nil {
				sv.Fields["deeper"] = structpb.NewStringValue(genStr(r) + "!")
			} else {
				nested.Fields["a"].Kind = &structpb.Value_StringValue{StringValue: "was a number"}
			}
		}
	}
}

// canonValue is the canonical text of a value for the round-trip comparison. For messages of the new protobuf API
// the exported fields cannot show unknown fields, so the unknown bytes of the message and its deterministic
// re-marshalling (which includes unknown fields at any depth) are appended.
func canonValue(opt canonOpt, v interface{}) string {
	s := opt.canon(deref(v))
	if m, ok := v.(stdproto.Message); ok {
		s += "|unknown:" + wh.Hex(m.ProtoReflect().GetUnknown())
		// a clone is encoded: encoding the object itself would refresh the size caches it carries (see ageAndEdit)
		if b, err := (stdproto.MarshalOptions{Deterministic: true}).Marshal(stdproto.Clone(m)); err == nil {
			s += "|wire:" + wh.Hex(b)
		} else {
			s += "|wire:error"
		}
	}
	return s
}

func deref(v interface{}) interface{} {
	rv := reflect.ValueOf(v)
	if rv.Kind() == reflect.Ptr && !rv.IsNil() {
		return rv.Elem().Interface()
	}
	return v
}

func uuidTok(msg *message.Message, fixed string) string {
	if fixed != "" {
		return wh.HexS(msg.UUID)
	}
	if msg.UUID == "" {
		return "#empty"
	}
	return "#"
}

// runCqrs: Marshal, look at the message, Unmarshal into a fresh value.
func runCqrs(kind string, g cqrsGen) (req, obs string, serialisable bool) {
	if g.prime {
		// the earlier activity of the process (see cqrsGen.prime); its outcome is of no interest here
		func() {
			defer func() { _ = recover() }()
			mar0, _, _ := marshalerFor(kind, g.primeVariant)
			arg0, _, _ := valueFor(cqrsGen{family: g.family, typ: g.typ, seed: g.primeSeed, variant: g.primeVariant, ptr: g.ptr})
			_ = mar0.Name(arg0)
			_, _ = mar0.Marshal(arg0)
		}()
	}
	mar, fixed, nameOf := marshalerFor(kind, g.variant)
	arg, target, opt := valueFor(g)
	if g.history > 0 {
		ageAndEdit(mar, arg, g)
	}
	name := nameOf(arg)
	value := canonValue(opt, arg)
	serialisable = true
	if g.family == "n" || (g.family == "j" && reflect.TypeOf(deref(arg)) == reflect.TypeOf(Unserialisable{})) {
		serialisable = false
	}
	u := "d"
	if fixed != "" {
		u = "c:" + wh.HexS(fixed)
	}
	ser := "s"
	if !serialisable {
		ser = "u"
	}
	req = "cqrs " + kind + " " + u + " " + ser + " " + wh.HexS(value) + " " + wh.HexS(name) + " " + g.tok()
	obs = func() (obs string) {
		defer func() {
			if r := recover(); r != nil {
				obs = wh.PanicText(r)
			}
		}()
		if g.used {
			// the target has been used: the message of another value of the type was decoded into it
			other, _, _ := valueFor(cqrsGen{family: g.family, typ: g.typ, seed: g.usedSeed, ptr: g.ptr})
			if m0, err := mar.Marshal(other); err != nil || mar.Unmarshal(m0, target) != nil {
				return "err:prepare-target"
			}
		}
		msg, err := mar.Marshal(arg)
		if err != nil {
			return "err:marshal"
		}
		if g.later {
			for k := uint64(0); k < 4; k++ {
				other, _, _ := valueFor(cqrsGen{family: g.family, typ: g.typ, seed: g.laterSeed + k, ptr: g.ptr})
				_, _ = mar.Marshal(other)
			}
			again, _, _ := valueFor(cqrsGen{family: g.family, typ: g.typ, seed: g.seed + 1, ptr: g.ptr})
			_, _ = mar.Marshal(again)
		}
		if err := mar.Unmarshal(msg, target); err != nil {
			return "err:unmarshal"
		}
		return "ok " + uuidTok(msg, fixed) + " " + metaTok(msg.Metadata) + " " + wh.HexS(mar.NameFromMessage(msg)) + " " + wh.HexS(canonValue(opt, target))
	}()
	return req, obs, serialisable
}

func cqrsCases(out *wh.Out, r *wh.Rng, n int) {
	emit := func(kind string, g cqrsGen) {
		req, obs, ser := runCqrs(kind, g)
		out.Case(req, obs)
		out.Count("cqrs.marshaler." + kind)
		out.Count("cqrs.family." + g.family)
		if (g.family == "s" || g.family == "g") && withUnknown(g) {
			out.Count("cqrs.proto_value_with_unknown_fields." + kind)
		}
		if ser {
			// library round-trips are TESTS of the codec hypothesis (see NOTE)
			out.Count("test.codec_round_trip." + kind)
		} else {
			out.Count("cqrs.not_serialisable")
		}
	}
	// (these cases come first: a process-wide state left behind by an implementation would make LATER cases fail for reasons
	// their own request does not contain; the first failing case of a run must be replayable on its own)
	// the name of a value does not depend on what the process marshalled before: an earlier value of the same type with another
	// name of its own (Named.Name() depends on the value), an earlier marshaler configuration whose generator is another closure
	// of the same function literal (NamedStruct with another fallback, another prefix), or any other configuration
	namedIdx := 4 // index of Named in jsonTypes
	closurePairs := [][2]int{{2, 4}, {4, 2}, {5, 6}, {6, 5}, {2, 2}, {4, 4}}
	for i := 0; i < n/4; i++ {
		for _, kf := range [][2]string{{"json", "j"}, {"proto", "s"}, {"gogo", "g"}} {
			g := cqrsGen{family: kf[1], typ: i, seed: r.Next() >> 1, ptr: true, prime: true, primeSeed: r.Next() >> 1}
			switch i % 3 {
			case 0:
				pr := closurePairs[r.Intn(len(closurePairs))]
				g.primeVariant, g.variant = pr[0], pr[1]
				if kf[0] == "json" {
					g.typ = namedIdx
				}
				out.Count("cqrs.after_other_value_or_configuration.same_function_literal." + kf[0])
			case 1:
				pr := closurePairs[r.Intn(4)]
				g.primeVariant, g.variant = pr[0], pr[1]
				g.primeSeed = g.seed // the very same value, other configuration
				out.Count("cqrs.after_other_value_or_configuration.same_value_other_configuration." + kf[0])
			default:
				g.primeVariant, g.variant = r.Intn(nNameVariants), r.Intn(nNameVariants)
				out.Count("cqrs.after_other_value_or_configuration.any." + kf[0])
			}
			emit(kf[0], g)
		}
	}
	for i := 0; i < n; i++ {
		emit("json", cqrsGen{family: "j", typ: i, seed: r.Next() >> 1, variant: r.Intn(nNameVariants), ptr: r.Bool()})
	}
	for i := 0; i < n/3; i++ {
		// the message is read only after the marshaler has marshalled further values (see cqrsGen.later)
		for _, kf := range [][2]string{{"json", "j"}, {"proto", "s"}, {"gogo", "g"}} {
			emit(kf[0], cqrsGen{family: kf[1], typ: i, seed: r.Next() >> 1, variant: r.Intn(nNameVariants), ptr: true, later: true, laterSeed: r.Next() >> 1})
			out.Count("cqrs.read_after_later_marshals." + kf[0])
		}
	}
	for i := 0; i < n/2; i++ {
		emit("proto", cqrsGen{family: "s", typ: i, seed: r.Next() >> 1, variant: r.Intn(nNameVariants), ptr: true})
		emit("gogo", cqrsGen{family: "g", typ: i, seed: r.Next() >> 1, variant: r.Intn(2 * nNameVariants), ptr: true})
	}
	for i := 0; i < n/6; i++ {
		// the gogo marshaler given messages of the new API (accepted directly or through the std fallback)
		g := cqrsGen{family: "s", typ: i, seed: r.Next() >> 1, variant: r.Intn(nNameVariants), ptr: true}
		if withUnknown(g) && !gogoStdUnknown {
			g.seed++ // same message without unknown fields (see gogoStdUnknown)
			if withUnknown(g) {
				g.seed++
			}
		}
		emit("gogo", g)
	}
	for i := 0; i < n/8; i++ {
		// a protobuf value whose Go object has a past (sized / published / encoded before) and whose nested messages were
		// edited in place afterwards - still just a value: Marshal must succeed and the round trip must be the identity
		for _, kind := range []string{"proto", "gogo"} {
			g := cqrsGen{family: "s", typ: 8, seed: r.Next() >> 1, variant: r.Intn(nNameVariants), ptr: true, history: 1 + r.Intn(3)}
			for kind == "gogo" && withUnknown(g) && !gogoStdUnknown {
				g.seed++
			}
			emit(kind, g)
			out.Count("cqrs.proto_value_edited_in_place_after_size_or_publish." + kind)
		}
	}
	// protobuf: the target of Unmarshal already holds another event (proto.Unmarshal resets it); the value decoded into it is any
	// value, and - every other case - the all-defaults value of the type, whose encoding is empty
	for i := 0; i < n/3; i++ {
		for _, kf := range [][2]string{{"proto", "s"}, {"gogo", "g"}, {"gogo", "s"}} {
			g := cqrsGen{family: kf[1], typ: i, seed: r.Next() >> 1, variant: r.Intn(nNameVariants), ptr: true, used: true, usedSeed: 1 + r.Next()>>1}
			if kf[0] == "gogo" && kf[1] == "g" {
				g.variant = r.Intn(2 * nNameVariants) // (new-API messages need the std fallback: it stays enabled for them)
			}
			if i%2 == 0 {
				g.seed = allDefaultsSeed
			}
			for kf[0] == "gogo" && kf[1] == "s" && !gogoStdUnknown && withUnknown(g) {
				g.seed++ // (see gogoStdUnknown: no unknown fields on new-API messages through the gogo marshaler unless the finding is listed)
			}
			emit(kf[0], g)
			if g.seed == allDefaultsSeed {
				out.Count("cqrs.used_target.all_defaults_value." + kf[0] + "." + kf[1])
			} else {
				out.Count("cqrs.used_target.any_value." + kf[0] + "." + kf[1])
			}
		}
	}
	for i := 0; i < 12; i++ {
		// values that are not protobuf messages: Marshal must fail, nothing to round-trip
		emit("proto", cqrsGen{family: "n", seed: r.Next() >> 1, variant: r.Intn(nNameVariants), ptr: i%2 == 0})
		emit("gogo", cqrsGen{family: "n", seed: r.Next() >> 1, variant: r.Intn(2 * nNameVariants), ptr: i%2 == 0})
	}
}
