package main

import (
	"encoding/json"
	"errors"
	"fmt"
	"reflect"
	"strings"

	"github.com/ThreeDotsLabs/watermill/components/requestreply"
	"github.com/ThreeDotsLabs/watermill/message"

	"wmverif/wh"
)

func errTok(err error) string {
	if err == nil {
		return "~"
	}
	return wh.HexS(err.Error())
}

// roundTripReply: MarshalReply then UnmarshalReply for one result type.
func roundTripReply[T any](v T, herr error) (obs string) {
	defer func() {
		if r := recover(); r != nil {
			obs = wh.PanicText(r)
		}
	}()
	m := requestreply.BackendPubsubJSONMarshaler[T]{}
	msg, err := m.MarshalReply(requestreply.BackendOnCommandProcessedParams[T]{HandlerResult: v, HandleErr: herr})
	if err != nil {
		return "err:marshal"
	}
	rep, err := m.UnmarshalReply(msg)
	if err != nil {
		return "err:unmarshal"
	}
	return "ok " + metaTok(msg.Metadata) + " " + wh.HexS(canonOpt{}.canon(rep.HandlerResult)) + " " + errTok(rep.Error)
}

const nReplyTypes = 11

// replyValue generates the result value of a reply case; the dispatch on static types is needed for the generic marshaler.
func replyRun(typ int, seed uint64, herr error) (value string, obs string, serialisable bool) {
	r := wh.NewRng(seed)
	gen := func(p interface{}) { fill(r, reflect.ValueOf(p).Elem(), 0) }
	serialisable = true
	switch typ % nReplyTypes {
	case 0:
		var v Simple
		gen(&v)
		return canonOpt{}.canon(v), roundTripReply(v, herr), true
	case 1:
		var v Nested
		gen(&v)
		return canonOpt{}.canon(v), roundTripReply(v, herr), true
	case 2:
		var v Numbers
		gen(&v)
		return canonOpt{}.canon(v), roundTripReply(v, herr), true
	case 3:
		var v string
		gen(&v)
		return canonOpt{}.canon(v), roundTripReply(v, herr), true
	case 4:
		var v int64
		gen(&v)
		return canonOpt{}.canon(v), roundTripReply(v, herr), true
	case 5:
		return canonOpt{}.canon(struct{}{}), roundTripReply(struct{}{}, herr), true
	case 6:
		return canonOpt{}.canon(requestreply.NoResult{}), roundTripReply(requestreply.NoResult{}, herr), true
	case 7:
		var v []string
		gen(&v)
		return canonOpt{}.canon(v), roundTripReply(v, herr), true
	case 8:
		var v map[string]string
		gen(&v)
		return canonOpt{}.canon(v), roundTripReply(v, herr), true
	case 9:
		var v *Tagged
		gen(&v)
		return canonOpt{}.canon(v), roundTripReply(v, herr), true
	}
	var v Unserialisable
	gen(&v)
	return canonOpt{}.canon(v), roundTripReply(v, herr), false
}

func replyCase(out *wh.Out, typ int, seed uint64, errText *string) {
	var herr error
	e := "~"
	if errText != nil {
		herr = errors.New(*errText)
		e = wh.HexS(*errText)
	}
	value, obs, ser := replyRun(typ, seed, herr)
	s := "s"
	if !ser {
		s = "u"
	}
	out.Case(fmt.Sprintf("reply %s %s %s r.%d.%d", s, wh.HexS(value), e, typ, seed), obs)
	if ser {
		out.Count("test.codec_round_trip.reply_json")
	}
	switch {
	case errText == nil:
		out.Count("reply.error.none")
	case *errText == "":
		out.Count("reply.error.empty_text")
	default:
		out.Count("reply.error.text." + strClass(*errText))
	}
}

// runUnreply: UnmarshalReply on a hand-made message (metadata as given, payload = JSON of a Simple value).
func runUnreply(l lit, seed uint64) (value string, obs string) {
	var v Simple
	fill(wh.NewRng(seed), reflect.ValueOf(&v).Elem(), 0)
	value = canonOpt{}.canon(v)
	b, _ := json.Marshal(v)
	msg := message.NewMessage("r", b)
	if l.metaNil {
		msg.Metadata = nil
	} else {
		for _, e := range l.entries {
			msg.Metadata.Set(e[0], e[1])
		}
	}
	obs = func() (obs string) {
		defer func() {
			if r := recover(); r != nil {
				obs = wh.PanicText(r)
			}
		}()
		rep, err := requestreply.BackendPubsubJSONMarshaler[Simple]{}.UnmarshalReply(msg)
		if err != nil {
			return "err:unmarshal"
		}
		return "ok " + wh.HexS(canonOpt{}.canon(rep.HandlerResult)) + " " + errTok(rep.Error)
	}()
	return value, obs
}

func metaLitTok(l lit) string {
	t := l.tok()
	return t[strings.LastIndex(t, "/")+1:]
}

func replyCases(out *wh.Out, r *wh.Rng, n int) {
	for i := 0; i < n; i++ {
		var e *string
		switch r.Intn(4) {
		case 0:
		case 1:
			s := ""
			e = &s
		default:
			s := genStr(r)
			e = &s
		}
		replyCase(out, i, r.Next()>>1, e)
	}
	// decoding alone: every has-error marker x error text, plus unrelated keys
	for _, has := range []*string{nil, sp("1"), sp("0"), sp(""), sp("true"), sp("01"), sp(" 1"), sp("1 ")} {
		for _, txt := range []*string{nil, sp("boom"), sp(""), sp(" <&>")} {
			l := lit{}
			if has != nil {
				l.entries = append(l.entries, [2]string{requestreply.HasErrorMetadataKey, *has})
			}
			if txt != nil {
				l.entries = append(l.entries, [2]string{requestreply.ErrorMetadataKey, *txt})
			}
			if r.Bool() {
				l.entries = append(l.entries, [2]string{"other", genStr(r)})
			}
			seed := r.Next() >> 1
			value, obs := runUnreply(l, seed)
			out.Case(fmt.Sprintf("unreply %s %s %d", metaLitTok(l), wh.HexS(value), seed), obs)
			out.Count("unreply.decode_only")
		}
	}
	value, obs := runUnreply(lit{metaNil: true}, 1)
	out.Case(fmt.Sprintf("unreply ~ %s 1", wh.HexS(value)), obs)
	out.Count("unreply.decode_only")
}

func sp(s string) *string { return &s }
