package main

import (
	"fmt"
	"strconv"
	"strings"

	"github.com/ThreeDotsLabs/watermill/components/forwarder"
	"github.com/ThreeDotsLabs/watermill/message"

	"wmverif/wh"
)

// hop is one operation of a heap program.
type hop struct {
	kind    byte // n z c a s g e u p w t   (t: i = object, j = new payload length)
	i, j    int
	s1, s2  string // uuid / key, value
	payload []byte
}

func (o hop) tok() string {
	switch o.kind {
	case 'n', 'z':
		return fmt.Sprintf("%c:%s:%s", o.kind, wh.HexS(o.s1), payloadTok(o.payload))
	case 'c', 'a', 'w':
		return fmt.Sprintf("%c:%d", o.kind, o.i)
	case 's':
		return fmt.Sprintf("s:%d:%s:%s", o.i, wh.HexS(o.s1), wh.HexS(o.s2))
	case 'g':
		return fmt.Sprintf("g:%d:%s", o.i, wh.HexS(o.s1))
	case 'e', 't':
		return fmt.Sprintf("%c:%d:%d", o.kind, o.i, o.j)
	case 'u':
		return fmt.Sprintf("u:%d:%s", o.i, wh.HexS(o.s1))
	case 'p':
		return fmt.Sprintf("p:%d:%s", o.i, payloadTok(o.payload))
	}
	panic("hop kind")
}

func parseHop(s string) (hop, error) {
	f := strings.Split(s, ":")
	bad := fmt.Errorf("bad heap op %q", s)
	if len(f) < 2 || len(f[0]) != 1 {
		return hop{}, bad
	}
	o := hop{kind: f[0][0]}
	var err error
	num := func(x string) int {
		n, e := strconv.Atoi(x)
		if e != nil {
			err = e
		}
		return n
	}
	str := func(x string) string {
		v, e := unhexS(x)
		if e != nil {
			err = e
		}
		return v
	}
	pay := func(x string) []byte {
		v, e := parsePayload(x)
		if e != nil {
			err = e
		}
		return v
	}
	switch {
	case (o.kind == 'n' || o.kind == 'z') && len(f) == 3:
		o.s1, o.payload = str(f[1]), pay(f[2])
	case (o.kind == 'c' || o.kind == 'a' || o.kind == 'w') && len(f) == 2:
		o.i = num(f[1])
	case o.kind == 's' && len(f) == 4:
		o.i, o.s1, o.s2 = num(f[1]), str(f[2]), str(f[3])
	case o.kind == 'g' && len(f) == 3:
		o.i, o.s1 = num(f[1]), str(f[2])
	case (o.kind == 'e' || o.kind == 't') && len(f) == 3:
		o.i, o.j = num(f[1]), num(f[2])
	case o.kind == 'u' && len(f) == 3:
		o.i, o.s1 = num(f[1]), str(f[2])
	case o.kind == 'p' && len(f) == 3:
		o.i, o.payload = num(f[1]), pay(f[2])
	default:
		return o, bad
	}
	return o, err
}

func heapDump(objs []*message.Message) string {
	var sb strings.Builder
	for _, m := range objs {
		sb.WriteByte(';')
		sb.WriteString(dump(m))
	}
	return sb.String()
}

func setRes(m *message.Message, k, v string) (res string) {
	defer func() {
		if r := recover(); r != nil {
			res = "P"
		}
	}()
	m.Metadata.Set(k, v)
	return "."
}

// runHeap executes a program on real messages; after every operation all objects are dumped.
func runHeap(ops []hop) string {
	var objs []*message.Message
	var parts []string
	for _, o := range ops {
		res := "!"
		switch o.kind {
		case 'n':
			objs = append(objs, message.NewMessage(o.s1, o.payload))
			res = "+"
		case 'z':
			objs = append(objs, &message.Message{UUID: o.s1, Payload: o.payload})
			res = "+"
		case 'c':
			orig := objs[o.i]
			cp := orig.Copy()
			objs = append(objs, cp)
			res = "c" + equalsRes(cp, orig) + equalsRes(orig, cp)
		case 'a':
			m := objs[o.i]
			objs = append(objs, &message.Message{UUID: m.UUID, Payload: m.Payload, Metadata: m.Metadata})
			res = "+"
		case 't':
			// a shorter view of the same buffer (what a consumer does when it cuts a frame off a read buffer)
			m := objs[o.i]
			res = "!"
			if o.j <= len(m.Payload) {
				m.Payload = m.Payload[:o.j]
				res = "."
			}
		case 'w':
			// through the forwarder envelope and back: what a decoder hands to a consumer
			res = "!"
			if w, err := forwarder.VerifWrapMessageInEnvelope("t", objs[o.i]); err == nil {
				if _, u, err := forwarder.VerifUnwrapMessageFromEnvelope(w); err == nil {
					objs = append(objs, u)
					res = "+"
				}
			}
		case 's':
			res = setRes(objs[o.i], o.s1, o.s2)
		case 'g':
			res = "v" + wh.HexS(objs[o.i].Metadata.Get(o.s1))
		case 'e':
			res = equalsRes(objs[o.i], objs[o.j])
		case 'u':
			objs[o.i].UUID = o.s1
			res = "."
		case 'p':
			objs[o.i].Payload = o.payload
			res = "."
		}
		parts = append(parts, res+heapDump(objs))
	}
	if len(parts) == 0 {
		return "-"
	}
	return strings.Join(parts, " ")
}

func heapReq(ops []hop) string {
	t := make([]string, len(ops))
	for i, o := range ops {
		t[i] = o.tok()
	}
	return strings.TrimSpace("heap " + strings.Join(t, " "))
}

func heapCase(out *wh.Out, ops []hop, kind string) {
	out.Case(heapReq(ops), runHeap(ops))
	out.Count("heap.kind." + kind)
	for _, o := range ops {
		out.Count("heap.op." + string(o.kind))
	}
}

var heapKeys = []string{"k", "", "name", "日本", "k'"}

func heapKey(r *wh.Rng) string {
	if r.Intn(6) == 0 {
		return genStr(r)
	}
	return heapKeys[r.Intn(len(heapKeys))]
}

func heapVal(r *wh.Rng) string {
	if r.Intn(3) == 0 {
		return ""
	}
	if r.Intn(2) == 0 {
		return genStr(r)
	}
	return []string{"v", "w", "x"}[r.Intn(3)]
}

// randomProgram: creation first, then a mix biased towards write-after-copy and checks.
func randomProgram(r *wh.Rng, maxLen, maxObjs int) []hop {
	n := 2 + r.Intn(maxLen-1)
	var ops []hop
	var plen []int // payload length of every object (for the truncation op)
	push := func(o hop) {
		switch o.kind {
		case 'n', 'z':
			plen = append(plen, len(o.payload))
		case 'c', 'a', 'w':
			plen = append(plen, plen[o.i])
		case 'p':
			plen[o.i] = len(o.payload)
		case 't':
			plen[o.i] = o.j
		}
		ops = append(ops, o)
	}
	for len(ops) < n {
		objs := len(plen)
		if objs == 0 {
			k := byte('n')
			if r.Intn(6) == 0 {
				k = 'z'
			}
			push(hop{kind: k, s1: genStr(r), payload: genPayload(r)})
			continue
		}
		i := r.Intn(objs)
		switch x := r.Intn(25); {
		case x >= 22 && objs < maxObjs:
			// two views of one payload buffer: copy (or shallow copy), then one of them is cut shorter, then compared
			if plen[i] == 0 {
				push(hop{kind: 'p', i: i, payload: append([]byte("buffer-"), genPayload(r)...)})
			}
			mk := byte('c')
			if x == 24 {
				mk = 'a'
			}
			push(hop{kind: mk, i: i})
			who := i
			if r.Bool() {
				who = objs
			}
			push(hop{kind: 't', i: who, j: r.Intn(plen[who] + 1)})
			push(hop{kind: 'e', i: i, j: objs})
			push(hop{kind: 'e', i: objs, j: i})
		case x >= 22:
			push(hop{kind: 't', i: i, j: r.Intn(plen[i] + 1)})
		case x == 20 && objs < maxObjs:
			push(hop{kind: 'w', i: i})
		case x == 21 && objs < maxObjs:
			// a nil-metadata original, copied right away, the copy written
			push(hop{kind: 'z', s1: genStr(r), payload: genPayload(r)})
			push(hop{kind: 'c', i: objs})
			if objs+2 <= maxObjs {
				push(hop{kind: 's', i: objs + 1, s1: heapKey(r), s2: heapVal(r)})
			}
		case x < 2 && objs < maxObjs:
			push(hop{kind: 'n', s1: genStr(r), payload: genPayload(r)})
		case x == 2 && objs < maxObjs:
			push(hop{kind: 'z', s1: genStr(r), payload: genPayload(r)})
		case x < 6 && objs < maxObjs:
			push(hop{kind: 'c', i: i})
		case x == 6 && objs < maxObjs:
			push(hop{kind: 'a', i: i})
		case x < 13:
			push(hop{kind: 's', i: i, s1: heapKey(r), s2: heapVal(r)})
		case x < 15:
			push(hop{kind: 'g', i: i, s1: heapKey(r)})
		case x < 18:
			push(hop{kind: 'e', i: i, j: r.Intn(objs)})
		case x == 18:
			push(hop{kind: 'u', i: i, s1: genStr(r)})
		default:
			push(hop{kind: 'p', i: i, payload: genPayload(r)})
		}
	}
	return ops
}

// enumHeap: the write-after-copy patterns, completely: who is written (original / copy / alias of either),
// existing or new key, observed through Get, Equals and the dump.
func enumHeap(out *wh.Out) {
	prefix := []hop{{kind: 'n', s1: "u", payload: []byte("p")}, {kind: 's', i: 0, s1: "k", s2: "v"}, {kind: 's', i: 0, s1: "e", s2: ""}}
	for _, mk := range []byte{'c', 'a'} {
		for writer := 0; writer < 2; writer++ {
			for _, key := range []string{"k", "e", "new", ""} {
				for _, val := range []string{"v", "", "w"} {
					ops := append(append([]hop{}, prefix...), hop{kind: mk, i: 0})
					ops = append(ops, hop{kind: 's', i: writer, s1: key, s2: val},
						hop{kind: 'g', i: 0, s1: key}, hop{kind: 'g', i: 1, s1: key},
						hop{kind: 'e', i: 0, j: 1}, hop{kind: 'e', i: 1, j: 0})
					heapCase(out, ops, "enum.write_after_"+map[byte]string{'c': "copy", 'a': "alias"}[mk])
				}
			}
		}
	}
	// copy of a copy, copy of an alias, copy of a nil-metadata message (the copy can be written, the original panics)
	heapCase(out, []hop{{kind: 'n', s1: "u"}, {kind: 's', i: 0, s1: "k", s2: "v"}, {kind: 'c', i: 0}, {kind: 'c', i: 1}, {kind: 's', i: 1, s1: "k", s2: "w"}, {kind: 'e', i: 0, j: 2}, {kind: 'e', i: 1, j: 2}}, "enum.copy_of_copy")
	heapCase(out, []hop{{kind: 'n', s1: "u"}, {kind: 'a', i: 0}, {kind: 'c', i: 1}, {kind: 's', i: 0, s1: "k", s2: "w"}, {kind: 'e', i: 0, j: 1}, {kind: 'e', i: 1, j: 2}}, "enum.copy_of_alias")
	heapCase(out, []hop{{kind: 'z', s1: "u", payload: nil}, {kind: 'c', i: 0}, {kind: 'e', i: 0, j: 1}, {kind: 's', i: 1, s1: "k", s2: "v"}, {kind: 's', i: 0, s1: "k", s2: "v"}, {kind: 'e', i: 0, j: 1}}, "enum.copy_of_nil_metadata")
	heapCase(out, nil, "enum.empty")
	// two views of one payload buffer with the same start: Copy / shallow copy share the payload slice; one side is cut to every
	// length 0..len; Equals both ways and against itself - payload BYTES decide, not where the slice starts
	for _, mk := range []byte{'c', 'a'} {
		for who := 0; who < 2; who++ {
			for n := 0; n <= 4; n++ {
				heapCase(out, []hop{{kind: 'n', s1: "u", payload: []byte("pqrs")}, {kind: 's', i: 0, s1: "k", s2: "v"}, {kind: mk, i: 0},
					{kind: 't', i: who, j: n}, {kind: 'e', i: 0, j: 1}, {kind: 'e', i: 1, j: 0}, {kind: 'e', i: who, j: who},
					{kind: 't', i: 1 - who, j: n}, {kind: 'e', i: 0, j: 1}}, "enum.same_buffer_views")
			}
		}
	}
	// payload bytes equal but not the same buffer / same buffer and same length
	heapCase(out, []hop{{kind: 'n', s1: "u", payload: []byte("pq")}, {kind: 'n', s1: "u", payload: []byte("pqrs")}, {kind: 't', i: 1, j: 2}, {kind: 'e', i: 0, j: 1}, {kind: 'e', i: 1, j: 0}}, "enum.same_buffer_views")
	// "the copy owns a usable, independent map" for every kind of original: NewMessage (empty map), struct literal (nil map),
	// Metadata reset to nil is the same object state as the literal, a decoded envelope with "metadata": null / {} / entries,
	// a shallow copy of each; then Copy, then a write to the copy, a write to the original, and both read back
	origins := map[string][]hop{
		"new_empty":        {{kind: 'n', s1: "u", payload: []byte("p")}},
		"new_entries":      {{kind: 'n', s1: "u"}, {kind: 's', i: 0, s1: "k", s2: "v"}},
		"literal_nil":      {{kind: 'z', s1: "u", payload: []byte("p")}},
		"literal_nil_bare": {{kind: 'z', s1: ""}},
	}
	for _, name := range []string{"new_empty", "new_entries", "literal_nil", "literal_nil_bare"} {
		mk := origins[name]
		for _, via := range []string{"direct", "decoded", "alias"} {
			ops := append([]hop{}, mk...)
			src := 0
			switch via {
			case "decoded":
				ops = append(ops, hop{kind: 'w', i: 0})
				src = 1
			case "alias":
				ops = append(ops, hop{kind: 'a', i: 0})
				src = 1
			}
			cp := src + 1
			for _, key := range []string{"k", "new", ""} {
				for order := 0; order < 2; order++ {
					p := append(append([]hop{}, ops...), hop{kind: 'c', i: src})
					wc := hop{kind: 's', i: cp, s1: key, s2: "w"}
					wo := hop{kind: 's', i: src, s1: key, s2: "o"}
					if order == 0 {
						p = append(p, wc, wo)
					} else {
						p = append(p, wo, wc)
					}
					p = append(p, hop{kind: 'g', i: cp, s1: key}, hop{kind: 'g', i: src, s1: key}, hop{kind: 'e', i: src, j: cp},
						hop{kind: 'c', i: cp}, hop{kind: 's', i: cp + 1, s1: "k2", s2: "x"}, hop{kind: 'e', i: cp, j: cp + 1})
					heapCase(out, p, "enum.copy_of_"+name+"_"+via)
				}
			}
		}
	}
}
