// Harness for C16 (value semantics): drives the real message.Message Equals/Copy/Metadata, the forwarder
// envelope, the CQRS marshalers and the request-reply marshaler. Protocol: see lean/Driver/C16.lean.
//
// The codec round-trips through encoding/json and protobuf are TESTS of the codec hypothesis of the
// round-trip theorems (library behaviour); they are counted under test.codec_round_trip.* and said so in a NOTE.
package main

import (
	"errors"
	"fmt"
	"os"
	"strconv"
	"strings"

	"wmverif/wh"
)

func replay(out *wh.Out, line string) error {
	f := strings.Fields(line)
	if len(f) == 0 {
		return errors.New("empty request")
	}
	switch f[0] {
	case "pair":
		if len(f) != 3 {
			break
		}
		a, err := parseLit(f[1])
		if err != nil {
			return err
		}
		b, err := parseLit(f[2])
		if err != nil {
			return err
		}
		out.Case(line, runPair(a, b))
		return nil
	case "heap":
		ops := make([]hop, 0, len(f)-1)
		objs := 0
		for _, t := range f[1:] {
			o, err := parseHop(t)
			if err != nil {
				return err
			}
			if (strings.ContainsRune("casgeupwt", rune(o.kind)) && o.i >= objs) || (o.kind == 'e' && o.j >= objs) {
				return fmt.Errorf("object index out of range in %q", t)
			}
			if strings.ContainsRune("nzcaw", rune(o.kind)) {
				objs++
			}
			ops = append(ops, o)
		}
		out.Case(line, runHeap(ops))
		return nil
	case "env":
		if len(f) != 3 {
			break
		}
		d, err := unhexS(f[1])
		if err != nil {
			return err
		}
		l, err := parseLit(f[2])
		if err != nil {
			return err
		}
		out.Case(line, runEnv(d, l))
		return nil
	case "jenv":
		if len(f) != 3 {
			break
		}
		d, err := unhexS(f[1])
		if err != nil {
			return err
		}
		l, err := parseLit(f[2])
		if err != nil {
			return err
		}
		out.Case(line, runJenv(d, l))
		return nil
	case "jdec":
		if len(f) != 2 {
			break
		}
		raw, err := unhex(f[1])
		if err != nil {
			return err
		}
		out.Case(line, decodeMirror(raw))
		return nil
	case "fpub":
		if len(f) < 3 {
			break
		}
		cfg, err := unhexS(f[1])
		if err != nil {
			return err
		}
		topic, err := unhexS(f[2])
		if err != nil {
			return err
		}
		var ls []lit
		for _, t := range f[3:] {
			l, err := parseLit(t)
			if err != nil {
				return err
			}
			ls = append(ls, l)
		}
		out.Case(line, runFpub(cfg, topic, ls))
		return nil
	case "unenv":
		if len(f) != 3 {
			break
		}
		raw, err := unhex(f[2])
		if err != nil {
			return err
		}
		out.Case(line, runUnenv(raw))
		return nil
	case "cqrs":
		if len(f) != 7 {
			break
		}
		g, err := parseGen(f[6])
		if err != nil {
			return err
		}
		req, obs, _ := runCqrs(f[1], g)
		if req != line {
			fmt.Fprintln(os.Stderr, "note: regenerated request differs from the replayed one (generator changed?)")
		}
		out.Case(req, obs)
		return nil
	case "reply":
		if len(f) != 5 {
			break
		}
		g := strings.Split(f[4], ".")
		if len(g) != 3 {
			break
		}
		typ, err := strconv.Atoi(g[1])
		if err != nil {
			return err
		}
		seed, err := strconv.ParseUint(g[2], 10, 64)
		if err != nil {
			return err
		}
		var e *string
		if f[3] != "~" {
			s, err := unhexS(f[3])
			if err != nil {
				return err
			}
			e = &s
		}
		replyCase(out, typ, seed, e)
		return nil
	case "unreply":
		if len(f) != 4 {
			break
		}
		l, err := parseLit("-/~/" + f[1])
		if err != nil {
			return err
		}
		seed, err := strconv.ParseUint(f[3], 10, 64)
		if err != nil {
			return err
		}
		value, obs := runUnreply(l, seed)
		out.Case(fmt.Sprintf("unreply %s %s %d", f[1], wh.HexS(value), seed), obs)
		return nil
	}
	return fmt.Errorf("cannot replay %q", line)
}

func main() {
	a := wh.ParseArgs()
	out := wh.NewOut(a.Out)
	defer out.Close()
	if a.Replay != "" {
		if err := replay(out, a.Replay); err != nil {
			fmt.Fprintln(os.Stderr, err)
			out.Close()
			os.Exit(2)
		}
		return
	}
	scale := 1
	if a.Thorough() {
		scale = 12
	}
	rng := wh.NewRng(a.Seed)

	enumPairs(out)
	randomPairs(out, rng, 2500*scale)

	enumHeap(out)
	for i := 0; i < 2500*scale; i++ {
		maxLen := 14
		if i%5 == 0 {
			maxLen = 30
		}
		heapCase(out, randomProgram(rng, maxLen, 6), "random")
	}

	envCases(out, rng, 1500*scale)
	cqrsCases(out, rng, 1200*scale)
	replyCases(out, rng, 800*scale)

	out.Note("C16: cases counted under test.codec_round_trip.* exercise encoding/json, google.golang.org/protobuf and gogo/protobuf " +
		"on a family of types; they are TESTS of the codec hypothesis (forall x, dec (enc x) = some x) assumed by the round-trip theorems, not proofs of it")
}
