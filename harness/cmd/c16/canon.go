package main

import (
	"encoding/hex"
	"fmt"
	"math"
	"reflect"
	"sort"
	"strconv"
	"strings"

	"wmverif/wh"
)

// canon renders a Go value as a canonical text (exported fields only, map keys sorted, nil and empty
// distinguished unless nilEmptySame – protobuf does not distinguish them). It is the harness's notion of
// "the same value" for the codec round-trip TESTS; it does not go through any codec.
type canonOpt struct{ nilEmptySame bool }

func (o canonOpt) canon(v interface{}) string {
	var sb strings.Builder
	o.write(&sb, reflect.ValueOf(v), 0)
	return sb.String()
}

func (o canonOpt) write(sb *strings.Builder, v reflect.Value, depth int) {
	if depth > 40 {
		sb.WriteString("<deep>")
		return
	}
	if !v.IsValid() {
		sb.WriteString("nil")
		return
	}
	switch v.Kind() {
	case reflect.String:
		sb.WriteString(strconv.Quote(v.String()))
	case reflect.Bool:
		sb.WriteString(strconv.FormatBool(v.Bool()))
	case reflect.Int, reflect.Int8, reflect.Int16, reflect.Int32, reflect.Int64:
		sb.WriteString(strconv.FormatInt(v.Int(), 10))
	case reflect.Uint, reflect.Uint8, reflect.Uint16, reflect.Uint32, reflect.Uint64:
		sb.WriteString(strconv.FormatUint(v.Uint(), 10) + "u")
	case reflect.Float32:
		sb.WriteString(strconv.FormatFloat(v.Float(), 'g', -1, 32) + "f32")
	case reflect.Float64:
		f := v.Float()
		sb.WriteString(strconv.FormatFloat(f, 'g', -1, 64))
		if f == 0 && math.Signbit(f) {
			sb.WriteString("(neg)")
		}
	case reflect.Slice:
		if v.IsNil() || (o.nilEmptySame && v.Len() == 0) {
			sb.WriteString("nil")
			return
		}
		if v.Type().Elem().Kind() == reflect.Uint8 {
			sb.WriteString("x'" + hex.EncodeToString(v.Bytes()) + "'")
			return
		}
		sb.WriteByte('[')
		for i := 0; i < v.Len(); i++ {
			if i > 0 {
				sb.WriteByte(',')
			}
			o.write(sb, v.Index(i), depth+1)
		}
		sb.WriteByte(']')
	case reflect.Array:
		sb.WriteByte('[')
		for i := 0; i < v.Len(); i++ {
			if i > 0 {
				sb.WriteByte(',')
			}
			o.write(sb, v.Index(i), depth+1)
		}
		sb.WriteByte(']')
	case reflect.Map:
		if v.IsNil() || (o.nilEmptySame && v.Len() == 0) {
			sb.WriteString("nil")
			return
		}
		type kv struct {
			k string
			v reflect.Value
		}
		var es []kv
		for _, k := range v.MapKeys() {
			var kb strings.Builder
			o.write(&kb, k, depth+1)
			es = append(es, kv{kb.String(), v.MapIndex(k)})
		}
		sort.Slice(es, func(i, j int) bool { return es[i].k < es[j].k })
		sb.WriteByte('{')
		for i, e := range es {
			if i > 0 {
				sb.WriteByte(',')
			}
			sb.WriteString(e.k + ":")
			o.write(sb, e.v, depth+1)
		}
		sb.WriteByte('}')
	case reflect.Ptr:
		if v.IsNil() {
			sb.WriteString("nil")
			return
		}
		sb.WriteByte('&')
		o.write(sb, v.Elem(), depth+1)
	case reflect.Interface:
		if v.IsNil() {
			sb.WriteString("nil")
			return
		}
		sb.WriteString("(" + v.Elem().Type().String() + ")")
		o.write(sb, v.Elem(), depth+1)
	case reflect.Struct:
		t := v.Type()
		sb.WriteString(t.Name() + "{")
		first := true
		for i := 0; i < t.NumField(); i++ {
			f := t.Field(i)
			if f.PkgPath != "" || (strings.HasPrefix(f.Name, "XXX_") && f.Name != "XXX_unrecognized") {
				continue // unexported / generated bookkeeping (gogo keeps unknown fields in XXX_unrecognized: part of the value)
			}
			if !first {
				sb.WriteByte(',')
			}
			first = false
			sb.WriteString(f.Name + ":")
			o.write(sb, v.Field(i), depth+1)
		}
		sb.WriteByte('}')
	case reflect.Chan, reflect.Func:
		sb.WriteString("<" + v.Kind().String() + ">")
	default:
		sb.WriteString(fmt.Sprintf("<%s>", v.Kind()))
	}
}

// ---------------------------------------------------------------------------------------------
// reflective random filler for the JSON family (every string valid UTF-8, floats finite)

var intCorners = []int64{0, 1, -1, 7, math.MaxInt8, math.MinInt8, math.MaxInt16, math.MinInt16, math.MaxInt32, math.MinInt32,
	math.MaxInt64, math.MinInt64, 1 << 53, 1<<53 + 1, -(1<<53 + 1)}

func genFloat(r *wh.Rng, bits int) float64 {
	corners := []float64{0, math.Copysign(0, -1), 1, -1.5, 0.1, 1e-7, 1e21, 1e20, 123456789.125, math.MaxFloat64, math.SmallestNonzeroFloat64, -math.MaxFloat64, 1.0 / 3}
	if bits == 32 {
		corners = []float64{0, 1, -1.5, float64(float32(0.1)), math.MaxFloat32, math.SmallestNonzeroFloat32, float64(float32(1e21)), float64(float32(1.0 / 3))}
	}
	if r.Bool() {
		return corners[r.Intn(len(corners))]
	}
	for {
		var f float64
		if bits == 32 {
			f = float64(math.Float32frombits(uint32(r.Next())))
		} else {
			f = math.Float64frombits(r.Next())
		}
		if !math.IsNaN(f) && !math.IsInf(f, 0) {
			return f
		}
	}
}

func fill(r *wh.Rng, v reflect.Value, depth int) {
	switch v.Kind() {
	case reflect.String:
		v.SetString(genStr(r))
	case reflect.Bool:
		v.SetBool(r.Bool())
	case reflect.Int, reflect.Int8, reflect.Int16, reflect.Int32, reflect.Int64:
		var x int64
		if r.Bool() {
			x = intCorners[r.Intn(len(intCorners))]
		} else {
			x = int64(r.Next())
		}
		// truncate to the width of the field (wraps; any value of the type is fine)
		switch v.Kind() {
		case reflect.Int8:
			x = int64(int8(x))
		case reflect.Int16:
			x = int64(int16(x))
		case reflect.Int32:
			x = int64(int32(x))
		}
		v.SetInt(x)
	case reflect.Uint, reflect.Uint8, reflect.Uint16, reflect.Uint32, reflect.Uint64:
		x := r.Next()
		switch r.Intn(4) {
		case 0:
			x = 0
		case 1:
			x = math.MaxUint64
		}
		switch v.Kind() {
		case reflect.Uint8:
			x = uint64(uint8(x))
		case reflect.Uint16:
			x = uint64(uint16(x))
		case reflect.Uint32:
			x = uint64(uint32(x))
		}
		v.SetUint(x)
	case reflect.Float32:
		v.SetFloat(genFloat(r, 32))
	case reflect.Float64:
		v.SetFloat(genFloat(r, 64))
	case reflect.Slice:
		switch n := r.Intn(5); {
		case n == 0:
			// nil
		case n == 1:
			v.Set(reflect.MakeSlice(v.Type(), 0, 0))
		default:
			k := n - 1
			if depth > 2 {
				k = 1
			}
			s := reflect.MakeSlice(v.Type(), k, k)
			for i := 0; i < k; i++ {
				fill(r, s.Index(i), depth+1)
			}
			v.Set(s)
		}
	case reflect.Map:
		switch n := r.Intn(5); {
		case n == 0:
		case n == 1:
			v.Set(reflect.MakeMap(v.Type()))
		default:
			k := n - 1
			if depth > 2 {
				k = 1
			}
			m := reflect.MakeMap(v.Type())
			for i := 0; i < k; i++ {
				kk := reflect.New(v.Type().Key()).Elem()
				fill(r, kk, depth+1)
				vv := reflect.New(v.Type().Elem()).Elem()
				fill(r, vv, depth+1)
				m.SetMapIndex(kk, vv)
			}
			v.Set(m)
		}
	case reflect.Interface:
		// an untyped member: only what encoding/json itself puts there when it decodes (nil, bool, string, float64,
		// []interface{}, map[string]interface{}), so that the plain round trip is the identity on it
		if v.NumMethod() == 0 {
			if u := genUntyped(r, depth); u != nil {
				v.Set(reflect.ValueOf(u))
			}
		}
	case reflect.Ptr:
		if r.Intn(3) == 0 {
			return
		}
		p := reflect.New(v.Type().Elem())
		fill(r, p.Elem(), depth+1)
		v.Set(p)
	case reflect.Struct:
		for i := 0; i < v.NumField(); i++ {
			if v.Type().Field(i).PkgPath == "" {
				fill(r, v.Field(i), depth+1)
			}
		}
	case reflect.Array:
		for i := 0; i < v.Len(); i++ {
			fill(r, v.Index(i), depth+1)
		}
	}
}

// genUntyped: a value of the fixed-point set of encoding/json for interface{} targets. Slices and maps inside an
// interface are never nil (a typed nil would encode as null and come back as an untyped nil).
func genUntyped(r *wh.Rng, depth int) interface{} {
	k := r.Intn(7)
	if depth > 3 && k > 4 {
		k = r.Intn(5)
	}
	switch k {
	case 0:
		return nil
	case 1:
		return r.Bool()
	case 2:
		return genStr(r)
	case 3, 4:
		// numbers: integral ones (ids, counters) and any finite float
		switch r.Intn(3) {
		case 0:
			return float64(r.Intn(100000))
		case 1:
			return float64(int64(r.Next()>>11)) * 4 // beyond 2^53: exactly representable, prints with an exponent or all digits
		}
		return genFloat(r, 64)
	case 5:
		n := r.Intn(4)
		l := make([]interface{}, 0, n)
		for i := 0; i < n; i++ {
			l = append(l, genUntyped(r, depth+1))
		}
		return l
	}
	n := r.Intn(4)
	m := make(map[string]interface{}, n)
	for i := 0; i < n; i++ {
		m[genStr(r)] = genUntyped(r, depth+1)
	}
	return m
}
