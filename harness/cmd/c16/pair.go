package main

import (
	"strings"

	"github.com/ThreeDotsLabs/watermill/message"

	"wmverif/wh"
)

func equalsRes(a, b *message.Message) (res string) {
	defer func() {
		if r := recover(); r != nil {
			res = "P"
		}
	}()
	return tf(a.Equals(b))
}

// runPair: a.Equals(b) b.Equals(a) a.Equals(a) b.Equals(b) on freshly built messages.
func runPair(a, b lit) string {
	ma, mb := a.build(), b.build()
	return equalsRes(ma, mb) + equalsRes(mb, ma) + equalsRes(ma, ma) + equalsRes(mb, mb)
}

func pairCase(out *wh.Out, a, b lit, kind string) {
	out.Case("pair "+a.tok()+" "+b.tok(), runPair(a, b))
	out.Count("pair.kind." + kind)
}

// all maps from a subset of keys to vals, entries in the given key order
func allMaps(keys, vals []string) [][][2]string {
	res := [][][2]string{nil}
	for _, k := range keys {
		var next [][][2]string
		for _, m := range res {
			next = append(next, m) // key absent
			for _, v := range vals {
				next = append(next, append(append([][2]string{}, m...), [2]string{k, v}))
			}
		}
		res = next
	}
	return res
}

func reversed(es [][2]string) [][2]string {
	r := make([][2]string, len(es))
	for i, e := range es {
		r[len(es)-1-i] = e
	}
	return r
}

// enumPairs: the small spaces, completely.
func enumPairs(out *wh.Out) {
	// 1. every ordered pair of maps over keys {"", a, b} and values {"", x} (27 x 27), same UUID and payload;
	//    the second map is inserted in reverse order so that insertion order is exercised as well
	maps := allMaps([]string{"", "a", "b"}, []string{"", "x"})
	for _, ma := range maps {
		for _, mb := range maps {
			pairCase(out, lit{uuid: "u", payload: []byte("p"), entries: ma}, lit{uuid: "u", payload: []byte("p"), entries: reversed(mb)}, "enum.metadata")
		}
	}
	// 2. nil map against every map
	for _, ma := range maps {
		pairCase(out, lit{uuid: "u", metaNil: true}, lit{uuid: "u", entries: ma}, "enum.nilmap")
		pairCase(out, lit{uuid: "u", entries: ma}, lit{uuid: "u", metaNil: true}, "enum.nilmap")
	}
	pairCase(out, lit{metaNil: true}, lit{metaNil: true}, "enum.nilmap")
	// 3. UUIDs x payloads (nil, empty, differing in content and in length)
	uuids := []string{"", "u", "v", "U", "u "}
	pays := [][]byte{nil, {}, []byte("p"), []byte("q"), []byte("pp"), {0}, {0, 0}}
	for _, ua := range uuids {
		for _, ub := range uuids {
			for _, pa := range pays {
				for _, pb := range pays {
					pairCase(out, lit{uuid: ua, payload: pa, entries: [][2]string{{"k", "v"}}}, lit{uuid: ub, payload: pb, entries: [][2]string{{"k", "v"}}}, "enum.uuid_payload")
				}
			}
		}
	}
}

// mutate returns a copy of l changed in exactly one component, and the name of the change.
func mutate(r *wh.Rng, l lit) (lit, string) {
	m := l.clone()
	for tries := 0; tries < 20; tries++ {
		switch r.Intn(17) {
		case 0:
			return m, "identical"
		case 1:
			m.entries = reversed(m.entries)
			return m, "reordered"
		case 2:
			m.uuid = l.uuid + genStr(r) + "x"
			return m, "uuid"
		case 3:
			if len(m.payload) == 0 {
				continue
			}
			i := r.Intn(len(m.payload))
			m.payload[i] ^= byte(1 + r.Intn(255))
			return m, "payload.byte"
		case 4:
			m.payload = append(append([]byte{}, l.payload...), byte(r.Next()))
			return m, "payload.longer"
		case 5:
			if l.payload == nil {
				m.payload = []byte{}
			} else if len(l.payload) == 0 {
				m.payload = nil
			} else {
				continue
			}
			return m, "payload.nil_vs_empty"
		case 6:
			if len(m.entries) == 0 {
				continue
			}
			i := r.Intn(len(m.entries))
			m.entries[i][1] = m.entries[i][1] + "y"
			return m, "metadata.value"
		case 7, 8:
			// rename a key, keeping its value; with an empty value this is the D1 pattern
			if len(m.entries) == 0 {
				continue
			}
			i := r.Intn(len(m.entries))
			nk := m.entries[i][0] + "'"
			dup := false
			for _, e := range m.entries {
				if e[0] == nk {
					dup = true
				}
			}
			if dup {
				continue
			}
			m.entries[i][0] = nk
			if m.entries[i][1] == "" {
				return m, "metadata.key_renamed_empty_value"
			}
			return m, "metadata.key_renamed"
		case 9:
			if m.metaNil {
				continue
			}
			nk := genStr(r)
			dup := false
			for _, e := range m.entries {
				if e[0] == nk {
					dup = true
				}
			}
			if dup {
				continue
			}
			v := ""
			if r.Bool() {
				v = genStr(r)
			}
			m.entries = append(m.entries, [2]string{nk, v})
			return m, "metadata.key_added"
		case 10:
			if len(m.entries) == 0 {
				continue
			}
			i := r.Intn(len(m.entries))
			m.entries = append(m.entries[:i:i], m.entries[i+1:]...)
			return m, "metadata.key_removed"
		case 11:
			if len(m.entries) != 0 {
				continue
			}
			m.metaNil = !m.metaNil
			return m, "metadata.nil_vs_empty"
		case 12:
			if len(m.entries) < 2 || m.entries[0][1] == m.entries[1][1] {
				continue
			}
			m.entries[0][1], m.entries[1][1] = m.entries[1][1], m.entries[0][1]
			return m, "metadata.values_swapped"
		case 13:
			// a near-miss of the UUID: other letter case, other Unicode normal form, trailing blank / NUL
			if nu := nearMiss(r, l.uuid); nu != l.uuid {
				m.uuid = nu
				return m, "uuid.near_miss"
			}
		case 14:
			if len(m.entries) == 0 {
				continue
			}
			i := r.Intn(len(m.entries))
			if nv := nearMiss(r, m.entries[i][1]); nv != m.entries[i][1] {
				m.entries[i][1] = nv
				return m, "metadata.value_near_miss"
			}
		case 15:
			if len(m.entries) == 0 {
				continue
			}
			i := r.Intn(len(m.entries))
			nk := nearMiss(r, m.entries[i][0])
			dup := false
			for _, e := range m.entries {
				if e[0] == nk {
					dup = true
				}
			}
			if dup {
				continue
			}
			m.entries[i][0] = nk
			return m, "metadata.key_near_miss"
		case 16:
			if len(m.payload) == 0 {
				continue
			}
			m.payload = append(append([]byte{}, l.payload...), 0)
			return m, "payload.trailing_nul"
		}
	}
	return m, "identical"
}

func randomPairs(out *wh.Out, r *wh.Rng, n int) {
	for i := 0; i < n; i++ {
		a := genLit(r)
		if i%3 == 0 && !a.metaNil {
			// make sure keys with empty values are frequent
			for j := range a.entries {
				if r.Bool() {
					a.entries[j][1] = ""
				}
			}
			if len(a.entries) == 0 {
				a.entries = [][2]string{{genStr(r), ""}}
			}
		}
		b, kind := mutate(r, a)
		countLit(out, "pair", a)
		pairCase(out, a, b, "one_component."+kind)
	}
	// unrelated pairs
	for i := 0; i < n/10; i++ {
		pairCase(out, genLit(r), genLit(r), "unrelated")
	}
}

// nearMiss returns a string that a sloppy comparison (case folding, normalisation, trimming) would take for s.
func nearMiss(r *wh.Rng, s string) string {
	switch r.Intn(5) {
	case 0:
		if u := strings.ToUpper(s); u != s {
			return u
		}
		if l := strings.ToLower(s); l != s {
			return l
		}
		return s + "A"
	case 1:
		if strings.Contains(s, "\u00e9") {
			return strings.Replace(s, "\u00e9", "e\u0301", 1)
		}
		return s + "\u00e9"
	case 2:
		return s + " "
	case 3:
		return s + "\x00"
	}
	return " " + s
}
