package main

import (
	"encoding/hex"
	"fmt"
	"sort"
	"strings"
	"unicode/utf8"

	"github.com/ThreeDotsLabs/watermill/message"

	"wmverif/wh"
)

// ---------------------------------------------------------------------------------------------
// tokens of the line protocol (see lean/Driver/C16.lean)

func unhex(s string) ([]byte, error) {
	if s == "-" {
		return []byte{}, nil
	}
	return hex.DecodeString(s)
}

func unhexS(s string) (string, error) {
	b, err := unhex(s)
	if err != nil {
		return "", err
	}
	if !utf8.Valid(b) {
		return "", fmt.Errorf("not UTF-8: %s", s)
	}
	return string(b), nil
}

// payloadTok: nil slice "~", empty "-", else hex.
func payloadTok(p []byte) string {
	if p == nil {
		return "~"
	}
	return wh.Hex(p)
}

func parsePayload(s string) ([]byte, error) {
	if s == "~" {
		return nil, nil
	}
	return unhex(s)
}

// metaTok: nil map "~", empty "-", else k=v sorted by key.
func metaTok(m map[string]string) string {
	if m == nil {
		return "~"
	}
	return wh.Meta(m)
}

// dump renders what a message holds by reading its exported fields (never through Equals/Copy).
func dump(m *message.Message) string {
	return wh.HexS(m.UUID) + "/" + payloadTok(m.Payload) + "/" + metaTok(m.Metadata)
}

// lit is a message literal of a request: metadata entries in insertion order, keys unique.
type lit struct {
	uuid    string
	payload []byte
	metaNil bool
	entries [][2]string
}

func (l lit) tok() string {
	md := "~"
	if !l.metaNil {
		if len(l.entries) == 0 {
			md = "-"
		} else {
			parts := make([]string, len(l.entries))
			for i, e := range l.entries {
				parts[i] = wh.HexS(e[0]) + "=" + wh.HexS(e[1])
			}
			md = strings.Join(parts, ",")
		}
	}
	return wh.HexS(l.uuid) + "/" + payloadTok(l.payload) + "/" + md
}

func (l lit) build() *message.Message {
	m := message.NewMessage(l.uuid, l.payload)
	if l.metaNil {
		m.Metadata = nil
		return m
	}
	for _, e := range l.entries {
		m.Metadata.Set(e[0], e[1])
	}
	return m
}

func parseLit(s string) (lit, error) {
	f := strings.Split(s, "/")
	if len(f) != 3 {
		return lit{}, fmt.Errorf("bad message literal %q", s)
	}
	var l lit
	var err error
	if l.uuid, err = unhexS(f[0]); err != nil {
		return l, err
	}
	if l.payload, err = parsePayload(f[1]); err != nil {
		return l, err
	}
	switch f[2] {
	case "~":
		l.metaNil = true
	case "-":
	default:
		for _, e := range strings.Split(f[2], ",") {
			kv := strings.Split(e, "=")
			if len(kv) != 2 {
				return l, fmt.Errorf("bad entry %q", e)
			}
			k, err := unhexS(kv[0])
			if err != nil {
				return l, err
			}
			v, err := unhexS(kv[1])
			if err != nil {
				return l, err
			}
			l.entries = append(l.entries, [2]string{k, v})
		}
	}
	return l, nil
}

func (l lit) clone() lit {
	c := l
	if l.payload != nil {
		c.payload = append([]byte{}, l.payload...)
	}
	c.entries = append([][2]string{}, l.entries...)
	return c
}

// ---------------------------------------------------------------------------------------------
// generators: every string is valid UTF-8 (the property's quantifier)

var strPool = []string{
	"", "a", "b", "k", "x", "name", " ", "\x00", "\n", "\t\r", "\x7f", "\x1f\x01", "\b\f",
	"\u2028", "\u2029", "<>&", "\"q\\", "'", "/", "\u017c", "\u00df", "\u65e5\u672c\u8a9e", "\U0001f600", "\ufffd", "\U0010ffff", "\u0080",
	"a=b,c/d:e;f ~-#", "_watermill_requestreply_has_error", "_watermill_requestreply_error", "1", "0", "true",
	"null", "{}", "destination_topic", "\\u0041", "\u00e9", "e\u0301",
}

func genRune(r *wh.Rng) rune {
	switch r.Intn(6) {
	case 0:
		return rune(0x20 + r.Intn(0x5f)) // printable ASCII
	case 1:
		return rune(r.Intn(0x20)) // control
	case 2:
		return rune(0x80 + r.Intn(0x800-0x80)) // two bytes
	case 3:
		for {
			c := rune(0x800 + r.Intn(0x10000-0x800)) // three bytes, no surrogates
			if c < 0xd800 || c > 0xdfff {
				return c
			}
		}
	case 4:
		return rune(0x10000 + r.Intn(0x110000-0x10000)) // four bytes
	}
	return []rune{'"', '\\', '<', '>', '&', 0x2028, 0x2029, 0x7f, 0xfffd, '/', 0}[r.Intn(11)]
}

func genStr(r *wh.Rng) string {
	if r.Intn(3) != 0 {
		return strPool[r.Intn(len(strPool))]
	}
	n := r.Intn(9)
	var sb strings.Builder
	for i := 0; i < n; i++ {
		sb.WriteRune(genRune(r))
	}
	return sb.String()
}

func strClass(s string) string {
	switch {
	case s == "":
		return "empty"
	case len(s) == utf8.RuneCountInString(s):
		for _, c := range s {
			if c < 0x20 || c == 0x7f {
				return "control"
			}
		}
		return "ascii"
	}
	return "multibyte"
}

func genPayload(r *wh.Rng) []byte {
	switch r.Intn(8) {
	case 0:
		return nil
	case 1:
		return []byte{}
	case 2:
		return []byte(genStr(r))
	case 3:
		return []byte(`{"a":1,"b":[true,null]}`)
	case 4:
		b := make([]byte, 200+r.Intn(200))
		for i := range b {
			b[i] = byte(r.Next())
		}
		return b
	}
	b := make([]byte, 1+r.Intn(16))
	for i := range b {
		switch r.Intn(4) {
		case 0:
			b[i] = 0
		case 1:
			b[i] = 0xff
		default:
			b[i] = byte(r.Next())
		}
	}
	return b
}

func payloadClass(p []byte) string {
	switch {
	case p == nil:
		return "nil"
	case len(p) == 0:
		return "empty"
	case !utf8.Valid(p):
		return "binary"
	}
	return "text"
}

func genEntries(r *wh.Rng, max int) [][2]string {
	n := r.Intn(max + 1)
	seen := map[string]bool{}
	var es [][2]string
	for i := 0; i < n; i++ {
		k := genStr(r)
		if seen[k] {
			continue
		}
		seen[k] = true
		es = append(es, [2]string{k, genStr(r)})
	}
	return es
}

func genLit(r *wh.Rng) lit {
	l := lit{uuid: genStr(r), payload: genPayload(r)}
	if r.Intn(8) == 0 {
		l.metaNil = true
		return l
	}
	l.entries = genEntries(r, 5)
	return l
}

func countLit(out *wh.Out, pre string, l lit) {
	out.Count(pre + ".uuid." + strClass(l.uuid))
	out.Count(pre + ".payload." + payloadClass(l.payload))
	switch {
	case l.metaNil:
		out.Count(pre + ".metadata.nil")
	case len(l.entries) == 0:
		out.Count(pre + ".metadata.empty")
	default:
		out.Count(pre + ".metadata.entries" + wh.Itoa(len(l.entries)))
		for _, e := range l.entries {
			if e[1] == "" {
				out.Count(pre + ".metadata.has_empty_value")
				break
			}
		}
	}
}

func sortedKeys(m map[string]string) []string {
	ks := make([]string, 0, len(m))
	for k := range m {
		ks = append(ks, k)
	}
	sort.Strings(ks)
	return ks
}

func tf(b bool) string {
	if b {
		return "t"
	}
	return "f"
}
