package main

// Deliveries whose message context is cancelled / expired at the time of the repository call (C14: a delivery that is
// rejected with an error must not consume the key; on the unchanged tree the map repository ignores the context, so such
// a delivery is simply the one that goes through).

import (
	"context"
	"fmt"
	"runtime"
	"strconv"
	"strings"
	"sync"
	"sync/atomic"
	"time"

	"github.com/ThreeDotsLabs/watermill/message"

	"wmverif/wh"
)

// hook actions are keyed by goroutine: the hook point runs on the goroutine that calls the middleware / Publish
var (
	hookActions  sync.Map // goroutine id -> func()
	hookActionsN int64
)

func goid() uint64 {
	var buf [64]byte
	n := runtime.Stack(buf[:], false)
	f := strings.Fields(string(buf[:n]))
	if len(f) < 2 {
		return 0
	}
	id, _ := strconv.ParseUint(f[1], 10, 64)
	return id
}

func runHookAction() {
	if atomic.LoadInt64(&hookActionsN) == 0 {
		return
	}
	if f, ok := hookActions.LoadAndDelete(goid()); ok {
		atomic.AddInt64(&hookActionsN, -1)
		f.(func())()
	}
}

func setHookAction(f func()) (clear func()) {
	id := goid()
	hookActions.Store(id, f)
	atomic.AddInt64(&hookActionsN, 1)
	return func() {
		if _, ok := hookActions.LoadAndDelete(id); ok {
			atomic.AddInt64(&hookActionsN, -1)
		}
	}
}

type ctxStep struct {
	key  int
	mode byte // l c x h t
}

const ctxModes = "lcxht"

func parseCtxStep(t string) (ctxStep, error) {
	if len(t) < 2 || !strings.ContainsRune(ctxModes, rune(t[len(t)-1])) {
		return ctxStep{}, fmt.Errorf("step %q", t)
	}
	n, err := strconv.Atoi(t[:len(t)-1])
	if err != nil || n < 0 || n > 4096 {
		return ctxStep{}, fmt.Errorf("step %q", t)
	}
	return ctxStep{n, t[len(t)-1]}, nil
}

func parseCtxReq(f []string) (string, keyCfg, []ctxStep, error) {
	if len(f) < 3 || (f[1] != "mw" && f[1] != "dec") {
		return "", keyCfg{}, nil, fmt.Errorf("ctx fields")
	}
	k, err := parseHasher(f[2])
	if err != nil {
		return "", k, nil, err
	}
	var steps []ctxStep
	for _, t := range f[3:] {
		s, err := parseCtxStep(t)
		if err != nil {
			return "", k, nil, err
		}
		steps = append(steps, s)
	}
	return f[1], k, steps, nil
}

func parseCtxAssign(s string) ([][]ctxStep, int, error) {
	var gs [][]ctxStep
	maxKey := -1
	for _, g := range strings.Split(s, ";") {
		var st []ctxStep
		for _, t := range strings.Split(g, ".") {
			x, err := parseCtxStep(t)
			if err != nil {
				return nil, 0, err
			}
			if x.key > maxKey {
				maxKey = x.key
			}
			st = append(st, x)
		}
		gs = append(gs, st)
	}
	return gs, maxKey + 1, nil
}

// ctxRig: one deduplicator (Timeout 0 -> the 5 ms floor) behind the middleware and behind the decorator
type ctxRig struct {
	k       keyCfg
	handled sync.Map // message -> true
	h       message.HandlerFunc
	fwd     sync.Map
	pub     message.Publisher
}

func newCtxRig(k keyCfg) *ctxRig {
	r := &ctxRig{k: k}
	d := newDedup(k, newRepo(time.Hour), 0)
	r.h = d.Middleware(func(m *message.Message) ([]*message.Message, error) {
		r.handled.Store(m, true)
		return nil, nil
	})
	d2 := newDedup(k, newRepo(time.Hour), 0)
	pub, err := d2.PublisherDecorator()(pubFunc(func(topic string, msgs ...*message.Message) error {
		for _, m := range msgs {
			r.fwd.Store(m, true)
		}
		return nil
	}))
	if err != nil {
		panic(err)
	}
	r.pub = pub
	return r
}

// deliver presents one message of key index s.key with the context of s.mode; returns p / d / e / ?
func (r *ctxRig) deliver(via string, s ctxStep) (res byte) {
	defer func() {
		if rec := recover(); rec != nil {
			res = 'P'
		}
	}()
	m := concMsg(r.k, s.key)
	ctx, cancel := context.WithCancel(context.Background())
	defer cancel()
	switch s.mode {
	case 'c':
		cancel()
	case 'x':
		var c2 context.CancelFunc
		ctx, c2 = context.WithDeadline(ctx, time.Now().Add(-time.Second))
		defer c2()
	case 'h':
		defer setHookAction(cancel)()
	case 't':
		defer setHookAction(func() { time.Sleep(12 * time.Millisecond) })()
	}
	m.SetContext(ctx)
	if via == "mw" {
		out, err := r.h(m)
		_, called := r.handled.LoadAndDelete(m)
		switch {
		case err != nil && !called:
			return 'e'
		case err == nil && called:
			return 'p'
		case err == nil && !called && out == nil:
			return 'd'
		}
		return '?'
	}
	err := r.pub.Publish("t", m)
	_, fw := r.fwd.LoadAndDelete(m)
	switch {
	case err != nil && !fw:
		return 'e'
	case err == nil && fw && settleFlag(m) == 'u':
		return 'p'
	case err == nil && !fw && settleFlag(m) == 'a':
		return 'd'
	}
	return '?'
}

func runCtxSeq(via string, k keyCfg, steps []ctxStep) string {
	r := newCtxRig(k)
	var sb strings.Builder
	for _, s := range steps {
		sb.WriteByte(r.deliver(via, s))
	}
	return dash(sb.String())
}

func runCtxConc(via string, k keyCfg, yield int, gs [][]ctxStep, nkeys int) string {
	atomic.StoreInt32(&yieldMode, int32(yield))
	defer atomic.StoreInt32(&yieldMode, 0)
	r := newCtxRig(k)
	reached := make([]int64, nkeys)
	dropped := make([]int64, nkeys)
	errs := make([]int64, nkeys)
	gt := &gate{n: int32(len(gs))}
	var wg sync.WaitGroup
	for _, g := range gs {
		g := g
		wg.Add(1)
		go func() {
			defer wg.Done()
			gt.wait()
			for _, s := range g {
				switch r.deliver(via, s) {
				case 'p':
					atomic.AddInt64(&reached[s.key], 1)
				case 'd':
					atomic.AddInt64(&dropped[s.key], 1)
				default:
					atomic.AddInt64(&errs[s.key], 1)
				}
			}
		}()
	}
	wg.Wait()
	parts := make([]string, nkeys)
	for j := range parts {
		parts[j] = fmt.Sprintf("k%d=%d:%d:%d", j, reached[j], dropped[j], errs[j])
	}
	return strings.Join(parts, ",")
}

func ctxHasher(r *wh.Rng) keyCfg {
	switch r.Intn(3) {
	case 0:
		return keyCfg{kind: "meta", field: "dk"}
	case 1:
		return keyCfg{kind: "adler", limit: 64}
	}
	return keyCfg{kind: "sha", limit: 64}
}

func genCtx(r *wh.Rng, out *wh.Out, nSeq, nConc int) {
	emit := func(req string) {
		_, obs, err := runReq(req)
		if err != nil {
			panic(err)
		}
		out.Case(req, obs)
	}
	// systematic: a delivery with a dead context first, then redeliveries with a live one; and the other way round
	for _, via := range []string{"mw", "dec"} {
		for _, h := range []string{"meta:646b", "sha:64"} {
			for _, mode := range []string{"c", "x", "h", "t"} {
				emit(fmt.Sprintf("ctx %s %s 0%s 0l 0l", via, h, mode))
				emit(fmt.Sprintf("ctx %s %s 0%s 1l 0%s 0l 1%s", via, h, mode, mode, mode))
				emit(fmt.Sprintf("ctx %s %s 0l 0%s 1%s 1l 1l", via, h, mode, mode))
				out.Add("ctx.systematic", 3)
			}
		}
	}
	for i := 0; i < nSeq; i++ {
		via := r.Pick("mw", "dec")
		k := ctxHasher(r)
		nk := 1 + r.Intn(3)
		n := 2 + r.Intn(8)
		st := make([]string, n)
		slow := 0
		for j := range st {
			mode := "lllcxh"[r.Intn(6)]
			if r.Intn(12) == 0 && slow < 2 {
				mode = 't'
				slow++
			}
			st[j] = fmt.Sprintf("%d%c", r.Intn(nk), mode)
			out.Count("ctx.mode." + string(mode))
		}
		emit(fmt.Sprintf("ctx %s %s %s", via, k.String(), strings.Join(st, " ")))
		out.Count("ctx.via." + via)
	}
	for i := 0; i < nConc; i++ {
		via := []string{"mw", "dec"}[i%2]
		k := ctxHasher(r)
		g := 2 + r.Intn(31)
		nk := 1 + r.Intn(4)
		gs := make([]string, g)
		slow := 0
		for a := range gs {
			n := 1 + r.Intn(3)
			st := make([]string, n)
			for j := range st {
				mode := "llllcxh"[r.Intn(7)] // most deliveries live, some dead on arrival or killed at the hook
				if r.Intn(40) == 0 && slow < 3 {
					mode = 't'
					slow++
				}
				st[j] = fmt.Sprintf("%d%c", r.Intn(nk), mode)
			}
			gs[a] = strings.Join(st, ".")
		}
		emit(fmt.Sprintf("ctxc %s %s %d %s", via, k.String(), r.Intn(3), strings.Join(gs, ";")))
		out.Count("ctxc.via." + via)
		out.Count("ctxc.goroutines" + wh.Itoa(g))
	}
}
