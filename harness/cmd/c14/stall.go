package main

import (
	"fmt"
	"strconv"
	"strings"
	"time"
)

// runStall: the first presentation of a key is held up at the hook point dedup.isduplicate.enter - i.e. right in front of the
// repository lock - for a time comparable to the window; after a gap that contains a clean-up tick but is shorter than the
// window the key is presented again (and then a few more times).  The retention window counts from the clock reading taken
// in the critical section, which lies AFTER the hook point: the call stamp of the held-up event is therefore the stamp taken
// when the hook action ends (still a lower bound of that reading, so the window inequality of the hist monitor stays
// sound under any load), and two accepted arrivals must be more than a window apart counted from there.
func runStall(via string, w time.Duration, stallPct, gapPct int) []hev {
	rig := buildRig(w)
	arr := rig.arr[via]
	name := fmt.Sprintf("s%d", nextCase())
	var evs []hev
	var hookExit int64 = -1
	clear := setHookAction(func() {
		time.Sleep(w * time.Duration(stallPct) / 100)
		hookExit = stamp()
	})
	c := stamp()
	res := arr(name)
	r := stamp()
	clear()
	if hookExit >= 0 {
		c = hookExit
	}
	evs = append(evs, hev{0, c, r, res})
	pause := w * time.Duration(gapPct) / 100
	for i := 0; i < 4; i++ {
		time.Sleep(pause)
		c := stamp()
		res := arr(name)
		evs = append(evs, hev{0, c, stamp(), res})
		pause = w / 5
	}
	return evs
}

func stallReq(via string, wms, stallPct, gapPct int, evs []hev) string {
	parts := make([]string, len(evs))
	for i, e := range evs {
		parts[i] = fmt.Sprintf("%d:%d:%d:%c", e.key, e.call, e.ret, e.res)
	}
	return strings.TrimSpace(fmt.Sprintf("stall %s %d %d %d %s", via, wms, stallPct, gapPct, strings.Join(parts, " ")))
}

// runStallReq re-runs the scenario named by the first four fields; recorded events of a previous run are ignored
func runStallReq(f []string) (string, string, error) {
	if len(f) < 5 || (f[1] != "repo" && f[1] != "mw" && f[1] != "dec") {
		return "", "", fmt.Errorf("stall fields")
	}
	wms, e1 := strconv.Atoi(f[2])
	sp, e2 := strconv.Atoi(f[3])
	gp, e3 := strconv.Atoi(f[4])
	if e1 != nil || e2 != nil || e3 != nil || wms < 1 || wms > 10000 || sp < 0 || sp > 1000 || gp < 1 || gp > 1000 {
		return "", "", fmt.Errorf("stall args")
	}
	evs := runStall(f[1], time.Duration(wms)*time.Millisecond, sp, gp)
	return stallReq(f[1], wms, sp, gp, evs), "lin", nil
}
