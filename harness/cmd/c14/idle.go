package main

import (
	"fmt"
	"runtime"
	"sync"
	"sync/atomic"
	"time"
)

// runIdle: the interleaving "a new key arrives right when a clean-up pass has emptied the repository", over and over.
// Asserted is only the statement's "accepted again after it expired": a key the clean-up has not removed after 100
// windows is presented again and again (60 s deadline) until it is accepted; Len() is used as a trigger only.
func runIdle(via string, w time.Duration, workers int, budget time.Duration) (string, int64) {
	stopAt := time.Now().Add(budget)
	var rounds int64
	var stuck, bad int32
	var wg sync.WaitGroup
	for i := 0; i < workers; i++ {
		wg.Add(1)
		go func() {
			defer wg.Done()
			rig := buildRig(w)
			sized, ok := rig.repo.(interface{ Len() int })
			if !ok {
				atomic.StoreInt32(&bad, 1)
				return
			}
			arr := rig.arr[via]
			cn := nextCase()
			for n := 0; time.Now().Before(stopAt) && atomic.LoadInt32(&stuck) == 0; n++ {
				key := fmt.Sprintf("i%d-%d", cn, n)
				if arr(key) != 'a' {
					atomic.StoreInt32(&bad, 1)
					return
				}
				atomic.AddInt64(&rounds, 1)
				presented := time.Now()
				for sized.Len() != 0 && time.Since(presented) < 100*w {
					runtime.Gosched()
				}
				if sized.Len() == 0 {
					continue
				}
				// not cleaned yet: the key must still be accepted again at some point
				deadline := time.Now().Add(60 * time.Second)
				again := false
				for time.Now().Before(deadline) {
					r := arr(key)
					if r == 'a' {
						again = true
						break
					}
					if r != 'd' {
						atomic.StoreInt32(&bad, 1)
						return
					}
					time.Sleep(w)
				}
				if !again {
					atomic.StoreInt32(&stuck, 1)
					return
				}
				// the key was stored again by that poll: let it drain before the next round
				for d := time.Now().Add(60 * time.Second); sized.Len() != 0 && time.Now().Before(d); {
					time.Sleep(w / 2)
				}
			}
		}()
	}
	wg.Wait()
	switch {
	case atomic.LoadInt32(&bad) != 0:
		return "error", rounds
	case atomic.LoadInt32(&stuck) != 0:
		return "stuck", rounds
	}
	return "reaccepted", rounds
}
