// Harness for C14: drives the real Deduplicator (message/router/middleware/deduplicator.go).
//
// Request kinds (REQ) and canonical observations (OBS); strings are hex tokens ("-" = empty):
//
//	repo <key>*                                   one result letter per call: a accepted (false), d duplicate (true), E error
//	    direct Repository.IsDuplicate calls on a fresh NewMapExpiringKeyRepository(1h) – everything is "within the window".
//	mw <hasher> <payload>/<meta>/<outcome>/<key>*  per step: drop/0 | kerr/0 | pass:<n>:<e>/1 | panic/1 | mangled…
//	    Deduplicator.Middleware around a scripted handler; outcome o0,o1,o2 (n outputs, nil error), e (nil, error),
//	    b (1 output and an error), p (handler panics). <key> is the key the real KeyFactory gives that message ("!" = error);
//	    /<calls> is the number of handler invocations during that step.
//	dec <hasher> <o|f>|<payload>/<meta>/<key>;…*     per Publish call: <n|k|i>|<forwarded>|<settle flags>|<topic>
//	    publisher decorator around a recording publisher that succeeds (o) or fails (f). n/k/i: nil, key-factory error,
//	    the wrapped publisher's error; forwarded: x (wrapped Publish not called), "-" (called with no message), 0.2.3
//	    (batch positions, in the order received); flags per batch message: a acked, n nacked, u unsettled.
//	mwc <hasher> <yield> <g1>;<g2>;…              g = key indices k.k.k presented by one goroutine through the middleware;
//	    OBS k<i>=<handler calls>:<results passed through>:<(nil,nil) drops>:<errors>,…
//	decc <hasher> <yield> <g1>;<g2>;…             g = batches b+b, b = key indices k.k  through the decorator;
//	    OBS k<i>=<forwarded>:<dropped and acked>:<forwarded but acked>:<dropped not acked>,…  e=<Publish errors>
//	hash <adler|sha> <limit> <p1> <p2>            adler: <key1> <key2>; sha: eq|ne   (two messages with different UUID/metadata)
//	metakey <field> <meta>                        key:<hex> | err
//	timeout <via> <cfg_ns> <lo_ns> <hi_ns> <ctx>  OBS ok.  lo/hi bracket (deadline seen by the repository − call time); ctx=1 iff
//	    the repository's context derives from the message's context.  via: mw | dec | direct (Deduplicator.IsDuplicate without defaults)
//	hist <w_ns> <via> <k>:<call>:<ret>:<a|d|E>*    OBS lin.  Stamped history of concurrent arrivals on a short-window repository
//	    (clean-up ticker running); stamps are monotonic ns taken before the call and after the return.
//	expire <via> <w_ms>                            OBS reaccepted | stuck | first-not-accepted  (poll until the key is accepted again)
//	ctx <mw|dec> <hasher> <k><mode>*               one letter per delivery: p reached the handler / wrapped publisher, d dropped as a success, e error
//	    deliveries of key index k whose message context is l live, c cancelled before the call, x past its deadline,
//	    h cancelled at the hook dedup.isduplicate.enter (between Deduplicator.IsDuplicate and the repository lock),
//	    t outlived there (the hook sleeps longer than the 5 ms Timeout).  Decorator: one message per Publish.
//	ctxc <mw|dec> <hasher> <yield> <g1>;<g2>;…       g = k<mode>.k<mode>… presented by one goroutine; OBS k<i>=<reached>:<dropped>:<errors>,…
//	volume <via> <w_ms> <nOther> <nProbes>          OBS first=<accepted>/<presented> z=reaccepted probes=<a|d per probe>
//	    a fresh repository gets nProbes probe keys, nOther other keys and last 8 sentinel keys; the sentinels are polled until one
//	    is accepted again - which proves that a clean-up with a tick past the sentinel's (hence every probe's) expiry ran -
//	    and then every probe is presented once more: each must be accepted again (no wall-clock bound involved).
//	stall <via> <w_ms> <stall%> <gap%> <k>:<call>:<ret>:<a|d>*  OBS lin.  The first presentation of a key is held up at the hook
//	    dedup.isduplicate.enter for stall% of the window, the key is presented again gap% of the window later (see stall.go);
//	    judged like a hist history, the held-up call being stamped when the hook action ends.
//	share / sharec                                 several wrappers built from ONE Deduplicator value share its state (see share.go)
//	idle <via> <w_ms> <workers> <budget_ms>         OBS reaccepted | stuck.  Each worker owns a repository and repeats: present a new key,
//	    wait until the clean-up emptied the repository (Len() == 0), present the next new key at once (an arrival right
//	    after the repository became empty); a key that is not cleaned within 100 windows is polled until it is accepted again.
//	router <n> <nkeys>                             OBS handled=<h> acked=<a>  (a real Router + GoChannel; every message is acked, one handled per key)
package main

import (
	"context"
	"crypto/sha256"
	"encoding/hex"
	"errors"
	"fmt"
	"math"
	"os"
	"runtime"
	"sort"
	"strconv"
	"strings"
	"sync"
	"sync/atomic"
	"time"

	"github.com/ThreeDotsLabs/watermill"
	"github.com/ThreeDotsLabs/watermill/message"
	"github.com/ThreeDotsLabs/watermill/message/router/middleware"
	"github.com/ThreeDotsLabs/watermill/pubsub/gochannel"

	"wmverif/wh"
)

// ---------------------------------------------------------------------------------------------- hook / yield

var (
	yieldMode  int32 // 0 off, 1 Gosched sometimes, 2 Gosched + tiny sleeps
	hookCtr    uint64
	hookSeed   uint64
	hookHits   int64
	hookYields int64
)

func mix(z uint64) uint64 {
	z = (z ^ (z >> 30)) * 0xBF58476D1CE4E5B9
	z = (z ^ (z >> 27)) * 0x94D049BB133111EB
	return z ^ (z >> 31)
}

func installHook() {
	message.SetVerifHook(func(name string, args ...string) {
		if name != "dedup.isduplicate.enter" {
			return
		}
		atomic.AddInt64(&hookHits, 1)
		runHookAction() // ctx / ctxc cases: cancel or outlive the caller's context between Deduplicator.IsDuplicate and the repository lock
		m := atomic.LoadInt32(&yieldMode)
		if m == 0 {
			return
		}
		x := mix(atomic.AddUint64(&hookCtr, 1) ^ hookSeed)
		if x%3 == 0 {
			atomic.AddInt64(&hookYields, 1)
			runtime.Gosched()
		}
		if m == 2 && x%11 == 0 {
			time.Sleep(time.Duration(x%50) * time.Microsecond)
		}
	})
}

// ---------------------------------------------------------------------------------------------- key factories

type keyCfg struct {
	kind  string // adler | sha | meta | default | nil
	limit int64
	field string
}

func parseHasher(s string) (keyCfg, error) {
	switch {
	case s == "default" || s == "nil":
		return keyCfg{kind: s, limit: math.MaxInt64}, nil
	case strings.HasPrefix(s, "adler:") || strings.HasPrefix(s, "sha:"):
		i := strings.IndexByte(s, ':')
		n, err := strconv.ParseInt(s[i+1:], 10, 64)
		if err != nil {
			return keyCfg{}, err
		}
		return keyCfg{kind: s[:i], limit: n}, nil
	case strings.HasPrefix(s, "meta:"):
		b, err := unhex(s[5:])
		if err != nil {
			return keyCfg{}, err
		}
		return keyCfg{kind: "meta", field: string(b)}, nil
	}
	return keyCfg{}, fmt.Errorf("hasher %q", s)
}

func (k keyCfg) String() string {
	switch k.kind {
	case "adler", "sha":
		return k.kind + ":" + strconv.FormatInt(k.limit, 10)
	case "meta":
		return "meta:" + wh.HexS(k.field)
	}
	return k.kind
}

// factory is the real key factory of that configuration (for default/nil: what the documentation names as default).
func (k keyCfg) factory() middleware.MessageHasher {
	switch k.kind {
	case "adler":
		return middleware.NewMessageHasherAdler32(k.limit)
	case "sha":
		return middleware.NewMessageHasherSHA256(k.limit)
	case "meta":
		return middleware.NewMessageHasherFromMetadataField(k.field)
	}
	return middleware.NewMessageHasherAdler32(math.MaxInt64)
}

func (k keyCfg) effLimit() int {
	if k.kind == "meta" {
		return 0
	}
	if k.limit < 64 {
		return 64
	}
	if k.limit > 1<<20 {
		return 1 << 20
	}
	return int(k.limit)
}

func realKey(k keyCfg, m *message.Message) (res string) {
	defer func() {
		if r := recover(); r != nil {
			res = "!"
		}
	}()
	key, err := k.factory()(m)
	if err != nil {
		return "!"
	}
	return wh.HexS(key)
}

func newRepo(window time.Duration) middleware.ExpiringKeyRepository {
	r, err := middleware.NewMapExpiringKeyRepository(window)
	if err != nil {
		panic(err)
	}
	return r
}

func newDedup(k keyCfg, repo middleware.ExpiringKeyRepository, timeout time.Duration) *middleware.Deduplicator {
	switch k.kind {
	case "nil":
		return nil
	case "default":
		return &middleware.Deduplicator{Repository: repo, Timeout: timeout}
	}
	return &middleware.Deduplicator{KeyFactory: k.factory(), Repository: repo, Timeout: timeout}
}

// ---------------------------------------------------------------------------------------------- tokens

func unhex(s string) ([]byte, error) {
	if s == "-" {
		return []byte{}, nil
	}
	return hex.DecodeString(s)
}

func parseMeta(s string) (map[string]string, error) {
	m := map[string]string{}
	if s == "-" {
		return m, nil
	}
	for _, kv := range strings.Split(s, ",") {
		p := strings.SplitN(kv, "=", 2)
		if len(p) != 2 {
			return nil, fmt.Errorf("meta %q", s)
		}
		k, err := unhex(p[0])
		if err != nil {
			return nil, err
		}
		v, err := unhex(p[1])
		if err != nil {
			return nil, err
		}
		m[string(k)] = string(v)
	}
	return m, nil
}

type msgSpec struct {
	payload []byte
	meta    map[string]string
}

func (s msgSpec) token() string { return wh.Hex(s.payload) + "/" + wh.Meta(s.meta) }

var uuidCtr int64

func (s msgSpec) build() *message.Message {
	m := message.NewMessage("u"+strconv.FormatInt(atomic.AddInt64(&uuidCtr, 1), 10), append([]byte{}, s.payload...))
	for k, v := range s.meta {
		m.Metadata[k] = v
	}
	return m
}

func parseMsg(payload, meta string) (msgSpec, error) {
	p, err := unhex(payload)
	if err != nil {
		return msgSpec{}, err
	}
	md, err := parseMeta(meta)
	if err != nil {
		return msgSpec{}, err
	}
	return msgSpec{p, md}, nil
}

func settleFlag(m *message.Message) byte {
	select {
	case <-m.Acked():
		return 'a'
	default:
	}
	select {
	case <-m.Nacked():
		return 'n'
	default:
	}
	return 'u'
}

func dash(s string) string {
	if s == "" {
		return "-"
	}
	return s
}

// ---------------------------------------------------------------------------------------------- repo

func runRepo(keys []string) string {
	repo := newRepo(time.Hour)
	var sb strings.Builder
	for _, k := range keys {
		kb, _ := unhex(k)
		sb.WriteByte(repoCall(repo, string(kb)))
	}
	return dash(sb.String())
}

func repoCall(repo middleware.ExpiringKeyRepository, key string) (res byte) {
	defer func() {
		if r := recover(); r != nil {
			res = 'P'
		}
	}()
	d, err := repo.IsDuplicate(context.Background(), key)
	if err != nil {
		return 'E'
	}
	if d {
		return 'd'
	}
	return 'a'
}

// ---------------------------------------------------------------------------------------------- mw (sequential)

var errHandler = errors.New("handler failed")

type mwStep struct {
	msg     msgSpec
	outcome string
}

func outcomeResult(o string) ([]*message.Message, error) {
	switch o {
	case "o0":
		return nil, nil
	case "o1":
		return []*message.Message{message.NewMessage("out1", []byte("x"))}, nil
	case "o2":
		return []*message.Message{message.NewMessage("out1", []byte("x")), message.NewMessage("out2", []byte("y"))}, nil
	case "e":
		return nil, errHandler
	case "b":
		return []*message.Message{message.NewMessage("out1", []byte("x"))}, errHandler
	}
	panic("scripted handler panic")
}

func sameMsgs(a, b []*message.Message) bool {
	if len(a) != len(b) {
		return false
	}
	for i := range a {
		if a[i] != b[i] {
			return false
		}
	}
	return true
}

func mwReq(k keyCfg, steps []mwStep) string {
	parts := make([]string, len(steps))
	for i, s := range steps {
		parts[i] = s.msg.token() + "/" + s.outcome + "/" + realKey(k, s.msg.build())
	}
	return strings.TrimSpace("mw " + k.String() + " " + strings.Join(parts, " "))
}

func runMw(k keyCfg, steps []mwStep, timeout time.Duration) string {
	var repo middleware.ExpiringKeyRepository
	if k.kind != "nil" {
		repo = newRepo(time.Hour)
	}
	d := newDedup(k, repo, timeout)
	calls := 0
	var curOut []*message.Message
	var curErr error
	var curOutcome string
	var curMsg *message.Message
	gotMsgOK := true
	h := d.Middleware(func(m *message.Message) ([]*message.Message, error) {
		calls++
		if m != curMsg {
			gotMsgOK = false
		}
		if curOutcome == "p" {
			panic("scripted handler panic")
		}
		return curOut, curErr
	})
	obs := make([]string, len(steps))
	for i, s := range steps {
		calls = 0
		gotMsgOK = true
		curOutcome = s.outcome
		if s.outcome != "p" {
			curOut, curErr = outcomeResult(s.outcome)
		}
		curMsg = s.msg.build()
		obs[i] = func() (res string) {
			defer func() {
				if r := recover(); r != nil {
					res = "panic"
				}
			}()
			out, err := h(curMsg)
			switch {
			case calls == 0 && out == nil && err == nil:
				return "drop"
			case calls == 0 && out == nil && err != nil:
				return "kerr"
			case calls >= 1 && gotMsgOK && sameMsgs(out, curOut) && err == curErr:
				e := 0
				if err != nil {
					e = 1
				}
				return fmt.Sprintf("pass:%d:%d", len(out), e)
			}
			return fmt.Sprintf("mangled:%d:%v", len(out), err != nil)
		}() + "/" + strconv.Itoa(calls)
		if settleFlag(curMsg) != 'u' {
			obs[i] += "+settled" // the middleware itself never settles a message
		}
	}
	return dash(strings.Join(obs, " "))
}

func parseMwReq(f []string) (keyCfg, []mwStep, error) {
	if len(f) < 2 {
		return keyCfg{}, nil, errors.New("short")
	}
	k, err := parseHasher(f[1])
	if err != nil {
		return k, nil, err
	}
	var steps []mwStep
	for _, t := range f[2:] {
		p := strings.Split(t, "/")
		if len(p) != 4 {
			return k, nil, fmt.Errorf("step %q", t)
		}
		m, err := parseMsg(p[0], p[1])
		if err != nil {
			return k, nil, err
		}
		steps = append(steps, mwStep{m, p[2]})
	}
	return k, steps, nil
}

// ---------------------------------------------------------------------------------------------- dec (sequential)

type recPublisher struct {
	mu    sync.Mutex
	calls [][]*message.Message
	topic []string
	fail  bool
}

var errInner = errors.New("inner publisher failed")

func (p *recPublisher) Publish(topic string, msgs ...*message.Message) error {
	p.mu.Lock()
	defer p.mu.Unlock()
	p.calls = append(p.calls, append([]*message.Message{}, msgs...))
	p.topic = append(p.topic, topic)
	if p.fail {
		return errInner
	}
	return nil
}
func (p *recPublisher) Close() error { return nil }

type decCall struct {
	fail bool
	msgs []msgSpec
}

func decReq(k keyCfg, calls []decCall) string {
	parts := make([]string, len(calls))
	for i, c := range calls {
		ms := make([]string, len(c.msgs))
		for j, m := range c.msgs {
			ms[j] = m.token() + "/" + realKey(k, m.build())
		}
		f := "o"
		if c.fail {
			f = "f"
		}
		parts[i] = f + "|" + strings.Join(ms, ";")
	}
	return strings.TrimSpace("dec " + k.String() + " " + strings.Join(parts, " "))
}

func runDec(k keyCfg, calls []decCall, timeout time.Duration) string {
	var repo middleware.ExpiringKeyRepository
	if k.kind != "nil" {
		repo = newRepo(time.Hour)
	}
	d := newDedup(k, repo, timeout)
	inner := &recPublisher{}
	pub, err := d.PublisherDecorator()(inner)
	if err != nil {
		return "decorator-error"
	}
	obs := make([]string, len(calls))
	for i, c := range calls {
		inner.calls, inner.topic, inner.fail = nil, nil, c.fail
		topic := "topic-" + strconv.Itoa(i)
		msgs := make([]*message.Message, len(c.msgs))
		for j, m := range c.msgs {
			msgs[j] = m.build()
		}
		obs[i] = func() (res string) {
			defer func() {
				if r := recover(); r != nil {
					res = "panic"
				}
			}()
			err := pub.Publish(topic, msgs...)
			e := "n"
			switch {
			case err == errInner:
				e = "i"
			case err != nil:
				e = "k"
			}
			fw, tp := "x", "x"
			if len(inner.calls) > 1 {
				fw = "multi"
			} else if len(inner.calls) == 1 {
				tp = "t"
				if inner.topic[0] != topic {
					tp = "T"
				}
				var ix []string
				for _, fm := range inner.calls[0] {
					pos := -1
					for j, m := range msgs {
						if m == fm {
							pos = j
						}
					}
					ix = append(ix, strconv.Itoa(pos))
				}
				fw = dash(strings.Join(ix, "."))
			}
			var fl strings.Builder
			for _, m := range msgs {
				fl.WriteByte(settleFlag(m))
			}
			return e + "|" + fw + "|" + dash(fl.String()) + "|" + tp
		}()
	}
	return dash(strings.Join(obs, " "))
}

func parseDecReq(f []string) (keyCfg, []decCall, error) {
	if len(f) < 2 {
		return keyCfg{}, nil, errors.New("short")
	}
	k, err := parseHasher(f[1])
	if err != nil {
		return k, nil, err
	}
	var calls []decCall
	for _, t := range f[2:] {
		p := strings.SplitN(t, "|", 2)
		if len(p) != 2 || (p[0] != "o" && p[0] != "f") {
			return k, nil, fmt.Errorf("call %q", t)
		}
		c := decCall{fail: p[0] == "f"}
		if p[1] != "" {
			for _, mt := range strings.Split(p[1], ";") {
				q := strings.Split(mt, "/")
				if len(q) != 3 {
					return k, nil, fmt.Errorf("msg %q", mt)
				}
				m, err := parseMsg(q[0], q[1])
				if err != nil {
					return k, nil, err
				}
				c.msgs = append(c.msgs, m)
			}
		}
		calls = append(calls, c)
	}
	return k, calls, nil
}

// ---------------------------------------------------------------------------------------------- concurrent: mwc / decc

// keyPayload: the payload prefix that makes key index j (deterministic), long enough to fill the read limit
func keyPrefix(k keyCfg, j int) []byte {
	n := k.effLimit()
	if n == 0 {
		n = 16
	}
	out := make([]byte, 0, n+32)
	ctr := 0
	for len(out) < n {
		h := sha256.Sum256([]byte(fmt.Sprintf("c14-key-%d-%d", j, ctr)))
		out = append(out, h[:]...)
		ctr++
	}
	return out[:n]
}

var tailCtr int64

// concMsg builds a message whose dedup key is that of key index j: same prefix, different tail beyond the limit, own UUID/metadata.
func concMsg(k keyCfg, j int) *message.Message {
	t := atomic.AddInt64(&tailCtr, 1)
	var payload []byte
	if k.kind == "meta" {
		payload = []byte(fmt.Sprintf("payload-%d", t))
	} else {
		payload = append(keyPrefix(k, j), []byte(fmt.Sprintf("tail-%d", t))...)
	}
	m := message.NewMessage("c"+strconv.FormatInt(t, 10), payload)
	m.Metadata["idx"] = strconv.Itoa(j)
	m.Metadata["n"] = strconv.FormatInt(t, 10)
	if k.kind == "meta" {
		m.Metadata[k.field] = "key-" + strconv.Itoa(j)
	}
	return m
}

func parseAssign(s string, batchSep bool) ([][][]int, int, error) {
	var gs [][][]int
	maxKey := -1
	for _, g := range strings.Split(s, ";") {
		var batches [][]int
		bs := []string{g}
		if batchSep {
			bs = strings.Split(g, "+")
		}
		for _, b := range bs {
			var ks []int
			for _, t := range strings.Split(b, ".") {
				n, err := strconv.Atoi(t)
				if err != nil || n < 0 || n > 4096 {
					return nil, 0, fmt.Errorf("assign %q", s)
				}
				if n > maxKey {
					maxKey = n
				}
				ks = append(ks, n)
			}
			batches = append(batches, ks)
		}
		gs = append(gs, batches)
	}
	return gs, maxKey + 1, nil
}

type gate struct {
	n       int32
	arrived int32
}

func (g *gate) wait() {
	atomic.AddInt32(&g.arrived, 1)
	for spins := 0; atomic.LoadInt32(&g.arrived) < g.n; spins++ {
		if spins > 200 {
			runtime.Gosched()
		}
	}
}

func runMwc(k keyCfg, yield int, gs [][][]int, nkeys int) string {
	atomic.StoreInt32(&yieldMode, int32(yield))
	defer atomic.StoreInt32(&yieldMode, 0)
	d := newDedup(k, newRepo(time.Hour), time.Second)
	calls := make([]int64, nkeys)
	passed := make([]int64, nkeys)
	dropped := make([]int64, nkeys)
	errs := make([]int64, nkeys)
	var results sync.Map // input message -> *[]*message.Message returned by the handler
	h := d.Middleware(func(m *message.Message) ([]*message.Message, error) {
		j, _ := strconv.Atoi(m.Metadata["idx"])
		atomic.AddInt64(&calls[j], 1)
		out := []*message.Message{message.NewMessage("out-"+m.UUID, []byte("o"))}
		results.Store(m, out)
		return out, nil
	})
	gt := &gate{n: int32(len(gs))}
	var wg sync.WaitGroup
	for _, g := range gs {
		g := g
		wg.Add(1)
		go func() {
			defer wg.Done()
			var msgs []*message.Message
			for _, b := range g {
				for _, j := range b {
					msgs = append(msgs, concMsg(k, j))
				}
			}
			gt.wait()
			for _, m := range msgs {
				j, _ := strconv.Atoi(m.Metadata["idx"])
				func() {
					defer func() {
						if r := recover(); r != nil {
							atomic.AddInt64(&errs[j], 1)
						}
					}()
					out, err := h(m)
					want, called := results.Load(m)
					switch {
					case err != nil:
						atomic.AddInt64(&errs[j], 1)
					case called && sameMsgs(out, want.([]*message.Message)):
						atomic.AddInt64(&passed[j], 1)
					case !called && out == nil:
						atomic.AddInt64(&dropped[j], 1)
					default:
						atomic.AddInt64(&errs[j], 1)
					}
				}()
			}
		}()
	}
	wg.Wait()
	parts := make([]string, nkeys)
	for j := 0; j < nkeys; j++ {
		parts[j] = fmt.Sprintf("k%d=%d:%d:%d:%d", j, calls[j], passed[j], dropped[j], errs[j])
	}
	return strings.Join(parts, ",")
}

func runDecc(k keyCfg, yield int, gs [][][]int, nkeys int) string {
	atomic.StoreInt32(&yieldMode, int32(yield))
	defer atomic.StoreInt32(&yieldMode, 0)
	d := newDedup(k, newRepo(time.Hour), time.Second)
	inner := &recPublisher{}
	pub, err := d.PublisherDecorator()(inner)
	if err != nil {
		return "decorator-error"
	}
	var pubErrs int64
	var allMu sync.Mutex
	var all []*message.Message
	gt := &gate{n: int32(len(gs))}
	var wg sync.WaitGroup
	for _, g := range gs {
		g := g
		wg.Add(1)
		go func() {
			defer wg.Done()
			batches := make([][]*message.Message, len(g))
			for i, b := range g {
				for _, j := range b {
					batches[i] = append(batches[i], concMsg(k, j))
				}
			}
			allMu.Lock()
			for _, b := range batches {
				all = append(all, b...)
			}
			allMu.Unlock()
			gt.wait()
			for _, b := range batches {
				func() {
					defer func() {
						if r := recover(); r != nil {
							atomic.AddInt64(&pubErrs, 1)
						}
					}()
					if err := pub.Publish("t", b...); err != nil {
						atomic.AddInt64(&pubErrs, 1)
					}
				}()
			}
		}()
	}
	wg.Wait()
	fwd := map[*message.Message]int{}
	for _, c := range inner.calls {
		for _, m := range c {
			fwd[m]++
		}
	}
	forwarded := make([]int, nkeys)
	droppedAcked := make([]int, nkeys)
	fwdAcked := make([]int, nkeys)
	droppedNotAcked := make([]int, nkeys)
	for _, m := range all {
		j, _ := strconv.Atoi(m.Metadata["idx"])
		fl := settleFlag(m)
		if n := fwd[m]; n > 0 {
			forwarded[j] += n
			if fl != 'u' {
				fwdAcked[j]++
			}
		} else if fl == 'a' {
			droppedAcked[j]++
		} else {
			droppedNotAcked[j]++
		}
	}
	parts := make([]string, nkeys)
	for j := 0; j < nkeys; j++ {
		parts[j] = fmt.Sprintf("k%d=%d:%d:%d:%d", j, forwarded[j], droppedAcked[j], fwdAcked[j], droppedNotAcked[j])
	}
	return strings.Join(parts, ",") + " e=" + strconv.FormatInt(pubErrs, 10)
}

// ---------------------------------------------------------------------------------------------- hash / metakey

func runHash(algo string, limit int64, p1, p2 []byte) string {
	k := keyCfg{kind: algo, limit: limit}
	m1 := message.NewMessage("uuid-one", p1)
	m1.Metadata["a"] = "1"
	m2 := message.NewMessage("uuid-two", p2)
	m2.Metadata["b"] = "2"
	m2.Metadata["a"] = "other"
	k1, e1 := k.factory()(m1)
	k2, e2 := k.factory()(m2)
	if e1 != nil || e2 != nil {
		return "err"
	}
	if algo == "adler" {
		return wh.HexS(k1) + " " + wh.HexS(k2)
	}
	if len(k1) != 32 || len(k2) != 32 {
		return "badlen"
	}
	if k1 == k2 {
		return "eq"
	}
	return "ne"
}

func runMetaKey(field string, md map[string]string) string {
	m := message.NewMessage("u", []byte("p"))
	for k, v := range md {
		m.Metadata[k] = v
	}
	key, err := middleware.NewMessageHasherFromMetadataField(field)(m)
	if err != nil {
		return "err"
	}
	return "key:" + wh.HexS(key)
}

// ---------------------------------------------------------------------------------------------- timeout

type ctxKeyT struct{}

type probeRepo struct {
	deadline time.Time
	hasDl    bool
	seen     time.Time
	ctxVal   bool
}

func (p *probeRepo) IsDuplicate(ctx context.Context, key string) (bool, error) {
	p.seen = time.Now()
	p.deadline, p.hasDl = ctx.Deadline()
	p.ctxVal = ctx.Value(ctxKeyT{}) == "marker"
	return false, nil
}

func runTimeout(via string, cfg time.Duration) (lo, hi int64, cv int, ok bool) {
	p := &probeRepo{}
	d := &middleware.Deduplicator{KeyFactory: middleware.NewMessageHasherSHA256(64), Repository: p, Timeout: cfg}
	m := message.NewMessage("u", []byte("payload"))
	m.SetContext(context.WithValue(context.Background(), ctxKeyT{}, "marker"))
	var t0 time.Time
	switch via {
	case "mw":
		h := d.Middleware(func(*message.Message) ([]*message.Message, error) { return nil, nil })
		t0 = time.Now()
		h(m)
	case "dec":
		pub, err := d.PublisherDecorator()(&recPublisher{})
		if err != nil {
			return 0, 0, 0, false
		}
		t0 = time.Now()
		pub.Publish("t", m)
	case "direct":
		t0 = time.Now()
		d.IsDuplicate(m)
	default:
		return 0, 0, 0, false
	}
	if !p.hasDl {
		return 0, 0, 0, false
	}
	if p.ctxVal {
		cv = 1
	}
	return int64(p.deadline.Sub(p.seen)), int64(p.deadline.Sub(t0)), cv, true
}

// ---------------------------------------------------------------------------------------------- hist / expire (real time)

type hev struct {
	key       int
	call, ret int64
	res       byte
}

// arrival presents key `name` once through repo / middleware / decorator and reports a (accepted) / d (duplicate) / E.
type arrival func(name string) byte

type timedRig struct {
	w    time.Duration
	repo middleware.ExpiringKeyRepository
	arr  map[string]arrival
}

var (
	rigMu sync.Mutex
	rigs  = map[time.Duration]*timedRig{}
)

// rigFor: one repository per window size, shared by all timed cases (keys are unique per case), so that the number
// of leaked clean-up tickers stays small.
func rigFor(w time.Duration) *timedRig {
	rigMu.Lock()
	defer rigMu.Unlock()
	if r, ok := rigs[w]; ok {
		return r
	}
	r := buildRig(w)
	rigs[w] = r
	return r
}

// buildRig: a fresh repository of window w with the three ways of presenting a key to it
func buildRig(w time.Duration) *timedRig {
	repo := newRepo(w)
	r := &timedRig{w: w, repo: repo, arr: map[string]arrival{}}
	r.arr["repo"] = func(name string) byte { return repoCall(repo, name) }
	// middleware with the metadata-field key factory
	dm := &middleware.Deduplicator{KeyFactory: middleware.NewMessageHasherFromMetadataField("dk"), Repository: repo, Timeout: time.Second}
	var handled sync.Map
	h := dm.Middleware(func(m *message.Message) ([]*message.Message, error) {
		handled.Store(m, true)
		return nil, nil
	})
	r.arr["mw"] = func(name string) (res byte) {
		defer func() {
			if rec := recover(); rec != nil {
				res = 'P'
			}
		}()
		m := message.NewMessage(watermill.NewShortUUID(), []byte("p"))
		m.Metadata["dk"] = name
		out, err := h(m)
		_, called := handled.LoadAndDelete(m)
		switch {
		case err != nil:
			return 'E'
		case called:
			return 'a'
		case out == nil:
			return 'd'
		}
		return 'E'
	}
	// decorator with SHA-256 over the payload
	dd := &middleware.Deduplicator{KeyFactory: middleware.NewMessageHasherSHA256(64), Repository: repo, Timeout: time.Second}
	var forwarded sync.Map
	pub, err := dd.PublisherDecorator()(pubFunc(func(topic string, msgs ...*message.Message) error {
		for _, m := range msgs {
			forwarded.Store(m, true)
		}
		return nil
	}))
	if err != nil {
		panic(err)
	}
	r.arr["dec"] = func(name string) (res byte) {
		defer func() {
			if rec := recover(); rec != nil {
				res = 'P'
			}
		}()
		m := message.NewMessage(watermill.NewShortUUID(), []byte("dec-payload-"+name))
		err := pub.Publish("t", m)
		_, fw := forwarded.LoadAndDelete(m)
		switch {
		case err != nil:
			return 'E'
		case fw && settleFlag(m) == 'u':
			return 'a'
		case !fw && settleFlag(m) == 'a':
			return 'd'
		}
		return 'E'
	}
	return r
}

type pubFunc func(topic string, msgs ...*message.Message) error

func (f pubFunc) Publish(topic string, msgs ...*message.Message) error { return f(topic, msgs...) }
func (f pubFunc) Close() error                                         { return nil }

var base = time.Now()

func stamp() int64 { return int64(time.Since(base)) }

var caseCtr int64

// runHist: g goroutines present nkeys keys for about `windows` windows; returns the stamped events.
func runHist(w time.Duration, via string, g, nkeys int, windows float64, yield int, rng *wh.Rng) []hev {
	rig := rigFor(w)
	arr := rig.arr[via]
	cn := atomic.AddInt64(&caseCtr, 1)
	atomic.StoreInt32(&yieldMode, int32(yield))
	defer atomic.StoreInt32(&yieldMode, 0)
	deadline := time.Now().Add(time.Duration(float64(w) * windows))
	var mu sync.Mutex
	var evs []hev
	var wg sync.WaitGroup
	gt := &gate{n: int32(g)}
	perG := 40
	for i := 0; i < g; i++ {
		r := rng.Fork()
		wg.Add(1)
		go func() {
			defer wg.Done()
			local := make([]hev, 0, perG)
			gt.wait()
			for n := 0; n < perG && time.Now().Before(deadline); n++ {
				k := r.Intn(nkeys)
				name := fmt.Sprintf("h%d-k%d", cn, k)
				c := stamp()
				res := arr(name)
				rt := stamp()
				local = append(local, hev{k, c, rt, res})
				switch r.Intn(4) {
				case 0:
					time.Sleep(w / time.Duration(2+r.Intn(8)))
				case 1:
					runtime.Gosched()
				}
			}
			mu.Lock()
			evs = append(evs, local...)
			mu.Unlock()
		}()
	}
	wg.Wait()
	sort.Slice(evs, func(i, j int) bool { return evs[i].call < evs[j].call })
	return evs
}

func histReq(w time.Duration, via string, evs []hev) string {
	parts := make([]string, len(evs))
	for i, e := range evs {
		parts[i] = fmt.Sprintf("%d:%d:%d:%c", e.key, e.call, e.ret, e.res)
	}
	return strings.TrimSpace(fmt.Sprintf("hist %d %s %s", int64(w), via, strings.Join(parts, " ")))
}

// runExpire: accept a fresh key, then poll until it is accepted again (which must happen once a clean-up with a tick
// past the expiry ran).  No fixed sleep: the deadline is generous and only "accepted again" is asserted.
func runExpire(w time.Duration, via string) (string, []hev) {
	rig := rigFor(w)
	arr := rig.arr[via]
	cn := atomic.AddInt64(&caseCtr, 1)
	name := fmt.Sprintf("x%d", cn)
	var evs []hev
	c := stamp()
	res := arr(name)
	evs = append(evs, hev{0, c, stamp(), res})
	if res != 'a' {
		return "first-not-accepted", evs
	}
	deadline := time.Now().Add(60 * time.Second)
	pause := w / 3
	if pause < 200*time.Microsecond {
		pause = 200 * time.Microsecond
	}
	for time.Now().Before(deadline) {
		c := stamp()
		res := arr(name)
		r := stamp()
		if len(evs) < 60 || res != 'd' {
			evs = append(evs, hev{0, c, r, res})
		}
		if res == 'a' {
			return "reaccepted", evs
		}
		if res != 'd' {
			return "error", evs
		}
		time.Sleep(pause)
	}
	return "stuck", evs
}

// ---------------------------------------------------------------------------------------------- router

// runRouter: a real Router on a GoChannel that blocks Publish until the subscriber acked; n messages over nkeys keys are
// published concurrently.  A Publish call that returns nil was acked by the router (a nack would be redelivered).
func runRouter(n, nkeys int) string {
	logger := watermill.NopLogger{}
	ps := gochannel.NewGoChannel(gochannel.Config{BlockPublishUntilSubscriberAck: true}, logger)
	r, err := message.NewRouter(message.RouterConfig{}, logger)
	if err != nil {
		return "router-error"
	}
	d := &middleware.Deduplicator{KeyFactory: middleware.NewMessageHasherSHA256(64), Repository: newRepo(time.Hour), Timeout: time.Second}
	r.AddMiddleware(d.Middleware)
	var handled int64
	r.AddNoPublisherHandler("h", "in", ps, func(m *message.Message) error {
		atomic.AddInt64(&handled, 1)
		return nil
	})
	ctx, cancel := context.WithCancel(context.Background())
	defer cancel()
	done := make(chan struct{})
	go func() { r.Run(ctx); close(done) }()
	select {
	case <-r.Running():
	case <-time.After(30 * time.Second):
		return "router-not-running"
	}
	k := keyCfg{kind: "sha", limit: 64}
	var acked int64
	var wg sync.WaitGroup
	for i := 0; i < n; i++ {
		m := concMsg(k, i%nkeys)
		wg.Add(1)
		go func() {
			defer wg.Done()
			if err := ps.Publish("in", m); err == nil {
				atomic.AddInt64(&acked, 1)
			}
		}()
	}
	fin := make(chan struct{})
	go func() { wg.Wait(); close(fin) }()
	res := ""
	select {
	case <-fin:
		res = fmt.Sprintf("handled=%d acked=%d", atomic.LoadInt64(&handled), atomic.LoadInt64(&acked))
	case <-time.After(30 * time.Second):
		res = fmt.Sprintf("hang handled=%d acked=%d", atomic.LoadInt64(&handled), atomic.LoadInt64(&acked))
	}
	r.Close()
	<-done
	ps.Close()
	return res
}

// ---------------------------------------------------------------------------------------------- dispatcher

// runReq executes one request against the real code. It returns the (possibly re-stamped) request and the observation.
func runReq(req string) (string, string, error) {
	f := strings.Fields(req)
	if len(f) == 0 {
		return req, "", errors.New("empty")
	}
	switch f[0] {
	case "repo":
		return req, runRepo(f[1:]), nil
	case "mw":
		k, steps, err := parseMwReq(f)
		if err != nil {
			return req, "", err
		}
		return req, runMw(k, steps, time.Second), nil
	case "dec":
		k, calls, err := parseDecReq(f)
		if err != nil {
			return req, "", err
		}
		return req, runDec(k, calls, time.Second), nil
	case "mwc", "decc":
		if len(f) != 4 {
			return req, "", errors.New("fields")
		}
		k, err := parseHasher(f[1])
		if err != nil {
			return req, "", err
		}
		y, err := strconv.Atoi(f[2])
		if err != nil {
			return req, "", err
		}
		gs, nk, err := parseAssign(f[3], f[0] == "decc")
		if err != nil {
			return req, "", err
		}
		if f[0] == "mwc" {
			return req, runMwc(k, y, gs, nk), nil
		}
		return req, runDecc(k, y, gs, nk), nil
	case "hash":
		if len(f) != 5 || (f[1] != "adler" && f[1] != "sha") {
			return req, "", errors.New("fields")
		}
		lim, err := strconv.ParseInt(f[2], 10, 64)
		if err != nil {
			return req, "", err
		}
		p1, err := unhex(f[3])
		if err != nil {
			return req, "", err
		}
		p2, err := unhex(f[4])
		if err != nil {
			return req, "", err
		}
		return req, runHash(f[1], lim, p1, p2), nil
	case "metakey":
		if len(f) != 3 {
			return req, "", errors.New("fields")
		}
		fb, err := unhex(f[1])
		if err != nil {
			return req, "", err
		}
		md, err := parseMeta(f[2])
		if err != nil {
			return req, "", err
		}
		return req, runMetaKey(string(fb), md), nil
	case "timeout":
		if len(f) < 3 {
			return req, "", errors.New("fields")
		}
		cfg, err := strconv.ParseInt(f[2], 10, 64)
		if err != nil {
			return req, "", err
		}
		lo, hi, cv, ok := runTimeout(f[1], time.Duration(cfg))
		if !ok {
			return req, "no-deadline", nil
		}
		return fmt.Sprintf("timeout %s %d %d %d %d", f[1], cfg, lo, hi, cv), "ok", nil
	case "hist":
		return req, "lin", nil // carries its own observation
	case "ctx":
		via, k, steps, err := parseCtxReq(f)
		if err != nil {
			return req, "", err
		}
		return req, runCtxSeq(via, k, steps), nil
	case "ctxc":
		if len(f) != 5 {
			return req, "", errors.New("fields")
		}
		k, err := parseHasher(f[2])
		if err != nil {
			return req, "", err
		}
		y, err := strconv.Atoi(f[3])
		if err != nil {
			return req, "", err
		}
		gs, nk, err := parseCtxAssign(f[4])
		if err != nil || (f[1] != "mw" && f[1] != "dec") {
			return req, "", errors.New("ctxc args")
		}
		return req, runCtxConc(f[1], k, y, gs, nk), nil
	case "stall":
		return runStallReq(f)
	case "share", "sharec":
		obs, err := runShareReq(f)
		if err != nil {
			return req, "", err
		}
		return req, obs, nil
	case "idle":
		if len(f) != 5 {
			return req, "", errors.New("fields")
		}
		ms, e1 := strconv.Atoi(f[2])
		wk, e2 := strconv.Atoi(f[3])
		bud, e3 := strconv.Atoi(f[4])
		if e1 != nil || e2 != nil || e3 != nil || ms < 1 || wk < 1 || wk > 64 || bud < 1 || bud > 600000 || (f[1] != "repo" && f[1] != "mw" && f[1] != "dec") {
			return req, "", errors.New("idle args")
		}
		obs, _ := runIdle(f[1], time.Duration(ms)*time.Millisecond, wk, time.Duration(bud)*time.Millisecond)
		return req, obs, nil
	case "volume":
		if len(f) != 5 {
			return req, "", errors.New("fields")
		}
		ms, e1 := strconv.Atoi(f[2])
		n, e2 := strconv.Atoi(f[3])
		np, e3 := strconv.Atoi(f[4])
		if e1 != nil || e2 != nil || e3 != nil || ms < 1 || n < 0 || n > 500000 || np < 1 || np > 1000 || (f[1] != "repo" && f[1] != "mw" && f[1] != "dec") {
			return req, "", errors.New("volume args")
		}
		return req, runVolume(f[1], time.Duration(ms)*time.Millisecond, n, np), nil
	case "router":
		if len(f) != 3 {
			return req, "", errors.New("fields")
		}
		n, err1 := strconv.Atoi(f[1])
		nk, err2 := strconv.Atoi(f[2])
		if err1 != nil || err2 != nil || n < 1 || nk < 1 || n > 256 {
			return req, "", errors.New("router args")
		}
		return req, runRouter(n, nk), nil
	case "expire":
		if len(f) != 3 {
			return req, "", errors.New("fields")
		}
		ms, err := strconv.Atoi(f[2])
		if err != nil || ms < 1 {
			return req, "", errors.New("window")
		}
		obs, _ := runExpire(time.Duration(ms)*time.Millisecond, f[1])
		return req, obs, nil
	}
	return req, "", fmt.Errorf("unknown request kind %q", f[0])
}

func main() {
	a := wh.ParseArgs()
	out := wh.NewOut(a.Out)
	defer out.Close()
	hookSeed = mix(a.Seed)
	installHook()
	if a.Replay != "" {
		req, obs, err := runReq(a.Replay)
		if err != nil {
			fmt.Fprintln(os.Stderr, "cannot replay:", err)
			os.Exit(2)
		}
		out.Case(req, obs)
		return
	}
	generate(a, out)
	out.Add("hook.dedup.isduplicate.enter.hits", int(atomic.LoadInt64(&hookHits)))
	out.Add("hook.yields", int(atomic.LoadInt64(&hookYields)))
}
