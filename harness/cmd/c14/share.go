package main

// One Deduplicator value is one deduplication state: Middleware() and PublisherDecorator() may be called on it any number
// of times (Router.AddMiddleware(d.Middleware) does so once per handler), and d.IsDuplicate may be used directly.
//
//	share <cfg> <nMw> <nDec> <wrapper>:<key>*          one letter per presentation: p reached / accepted, d dropped as a success, e error, P panic
//	sharec <cfg> <nMw> <nDec> <yield> <g1>;<g2>;…     g = <wrapper>:<key>.<wrapper>:<key>…  OBS k<i>=<reached>:<dropped>:<errors>,…
//
// cfg: defrepo (Repository nil = the documented default, SHA-256 key factory), defall (Repository and KeyFactory nil),
// explicit (own repository), nilptr (nil *Deduplicator: every wrapper is a Deduplicator of its own).
// wrapper: m<i> the i-th middleware built from the value, d<i> the i-th publisher decorator, D = d.IsDuplicate(msg) directly.

import (
	"fmt"
	"strconv"
	"strings"
	"sync"
	"sync/atomic"
	"time"

	"github.com/ThreeDotsLabs/watermill/message"
	"github.com/ThreeDotsLabs/watermill/message/router/middleware"

	"wmverif/wh"
)

type shareStep struct {
	kind byte // m d D
	idx  int
	key  int
}

func parseShareStep(t string, nMw, nDec int) (shareStep, error) {
	p := strings.Split(t, ":")
	if len(p) != 2 || len(p[0]) < 1 {
		return shareStep{}, fmt.Errorf("step %q", t)
	}
	key, err := strconv.Atoi(p[1])
	if err != nil || key < 0 || key > 4096 {
		return shareStep{}, fmt.Errorf("step %q", t)
	}
	if p[0] == "D" {
		return shareStep{'D', 0, key}, nil
	}
	idx, err := strconv.Atoi(p[0][1:])
	if err != nil || idx < 0 {
		return shareStep{}, fmt.Errorf("step %q", t)
	}
	switch {
	case p[0][0] == 'm' && idx < nMw:
		return shareStep{'m', idx, key}, nil
	case p[0][0] == 'd' && idx < nDec:
		return shareStep{'d', idx, key}, nil
	}
	return shareStep{}, fmt.Errorf("step %q", t)
}

type shareRig struct {
	cfg     string
	d       *middleware.Deduplicator
	mws     []message.HandlerFunc
	pubs    []message.Publisher
	handled sync.Map
	fwd     sync.Map
}

func newShareRig(cfg string, nMw, nDec int) (*shareRig, error) {
	r := &shareRig{cfg: cfg}
	switch cfg {
	case "defrepo":
		r.d = &middleware.Deduplicator{KeyFactory: middleware.NewMessageHasherSHA256(64), Timeout: time.Second}
	case "defall":
		r.d = &middleware.Deduplicator{}
	case "explicit":
		r.d = &middleware.Deduplicator{KeyFactory: middleware.NewMessageHasherSHA256(64), Repository: newRepo(time.Hour), Timeout: time.Second}
	case "nilptr":
		r.d = nil
	default:
		return nil, fmt.Errorf("cfg %q", cfg)
	}
	for i := 0; i < nMw; i++ {
		r.mws = append(r.mws, r.d.Middleware(func(m *message.Message) ([]*message.Message, error) {
			r.handled.Store(m, true)
			return nil, nil
		}))
	}
	for i := 0; i < nDec; i++ {
		p, err := r.d.PublisherDecorator()(pubFunc(func(topic string, msgs ...*message.Message) error {
			for _, m := range msgs {
				r.fwd.Store(m, true)
			}
			return nil
		}))
		if err != nil {
			return nil, err
		}
		r.pubs = append(r.pubs, p)
	}
	return r, nil
}

func (r *shareRig) msg(j int) *message.Message {
	if r.cfg == "defall" || r.cfg == "nilptr" { // Adler-32 over the whole payload: equal payloads
		m := message.NewMessage("s"+strconv.FormatInt(atomic.AddInt64(&tailCtr, 1), 10), []byte("share-key-"+strconv.Itoa(j)))
		m.Metadata["n"] = m.UUID
		return m
	}
	return concMsg(keyCfg{kind: "sha", limit: 64}, j)
}

func (r *shareRig) present(s shareStep) (res byte) {
	defer func() {
		if rec := recover(); rec != nil {
			res = 'P'
		}
	}()
	m := r.msg(s.key)
	switch s.kind {
	case 'm':
		out, err := r.mws[s.idx](m)
		_, called := r.handled.LoadAndDelete(m)
		switch {
		case err != nil:
			return 'e'
		case called:
			return 'p'
		case out == nil:
			return 'd'
		}
		return '?'
	case 'd':
		err := r.pubs[s.idx].Publish("t", m)
		_, fw := r.fwd.LoadAndDelete(m)
		switch {
		case err != nil:
			return 'e'
		case fw && settleFlag(m) == 'u':
			return 'p'
		case !fw && settleFlag(m) == 'a':
			return 'd'
		}
		return '?'
	}
	dup, err := r.d.IsDuplicate(m)
	switch {
	case err != nil:
		return 'e'
	case dup:
		return 'd'
	}
	return 'p'
}

func runShareSeq(cfg string, nMw, nDec int, steps []shareStep) string {
	r, err := newShareRig(cfg, nMw, nDec)
	if err != nil {
		return "rig-error"
	}
	var sb strings.Builder
	for _, s := range steps {
		sb.WriteByte(r.present(s))
	}
	return dash(sb.String())
}

func runShareConc(cfg string, nMw, nDec, yield int, gs [][]shareStep, nkeys int) string {
	atomic.StoreInt32(&yieldMode, int32(yield))
	defer atomic.StoreInt32(&yieldMode, 0)
	r, err := newShareRig(cfg, nMw, nDec)
	if err != nil {
		return "rig-error"
	}
	reached := make([]int64, nkeys)
	dropped := make([]int64, nkeys)
	errs := make([]int64, nkeys)
	gt := &gate{n: int32(len(gs))}
	var wg sync.WaitGroup
	for _, g := range gs {
		g := g
		wg.Add(1)
		go func() {
			defer wg.Done()
			gt.wait()
			for _, s := range g {
				switch r.present(s) {
				case 'p':
					atomic.AddInt64(&reached[s.key], 1)
				case 'd':
					atomic.AddInt64(&dropped[s.key], 1)
				default:
					atomic.AddInt64(&errs[s.key], 1)
				}
			}
		}()
	}
	wg.Wait()
	parts := make([]string, nkeys)
	for j := range parts {
		parts[j] = fmt.Sprintf("k%d=%d:%d:%d", j, reached[j], dropped[j], errs[j])
	}
	return strings.Join(parts, ",")
}

func runShareReq(f []string) (string, error) {
	conc := f[0] == "sharec"
	min := 4
	if conc {
		min = 6
	}
	if len(f) < min {
		return "", fmt.Errorf("fields")
	}
	nMw, e1 := strconv.Atoi(f[2])
	nDec, e2 := strconv.Atoi(f[3])
	if e1 != nil || e2 != nil || nMw < 0 || nDec < 0 || nMw+nDec < 1 || nMw > 16 || nDec > 16 {
		return "", fmt.Errorf("wrappers")
	}
	parse := func(t string) (shareStep, error) {
		s, err := parseShareStep(t, nMw, nDec)
		if err == nil && s.kind == 'D' && f[1] == "nilptr" {
			err = fmt.Errorf("direct call on a nil Deduplicator")
		}
		return s, err
	}
	if !conc {
		var steps []shareStep
		for _, t := range f[4:] {
			s, err := parse(t)
			if err != nil {
				return "", err
			}
			steps = append(steps, s)
		}
		return runShareSeq(f[1], nMw, nDec, steps), nil
	}
	if len(f) != 6 {
		return "", fmt.Errorf("fields")
	}
	y, err := strconv.Atoi(f[4])
	if err != nil {
		return "", err
	}
	var gs [][]shareStep
	nk := 0
	for _, g := range strings.Split(f[5], ";") {
		var st []shareStep
		for _, t := range strings.Split(g, ".") {
			s, err := parse(t)
			if err != nil {
				return "", err
			}
			if s.key+1 > nk {
				nk = s.key + 1
			}
			st = append(st, s)
		}
		gs = append(gs, st)
	}
	return runShareConc(f[1], nMw, nDec, y, gs, nk), nil
}

func genShare(r *wh.Rng, out *wh.Out, nSeq, nConc int) {
	emit := func(req string) {
		_, obs, err := runReq(req)
		if err != nil {
			panic(err)
		}
		out.Case(req, obs)
	}
	cfgs := []string{"defrepo", "defall", "explicit", "nilptr", "defrepo", "defall"}
	wrapper := func(cfg string, nMw, nDec int) string {
		n := nMw + nDec
		if cfg != "nilptr" && r.Intn(6) == 0 {
			return "D"
		}
		i := r.Intn(n)
		if i < nMw {
			return "m" + strconv.Itoa(i)
		}
		return "d" + strconv.Itoa(i-nMw)
	}
	// systematic: the same key through every wrapper built from one value, then directly
	for _, cfg := range []string{"defrepo", "defall", "explicit"} {
		emit("share " + cfg + " 2 1 m0:0 m1:0 d0:0 D:0 m1:1 d0:1 m0:1")
		emit("share " + cfg + " 1 2 d0:0 d1:0 m0:0 D:1 d1:1")
		emit("share " + cfg + " 3 0 m2:0 m1:0 m0:0")
		out.Add("share.systematic", 3)
	}
	emit("share nilptr 2 1 m0:0 m1:0 d0:0 m0:0 d0:0")
	for i := 0; i < nSeq; i++ {
		cfg := cfgs[r.Intn(len(cfgs))]
		nMw, nDec := r.Intn(4), r.Intn(3)
		if nMw+nDec == 0 {
			nMw = 2
		}
		nk := 1 + r.Intn(3)
		n := 2 + r.Intn(9)
		st := make([]string, n)
		for j := range st {
			st[j] = wrapper(cfg, nMw, nDec) + ":" + strconv.Itoa(r.Intn(nk))
		}
		emit(fmt.Sprintf("share %s %d %d %s", cfg, nMw, nDec, strings.Join(st, " ")))
		out.Count("share.cfg." + cfg)
	}
	for i := 0; i < nConc; i++ {
		cfg := cfgs[r.Intn(len(cfgs))]
		nMw, nDec := 1+r.Intn(3), r.Intn(3)
		nk := 1 + r.Intn(3)
		g := 2 + r.Intn(31)
		gs := make([]string, g)
		for a := range gs {
			n := 1 + r.Intn(3)
			st := make([]string, n)
			for j := range st {
				st[j] = wrapper(cfg, nMw, nDec) + ":" + strconv.Itoa(r.Intn(nk))
			}
			gs[a] = strings.Join(st, ".")
		}
		emit(fmt.Sprintf("sharec %s %d %d %d %s", cfg, nMw, nDec, r.Intn(3), strings.Join(gs, ";")))
		out.Count("sharec.cfg." + cfg)
		out.Count("sharec.goroutines" + wh.Itoa(g))
	}
}
