package main

import (
	"fmt"
	"strings"
	"sync/atomic"
	"time"
)

const volumeSentinels = 8

func nextCase() int64 { return atomic.AddInt64(&caseCtr, 1) }

// runVolume: "accepted again after expiry" under volume.  Every sentinel is stored after every probe, so its expiry is not
// earlier than any probe's; when the repository accepts a sentinel again, a clean-up whose tick lies past the sentinel's
// expiry has run, and a clean-up removes every entry that expired before its tick - so each probe must be accepted again
// (theorem sentinel_reaccepted_probe_forgotten).  Sound under any load: nothing is compared with wall-clock time.
func runVolume(via string, w time.Duration, nOther, nProbes int) string {
	rig := buildRig(w)
	arr := rig.arr[via]
	cn := nextCase()
	acc, total := 0, 0
	present := func(name string) byte {
		total++
		r := arr(name)
		if r == 'a' {
			acc++
		}
		return r
	}
	probe := func(i int) string { return fmt.Sprintf("v%d-probe%d", cn, i) }
	// probes are spread over the first half of the other keys
	step := 1
	if nProbes > 0 && nOther/2 > nProbes {
		step = nOther / 2 / nProbes
	}
	pi := 0
	for i := 0; i < nOther; i++ {
		if pi < nProbes && i%step == 0 {
			present(probe(pi))
			pi++
		}
		present(fmt.Sprintf("v%d-o%d", cn, i))
	}
	for ; pi < nProbes; pi++ {
		present(probe(pi))
	}
	// several sentinels, all stored after the last probe: the first of them to be accepted again is the witness
	sentinels := make([]string, volumeSentinels)
	for i := range sentinels {
		sentinels[i] = fmt.Sprintf("v%d-sentinel%d", cn, i)
		present(sentinels[i])
	}
	first := fmt.Sprintf("first=%d/%d", acc, total)
	deadline := time.Now().Add(90 * time.Second)
	pause := w / 4
	if pause < 200*time.Microsecond {
		pause = 200 * time.Microsecond
	}
	z := "stuck"
poll:
	for time.Now().Before(deadline) {
		for _, sn := range sentinels {
			r := arr(sn)
			if r == 'a' {
				z = "reaccepted"
				break poll
			}
			if r != 'd' {
				z = "error"
				break poll
			}
		}
		time.Sleep(pause)
	}
	if z != "reaccepted" {
		return first + " z=" + z + " probes=-"
	}
	var sb strings.Builder
	for i := 0; i < nProbes; i++ {
		sb.WriteByte(arr(probe(i)))
	}
	return first + " z=reaccepted probes=" + sb.String()
}
