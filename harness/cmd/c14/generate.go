package main

import (
	"fmt"
	"math"
	"strconv"
	"strings"
	"sync"
	"time"

	"wmverif/wh"
)

var limits = []int64{-5, 0, 1, 63, 64, 65, 100, 200, math.MaxInt64}
var sizes = []int{0, 1, 63, 64, 65, 200}

func randBytes(r *wh.Rng, n int) []byte {
	b := make([]byte, n)
	for i := range b {
		b[i] = byte(r.Next())
	}
	return b
}

func effOf(limit int64) int {
	if limit < 64 {
		return 64
	}
	if limit > 256 {
		return 128 // "unlimited": every payload of the generators is shorter than the limit, all bytes count
	}
	return int(limit)
}

func flipAt(p []byte, i int) []byte {
	q := append([]byte{}, p...)
	if i >= 0 && i < len(q) {
		q[i] ^= 0x5a
	}
	return q
}

func randHasher(r *wh.Rng) keyCfg {
	switch r.Intn(10) {
	case 0:
		return keyCfg{kind: "default", limit: math.MaxInt64}
	case 1:
		return keyCfg{kind: "nil", limit: math.MaxInt64}
	case 2, 3:
		return keyCfg{kind: "meta", field: r.Pick("dk", "a", "")}
	case 4, 5, 6:
		return keyCfg{kind: "adler", limit: limits[r.Intn(len(limits))]}
	}
	return keyCfg{kind: "sha", limit: limits[r.Intn(len(limits))]}
}

func randMeta(r *wh.Rng) map[string]string {
	m := map[string]string{}
	for _, k := range []string{"dk", "a", ""} {
		if r.Intn(3) != 0 {
			m[k] = r.Pick("", "v1", "v2", "v1")
		}
	}
	return m
}

// pool of message specs around the read limit of k: common prefixes, differences just before / at / after the limit,
// different lengths, different metadata.
func msgPool(r *wh.Rng, k keyCfg) []msgSpec {
	L := effOf(k.limit)
	base := randBytes(r, L+70)
	var pool []msgSpec
	add := func(p []byte) { pool = append(pool, msgSpec{p, randMeta(r)}) }
	cand := []int{0, 1, 63, 64, 65, 200, L - 1, L, L + 1, L + 60}
	for i := 0; i < 3; i++ {
		n := cand[r.Intn(len(cand))]
		if n > len(base) {
			n = len(base)
		}
		add(base[:n])
	}
	full := base[:L+1+r.Intn(60)]
	add(full)
	add(flipAt(full, L))          // differs right after the limit: same key for the payload hashers
	add(flipAt(full, L-1))        // differs at the last byte read
	add(flipAt(full, r.Intn(L)))  // differs somewhere inside
	add(flipAt(full, len(full)-1)) // differs in the tail
	if r.Intn(3) == 0 {
		add(randBytes(r, r.Intn(80)))
	}
	return pool
}

var outcomes = []string{"o0", "o1", "o2", "e", "b", "o1", "o0"}

func genMw(r *wh.Rng, out *wh.Out) {
	k := randHasher(r)
	pool := msgPool(r, k)
	n := 1 + r.Intn(10)
	steps := make([]mwStep, n)
	for i := range steps {
		s := pool[r.Intn(len(pool))]
		if r.Intn(4) == 0 {
			s = msgSpec{s.payload, randMeta(r)}
		}
		o := outcomes[r.Intn(len(outcomes))]
		if r.Intn(25) == 0 {
			o = "p"
		}
		steps[i] = mwStep{s, o}
	}
	req := mwReq(k, steps)
	timeout := []time.Duration{0, time.Millisecond, time.Second}[r.Intn(3)]
	out.Case(req, runMw(k, steps, timeout))
	out.Count("mw.hasher." + k.kind)
	out.Add("mw.steps", n)
}

func genDec(r *wh.Rng, out *wh.Out) {
	k := randHasher(r)
	pool := msgPool(r, k)
	n := 1 + r.Intn(4)
	calls := make([]decCall, n)
	total := 0
	for i := range calls {
		c := decCall{fail: r.Intn(5) == 0}
		for j := r.Intn(5); j > 0; j-- {
			s := pool[r.Intn(len(pool))]
			if r.Intn(4) == 0 {
				s = msgSpec{s.payload, randMeta(r)}
			}
			c.msgs = append(c.msgs, s)
		}
		total += len(c.msgs)
		calls[i] = c
	}
	req := decReq(k, calls)
	timeout := []time.Duration{0, time.Millisecond, time.Second}[r.Intn(3)]
	out.Case(req, runDec(k, calls, timeout))
	out.Count("dec.hasher." + k.kind)
	out.Add("dec.messages", total)
}

func concHasher(r *wh.Rng) keyCfg {
	switch r.Intn(4) {
	case 0:
		return keyCfg{kind: "meta", field: "dk"}
	case 1:
		return keyCfg{kind: "adler", limit: 64}
	case 2:
		return keyCfg{kind: "sha", limit: []int64{0, 64, 100}[r.Intn(3)]}
	}
	return keyCfg{kind: "sha", limit: 64}
}

func genConc(r *wh.Rng, out *wh.Out, kind string, g int) {
	k := concHasher(r)
	nkeys := 1 + r.Intn(4)
	if r.Intn(3) == 0 {
		nkeys = 1
	}
	gs := make([]string, g)
	total := 0
	for i := range gs {
		var bs []string
		nb := 1
		if kind == "decc" {
			nb = 1 + r.Intn(2)
		}
		for b := 0; b < nb; b++ {
			n := 1 + r.Intn(3)
			ks := make([]string, n)
			for x := range ks {
				ks[x] = strconv.Itoa(r.Intn(nkeys))
			}
			total += n
			bs = append(bs, strings.Join(ks, "."))
		}
		gs[i] = strings.Join(bs, "+")
	}
	// every key index below nkeys must occur (the observation lists k0..k<max>)
	yield := r.Intn(3)
	req := fmt.Sprintf("%s %s %d %s", kind, k.String(), yield, strings.Join(gs, ";"))
	_, obs, err := runReq(req)
	if err != nil {
		panic(err)
	}
	out.Case(req, obs)
	out.Count(kind + ".goroutines" + wh.Itoa(g))
	out.Count(kind + ".hasher." + k.kind)
	out.Add(kind+".arrivals", total)
}

func genHash(r *wh.Rng, out *wh.Out, thorough bool) {
	emit := func(algo string, lim int64, p1, p2 []byte) {
		req := fmt.Sprintf("hash %s %d %s %s", algo, lim, wh.Hex(p1), wh.Hex(p2))
		out.Case(req, runHash(algo, lim, p1, p2))
		out.Count("hash." + algo)
	}
	for _, algo := range []string{"adler", "sha"} {
		for _, lim := range limits {
			L := effOf(lim)
			base := randBytes(r, 300)
			for _, n := range sizes {
				p := base[:n]
				emit(algo, lim, p, p)                                  // identical payloads (different UUID / metadata)
				emit(algo, lim, p, base[:n+1])                        // one byte longer
				emit(algo, lim, p, flipAt(p, n-1))                    // last byte differs
				emit(algo, lim, p, flipAt(p, 0))                      // first byte differs
				emit(algo, lim, p, append(append([]byte{}, p...), randBytes(r, 5)...)) // longer tail
			}
			if lim > 256 {
				continue
			}
			// around the effective limit
			full := base[:L+40]
			emit(algo, lim, full, flipAt(full, L))     // first byte NOT read differs: equal keys
			emit(algo, lim, full, flipAt(full, L-1))   // last byte read differs
			emit(algo, lim, full, flipAt(full, L+39))  // tail differs
			emit(algo, lim, full[:L], full)            // exactly the limit vs longer
			emit(algo, lim, full[:L-1], full)          // one short of the limit vs longer
			emit(algo, lim, full[:L], full[:L+1])
			emit(algo, lim, full[:L-1], full[:L])
			if lim < 64 { // the clamp: bytes between the requested limit and 64 ARE read
				emit(algo, lim, full, flipAt(full, 10))
				emit(algo, lim, full, flipAt(full, 63))
				emit(algo, lim, full, flipAt(full, 64))
			}
		}
	}
	n := 150
	if thorough {
		n = 3000
	}
	for i := 0; i < n; i++ {
		algo := r.Pick("adler", "sha")
		lim := limits[r.Intn(len(limits))]
		if r.Intn(4) == 0 {
			lim = int64(r.Intn(260)) - 10
		}
		L := effOf(lim)
		p := randBytes(r, r.Intn(L+80))
		var q []byte
		switch r.Intn(5) {
		case 0:
			q = flipAt(p, r.Intn(len(p)+1))
		case 1:
			q = flipAt(p, L-2+r.Intn(4))
		case 2:
			q = p[:r.Intn(len(p)+1)]
		case 3:
			q = append(append([]byte{}, p...), randBytes(r, 1+r.Intn(8))...)
		default:
			q = randBytes(r, r.Intn(L+80))
		}
		emit(algo, lim, p, q)
	}
	// Adler-32 is not collision free: equal byte sum and equal weighted sum – a genuine collision of different prefixes
	emit("adler", 64, []byte{1, 0, 1}, []byte{0, 2, 0})
}

func genMetaKey(r *wh.Rng, out *wh.Out) {
	for _, field := range []string{"dk", "a", "", "missing"} {
		for i := 0; i < 8; i++ {
			md := randMeta(r)
			req := fmt.Sprintf("metakey %s %s", wh.HexS(field), wh.Meta(md))
			out.Case(req, runMetaKey(field, md))
			out.Count("metakey")
		}
	}
}

func genTimeout(out *wh.Out) {
	for _, via := range []string{"mw", "dec", "direct"} {
		for _, cfg := range []time.Duration{0, time.Millisecond, 4 * time.Millisecond, 5 * time.Millisecond, 50 * time.Millisecond, 3 * time.Second, time.Minute} {
			req, obs, err := runReq(fmt.Sprintf("timeout %s %d", via, int64(cfg)))
			if err != nil {
				panic(err)
			}
			out.Case(req, obs)
			out.Count("timeout." + via)
		}
	}
}

var windowsMs = []int{1, 2, 3, 5, 8, 13, 20, 30, 50}

func enumRepo(out *wh.Out, maxLen int) {
	keys := []string{wh.HexS("k0"), wh.HexS("k1"), "-"}
	var rec func(prefix []string)
	rec = func(prefix []string) {
		out.Case(strings.TrimSpace("repo "+strings.Join(prefix, " ")), runRepo(prefix))
		out.Count("repo.len" + wh.Itoa(len(prefix)))
		if len(prefix) == maxLen {
			return
		}
		for _, k := range keys {
			rec(append(append([]string{}, prefix...), k))
		}
	}
	rec(nil)
}

func generate(a wh.Args, out *wh.Out) {
	rng := wh.NewRng(mix(a.Seed ^ 0xC14C14)) // hashed: wh.NewRng(s) and wh.NewRng(s+1) are the same stream shifted by one
	thorough := a.Thorough()

	// expiry cases run in the background from the start: they only wait
	type expRes struct {
		via string
		ms  int
		obs string
		evs []hev
	}
	var expMu sync.Mutex
	var expAll []expRes
	var expWg sync.WaitGroup
	rounds := 1
	if thorough {
		rounds = 6
	}
	for round := 0; round < rounds; round++ {
		for _, ms := range windowsMs {
			for _, via := range []string{"repo", "mw", "dec"} {
				ms, via := ms, via
				expWg.Add(1)
				go func() {
					defer expWg.Done()
					obs, evs := runExpire(time.Duration(ms)*time.Millisecond, via)
					expMu.Lock()
					expAll = append(expAll, expRes{via, ms, obs, evs})
					expMu.Unlock()
				}()
			}
		}
	}

	// volume cases (many keys expiring together with a few probes) also mostly wait: background
	type volRes struct{ req, obs string }
	var volAll []volRes
	vols := []string{"volume repo 100 6000 20", "volume mw 400 8000 20", "volume dec 400 8000 20", "volume repo 200 20000 24"}
	if thorough {
		vols = append(vols, "volume repo 200 60000 30", "volume mw 600 30000 20", "volume dec 600 30000 20",
			"volume repo 20 5000 20", "volume repo 100 1500 10", "volume mw 300 6000 16", "volume dec 300 6000 16")
	}
	// arrivals right after the repository became empty (the clean-up must stay alive through idle phases)
	idles := []string{"idle repo 1 8 2500", "idle mw 1 4 2500", "idle dec 2 4 2500"}
	if thorough {
		idles = []string{"idle repo 1 8 12000", "idle mw 1 6 12000", "idle dec 1 6 12000", "idle repo 3 4 12000"}
	}
	vols = append(vols, idles...)
	for _, req := range vols {
		req := req
		expWg.Add(1)
		go func() {
			defer expWg.Done()
			req, obs, err := runReq(req)
			if err != nil {
				panic(err)
			}
			expMu.Lock()
			volAll = append(volAll, volRes{req, obs})
			expMu.Unlock()
		}()
	}

	maxLen, nSeq, nConc, nHist := 5, 500, 128, 45
	if thorough {
		maxLen, nSeq, nConc, nHist = 7, 8000, 1280, 540
	}
	enumRepo(out, maxLen)
	for i := 0; i < nSeq; i++ {
		genMw(rng, out)
		genDec(rng, out)
	}
	genHash(rng, out, thorough)
	genMetaKey(rng, out)
	genTimeout(out)
	if thorough {
		genCtx(rng, out, 1500, 400)
		genShare(rng, out, 1500, 400)
	} else {
		genCtx(rng, out, 120, 48)
		genShare(rng, out, 150, 48)
	}
	for i := 0; i < nConc; i++ {
		g := 1 + i%32
		genConc(rng, out, "mwc", g)
		genConc(rng, out, "decc", 1+(i*7)%32)
	}
	for _, nk := range []int{1, 3} {
		req := fmt.Sprintf("router %d %d", 12+rng.Intn(20), nk)
		_, obs, err := runReq(req)
		if err != nil {
			panic(err)
		}
		out.Case(req, obs)
		out.Count("router")
	}
	for i := 0; i < nHist; i++ {
		ms := windowsMs[i%len(windowsMs)]
		via := []string{"repo", "mw", "dec"}[(i/len(windowsMs))%3]
		g := 1 + rng.Intn(32)
		if i%3 == 0 {
			g = 2 + rng.Intn(4)
		}
		nkeys := 1 + rng.Intn(3)
		w := time.Duration(ms) * time.Millisecond
		evs := runHist(w, via, g, nkeys, 2.5+float64(rng.Intn(30))/10, rng.Intn(3), rng)
		out.Case(histReq(w, via, evs), "lin")
		out.Count("hist.via." + via)
		out.Count("hist.window_ms" + wh.Itoa(ms))
		out.Add("hist.events", len(evs))
		acc := 0
		for _, e := range evs {
			if e.res == 'a' {
				acc++
			}
		}
		out.Add("hist.accepted", acc)
	}
	expWg.Wait()
	// (run in the foreground once the background load is gone: the sharper the stamps, the sharper the window inequality)
	var stalls []string
	// presentations held up right in front of the repository lock for about a window, then a duplicate inside the window
	for i, wms := range []int{40, 60, 100} {
		for j, sp := range []int{60, 110, 250} {
			if !thorough && (i+j)%2 == 1 {
				continue
			}
			via := []string{"repo", "mw", "dec"}[(i+j)%3]
			stalls = append(stalls, fmt.Sprintf("stall %s %d %d %d", via, wms, sp, []int{65, 80}[(i+j)%2]))
		}
	}
	if thorough {
		for _, via := range []string{"repo", "mw", "dec"} {
			stalls = append(stalls, fmt.Sprintf("stall %s 30 150 70", via), fmt.Sprintf("stall %s 200 100 60", via), fmt.Sprintf("stall %s 80 0 80", via))
		}
	}
	for _, req := range stalls {
		req2, obs, err := runReq(req)
		if err != nil {
			panic(err)
		}
		out.Case(req2, obs)
		out.Count("stall." + strings.Fields(req)[1])
	}
	for _, e := range expAll {
		out.Case(fmt.Sprintf("expire %s %d", e.via, e.ms), e.obs)
		out.Count("expire." + e.via)
		out.Case(histReq(time.Duration(e.ms)*time.Millisecond, e.via, e.evs), "lin")
		out.Add("expire.polls", len(e.evs))
	}
	for _, v := range volAll {
		out.Case(v.req, v.obs)
		vf := strings.Fields(v.req)
		out.Count(vf[0] + "." + vf[1])
		if vf[0] == "volume" {
			n, _ := strconv.Atoi(vf[3])
			out.Add("volume.keys", n)
		}
	}
}
