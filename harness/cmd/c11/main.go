// Harness for C11: persistent GoChannel replays the whole topic to every subscription exactly once.
// All scenarios are persistent; Subscribe calls run concurrently with the publishers, with forced overlaps at the
// hook points between persisting, sending, replaying and registering.
package main

import (
	"fmt"

	"wmverif/gc"
	"wmverif/wh"
)

func main() {
	a := wh.ParseArgs()
	out := wh.NewOut(a.Out)
	defer out.Close()
	n := 200
	if a.Thorough() {
		n = 3000
	}
	rng := wh.NewRng(a.Seed)
	gc.EmitProd = true // registry + subscription streams together against the composition M_prod
	f := gc.Focus{Blocking: 200, Persistent: 1000, Cancel: 60, Hold: 0, Nested: 0, Late: 800, CloseRace: 0, MaxSubs: 4, MaxPubs: 3, MaxMsgs: 6}
	emit := func(sc gc.Scenario) bool {
		out.Begin(sc.Describe())
		res := gc.Run(sc)
		gc.Emit(out, res)
		out.Count(fmt.Sprintf("cfg.buf%d.block%v.park=%s/%s", sc.Buf, sc.Blocking, sc.ParkHook, sc.ParkOp))
		if gc.TooManyStuck() {
			out.Note("stopped generating: three scenarios ran into the liveness bound")
			return false
		}
		return true
	}
	// a backlog of well over a thousand messages, with one subscription arriving while the publisher is still running
	nbig := 2
	if a.Thorough() {
		nbig = 12
	}
	for i := 0; i < nbig; i++ {
		if !emit(gc.BigBacklog(rng.Next())) {
			return
		}
	}
	// messages sharing a UUID / without one; first publishes racing on fresh topics
	for i := 0; i < nbig; i++ {
		if !emit(gc.DupUUIDs(rng.Next())) {
			return
		}
	}
	// a Publish call without messages before the first subscription: the topic has a backlog entry, and it is empty
	for i := 0; i < 4; i++ {
		sc := gc.Scenario{Buf: i % 2, Persistent: true, Blocking: i >= 2, Seed: rng.Next(), Big: true, EmptyFirst: true,
			Subs: []gc.SubSpec{{Topic: 0, Phase: 0, CancelAtRecv: -1, NestedTopic: -1}, {Topic: 0, Phase: 2, CancelAtRecv: -1, NestedTopic: -1, NackFirst: 1, NackEvery: 2}},
			Pubs: []gc.PubSpec{{Topic: 0, Calls: 3, Batch: 2}}}
		if !emit(sc) {
			return
		}
	}
	nfresh := 120
	if a.Thorough() {
		nfresh = 600
	}
	if !emit(gc.FreshTopics(rng.Next(), nfresh)) {
		return
	}
	// forced overlaps: hold a Publish (or a Subscribe's replay) at each point of its critical path while the other operation runs
	for _, hook := range []string{"gochannel.publish.after_closed_check", "gochannel.publish.locked", "gochannel.publish.persisted", "gochannel.publish.sent",
		"gochannel.subscribe.after_closed_check", "gochannel.subscribe.locked", "gochannel.subscribe.replay", "gochannel.subscribe.replay_msg", "gochannel.subscribe.registered", "gochannel.dispatch.next"} {
		for _, op := range []string{"publish", "subscribe"} {
			for _, buf := range []int{0, 2} {
				after := 0
				if hook == "gochannel.subscribe.replay_msg" {
					after = 1 // the replay loop runs only when something was persisted before the Subscribe
				}
				sc := gc.Scenario{Buf: buf, Persistent: true, Seed: rng.Next(), ParkHook: hook, ParkOp: op,
					Subs: []gc.SubSpec{{Topic: 0, Phase: 0, CancelAtRecv: -1, NestedTopic: -1}, {Topic: 0, Phase: 1, CancelAtRecv: -1, NestedTopic: -1, NackFirst: 1, NackEvery: 2, AfterPubs: after}},
					Pubs: []gc.PubSpec{{Topic: 0, Calls: 2, Batch: 2}}}
				if !emit(sc) {
					return
				}
			}
		}
	}
	for i := 0; i < n; i++ {
		if !emit(gc.Random(rng, f)) {
			return
		}
	}
}
