// Harness for C03: drives message.Message Ack/Nack/Acked()/Nacked() of the real code.
//
//	REQ seq <kind> <ops>                     OBS <results>
//	REQ hist <kind> <op>:<call>:<ret>:<res>… OBS lin
//
// ops: a=Ack n=Nack A=read Acked() N=read Nacked(); results: t/f (bool), c/o/z (closed/open/nil channel), P panic.
package main

import (
	"fmt"
	"os"
	"os/exec"
	"runtime"
	"strings"
	"sync"
	"sync/atomic"
	"time"

	"github.com/ThreeDotsLabs/watermill/message"

	"wmverif/wh"
)

func build(kind string) *message.Message {
	switch kind {
	case "new":
		return message.NewMessage("u", []byte("p"))
	case "copy":
		m := message.NewMessage("u", []byte("p"))
		m.Metadata.Set("k", "v")
		m.Ack() // the original's settlement must not leak into the copy
		lastOrig = m
		return m.Copy()
	case "zero":
		return &message.Message{}
	}
	panic("kind")
}

// lastOrig: the (acked) message the current `copy` message was copied from
var lastOrig *message.Message

func chanState(c <-chan struct{}) byte {
	if c == nil {
		return 'z'
	}
	select {
	case <-c:
		return 'c'
	default:
		return 'o'
	}
}

// apply runs one call under a watchdog: a call that does not return within the bound is reported as 'B' (blocked).
func apply(m *message.Message, op byte) byte {
	done := make(chan byte, 1)
	go func() { done <- applyRaw(m, op) }()
	select {
	case r := <-done:
		return r
	case <-time.After(blockBound):
		return 'B'
	}
}

const blockBound = 3 * time.Second

var blockedSeen int

func applyRaw(m *message.Message, op byte) (res byte) {
	defer func() {
		if r := recover(); r != nil {
			res = 'P'
		}
	}()
	switch op {
	case 'O': // the original of a copy: still acked …
		return chanState(lastOrig.Acked())
	case 'Q': // … and not nacked, whatever was done to the copy
		return chanState(lastOrig.Nacked())
	case 'c':
		// not one of the four calls the property is about: a caller passes a nil context (and survives whatever that does);
		// the settlement calls around it must behave as if it had not happened
		m.SetContext(nil) //nolint
		return 'x'
	case 'a':
		if m.Ack() {
			return 't'
		}
		return 'f'
	case 'n':
		if m.Nack() {
			return 't'
		}
		return 'f'
	case 'A':
		return chanState(m.Acked())
	case 'N':
		return chanState(m.Nacked())
	}
	panic("op")
}

func runSeq(kind, ops string) string {
	m := build(kind)
	var sb strings.Builder
	for i := 0; i < len(ops); i++ {
		r := apply(m, ops[i])
		if ops[i] == 'c' && r != 'B' {
			continue // no result of its own
		}
		sb.WriteByte(r)
		if r == 'B' {
			blockedSeen++
			break // the message is wedged: later calls would only wait for the bound again
		}
	}
	return sb.String()
}

var kinds = []string{"new", "copy", "zero"}

const alphabet = "anAN"

func enumSeq(out *wh.Out, maxLen int) {
	for _, k := range kinds {
		var rec func(prefix []byte)
		rec = func(prefix []byte) {
			obs := runSeq(k, string(prefix))
			out.Case("seq "+k+" "+dash(string(prefix)), dash(obs))
			out.Count("seq.len" + wh.Itoa(len(prefix)))
			if len(prefix) == maxLen || strings.Contains(obs, "B") || blockedSeen >= 3 {
				return // extensions of a blocking prefix block as well
			}
			for i := 0; i < len(alphabet); i++ {
				rec(append(append([]byte{}, prefix...), alphabet[i]))
			}
		}
		rec(nil)
	}
}

func dash(s string) string {
	if s == "" {
		return "-"
	}
	return s
}

type ev struct {
	op        byte
	call, ret int64
	res       byte
}

// concurrent history: g goroutines each issuing a short op script on one message.
// A spin barrier before every round makes the calls of one round really overlap.
func runHist(kind string, scripts []string, yield bool, rng *wh.Rng) []ev {
	m := build(kind)
	var clock int64
	var mu sync.Mutex
	var evs []ev
	var wg sync.WaitGroup
	rounds := 0
	for _, sc := range scripts {
		if len(sc) > rounds {
			rounds = len(sc)
		}
	}
	g := int32(len(scripts))
	var arrived int32
	for _, sc := range scripts {
		sc := sc
		r := rng.Fork()
		wg.Add(1)
		go func() {
			defer wg.Done()
			local := make([]ev, 0, len(sc))
			for i := 0; i < rounds; i++ {
				atomic.AddInt32(&arrived, 1)
				for spins := 0; atomic.LoadInt32(&arrived) < g*int32(i+1); spins++ {
					if spins > 200 {
						runtime.Gosched()
					}
				}
				if i >= len(sc) {
					continue
				}
				if yield && r.Intn(4) == 0 {
					runtime.Gosched()
				}
				c := atomic.AddInt64(&clock, 1)
				res := apply(m, sc[i])
				rt := atomic.AddInt64(&clock, 1)
				local = append(local, ev{sc[i], c, rt, res})
			}
			mu.Lock()
			evs = append(evs, local...)
			mu.Unlock()
		}()
	}
	wg.Wait()
	return evs
}

// parked winner: the call that decides the message is held at the hook point between writing the state and closing the
// channel (inside the critical section of the unchanged code) while a second goroutine runs a script against the same
// message; calls of the script that have to wait for the mutex are given 20 ms, then the winner is released.
// The history (with the winner's call spanning the script) must be linearizable like any other.
func runParked(kind string, first byte, script string, at string) ([]ev, bool) {
	m := build(kind)
	var clock int64
	arrived := make(chan struct{}, 1)
	release := make(chan struct{})
	var once sync.Once
	var parkedG int64
	message.SetVerifHook(func(name string, args ...string) {
		if (name == "message.ack."+at || name == "message.nack."+at) && atomic.CompareAndSwapInt64(&parkedG, 0, 1) {
			arrived <- struct{}{}
			<-release
		}
	})
	defer message.SetVerifHook(nil)
	rel := func() { once.Do(func() { close(release) }) }
	var evs []ev
	aDone := make(chan ev, 1)
	go func() {
		c := atomic.AddInt64(&clock, 1)
		res := applyRaw(m, first)
		rt := atomic.AddInt64(&clock, 1)
		aDone <- ev{first, c, rt, res}
	}()
	parked := false
	select {
	case <-arrived:
		parked = true
	case e := <-aDone: // no hook point in this tree (or the call lost): plain sequential history
		aDone <- e
	case <-time.After(time.Second):
	}
	for i := 0; i < len(script); i++ {
		op := script[i]
		c := atomic.AddInt64(&clock, 1)
		done := make(chan byte, 1)
		go func() { done <- applyRaw(m, op) }()
		var res byte
		select {
		case res = <-done:
		case <-time.After(20 * time.Millisecond):
			rel() // the call waits for the mutex the parked winner holds: let the winner finish
			select {
			case res = <-done:
			case <-time.After(blockBound):
				res = 'B'
				blockedSeen++
			}
		}
		rt := atomic.AddInt64(&clock, 1)
		evs = append(evs, ev{op, c, rt, res})
		if res == 'B' {
			break
		}
	}
	rel()
	select {
	case e := <-aDone:
		evs = append(evs, e)
	case <-time.After(blockBound):
		evs = append(evs, ev{first, 0, atomic.AddInt64(&clock, 1), 'B'})
		blockedSeen++
	}
	return evs, parked
}

func overlaps(evs []ev) int {
	n := 0
	for i := range evs {
		for j := i + 1; j < len(evs); j++ {
			if evs[i].call < evs[j].ret && evs[j].call < evs[i].ret {
				n++
			}
		}
	}
	return n
}

func histReq(kind string, evs []ev) string {
	parts := make([]string, len(evs))
	for i, e := range evs {
		parts[i] = fmt.Sprintf("%c:%d:%d:%c", e.op, e.call, e.ret, e.res)
	}
	return "hist " + kind + " " + strings.Join(parts, " ")
}

// childFirstUse runs in a fresh process (package-level state of `message` untouched): 8 goroutines settle 8 different
// zero-value messages; all are held at the hook point just before the channel is installed/closed and released together, then
// each reads the channel its own call must have closed. One line "<ops> <results>" per message on stdout.
func childFirstUse() {
	const g = 8
	var arrived int32
	gate := make(chan struct{})
	message.SetVerifHook(func(name string, args ...string) {
		if name == "message.ack.closing" || name == "message.nack.closing" {
			if atomic.AddInt32(&arrived, 1) == g {
				close(gate)
			}
			select {
			case <-gate:
			case <-time.After(300 * time.Millisecond):
			}
		}
	})
	res := make([]string, g)
	var wg sync.WaitGroup
	for i := 0; i < g; i++ {
		wg.Add(1)
		go func(i int) {
			defer wg.Done()
			m := &message.Message{}
			ops := "aA"
			if i%2 == 1 {
				ops = "nN"
			}
			r1 := applyRaw(m, ops[0])
			r2 := applyRaw(m, ops[1])
			res[i] = ops + " " + string([]byte{r1, r2})
		}(i)
	}
	wg.Wait()
	for _, l := range res {
		fmt.Println(l)
	}
}

// firstUse starts n fresh processes of this binary in child mode and reports every message of every child as a case
// `first zero <ops>`: the very first settlements of a process, on different messages, at the same moment.
func firstUse(out *wh.Out, n int) {
	exe, err := os.Executable()
	if err != nil {
		out.Note("first-use scenarios skipped: " + err.Error())
		return
	}
	for i := 0; i < n; i++ {
		cmd := exec.Command(exe)
		cmd.Env = append(os.Environ(), "WMVERIF_C03_CHILD=first")
		cmd.Stderr = os.Stderr
		b, err := cmd.Output()
		lines := strings.Split(strings.TrimSpace(string(b)), "\n")
		if err != nil && len(b) == 0 {
			// the child died before it could report (an unrecovered crash): that is an observation too
			out.Case("first zero aA", "P")
			out.Count("first_use.child_crashed")
			continue
		}
		for _, l := range lines {
			f := strings.Fields(l)
			if len(f) == 2 {
				out.Case("first zero "+f[0], f[1])
				out.Count("first_use.messages")
			}
		}
	}
}

func main() {
	if os.Getenv("WMVERIF_C03_CHILD") == "first" {
		childFirstUse()
		return
	}
	a := wh.ParseArgs()
	out := wh.NewOut(a.Out)
	defer out.Close()
	if a.Replay != "" {
		f := strings.Fields(a.Replay)
		if len(f) >= 3 && f[0] == "seq" {
			ops := f[2]
			if ops == "-" {
				ops = ""
			}
			out.Case(a.Replay, dash(runSeq(f[1], ops)))
			return
		}
		if len(f) >= 3 && f[0] == "first" {
			// re-run fresh processes; report a deviating observation if one shows up again, else the regular one
			tmp := wh.NewOut(a.Out + ".first")
			firstUse(tmp, 40)
			tmp.Close()
			b, _ := os.ReadFile(a.Out + ".first")
			os.Remove(a.Out + ".first")
			obs := "tc"
			for _, l := range strings.Split(string(b), "\n") {
				if strings.HasPrefix(l, "OBS ") && strings.TrimSpace(l[4:]) != "tc" {
					obs = strings.TrimSpace(l[4:])
					break
				}
			}
			out.Case(a.Replay, obs)
			return
		}
		fmt.Fprintln(os.Stderr, "only seq requests can be replayed deterministically; hist requests carry their own observation")
		out.Case(a.Replay, "lin")
		return
	}
	maxLen := 6
	nHist := 400
	if a.Thorough() {
		maxLen = 8
		nHist = 6000
	}
	enumSeq(out, maxLen)
	// the four calls with a SetContext(nil) somewhere in between (the caller recovers if that panics)
	for _, k := range kinds {
		var rec func(prefix string)
		rec = func(prefix string) {
			if len(prefix) > 0 {
				for pos := 0; pos <= len(prefix); pos++ {
					ops := prefix[:pos] + "c" + prefix[pos:]
					out.Case("seq "+k+" "+ops, dash(runSeq(k, ops)))
					out.Count("seq.with_setcontext_nil")
				}
			}
			if len(prefix) == 3 || blockedSeen >= 3 {
				return
			}
			for i := 0; i < len(alphabet); i++ {
				rec(prefix + string(alphabet[i]))
			}
		}
		rec("")
	}
	// a copy of a settled message is a message of its own: settling it must not show on the original (O, Q read the original)
	{
		var rec func(prefix string)
		rec = func(prefix string) {
			if len(prefix) > 0 {
				out.Case("seq copy "+prefix+"OQ", dash(runSeq("copy", prefix+"OQ")))
				out.Count("seq.copy_then_original")
			}
			if len(prefix) == 3 {
				return
			}
			for i := 0; i < len(alphabet); i++ {
				rec(prefix + string(alphabet[i]))
			}
		}
		rec("")
	}
	// long histories: hundreds of calls on one message (counters in the implementation must not wrap around)
	for _, k := range kinds {
		for _, ops := range []string{
			strings.Repeat("a", 255) + "nAN", strings.Repeat("a", 256) + "AN", strings.Repeat("a", 257) + "nAN",
			strings.Repeat("n", 255) + "aAN", strings.Repeat("n", 256) + "AN", strings.Repeat("an", 130) + "AN",
			"n" + strings.Repeat("a", 255) + "AN", strings.Repeat("aA", 300) + "nN", strings.Repeat("a", 65536) + "nAN",
		} {
			out.Case("seq "+k+" "+ops, dash(runSeq(k, ops)))
			out.Count("seq.long")
		}
	}
	nChild := 40
	if a.Thorough() {
		nChild = 400
	}
	firstUse(out, nChild)
	rng := wh.NewRng(a.Seed)
	// parked winner x every script of length <= 3 (4 in the thorough tier) of the second goroutine
	parkLen := 3
	if a.Thorough() {
		parkLen = 4
	}
	for _, kind := range kinds {
		alpha := alphabet
		if kind == "zero" {
			alpha = "an" // see below: reads on zero values race by design
		}
		var scripts []string
		var gen func(prefix string)
		gen = func(prefix string) {
			if len(prefix) > 0 {
				scripts = append(scripts, prefix)
			}
			if len(prefix) == parkLen {
				return
			}
			for i := 0; i < len(alpha); i++ {
				gen(prefix + string(alpha[i]))
			}
		}
		gen("")
		for _, at := range []string{"decided", "closing"} {
			for _, first := range []byte{'a', 'n'} {
				for _, sc := range scripts {
					if blockedSeen > 0 {
						break
					}
					evs, parked := runParked(kind, first, sc, at)
					out.Case(histReq(kind, evs), "lin")
					if parked {
						out.Count("parked." + at + ".kind." + kind)
					} else {
						out.Count("parked.nohook")
					}
				}
			}
		}
	}
	// first-call races: 2..4 goroutines whose very first call on a fresh message (all three kinds, mostly zero values,
	// whose lock and channels are not set up by a constructor) is an Ack or a Nack, released together
	nFirst := 1500
	if a.Thorough() {
		nFirst = 20000
	}
	for i := 0; i < nFirst && blockedSeen == 0; i++ {
		kind := "zero"
		if i%5 == 4 {
			kind = kinds[rng.Intn(2)]
		}
		g := 2 + rng.Intn(3)
		scripts := make([]string, g)
		for j := range scripts {
			scripts[j] = string("an"[rng.Intn(2)])
		}
		evs := runHist(kind, scripts, i%3 == 0, rng)
		out.Case(histReq(kind, evs), "lin")
		out.Count("first.kind." + kind)
	}
	for i := 0; i < nHist && blockedSeen == 0; i++ {
		kind := kinds[rng.Intn(3)]
		g := 2 + rng.Intn(15)
		if i%4 == 0 {
			g = 2 + rng.Intn(3)
		}
		alpha := alphabet
		if kind == "zero" {
			// Acked()/Nacked() on a zero-value message read the field Ack writes without the mutex
			// (documented limit); concurrent histories on zero values use Ack/Nack only.
			alpha = "an"
		}
		scripts := make([]string, g)
		for j := range scripts {
			n := 1 + rng.Intn(4)
			b := make([]byte, n)
			for x := range b {
				b[x] = alpha[rng.Intn(len(alpha))]
			}
			scripts[j] = string(b)
		}
		evs := runHist(kind, scripts, true, rng)
		out.Case(histReq(kind, evs), "lin")
		out.Add("hist.overlapping_pairs", overlaps(evs))
		out.Add("hist.calls", len(evs))
		out.Count("hist.goroutines" + wh.Itoa(g))
		out.Count("hist.kind." + kind)
	}
}
