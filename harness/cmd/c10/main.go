// Harness for C10: Router lifecycle. Lifecycle programs over {AddHandler, Run, RunHandlers xN, wait Started, Stop,
// cancel Run ctx, Close} with 1..5 handlers (scripted subscribers whose Subscribe calls are counted, and GoChannel),
// handlers added before and after Run, Stop right after Started() (RunHandlers parked at runhandlers.started), a
// router started empty with the self-close watcher parked before its select, publishing the instant Running() closes.
package main

import (
	"strings"

	"wmverif/rl"
	"wmverif/wh"
)

func main() {
	a := wh.ParseArgs()
	out := wh.NewOut(a.Out)
	defer out.Close()
	if a.Replay != "" {
		f := strings.Fields(a.Replay)
		if len(f) >= 2 && f[0] == "trace" {
			if sc, err := rl.Decode(f[1]); err == nil {
				rl.Emit(out, rl.Run(sc))
				return
			}
		}
		out.Case(a.Replay, "bad-replay")
		return
	}
	rng := wh.NewRng(a.Seed)
	emit := func(sc rl.Scenario) bool {
		rl.Emit(out, rl.RunMaybeIsolated(sc))
		if rl.TooManyStuck() {
			out.Note("stopped generating: three scenarios ran into the liveness bound")
			return false
		}
		return true
	}
	for _, sc := range rl.Lifecycle(rng, a.Thorough()) {
		if !emit(sc) {
			return
		}
	}
	n := 100
	if a.Thorough() {
		n = 1500
	}
	for i := 0; i < n; i++ {
		if !emit(rl.RandomLife(rng)) {
			return
		}
	}
}
