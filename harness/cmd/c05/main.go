// Harness for C05: one unsettled message per subscription; blocking publish waits for the acks.
// Runs seeded scenarios on the real GoChannel (harness/gc) and emits
//
//	REQ sub <cap> <tok>*        OBS ok     (per-subscription stream; model: conformance with M_sub; monitor: at most one unsettled copy)
//	REQ top <cfg> <ev>*         OBS ok     (topic-level trace; monitor: blocking Publish returns only after the acks, per-publisher order)
package main

import (
	"fmt"
	"wmverif/gc"
	"wmverif/wh"
)

func main() {
	a := wh.ParseArgs()
	out := wh.NewOut(a.Out)
	defer out.Close()
	n := 250
	if a.Thorough() {
		n = 4000
	}
	rng := wh.NewRng(a.Seed)
	gc.EmitProd = true // also check registry + subscription streams together against the composition M_prod
	// first: a receive loop publishing to many other topics before it acks (blocking mode)
	{
		sc := gc.NestedFan(rng.Next(), 96)
		out.Begin(sc.Describe())
		gc.Emit(out, gc.Run(sc))
	}
	// a Subscribe whose context is already cancelled (the cancel won the race): whatever it answers, the Pub/Sub must go on
	// serving the other subscriptions, later Subscribe calls and Close
	for i := 0; i < 6; i++ {
		sc := gc.Scenario{Buf: i % 2, Persistent: i%3 == 1, Blocking: i < 4, Seed: rng.Next(), LateOps: true,
			Subs: []gc.SubSpec{
				{Topic: 0, Phase: 0, CancelAtRecv: -1, NestedTopic: -1},
				{Topic: 0, Phase: i % 2, CancelAtRecv: -1, NestedTopic: -1, PreCancel: true},
				{Topic: 0, Phase: 2, CancelAtRecv: -1, NestedTopic: -1}},
			Pubs: []gc.PubSpec{{Topic: 0, Calls: 3, Batch: 1}}}
		out.Begin(sc.Describe())
		gc.Emit(out, gc.Run(sc))
		out.Count("subscribe_with_cancelled_context")
	}
	// persistent + blocking: a subscription that arrives after the messages and whose receive loop publishes (to another topic) before
	// it acks what was replayed to it
	for i := 0; i < 2; i++ {
		sc := gc.Scenario{Buf: i, Persistent: true, Blocking: true, Seed: rng.Next(),
			Subs: []gc.SubSpec{{Topic: 0, Phase: 2, CancelAtRecv: -1, NestedTopic: 1}},
			Pubs: []gc.PubSpec{{Topic: 0, Calls: 2, Batch: 1}}}
		out.Begin(sc.Describe())
		gc.Emit(out, gc.Run(sc))
		out.Count("replay_with_nested_publish")
	}
	// a consumer that keeps one message unsettled for several seconds (nothing may be handed out meanwhile, however long it takes)
	{
		sc := gc.Scenario{Buf: 1, Seed: rng.Next(),
			Subs: []gc.SubSpec{{Topic: 0, Phase: 0, CancelAtRecv: -1, NestedTopic: -1, SlowUs: 5300000}},
			Pubs: []gc.PubSpec{{Topic: 0, Calls: 2, Batch: 1}}}
		if a.Thorough() {
			sc.Subs[0].SlowUs = 11000000
		}
		out.Begin(sc.Describe())
		gc.Emit(out, gc.Run(sc))
		out.Count("slow_consumer_seconds")
	}
	f := gc.Focus{Blocking: 500, Persistent: 300, Cancel: 250, Hold: 80, Nested: 150, Late: 300, CloseRace: 100, MaxSubs: 3, MaxPubs: 3, MaxMsgs: 4}
	for i := 0; i < n; i++ {
		sc := gc.Random(rng, f)
		out.Begin(sc.Describe())
		res := gc.Run(sc)
		gc.Emit(out, res)
		out.Count(fmt.Sprintf("cfg.buf%d.persist%v.block%v", sc.Buf, sc.Persistent, sc.Blocking))
		if gc.TooManyStuck() {
			out.Note("stopped generating: three scenarios ran into the liveness bound")
			break
		}
	}
	// last (it leaves blocked goroutines behind): the deterministic reproduction of known finding D11
	gc.Emit(out, gc.Run(gc.D11()))
}
