// Harness for C09: middleware nesting order and decorator order of the real message.Router.
//
//	REQ chain <op>*        OBS <block per RUN>
//
// op tokens (see lean/Driver/C09.lean):  R<ids> router.AddMiddleware · H<h>:<ids> handler.AddMiddleware ·
// A<h>p / A<h>n AddHandler / AddNoPublisherHandler · P<ids> AddPublisherDecorators · S<ids> AddSubscriberDecorators ·
// RUN = Run (first) / RunHandlers (later) followed by ONE message through every started handler, one at a time.
// Every middleware / decorator is a recorder that appends to one log; the log between "message handed to the
// handler's subscriber" and "message acked" is that handler's trace:
//
//	s<i>c|s<i>n subscriber decorator i saw the message (handler context present / absent) · e<i> / l<i> middleware i
//	entered / left · h handler function · p<i> publisher decorator i saw the produced message · P real publisher got it
package main

import (
	"context"
	"encoding/hex"
	"flag"
	"fmt"
	"os"
	"strconv"
	"strings"
	"sync"
	"time"

	"github.com/ThreeDotsLabs/watermill"
	"github.com/ThreeDotsLabs/watermill/message"

	"wmverif/wh"
)

const settleTimeout = 20 * time.Second

type evlog struct {
	mu  sync.Mutex
	evs []string
}

func (l *evlog) add(s string) {
	l.mu.Lock()
	l.evs = append(l.evs, s)
	l.mu.Unlock()
}

func (l *evlog) take() []string {
	l.mu.Lock()
	defer l.mu.Unlock()
	r := l.evs
	l.evs = nil
	return r
}

// scriptSub is a subscriber whose single feed channel the harness writes to.
type scriptSub struct {
	in      chan *message.Message
	closing chan struct{}
	once    sync.Once
}

func newScriptSub() *scriptSub {
	return &scriptSub{in: make(chan *message.Message), closing: make(chan struct{})}
}

func (s *scriptSub) Subscribe(ctx context.Context, topic string) (<-chan *message.Message, error) {
	out := make(chan *message.Message)
	go func() {
		defer close(out)
		for {
			select {
			case m := <-s.in:
				select {
				case out <- m:
				case <-ctx.Done():
					return
				case <-s.closing:
					return
				}
			case <-ctx.Done():
				return
			case <-s.closing:
				return
			}
		}
	}()
	return out, nil
}

func (s *scriptSub) Close() error {
	s.once.Do(func() { close(s.closing) })
	return nil
}

type recPub struct{ l *evlog }

func (p *recPub) Publish(topic string, msgs ...*message.Message) error {
	for range msgs {
		p.l.add("P")
	}
	return nil
}
func (p *recPub) Close() error { return nil }

func recMw(l *evlog, id int) message.HandlerMiddleware {
	return func(h message.HandlerFunc) message.HandlerFunc {
		return func(msg *message.Message) ([]*message.Message, error) {
			l.add("e" + strconv.Itoa(id))
			out, err := h(msg)
			l.add("l" + strconv.Itoa(id))
			return out, err
		}
	}
}

// hand-written publisher decorator (odd ids); even ids use watermill's MessageTransformPublisherDecorator
type wrapPub struct {
	inner message.Publisher
	f     func(*message.Message)
}

func (w *wrapPub) Publish(topic string, msgs ...*message.Message) error {
	for _, m := range msgs {
		w.f(m)
	}
	return w.inner.Publish(topic, msgs...)
}
func (w *wrapPub) Close() error { return w.inner.Close() }

func recPubDec(l *evlog, id int) message.PublisherDecorator {
	f := func(*message.Message) { l.add("p" + strconv.Itoa(id)) }
	if id%2 == 0 {
		return message.MessageTransformPublisherDecorator(f)
	}
	return func(p message.Publisher) (message.Publisher, error) { return &wrapPub{p, f}, nil }
}

// hand-written subscriber decorator (odd ids); even ids use watermill's MessageTransformSubscriberDecorator
type wrapSub struct {
	inner message.Subscriber
	f     func(*message.Message)
}

func (w *wrapSub) Subscribe(ctx context.Context, topic string) (<-chan *message.Message, error) {
	in, err := w.inner.Subscribe(ctx, topic)
	if err != nil {
		return nil, err
	}
	out := make(chan *message.Message)
	go func() {
		defer close(out)
		for m := range in {
			w.f(m)
			select {
			case out <- m:
			case <-ctx.Done():
			}
		}
	}()
	return out, nil
}
func (w *wrapSub) Close() error { return w.inner.Close() }

func recSubDec(l *evlog, id int) message.SubscriberDecorator {
	f := func(m *message.Message) {
		c := "n"
		if message.SubscribeTopicFromCtx(m.Context()) != "" { // the subscribe topic is never empty here; the handler name may be
			c = "c"
		}
		l.add("s" + strconv.Itoa(id) + c)
	}
	if id%2 == 0 {
		return message.MessageTransformSubscriberDecorator(f)
	}
	return func(s message.Subscriber) (message.Subscriber, error) { return &wrapSub{s, f}, nil }
}

type hstate struct {
	idx    int
	name   string
	hasPub bool
	sub    *scriptSub
	h      *message.Handler
}

func ids(s string) ([]int, bool) {
	var out []int
	for _, p := range strings.Split(s, ",") {
		n, err := strconv.Atoi(p)
		if err != nil || n < 0 {
			return nil, false
		}
		out = append(out, n)
	}
	return out, true
}

// runCase executes one registration program against a fresh Router.
func runCase(req string) (obs string) {
	toks := strings.Fields(req)
	if len(toks) == 0 || toks[0] != "chain" {
		return "bad-op"
	}
	toks = toks[1:]
	l := &evlog{}
	r, err := message.NewRouter(message.RouterConfig{CloseTimeout: 5 * time.Second}, watermill.NopLogger{})
	if err != nil {
		return "bad-op"
	}
	ctx, cancel := context.WithCancel(context.Background())
	defer cancel()
	var hs []*hstate
	find := func(i int) *hstate {
		for _, h := range hs {
			if h.idx == i {
				return h
			}
		}
		return nil
	}
	running := false
	runRet := make(chan error, 1)
	var blocks []string
	msgN := 0
	defer func() {
		if rec := recover(); rec != nil {
			obs = wh.PanicText(rec)
		}
		if running {
			done := make(chan struct{})
			go func() { r.Close(); close(done) }()
			select {
			case <-done:
				select {
				case <-runRet:
				case <-time.After(settleTimeout):
				}
			case <-time.After(settleTimeout):
			}
		}
	}()
	for _, t := range toks {
		switch {
		case t == "RUN":
			if !running {
				running = true
				go func() { runRet <- r.Run(ctx) }()
				select {
				case <-r.Running():
				case e := <-runRet:
					return "run-returned(" + fmt.Sprint(e) + ")"
				case <-time.After(settleTimeout):
					return "timeout-running"
				}
			} else if err := r.RunHandlers(ctx); err != nil {
				return "runhandlers-error"
			}
			var entries []string
			for _, h := range hs {
				select {
				case <-h.h.Started():
				case <-time.After(settleTimeout):
					return "timeout-started"
				}
				msgN++
				m := message.NewMessage("m"+strconv.Itoa(msgN), []byte("x"))
				l.take()
				select {
				case h.sub.in <- m:
				case <-time.After(settleTimeout):
					return "timeout-send"
				}
				tr := ""
				select {
				case <-m.Acked():
					tr = strings.Join(l.take(), ".")
				case <-m.Nacked():
					tr = "NACK." + strings.Join(l.take(), ".")
				case <-time.After(settleTimeout):
					return "timeout-settle"
				}
				entries = append(entries, "h"+strconv.Itoa(h.idx)+"="+tr)
			}
			if len(entries) == 0 {
				blocks = append(blocks, "-")
			} else {
				blocks = append(blocks, strings.Join(entries, ";"))
			}
		case strings.HasPrefix(t, "R"):
			is, ok := ids(t[1:])
			if !ok {
				return "bad-op"
			}
			mws := make([]message.HandlerMiddleware, len(is))
			for k, i := range is {
				mws[k] = recMw(l, i)
			}
			r.AddMiddleware(mws...)
		case strings.HasPrefix(t, "H"):
			p := strings.SplitN(t[1:], ":", 2)
			if len(p) != 2 {
				return "bad-op"
			}
			hi, err := strconv.Atoi(p[0])
			is, ok := ids(p[1])
			if err != nil || !ok || find(hi) == nil {
				return "bad-op"
			}
			mws := make([]message.HandlerMiddleware, len(is))
			for k, i := range is {
				mws[k] = recMw(l, i)
			}
			find(hi).h.AddMiddleware(mws...)
		case strings.HasPrefix(t, "A") && len(t) >= 3:
			spec, nameTok, named := strings.Cut(t, "=")
			if len(spec) < 3 {
				return "bad-op"
			}
			hi, err := strconv.Atoi(spec[1 : len(spec)-1])
			kind := spec[len(spec)-1]
			if err != nil || (kind != 'p' && kind != 'n') || find(hi) != nil {
				return "bad-op"
			}
			name := "h" + strconv.Itoa(hi)
			if named { // explicit handler name: hex of its bytes, "-" = the empty name
				name = ""
				if nameTok != "-" {
					b, err := hex.DecodeString(nameTok)
					if err != nil || len(b) == 0 || strings.ToLower(nameTok) != nameTok {
						return "bad-op"
					}
					name = string(b)
				}
			}
			for _, o := range hs {
				if o.name == name {
					return "bad-op" // AddHandler panics on a duplicate name; not what this harness is about
				}
			}
			h := &hstate{idx: hi, name: name, hasPub: kind == 'p', sub: newScriptSub()}
			if h.hasPub {
				h.h = r.AddHandler(name, "in-"+name, h.sub, "out-"+name, &recPub{l}, func(msg *message.Message) ([]*message.Message, error) {
					l.add("h")
					return []*message.Message{message.NewMessage("o-"+msg.UUID, []byte("y"))}, nil
				})
			} else {
				h.h = r.AddNoPublisherHandler(name, "in-"+name, h.sub, func(msg *message.Message) error {
					l.add("h")
					return nil
				})
			}
			hs = append(hs, h)
		case strings.HasPrefix(t, "P"):
			is, ok := ids(t[1:])
			if !ok {
				return "bad-op"
			}
			ds := make([]message.PublisherDecorator, len(is))
			for k, i := range is {
				ds[k] = recPubDec(l, i)
			}
			r.AddPublisherDecorators(ds...)
		case strings.HasPrefix(t, "S"):
			is, ok := ids(t[1:])
			if !ok {
				return "bad-op"
			}
			ds := make([]message.SubscriberDecorator, len(is))
			for k, i := range is {
				ds[k] = recSubDec(l, i)
			}
			r.AddSubscriberDecorators(ds...)
		default:
			return "bad-op"
		}
	}
	if len(blocks) == 0 {
		return "none"
	}
	return strings.Join(blocks, " ")
}

func idList(next *int, n int) string {
	parts := make([]string, n)
	for i := range parts {
		*next++
		parts[i] = strconv.Itoa(*next)
	}
	return strings.Join(parts, ",")
}

// exhaustive: every sequence over {router-level, handler 0, handler 1} up to maxLen, with each AddHandler either at
// the very beginning or as late as possible (right before the handler's first middleware / before RUN).
func enumSeqs(maxLen int, names [2]string, tag string, emit func(req string, tag string)) {
	addTok := func(h, variant int) string { return "A" + strconv.Itoa(h) + pubKind(h, variant) + names[h] }
	var rec func(prefix []byte)
	rec = func(prefix []byte) {
		for variant := 0; variant < 4; variant++ {
			early := [2]bool{variant&1 == 0, variant&2 == 0}
			added := [2]bool{}
			var toks []string
			for h := 0; h < 2; h++ {
				if early[h] {
					toks = append(toks, addTok(h, variant))
					added[h] = true
				}
			}
			for i, c := range prefix {
				id := strconv.Itoa(i + 1)
				switch c {
				case 'R':
					toks = append(toks, "R"+id)
				case 'a', 'b':
					h := int(c - 'a')
					if !added[h] {
						toks = append(toks, addTok(h, variant))
						added[h] = true
					}
					toks = append(toks, "H"+strconv.Itoa(h)+":"+id)
				}
			}
			for h := 0; h < 2; h++ {
				if !added[h] {
					toks = append(toks, addTok(h, variant))
				}
			}
			toks = append(toks, "RUN")
			emit("chain "+strings.Join(toks, " "), tag+".len"+strconv.Itoa(len(prefix)))
		}
		if len(prefix) == maxLen {
			return
		}
		for _, c := range []byte("Rab") {
			rec(append(append([]byte{}, prefix...), c))
		}
	}
	rec(nil)
}

func pubKind(h, variant int) string {
	if (h+variant)%2 == 0 {
		return "p"
	}
	return "n"
}

// all decorator list lengths 0..maxDec x 0..maxDec, one publishing and one no-publisher handler, one middleware each level
func enumDecs(maxDec int, emit func(req string, tag string)) {
	for np := 0; np <= maxDec; np++ {
		for ns := 0; ns <= maxDec; ns++ {
			for split := 0; split < 2; split++ {
				next := 100
				var toks []string
				toks = append(toks, "A0p", "A1n", "R1", "H0:2", "H1:3")
				add := func(prefix string, n int) {
					if n == 0 {
						return
					}
					if split == 0 || n == 1 {
						toks = append(toks, prefix+idList(&next, n)) // one variadic call
					} else {
						for i := 0; i < n; i++ { // one call per decorator
							toks = append(toks, prefix+idList(&next, 1))
						}
					}
				}
				add("P", np)
				add("S", ns)
				toks = append(toks, "RUN")
				emit("chain "+strings.Join(toks, " "), "decs")
			}
		}
	}
}

// random programs: up to 4 handlers, up to maxLen registrations, variadic calls, decorators, up to 3 RUN phases
// (handlers added after Run and started by RunHandlers; registrations after a handler started).
func randomProg(rng *wh.Rng, maxLen int) string {
	next := 0
	nH := 1 + rng.Intn(4)
	phases := 1 + rng.Intn(3)
	var toks []string
	added := map[int]bool{}
	usedNames := map[string]bool{}
	nUnusual := 0
	_ = nUnusual
	var addedList []int
	nDecP, nDecS := 0, 0
	for ph := 0; ph < phases; ph++ {
		n := rng.Intn(maxLen/phases + 2)
		for i := 0; i < n; i++ {
			k := rng.Intn(10)
			switch {
			case k < 3:
				toks = append(toks, "R"+idList(&next, 1+rng.Intn(3)/2))
			case k < 6 && len(addedList) > 0:
				h := addedList[rng.Intn(len(addedList))]
				toks = append(toks, "H"+strconv.Itoa(h)+":"+idList(&next, 1+rng.Intn(3)/2))
			case k < 8 && len(addedList) < nH:
				h := rng.Intn(nH)
				for added[h] {
					h = (h + 1) % nH
				}
				added[h] = true
				addedList = append(addedList, h)
				name := ""
				if rng.Intn(3) == 0 { // unusual but legal names; must stay unique within the router
					pool := []string{"", "h" + strconv.Itoa((h+1)%nH), " ", "H" + strconv.Itoa(h), "in-h0", "out-h1", "router", "h"}
					cand := pool[rng.Intn(len(pool))]
					clash := false
					for o := 0; o < nH; o++ {
						if cand == "h"+strconv.Itoa(o) && o != h { // would collide with a default name (possibly added later)
							clash = true
						}
					}
					if !usedNames[cand] && !clash {
						usedNames[cand] = true
						name = "=" + wh.HexS(cand)
						nUnusual++
					}
				}
				toks = append(toks, "A"+strconv.Itoa(h)+rng.Pick("p", "p", "n")+name)
			case k == 8 && nDecP < 5:
				c := 1 + rng.Intn(2)
				if nDecP+c > 5 {
					c = 1
				}
				nDecP += c
				toks = append(toks, "P"+idList(&next, c))
			case k == 9 && nDecS < 5:
				c := 1 + rng.Intn(2)
				if nDecS+c > 5 {
					c = 1
				}
				nDecS += c
				toks = append(toks, "S"+idList(&next, c))
			default:
				toks = append(toks, "R"+idList(&next, 1))
			}
		}
		if ph == phases-1 && len(addedList) == 0 {
			toks = append(toks, "A0p")
		}
		toks = append(toks, "RUN")
	}
	return "chain " + strings.Join(toks, " ")
}

type job struct {
	req, tag string
}

func main() {
	worker := flag.String("worker", "", "internal: run the requests of this file in this process (child of the supervisor)")
	a := wh.ParseArgs()
	if *worker != "" {
		workerMain(*worker)
		return
	}
	out := wh.NewOut(a.Out)
	defer out.Close()
	if a.Replay != "" {
		r := runJobs([]string{a.Replay})[0]
		if r == "" {
			r = "not-run"
		}
		out.Case(a.Replay, r)
		return
	}
	maxLen, maxDec, nRandom, randLen := 6, 5, 2500, 20
	if a.Thorough() {
		maxLen, nRandom = 7, 40000
	}
	var jobs []job
	emit := func(req, tag string) { jobs = append(jobs, job{req, tag}) }
	enumSeqs(maxLen, [2]string{"", ""}, "enum", emit)
	// the same with unusual but legal handler names: the empty name (what router-level entries carry in HandlerName),
	// and handler 1 named like handler 0 would be by default
	enumSeqs(maxLen-2, [2]string{"=-", "=" + wh.HexS("h0")}, "enum_names", emit)
	enumSeqs(maxLen-2, [2]string{"=" + wh.HexS("in-h1"), "=-"}, "enum_names", emit)
	enumDecs(maxDec, emit)
	rng := wh.NewRng(a.Seed)
	for i := 0; i < nRandom; i++ {
		l := randLen
		if i%3 == 0 {
			l = 8
		}
		emit(randomProg(rng, l), "random")
	}
	// cases are independent (own router, own log): run them on a few workers, write in generation order
	reqs := make([]string, len(jobs))
	for i, j := range jobs {
		reqs[i] = j.req
	}
	res := runJobs(reqs) // in child processes, see supervise.go
	skipped := 0
	for i, j := range jobs {
		if res[i] == "" {
			skipped++
			continue
		}
		out.Case(j.req, res[i])
		out.Count(j.tag)
		f := strings.Fields(j.req)
		out.Add("ops.total", len(f)-1)
		runs := 0
		for _, t := range f[1:] {
			switch {
			case t == "RUN":
				runs++
			case t[0] == 'R':
				out.Count("ops.routerMw")
			case t[0] == 'H':
				out.Count("ops.handlerMw")
			case t[0] == 'A':
				spec, nm, named := strings.Cut(t, "=")
				out.Count("ops.addHandler" + spec[len(spec)-1:])
				if named {
					out.Count("handlers.explicit_name")
					if nm == "-" {
						out.Count("handlers.empty_name")
					}
				}
			case t[0] == 'P':
				out.Count("ops.pubDec")
			case t[0] == 'S':
				out.Count("ops.subDec")
			}
		}
		out.Count("runs." + strconv.Itoa(runs))
		if strings.Contains(res[i], "timeout") || strings.Contains(res[i], "panic") {
			fmt.Fprintln(os.Stderr, "unusual outcome:", j.req, "=>", res[i])
		}
	}
	if skipped > 0 {
		out.Note("stopped early after repeated timeouts or crashes: " + strconv.Itoa(skipped) + " generated cases not run")
		out.Add("skipped_after_timeouts", skipped)
	}
}
