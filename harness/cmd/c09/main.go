// Harness for C09: middleware nesting order and decorator order of the real message.Router.
//
//	REQ chain <op>*        OBS <block per RUN>
//
// op tokens (see lean/Driver/C09.lean):  R<ids> router.AddMiddleware · H<h>:<ids> handler.AddMiddleware ·
// A<h>p / A<h>n AddHandler / AddNoPublisherHandler · P<ids> AddPublisherDecorators · S<ids> AddSubscriberDecorators ·
// RUN = Run (first) / RunHandlers (later) followed by ONE message through every started handler, one at a time.
// Every middleware / decorator is a recorder that appends to one log; the log between "message handed to the
// handler's subscriber" and "message acked" is that handler's trace:
//
//	s<i>c|s<i>n subscriber decorator i saw the message (handler context present / absent) · e<i> / l<i> middleware i
//	entered / left · h handler function · p<i> publisher decorator i saw the produced message · P real publisher got it
package main

import (
	"context"
	"encoding/hex"
	"errors"
	"flag"
	"fmt"
	"os"
	"runtime"
	"strconv"
	"strings"
	"sync"
	"sync/atomic"
	"time"

	"github.com/ThreeDotsLabs/watermill"
	"github.com/ThreeDotsLabs/watermill/message"

	"wmverif/wh"
)

const settleTimeout = 20 * time.Second

type evlog struct {
	mu  sync.Mutex
	evs []string
}

func (l *evlog) add(s string) {
	l.mu.Lock()
	l.evs = append(l.evs, s)
	l.mu.Unlock()
}

func (l *evlog) take() []string {
	l.mu.Lock()
	defer l.mu.Unlock()
	r := l.evs
	l.evs = nil
	return r
}

// scriptSub is a subscriber whose single feed channel the harness writes to.
type scriptSub struct {
	mu      sync.Mutex
	ins     map[string]chan *message.Message // one feed channel per topic (handlers may share the subscriber object)
	closing chan struct{}
	once    sync.Once
}

func newScriptSub() *scriptSub {
	return &scriptSub{ins: map[string]chan *message.Message{}, closing: make(chan struct{})}
}

// feed returns the channel the harness writes messages for the given topic to
func (s *scriptSub) feed(topic string) chan *message.Message {
	s.mu.Lock()
	defer s.mu.Unlock()
	ch, ok := s.ins[topic]
	if !ok {
		ch = make(chan *message.Message)
		s.ins[topic] = ch
	}
	return ch
}

func (s *scriptSub) Subscribe(ctx context.Context, topic string) (<-chan *message.Message, error) {
	in := s.feed(topic)
	out := make(chan *message.Message)
	go func() {
		defer close(out)
		for {
			select {
			case m := <-in:
				select {
				case out <- m:
				case <-ctx.Done():
					return
				case <-s.closing:
					return
				}
			case <-ctx.Done():
				return
			case <-s.closing:
				return
			}
		}
	}()
	return out, nil
}

func (s *scriptSub) Close() error {
	s.once.Do(func() { close(s.closing) })
	return nil
}

type recPub struct{ l *evlog }

func (p *recPub) Publish(topic string, msgs ...*message.Message) error {
	for range msgs {
		p.l.add("P")
	}
	return nil
}
func (p *recPub) Close() error { return nil }

func recMw(l *evlog, id int) message.HandlerMiddleware {
	return func(h message.HandlerFunc) message.HandlerFunc {
		return func(msg *message.Message) ([]*message.Message, error) {
			l.add("e" + strconv.Itoa(id))
			out, err := h(msg)
			l.add("l" + strconv.Itoa(id))
			return out, err
		}
	}
}

// hand-written publisher decorator (odd ids); even ids use watermill's MessageTransformPublisherDecorator
type wrapPub struct {
	inner message.Publisher
	f     func(*message.Message)
}

func (w *wrapPub) Publish(topic string, msgs ...*message.Message) error {
	for _, m := range msgs {
		w.f(m)
	}
	return w.inner.Publish(topic, msgs...)
}
func (w *wrapPub) Close() error { return w.inner.Close() }

func recPubDec(l *evlog, id int) message.PublisherDecorator {
	f := func(*message.Message) { l.add("p" + strconv.Itoa(id)) }
	if id%2 == 0 {
		return message.MessageTransformPublisherDecorator(f)
	}
	return func(p message.Publisher) (message.Publisher, error) { return &wrapPub{p, f}, nil }
}

// hand-written subscriber decorator (odd ids); even ids use watermill's MessageTransformSubscriberDecorator
type wrapSub struct {
	inner message.Subscriber
	f     func(*message.Message)
}

func (w *wrapSub) Subscribe(ctx context.Context, topic string) (<-chan *message.Message, error) {
	in, err := w.inner.Subscribe(ctx, topic)
	if err != nil {
		return nil, err
	}
	out := make(chan *message.Message)
	go func() {
		defer close(out)
		for m := range in {
			w.f(m)
			select {
			case out <- m:
			case <-ctx.Done():
			}
		}
	}()
	return out, nil
}
func (w *wrapSub) Close() error { return w.inner.Close() }

func recSubDec(l *evlog, id int) message.SubscriberDecorator {
	f := func(m *message.Message) {
		// c: the message carries the context of the handler it was sent to (the subscribe topic is never empty here; the
		// handler name may be); n: no handler context yet; w: ANOTHER handler's context
		c := "n"
		if t := message.SubscribeTopicFromCtx(m.Context()); t != "" {
			c = "c"
			if t != m.Metadata.Get("topic") {
				c = "w"
			}
		}
		l.add("s" + strconv.Itoa(id) + c)
	}
	if id%2 == 0 {
		return message.MessageTransformSubscriberDecorator(f)
	}
	return func(s message.Subscriber) (message.Subscriber, error) { return &wrapSub{s, f}, nil }
}

type hstate struct {
	idx    int
	name   string
	obj    message.Subscriber // what AddHandler gets: the raw scripted subscriber or the application-decorated shared one
	hasPub bool
	sub    *scriptSub
	h      *message.Handler
}

func ids(s string) ([]int, bool) {
	var out []int
	for _, p := range strings.Split(s, ",") {
		n, err := strconv.Atoi(p)
		if err != nil || n < 0 {
			return nil, false
		}
		out = append(out, n)
	}
	return out, true
}

type appSub struct {
	core *scriptSub
	obj  message.Subscriber
}

// runCase executes one registration program against a fresh Router.
func runCase(req string) (obs string) {
	toks := strings.Fields(req)
	if len(toks) == 0 || toks[0] != "chain" {
		return "bad-op"
	}
	toks = toks[1:]
	l := &evlog{}
	r, err := message.NewRouter(message.RouterConfig{CloseTimeout: 5 * time.Second}, watermill.NopLogger{})
	if err != nil {
		return "bad-op"
	}
	ctx, cancel := context.WithCancel(context.Background())
	defer cancel()
	var hs []*hstate
	var gone []int // handlers that were stopped: their numbers are not used again (their names may be)
	goneHs := map[int]*hstate{}
	apps := map[int]*appSub{}
	// every registration is made from a slice the "application" owns, has spare capacity and keeps (`xs...` passes the
	// slice itself, not a copy); the X token edits them all afterwards
	var ownedMw [][]message.HandlerMiddleware
	var ownedPub [][]message.PublisherDecorator
	var ownedSub [][]message.SubscriberDecorator
	mwSlice := func(is []int) []message.HandlerMiddleware {
		s := make([]message.HandlerMiddleware, len(is), len(is)+4)
		for k, i := range is {
			s[k] = recMw(l, i)
		}
		ownedMw = append(ownedMw, s)
		return s
	}
	pubSlice := func(is []int) []message.PublisherDecorator {
		s := make([]message.PublisherDecorator, len(is), len(is)+4)
		for k, i := range is {
			s[k] = recPubDec(l, i)
		}
		ownedPub = append(ownedPub, s)
		return s
	}
	subSlice := func(is []int) []message.SubscriberDecorator {
		s := make([]message.SubscriberDecorator, len(is), len(is)+4)
		for k, i := range is {
			s[k] = recSubDec(l, i)
		}
		ownedSub = append(ownedSub, s)
		return s
	}
	poison := 9000
	callerEdits := func() {
		// a second router of the application gets the same slices, extended on their spare capacity; then the
		// application overwrites the elements it had passed to the first router
		r2, err := message.NewRouter(message.RouterConfig{}, watermill.NopLogger{})
		if err != nil {
			return
		}
		for _, s := range ownedMw {
			poison++
			r2.AddMiddleware(append(s, recMw(l, poison))...)
			for k := range s {
				poison++
				s[k] = recMw(l, poison)
			}
		}
		for _, s := range ownedPub {
			poison++
			r2.AddPublisherDecorators(append(s, recPubDec(l, poison))...)
			for k := range s {
				poison++
				s[k] = recPubDec(l, poison)
			}
		}
		for _, s := range ownedSub {
			poison++
			r2.AddSubscriberDecorators(append(s, recSubDec(l, poison))...)
			for k := range s {
				poison++
				s[k] = recSubDec(l, poison)
			}
		}
	}
	find := func(i int) *hstate {
		for _, h := range hs {
			if h.idx == i {
				return h
			}
		}
		return nil
	}
	running := false
	runRet := make(chan error, 1)
	var blocks []string
	msgN := 0
	defer func() {
		if rec := recover(); rec != nil {
			obs = wh.PanicText(rec)
		}
		if running {
			done := make(chan struct{})
			go func() { r.Close(); close(done) }()
			select {
			case <-done:
				select {
				case <-runRet:
				case <-time.After(settleTimeout):
				}
			case <-time.After(settleTimeout):
			}
		}
	}()
	for _, t := range toks {
		switch {
		case t == "RUN":
			if !running {
				running = true
				go func() { runRet <- r.Run(ctx) }()
				select {
				case <-r.Running():
				case e := <-runRet:
					return "run-returned(" + fmt.Sprint(e) + ")"
				case <-time.After(settleTimeout):
					return "timeout-running"
				}
			} else {
				// RunHandlers is idempotent by contract: when it reports an error (a decorator failed) it is called again
				var err error
				for attempt := 0; attempt < 16; attempt++ { // every failing decorator fails once
					if err = r.RunHandlers(ctx); err == nil {
						break
					}
				}
				if err != nil {
					return "runhandlers-error"
				}
			}
			var entries []string
			for _, h := range hs {
				select {
				case <-h.h.Started():
				case <-time.After(settleTimeout):
					return "timeout-started"
				}
				msgN++
				m := message.NewMessage("m"+strconv.Itoa(msgN), []byte("x"))
				m.Metadata.Set("topic", "in-"+h.name)
				l.take()
				select {
				case h.sub.feed("in-" + h.name) <- m:
				case <-time.After(settleTimeout):
					return "timeout-send"
				}
				tr := ""
				select {
				case <-m.Acked():
					tr = strings.Join(l.take(), ".")
				case <-m.Nacked():
					tr = "NACK." + strings.Join(l.take(), ".")
				case <-time.After(settleTimeout):
					return "timeout-settle"
				}
				entries = append(entries, "h"+strconv.Itoa(h.idx)+"="+tr)
			}
			if len(entries) == 0 {
				blocks = append(blocks, "-")
			} else {
				blocks = append(blocks, strings.Join(entries, ";"))
			}
		case t == "X":
			callerEdits()
		case strings.HasPrefix(t, "G"):
			// a RouterPlugin that registers when Run executes it
			var acts []func(*message.Router)
			for _, it := range strings.Split(t[1:], "+") {
				if len(it) < 2 {
					return "bad-op"
				}
				is, ok := ids(it[1:])
				if !ok {
					return "bad-op"
				}
				switch it[0] {
				case 'R':
					acts = append(acts, func(r *message.Router) {
						r.AddMiddleware(mwSlice(is)...)
					})
				case 'P':
					acts = append(acts, func(r *message.Router) {
						r.AddPublisherDecorators(pubSlice(is)...)
					})
				case 'S':
					acts = append(acts, func(r *message.Router) {
						r.AddSubscriberDecorators(subSlice(is)...)
					})
				default:
					return "bad-op"
				}
			}
			r.AddPlugin(func(r *message.Router) error {
				for _, a := range acts {
					a(r)
				}
				return nil
			})
		case strings.HasPrefix(t, "C"):
			// overlapping Handler.AddMiddleware calls: one goroutine per `|`-separated script, released together
			type call struct {
				h   *hstate
				mws []message.HandlerMiddleware
			}
			var scripts [][]call
			for _, g := range strings.Split(t[1:], "|") {
				var sc []call
				for _, c := range strings.Split(g, "+") {
					if !strings.HasPrefix(c, "H") {
						return "bad-op"
					}
					p := strings.SplitN(c[1:], ":", 2)
					if len(p) != 2 {
						return "bad-op"
					}
					hi, err := strconv.Atoi(p[0])
					is, ok := ids(p[1])
					if err != nil || !ok || find(hi) == nil {
						return "bad-op"
					}
					mws := mwSlice(is)
					sc = append(sc, call{find(hi), mws})
				}
				scripts = append(scripts, sc)
			}
			var wg sync.WaitGroup
			var ready int32
			n := int32(len(scripts))
			for _, sc := range scripts {
				sc := sc
				wg.Add(1)
				go func() {
					defer wg.Done()
					atomic.AddInt32(&ready, 1)
					for spins := 0; atomic.LoadInt32(&ready) < n; spins++ {
						if spins > 1000 {
							runtime.Gosched()
						}
					}
					for _, c := range sc {
						c.h.h.AddMiddleware(c.mws...)
					}
				}()
			}
			wg.Wait()
		case strings.HasPrefix(t, "R"):
			is, ok := ids(t[1:])
			if !ok {
				return "bad-op"
			}
			mws := mwSlice(is)
			r.AddMiddleware(mws...)
		case strings.HasPrefix(t, "H"):
			p := strings.SplitN(t[1:], ":", 2)
			if len(p) != 2 {
				return "bad-op"
			}
			hi, err := strconv.Atoi(p[0])
			is, ok := ids(p[1])
			if err != nil || !ok || find(hi) == nil {
				return "bad-op"
			}
			mws := mwSlice(is)
			find(hi).h.AddMiddleware(mws...)
		case strings.HasPrefix(t, "A") && len(t) >= 3:
			spec, nameTok, named := strings.Cut(t, "=")
			spec, appTok, shared := strings.Cut(spec, "@")
			if len(spec) < 3 {
				return "bad-op"
			}
			hi, err := strconv.Atoi(spec[1 : len(spec)-1])
			kind := spec[len(spec)-1]
			if err != nil || !strings.ContainsRune("pndezt", rune(kind)) || find(hi) != nil {
				return "bad-op"
			}
			for _, g := range gone {
				if g == hi {
					return "bad-op"
				}
			}
			name := "h" + strconv.Itoa(hi)
			if named { // explicit handler name: hex of its bytes, "-" = the empty name
				name = ""
				if nameTok != "-" {
					b, err := hex.DecodeString(nameTok)
					if err != nil || len(b) == 0 || strings.ToLower(nameTok) != nameTok {
						return "bad-op"
					}
					name = string(b)
				}
			}
			for _, o := range hs {
				if o.name == name {
					return "bad-op" // AddHandler panics on a duplicate name; not what this harness is about
				}
			}
			h := &hstate{idx: hi, name: name, hasPub: kind != 'n' && kind != 'z'}
			if shared {
				// the application wrapped its subscriber itself in a transform decorator and gives that ONE object to
				// every handler of group g
				g, err := strconv.Atoi(appTok)
				if err != nil || g < 0 {
					return "bad-op"
				}
				a, ok := apps[g]
				if !ok {
					core := newScriptSub()
					obj, err := message.MessageTransformSubscriberDecorator(func(*message.Message) { l.add("a" + strconv.Itoa(g)) })(core)
					if err != nil {
						return "bad-op"
					}
					a = &appSub{core, obj}
					apps[g] = a
				}
				h.sub, h.obj = a.core, a.obj
			} else {
				h.sub = newScriptSub()
				h.obj = h.sub
			}
			// the handler function: "h", or "hx" when the message carries another handler's context values
			mark := func(msg *message.Message) {
				if message.SubscribeTopicFromCtx(msg.Context()) != "in-"+name || message.HandlerNameFromCtx(msg.Context()) != name {
					l.add("hx")
				} else {
					l.add("h")
				}
			}
			if kind == 'z' {
				// AddHandler with a NIL publisher (and a function that returns nothing): it is not decorated
				h.h = r.AddHandler(name, "in-"+name, h.obj, "out-"+name, nil, func(msg *message.Message) ([]*message.Message, error) {
					mark(msg)
					return nil, nil
				})
			} else if h.hasPub {
				pubTopic := "out-" + name
				if kind == 't' { // a real publisher and the EMPTY publish topic
					pubTopic = ""
				}
				h.h = r.AddHandler(name, "in-"+name, h.obj, pubTopic, &recPub{l}, func(msg *message.Message) ([]*message.Message, error) {
					mark(msg)
					switch kind {
					case 'd': // two distinct messages with the same UUID
						return []*message.Message{message.NewMessage("o-"+msg.UUID, []byte("y1")), message.NewMessage("o-"+msg.UUID, []byte("y2"))}, nil
					case 'e': // three distinct messages without UUID
						return []*message.Message{message.NewMessage("", []byte("y1")), message.NewMessage("", []byte("y2")), message.NewMessage("", []byte("y3"))}, nil
					}
					return []*message.Message{message.NewMessage("o-"+msg.UUID, []byte("y"))}, nil
				})
			} else {
				h.h = r.AddNoPublisherHandler(name, "in-"+name, h.obj, func(msg *message.Message) error {
					mark(msg)
					return nil
				})
			}
			hs = append(hs, h)
		case strings.HasPrefix(t, "T"):
			// handler.Stop(), wait until it has stopped (it is removed from the router then)
			hi, err := strconv.Atoi(t[1:])
			if old, ok := goneHs[hi]; ok && err == nil {
				// Stop() once more through the handle of a handler that has already stopped
				old.h.Stop()
				break
			}
			h := find(hi)
			if err != nil || h == nil {
				return "bad-op"
			}
			alive := 0
			for _, o := range hs {
				select {
				case <-o.h.Started():
					alive++
				default:
				}
			}
			select {
			case <-h.h.Started():
			default:
				return "bad-op" // Stop panics on a handler that is not started
			}
			if alive < 2 {
				return "bad-op" // the router closes itself when its last handler stops
			}
			h.h.Stop()
			select {
			case <-h.h.Stopped():
			case <-time.After(settleTimeout):
				return "timeout-stop"
			}
			for k, o := range hs {
				if o == h {
					hs = append(hs[:k:k], hs[k+1:]...)
					break
				}
			}
			gone = append(gone, hi)
			goneHs[hi] = h
		case strings.HasPrefix(t, "P"):
			failing := strings.HasSuffix(t, "!")
			is, ok := ids(strings.TrimSuffix(t[1:], "!"))
			if !ok {
				return "bad-op"
			}
			ds := pubSlice(is)
			if failing { // the last decorator of the call returns an error the first time it is applied
				d, failed, keep := ds[len(ds)-1], false, is[len(is)-1]%2 == 0
				ds[len(ds)-1] = func(p message.Publisher) (message.Publisher, error) {
					if !failed {
						failed = true
						if keep { // some decorators hand back what they were given together with the error, most return nil
							return p, errors.New("publisher decorator not ready yet")
						}
						return nil, errors.New("publisher decorator not ready yet")
					}
					return d(p)
				}
			}
			r.AddPublisherDecorators(ds...)
		case strings.HasPrefix(t, "S"):
			failing := strings.HasSuffix(t, "!")
			is, ok := ids(strings.TrimSuffix(t[1:], "!"))
			if !ok {
				return "bad-op"
			}
			ds := subSlice(is)
			if failing {
				d, failed, keep := ds[len(ds)-1], false, is[len(is)-1]%2 == 0
				ds[len(ds)-1] = func(s message.Subscriber) (message.Subscriber, error) {
					if !failed {
						failed = true
						if keep {
							return s, errors.New("subscriber decorator not ready yet")
						}
						return nil, errors.New("subscriber decorator not ready yet")
					}
					return d(s)
				}
			}
			r.AddSubscriberDecorators(ds...)
		default:
			return "bad-op"
		}
	}
	if len(blocks) == 0 {
		return "none"
	}
	return strings.Join(blocks, " ")
}

func idList(next *int, n int) string {
	parts := make([]string, n)
	for i := range parts {
		*next++
		parts[i] = strconv.Itoa(*next)
	}
	return strings.Join(parts, ",")
}

// exhaustive: every sequence over {router-level, handler 0, handler 1} up to maxLen, with each AddHandler either at
// the very beginning or as late as possible (right before the handler's first middleware / before RUN).
func enumSeqs(maxLen int, names [2]string, tag string, emit func(req string, tag string)) {
	addTok := func(h, variant int) string { return "A" + strconv.Itoa(h) + pubKind(h, variant) + names[h] }
	var rec func(prefix []byte)
	rec = func(prefix []byte) {
		for variant := 0; variant < 4; variant++ {
			early := [2]bool{variant&1 == 0, variant&2 == 0}
			added := [2]bool{}
			var toks []string
			for h := 0; h < 2; h++ {
				if early[h] {
					toks = append(toks, addTok(h, variant))
					added[h] = true
				}
			}
			for i, c := range prefix {
				id := strconv.Itoa(i + 1)
				switch c {
				case 'R':
					toks = append(toks, "R"+id)
				case 'a', 'b':
					h := int(c - 'a')
					if !added[h] {
						toks = append(toks, addTok(h, variant))
						added[h] = true
					}
					toks = append(toks, "H"+strconv.Itoa(h)+":"+id)
				}
			}
			for h := 0; h < 2; h++ {
				if !added[h] {
					toks = append(toks, addTok(h, variant))
				}
			}
			if variant == 3 {
				toks = append(toks, "X") // the application edits the slices it passed; must change nothing
			}
			toks = append(toks, "RUN")
			emit("chain "+strings.Join(toks, " "), tag+".len"+strconv.Itoa(len(prefix)))
		}
		if len(prefix) == maxLen {
			return
		}
		for _, c := range []byte("Rab") {
			rec(append(append([]byte{}, prefix...), c))
		}
	}
	rec(nil)
}

func pubKind(h, variant int) string {
	if (h+variant)%2 == 0 {
		return "p"
	}
	return "n"
}

// all decorator list lengths 0..maxDec x 0..maxDec, one publishing and one no-publisher handler, one middleware each level
func enumDecs(maxDec int, emit func(req string, tag string)) {
	for np := 0; np <= maxDec; np++ {
		for ns := 0; ns <= maxDec; ns++ {
			for split := 0; split < 2; split++ {
				next := 100
				var toks []string
				toks = append(toks, "A0p", "A1n", "R1", "H0:2", "H1:3")
				add := func(prefix string, n int) {
					if n == 0 {
						return
					}
					if split == 0 || n == 1 {
						toks = append(toks, prefix+idList(&next, n)) // one variadic call
					} else {
						for i := 0; i < n; i++ { // one call per decorator
							toks = append(toks, prefix+idList(&next, 1))
						}
					}
				}
				add("P", np)
				add("S", ns)
				emit("chain "+strings.Join(append(append([]string{}, toks...), "RUN"), " "), "decs")
				toks = append(toks, "X", "RUN")
				emit("chain "+strings.Join(toks, " "), "decs")
			}
		}
	}
}

// random programs: up to 4 handlers, up to maxLen registrations, variadic calls, decorators, up to 3 RUN phases
// (handlers added after Run and started by RunHandlers; registrations after a handler started).
func randomProg(rng *wh.Rng, maxLen int) string {
	next := 0
	nH := 1 + rng.Intn(4)
	phases := 1 + rng.Intn(3)
	var toks []string
	added := map[int]bool{}
	usedNames := map[string]bool{}
	nUnusual := 0
	_ = nUnusual
	var addedList []int
	nDecP, nDecS := 0, 0
	sharedSubs := rng.Intn(4) == 0
	editing := rng.Intn(3) == 0 // the application reuses the slices it registered from
	// decorators that fail the first time they are applied (only after Run: a failing Run cannot be retried).
	// 1: publisher decorators may fail; 2: subscriber decorators may fail - then the program has no publisher decorators
	// (in the code as it is a failed decorateHandlerSubscriber leaves the already decorated publisher behind)
	failMode := rng.Intn(5)
	if failMode == 2 {
		nDecP = 5
	}
	ranOnce := false
	var startedList []int
	var freeNames []string
	var stopAgain []int // Stop() once more, later, through the old handle
	explicitName := map[int]bool{}
	plugin := func() string { // a RouterPlugin registering 1..3 things when Run executes it
		var items []string
		for k, n := 0, 1+rng.Intn(3); k < n; k++ {
			switch rng.Intn(3) {
			case 0:
				items = append(items, "R"+idList(&next, 1+rng.Intn(2)))
			case 1:
				if nDecP < 5 {
					nDecP++
					items = append(items, "P"+idList(&next, 1))
				}
			case 2:
				if nDecS < 5 {
					nDecS++
					items = append(items, "S"+idList(&next, 1))
				}
			}
		}
		if len(items) == 0 {
			items = []string{"R" + idList(&next, 1)}
		}
		return "G" + strings.Join(items, "+")
	}
	for ph := 0; ph < phases; ph++ {
		n := rng.Intn(maxLen/phases + 2)
		for i := 0; i < n; i++ {
			k := rng.Intn(10)
			switch {
			case editing && rng.Intn(6) == 0:
				toks = append(toks, "X")
			case k < 3 && rng.Intn(5) == 0:
				toks = append(toks, plugin())
			case k < 3:
				toks = append(toks, "R"+idList(&next, 1+rng.Intn(3)/2))
			case k < 6 && len(addedList) > 0:
				h := addedList[rng.Intn(len(addedList))]
				toks = append(toks, "H"+strconv.Itoa(h)+":"+idList(&next, 1+rng.Intn(3)/2))
			case k < 8 && len(added) < nH: // numbers of stopped handlers stay used
				h := rng.Intn(nH)
				for added[h] {
					h = (h + 1) % nH
				}
				added[h] = true
				addedList = append(addedList, h)
				name := ""
				if rng.Intn(3) == 0 { // unusual but legal names; must stay unique within the router
					pool := []string{"", "h" + strconv.Itoa((h+1)%nH), " ", "H" + strconv.Itoa(h), "in-h0", "out-h1", "router", "h"}
					cand := pool[rng.Intn(len(pool))]
					clash := false
					for o := 0; o < nH; o++ {
						if cand == "h"+strconv.Itoa(o) && o != h { // would collide with a default name (possibly added later)
							clash = true
						}
					}
					if !usedNames[cand] && !clash {
						usedNames[cand] = true
						name = "=" + wh.HexS(cand)
						explicitName[h] = true
						nUnusual++
					}
				}
				app := ""
				if sharedSubs && rng.Intn(3) != 0 { // the application-decorated subscriber object 1 (or 2), shared
					app = "@" + strconv.Itoa(1+rng.Intn(5)/4)
				}
				if name == "" && len(freeNames) > 0 && rng.Intn(2) == 0 {
					// the name of a handler that has stopped is used again (only default names are recycled here)
					name = "=" + wh.HexS(freeNames[0])
					freeNames = freeNames[1:]
				}
				toks = append(toks, "A"+strconv.Itoa(h)+rng.Pick("p", "p", "n", "d", "e", "z", "t")+app+name)
			case k == 8 && nDecP < 5:
				c := 1 + rng.Intn(2)
				if nDecP+c > 5 {
					c = 1
				}
				nDecP += c
				t := "P" + idList(&next, c)
				if failMode == 1 && ranOnce && rng.Intn(2) == 0 {
					t += "!"
				}
				toks = append(toks, t)
			case k == 9 && nDecS < 5:
				c := 1 + rng.Intn(2)
				if nDecS+c > 5 {
					c = 1
				}
				nDecS += c
				t := "S" + idList(&next, c)
				if failMode == 2 && ranOnce && rng.Intn(2) == 0 {
					t += "!"
				}
				toks = append(toks, t)
			default:
				toks = append(toks, "R"+idList(&next, 1))
			}
		}
		if ph == phases-1 && len(addedList) == 0 {
			toks = append(toks, "A0p")
		}
		if editing {
			toks = append(toks, "X")
		}
		for _, h := range stopAgain {
			toks = append(toks, "T"+strconv.Itoa(h))
		}
		stopAgain = nil
		toks = append(toks, "RUN")
		ranOnce = true
		startedList = append([]int{}, addedList...)
		// sometimes one of the running handlers is stopped (never the last one); handlers added afterwards are handlers
		// of their own
		if ph < phases-1 && len(startedList) >= 2 && rng.Intn(3) == 0 {
			k := rng.Intn(len(startedList))
			h := startedList[k]
			toks = append(toks, "T"+strconv.Itoa(h))
			if !explicitName[h] {
				freeNames = append(freeNames, "h"+strconv.Itoa(h))
			}
			if rng.Intn(3) == 0 {
				stopAgain = append(stopAgain, h)
			}
			for x, y := range addedList {
				if y == h {
					addedList = append(addedList[:x:x], addedList[x+1:]...)
					break
				}
			}
			if nH < 6 {
				nH++ // room for a new handler
			}
		}
	}
	return "chain " + strings.Join(toks, " ")
}

// the SAME application-decorated subscriber object given to two or three handlers, with router subscriber decorators:
// every handler's messages pass the application's transform, then each registered decorator exactly once, in order,
// and carry that handler's context values only
func sharedSubCases(emit func(string, string)) {
	progs := []string{
		"A0p@1 A1p@1 RUN",
		"A0p@1 A1n@1 S1 RUN",
		"S1,2 A0p@1 A1p@1 A2n@1 RUN",
		"A0p@1 S1 A1p@1 S2 R3 H0:4 H1:5 RUN",
		"S1 A0p@1 RUN S2 A1p@1 A2p RUN",
		"S1,2 P3 A0p@1 A1n@2 A2p@1 A3p@2 RUN",
		"GS1+S2 A0p@1 A1p@1 RUN",
		"A0p@1=- A1p@1=" + wh.HexS("h0") + " S1 S2 H0:3 RUN",
	}
	for _, p := range progs {
		emit("chain "+p, "shared_decorated_subscriber")
	}
}

// registrations made from caller-owned slices (`xs...`) with spare capacity which the application afterwards edits,
// appends to and hands to a second router: the router's lists are value copies, no chain may change
func callerEditCases(emit func(string, string)) {
	progs := []string{
		"P1,2 X A0p RUN",
		"P1,2 P3 X A0p RUN",
		"P1,2 X P3 X A0p RUN",
		"S1,2 X A0p RUN",
		"S1,2 S3,4 X A0n RUN",
		"R1,2 X A0p RUN",
		"R1,2 R3 X A0p A1n RUN",
		"A0p A1p H0:1,2 H1:3 X H0:4 X RUN",
		"P1 S2 A0p RUN X P3 S4 A1p X RUN",
		"GP1,2+S3,4+R5,6 A0p RUN X A1p P7 X RUN",
		"P1,2,3 S4,5,6 R7,8 A0p@1 A1n@1 H0:9,10 X RUN X RUN",
	}
	for _, p := range progs {
		emit("chain "+p, "caller_edits_its_slices")
	}
}

// decorators that return an error the first time they are applied to a handler added to the running router (RunHandlers
// reports the error, the caller calls it again), the failing one not being the first one applied; and handlers that stop
// while others keep running, with new handlers added afterwards
func failAndStopCases(emit func(string, string)) {
	progs := []string{
		"A0p RUN P1 P2! P3 A1p RUN",
		"P1 A0p RUN P2,3! P4 A1p A2n RUN RUN",
		"A0p RUN P1! A1p RUN",
		"A0n RUN S1 S2! S3 A1n RUN",
		"S1 A0n RUN S2,3! A1n A2n RUN",
		"R1 A0p H0:2 A1n H1:3 RUN T0 A2n H2:4 RUN",
		"A0p H0:1 A1p H1:2 A2p H2:3 RUN T1 A3p H3:4 R5 RUN T0 A4n H4:6 RUN",
		"R1 A0n A1n H1:2,3 RUN T0 A2p RUN H2:4 A3p H3:5 RUN",
		"A0p@1 A1p@1 H1:1 S2 RUN T0 A2p@1 H2:3 RUN",
		// the name of a stopped handler used again; Stop() once more through the old handle
		"R1 A0p H0:2 A1n H1:3 RUN T0 A2n=" + wh.HexS("h0") + " H2:4 T0 RUN",
		"A0p A1p H1:1 RUN T0 A2p=" + wh.HexS("h0") + " H2:2,3 T0 RUN T0 A3n H3:4 RUN",
		"A0n=- A1p RUN T0 T0 A2p=- H2:1 R2 T0 RUN",
	}
	for _, p := range progs {
		emit("chain "+p, "failing_decorator_or_stopped_handler")
	}
}

// handler functions that return several DISTINCT messages with equal or empty UUIDs in one go: every publisher decorator
// (watermill's transform decorator for even ids, a hand-written one for odd ids) acts on every one of them
func multiOutputCases(emit func(string, string)) {
	progs := []string{
		"P2 A0z RUN", "P1,2 S3 R4 A0z A1p H0:5 RUN", "P1 A0t RUN", "P1,2 S3 A0t A1p A2n RUN", "A0t RUN P2 A1t=- RUN", "P2 A0d RUN", "P2 A0e RUN", "P1 A0d RUN", "P1,2,3,4 A0d A1e A2p A3n RUN",
		"P2 A0p RUN P4 A1d RUN P6 A2e RUN", "GP2+P4 A0e A1d RUN", "P2,4 S1 R3 A0d H0:5 X RUN",
	}
	for _, p := range progs {
		emit("chain "+p, "several_outputs_with_equal_uuids")
	}
}

// RouterPlugins that register middlewares / decorators when Run starts: they act on every handler added before Run
// (plugins are loaded before the handlers are started), never on their own later (a plugin added after Run is not run)
func pluginCases(emit func(string, string)) {
	progs := []string{
		"A0p GR1 RUN",
		"A0p GP1 RUN",
		"A0p GS1 RUN",
		"GR1+P2+S3 A0p A1n RUN",
		"A0p R1 GR2 R3 H0:4 GP5 P6 GS7 S8 RUN",
		"GR1 GR2+R3 A0p H0:4 RUN A1p RUN",
		"A0p RUN GR1+P2+S3 A1p RUN",
		"GP1 A0p RUN P2 A1p RUN",
		"A0n GS1+S2,3 RUN RUN",
	}
	for _, p := range progs {
		emit("chain "+p, "plugins")
	}
}

// overlapping Handler.AddMiddleware calls from 2..4 goroutines (to the same and to different handlers) before Run,
// between sequential registrations; the observation is checked, not predicted (cchain)
func concurrentProg(rng *wh.Rng) string {
	next := 0
	nH := 1 + rng.Intn(3)
	var toks []string
	for h := 0; h < nH; h++ {
		toks = append(toks, "A"+strconv.Itoa(h)+rng.Pick("p", "n"))
	}
	seq := func() {
		for k, n := 0, rng.Intn(3); k < n; k++ {
			if rng.Bool() {
				toks = append(toks, "R"+idList(&next, 1))
			} else {
				toks = append(toks, "H"+strconv.Itoa(rng.Intn(nH))+":"+idList(&next, 1+rng.Intn(2)))
			}
		}
	}
	seq()
	nG := 2 + rng.Intn(3)
	calls := 2
	if nG == 2 {
		calls = 3
	}
	gs := make([]string, nG)
	for g := range gs {
		var cs []string
		for k, n := 0, 1+rng.Intn(calls); k < n; k++ {
			cs = append(cs, "H"+strconv.Itoa(rng.Intn(nH))+":"+idList(&next, 1+rng.Intn(2)))
		}
		gs[g] = strings.Join(cs, "+")
	}
	toks = append(toks, "C"+strings.Join(gs, "|"))
	seq()
	toks = append(toks, "RUN")
	return "chain " + strings.Join(toks, " ")
}

func hasConc(req string) bool {
	for _, t := range strings.Fields(req) {
		if strings.HasPrefix(t, "C") {
			return true
		}
	}
	return false
}

// emitCase writes one case; programs with overlapping calls carry their observation in the request (the model checks
// that some serialisation explains it) and the expected answer is "consistent"
func emitCase(out *wh.Out, req, obs string) {
	if hasConc(req) {
		out.Case("c"+req+" @@ "+obs, "consistent")
		return
	}
	out.Case(req, obs)
}

type job struct {
	req, tag string
}

func main() {
	dump := flag.String("dump-requests", "", "debugging: write the generated requests to this file and exit")
	worker := flag.String("worker", "", "internal: run the requests of this file in this process (child of the supervisor)")
	a := wh.ParseArgs()
	if *worker != "" {
		workerMain(*worker)
		return
	}
	out := wh.NewOut(a.Out)
	defer out.Close()
	if a.Replay != "" {
		req := a.Replay
		if strings.HasPrefix(req, "cchain ") { // a recorded observation is part of the request: run the program again
			req, _, _ = strings.Cut(req[1:], " @@ ")
		}
		r := runJobs([]string{req})[0]
		if r == "" {
			r = "not-run"
		}
		emitCase(out, req, r)
		return
	}
	maxLen, maxDec, nRandom, randLen, nConc := 6, 5, 2500, 20, 400
	if a.Thorough() {
		maxLen, nRandom, nConc = 7, 40000, 6000
	}
	var jobs []job
	emit := func(req, tag string) { jobs = append(jobs, job{req, tag}) }
	enumSeqs(maxLen, [2]string{"", ""}, "enum", emit)
	// the same with unusual but legal handler names: the empty name (what router-level entries carry in HandlerName),
	// and handler 1 named like handler 0 would be by default
	enumSeqs(maxLen-2, [2]string{"=-", "=" + wh.HexS("h0")}, "enum_names", emit)
	enumSeqs(maxLen-2, [2]string{"=" + wh.HexS("in-h1"), "=-"}, "enum_names", emit)
	enumDecs(maxDec, emit)
	sharedSubCases(emit)
	pluginCases(emit)
	callerEditCases(emit)
	failAndStopCases(emit)
	multiOutputCases(emit)
	rng := wh.NewRng(a.Seed)
	for i := 0; i < nRandom; i++ {
		l := randLen
		if i%3 == 0 {
			l = 8
		}
		emit(randomProg(rng, l), "random")
	}
	for i := 0; i < nConc; i++ {
		emit(concurrentProg(rng), "concurrent_registration")
	}
	// cases are independent (own router, own log): run them on a few workers, write in generation order
	reqs := make([]string, len(jobs))
	for i, j := range jobs {
		reqs[i] = j.req
	}
	if *dump != "" {
		os.WriteFile(*dump, []byte(strings.Join(reqs, "\n")+"\n"), 0o644)
		return
	}
	res := runJobs(reqs) // in child processes, see supervise.go
	skipped := 0
	for i, j := range jobs {
		if res[i] == "" {
			skipped++
			continue
		}
		emitCase(out, j.req, res[i])
		out.Count(j.tag)
		f := strings.Fields(j.req)
		out.Add("ops.total", len(f)-1)
		runs := 0
		for _, t := range f[1:] {
			switch {
			case t == "RUN":
				runs++
			case t == "X":
				out.Count("ops.caller_edits_slices")
			case t[0] == 'T':
				out.Count("ops.handler_stopped")
			case t[0] == 'R':
				out.Count("ops.routerMw")
			case t[0] == 'H':
				out.Count("ops.handlerMw")
			case t[0] == 'A':
				spec, nm, named := strings.Cut(t, "=")
				if sp, _, sh := strings.Cut(spec, "@"); sh {
					spec = sp
					out.Count("handlers.shared_decorated_subscriber")
				}
				out.Count("ops.addHandler" + spec[len(spec)-1:]) // p n | d e: several outputs with equal / empty UUIDs | z: nil publisher | t: empty publish topic
				if named {
					out.Count("handlers.explicit_name")
					if nm == "-" {
						out.Count("handlers.empty_name")
					}
				}
			case t[0] == 'G':
				out.Count("ops.addPlugin")
			case t[0] == 'C':
				out.Count("ops.concurrent_block")
				out.Add("ops.concurrent_goroutines", strings.Count(t, "|")+1)
				out.Add("ops.concurrent_calls", strings.Count(t, "H"))
			case t[0] == 'P':
				out.Count("ops.pubDec")
				if strings.HasSuffix(t, "!") {
					out.Count("ops.decorator_failing_once")
				}
			case t[0] == 'S':
				out.Count("ops.subDec")
				if strings.HasSuffix(t, "!") {
					out.Count("ops.decorator_failing_once")
				}
			}
		}
		out.Count("runs." + strconv.Itoa(runs))
		if strings.Contains(res[i], "timeout") || strings.Contains(res[i], "panic") {
			fmt.Fprintln(os.Stderr, "unusual outcome:", j.req, "=>", res[i])
		}
	}
	if skipped > 0 {
		out.Note("stopped early after repeated timeouts or crashes: " + strconv.Itoa(skipped) + " generated cases not run")
		out.Add("skipped_after_timeouts", skipped)
	}
}
