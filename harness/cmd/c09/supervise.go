package main

// Supervisor: the cases run in a child process (this same binary with -worker) so that a panic inside a goroutine of
// the code under test – which cannot be recovered from outside – costs one child, not the run.  The child prints
// "START i" / "RES i <obs>" / "SKIP i" lines; when it dies the cases that were in flight are re-run one by one, each in
// its own child, and a case that kills its child gets the observation crash(<hex of the panic line>).

import (
	"bufio"
	"bytes"
	"fmt"
	"io"
	"os"
	"os/exec"
	"strconv"
	"strings"
	"sync"
	"sync/atomic"
)

const workerGoroutines = 8

// workerMain runs the requests of the file (one per line) and reports on stdout.
func workerMain(path string) {
	data, err := os.ReadFile(path)
	if err != nil {
		fmt.Fprintln(os.Stderr, err)
		os.Exit(2)
	}
	reqs := strings.Split(strings.TrimRight(string(data), "\n"), "\n")
	var mu sync.Mutex
	say := func(s string) {
		mu.Lock()
		os.Stdout.WriteString(s + "\n")
		mu.Unlock()
	}
	var stuck int32
	var wg sync.WaitGroup
	next := make(chan int)
	for w := 0; w < workerGoroutines; w++ {
		wg.Add(1)
		go func() {
			defer wg.Done()
			for i := range next {
				if atomic.LoadInt32(&stuck) > 3 {
					say("SKIP " + strconv.Itoa(i)) // enough cases hung already: do not spend the budget waiting for more
					continue
				}
				say("START " + strconv.Itoa(i))
				obs := runCase(reqs[i])
				if strings.Contains(obs, "timeout") || strings.Contains(obs, "/T/") {
					atomic.AddInt32(&stuck, 1)
				}
				say("RES " + strconv.Itoa(i) + " " + obs)
			}
		}()
	}
	for i := range reqs {
		next <- i
	}
	close(next)
	wg.Wait()
}

// child runs the given requests in one child process; returns observations by position ("" = no result),
// the positions that were started but not finished, and the panic line if the child died.
func child(reqs []string) (res []string, inflight []int, skipped []int, panicLine string, died bool) {
	res = make([]string, len(reqs))
	f, err := os.CreateTemp("", "wmverif-jobs-*")
	if err != nil {
		fmt.Fprintln(os.Stderr, err)
		os.Exit(2)
	}
	defer os.Remove(f.Name())
	f.WriteString(strings.Join(reqs, "\n") + "\n")
	f.Close()
	exe, _ := os.Executable()
	cmd := exec.Command(exe, "-worker", f.Name())
	gorace := os.Getenv("GORACE")
	cmd.Env = append(os.Environ(), "GORACE="+strings.TrimSpace(gorace+" atexit_sleep_ms=0"))
	stdout, _ := cmd.StdoutPipe()
	var errBuf bytes.Buffer
	cmd.Stderr = io.MultiWriter(os.Stderr, &errBuf)
	if err := cmd.Start(); err != nil {
		fmt.Fprintln(os.Stderr, err)
		os.Exit(2)
	}
	started := map[int]bool{}
	sc := bufio.NewScanner(stdout)
	sc.Buffer(make([]byte, 1<<20), 1<<28)
	for sc.Scan() {
		l := sc.Text()
		switch {
		case strings.HasPrefix(l, "START "):
			if i, err := strconv.Atoi(l[6:]); err == nil {
				started[i] = true
			}
		case strings.HasPrefix(l, "SKIP "):
			if i, err := strconv.Atoi(l[5:]); err == nil {
				skipped = append(skipped, i)
			}
		case strings.HasPrefix(l, "RES "):
			p := strings.SplitN(l[4:], " ", 2)
			if i, err := strconv.Atoi(p[0]); err == nil && len(p) == 2 && i < len(res) {
				res[i] = p[1]
				delete(started, i)
			}
		}
	}
	err = cmd.Wait()
	for i := range reqs {
		if started[i] {
			inflight = append(inflight, i)
		}
	}
	if len(inflight) > 0 || (err != nil && !raceExit(err)) {
		died = true
		for _, l := range strings.Split(errBuf.String(), "\n") {
			if strings.HasPrefix(l, "panic: ") || strings.HasPrefix(l, "fatal error: ") {
				panicLine = l
				break
			}
		}
		if panicLine == "" {
			panicLine = fmt.Sprint("child died: ", err)
		}
	}
	return
}

// the race detector makes the child exit with the configured exit code after reporting; that is not a crash
func raceExit(err error) bool {
	if ee, ok := err.(*exec.ExitError); ok {
		return ee.ExitCode() == 66
	}
	return false
}

// runJobs returns one observation per request; "" = not run (stopped early after repeated hangs or crashes).
func runJobs(reqs []string) []string {
	out := make([]string, len(reqs))
	pending := make([]int, len(reqs))
	for i := range pending {
		pending[i] = i
	}
	crashes := 0
	for len(pending) > 0 && crashes <= 3 {
		batch := make([]string, len(pending))
		for k, i := range pending {
			batch[k] = reqs[i]
		}
		res, inflight, skipped, _, died := child(batch)
		done := map[int]bool{}
		for k, r := range res {
			if r != "" {
				out[pending[k]] = r
				done[k] = true
			}
		}
		for _, k := range skipped {
			done[k] = true
		}
		if !died {
			break
		}
		// find out which of the in-flight cases kills a process: one child each, side by side
		var wg sync.WaitGroup
		var mu sync.Mutex
		for _, k := range inflight {
			k := k
			wg.Add(1)
			go func() {
				defer wg.Done()
				r1, in1, _, pl, d1 := child([]string{batch[k]})
				mu.Lock()
				defer mu.Unlock()
				switch {
				case r1[0] != "":
					out[pending[k]] = r1[0]
				case d1 || len(in1) > 0:
					out[pending[k]] = "crash(" + hexText(pl) + ")"
					crashes++
				}
				done[k] = true
			}()
		}
		wg.Wait()
		var rest []int
		for k, i := range pending {
			if !done[k] {
				rest = append(rest, i)
			}
		}
		if len(rest) == len(pending) { // no progress (the child dies before starting anything)
			break
		}
		pending = rest
	}
	return out
}

func hexText(s string) string {
	if s == "" {
		return "-"
	}
	return fmt.Sprintf("%x", s)
}
