// Harness for C12: drives middleware.Retry of the real code (real clock, real back-off library).
//
//	REQ retry mr=<int> init=<ns> max=<ns> mul=<p>/<q> rf=<a>/<b> el=<ns> hook=<0|1> log=<0|1> outs=<o0>,… cancel=<j|-> ctxend=<call|pre|deadline|-> sleep=<j>:<ns>|-
//	          conc=<M>:<idx>:<stagger ns>|-   (M messages concurrently through one middleware instance; this case reports message idx)
//	          pass=<P>:<idx>|-                (the same message object handled P times in a row; this case reports pass idx)
//	          n=<calls> d=<delays reported to OnRetryHook> ts=<start of call i>,… te=<end of call i>,… tr=<return>
//	          tq=<when the context was first asked for its deadline/Done after call 0 | ->
//	OBS n=<calls> hooks=<num>:<delay>,…|- res=<msgs|->/<err|-> time=ok
//
// Inputs are everything up to sleep=; the rest of the request is recorded from the run (time stamps in ns since the
// start of call 0, monotonic clock).  The Lean driver explains the recorded run with the model (exact: number of
// calls, hook numbers, reported delays reproducible by a draw in [0,1), returned messages and error identity; by
// inequality only: gaps between calls >= the wait, no call begun after MaxElapsedTime, early give-up only when the
// context can have ended).  Nothing here asserts an upper bound on real elapsed time.
//
// outs: f<k> = the call fails (u<k>: with an error value of an uncomparable type, c<k>: with an error wrapping context.Canceled, d<k>: with its own time-out's DeadlineExceeded),
// s<k> = it succeeds, returning k messages; call i returns the messages with the UUIDs
// "i.0" … and, when it fails, the error object e<i>.
package main

import (
	"context"
	"fmt"
	"os"
	"runtime"
	"strconv"
	"strings"
	"sync"
	"time"

	"github.com/ThreeDotsLabs/watermill"
	"github.com/ThreeDotsLabs/watermill/message"
	"github.com/ThreeDotsLabs/watermill/message/router/middleware"

	"wmverif/wh"
)

type outcome struct {
	ok   bool
	nout int
	kind byte // of a failing call: 0/'f' = a plain error, 'u' = an error value of an uncomparable type (slice / struct with a map),
	// 'c' = an error wrapping context.Canceled, 'd' = the call's own
	// time-out (a context derived from the live message context) ran out: an error wrapping context.DeadlineExceeded
}

type tcase struct {
	mr         int
	init, max  int64
	mulP, mulQ int64
	rfA, rfB   int64
	el         int64
	hook       bool
	logger     bool // Retry.Logger set (watermill.NopLogger)
	outs       []outcome
	cancel     int    // -1 = never; the message context ends during call j
	ctxEnd     string // how: "call" = cancel() from inside call j, "pre" = cancelled before Retry is invoked (j = 0),
	// "deadline" = the context carries a deadline and call j returns only after it has passed
	sleepAt int   // -1 = never
	sleepNs int64 //
	concN   int   // messages sent concurrently through one middleware instance (0/1 = a single message)
	concIdx int   // which of them this case reports
	stagger int64 // start offset between them, ns
	passes  int   // the same message object is handled this many times in a row (0/1 = once)
	passIdx int   // which of the passes this case reports
	group   string
}

type hookCall struct {
	num   int
	delay int64
}

type rec struct {
	n      int
	hooks  []hookCall
	ts, te []int64
	tr     int64
	ended  int   // first call at whose end the message context was found ended (-1: none)
	tq     int64 // first time the context was asked for its deadline / Done after call 0 (-1: never)
	msgs   string
	err    string
	panicV string
}

func (c tcase) inputs() string {
	outs := make([]string, len(c.outs))
	for i, o := range c.outs {
		k := "f"
		if o.ok {
			k = "s"
		} else if o.kind == 'c' || o.kind == 'd' || o.kind == 'u' {
			k = string(o.kind)
		}
		outs[i] = k + strconv.Itoa(o.nout)
	}
	cancel, sleep, ctxEnd := "-", "-", "-"
	if c.cancel >= 0 {
		cancel = strconv.Itoa(c.cancel)
		ctxEnd = c.ctxEnd
		if ctxEnd == "" {
			ctxEnd = "call"
		}
	}
	if c.sleepAt >= 0 {
		sleep = fmt.Sprintf("%d:%d", c.sleepAt, c.sleepNs)
	}
	hk, lg := 0, 0
	if c.hook {
		hk = 1
	}
	if c.logger {
		lg = 1
	}
	conc := "-"
	if c.concN > 1 {
		conc = fmt.Sprintf("%d:%d:%d", c.concN, c.concIdx, c.stagger)
	}
	pass := "-"
	if c.passes > 1 {
		pass = fmt.Sprintf("%d:%d", c.passes, c.passIdx)
	}
	return fmt.Sprintf("retry mr=%d init=%d max=%d mul=%d/%d rf=%d/%d el=%d hook=%d log=%d outs=%s cancel=%s ctxend=%s sleep=%s conc=%s pass=%s",
		c.mr, c.init, c.max, c.mulP, c.mulQ, c.rfA, c.rfB, c.el, hk, lg, strings.Join(outs, ","), cancel, ctxEnd, sleep, conc, pass)
}

func joinI(xs []int64) string {
	if len(xs) == 0 {
		return "-"
	}
	p := make([]string, len(xs))
	for i, x := range xs {
		p[i] = strconv.FormatInt(x, 10)
	}
	return strings.Join(p, ",")
}

func (c tcase) req(r rec) string {
	if c.cancel >= 0 && c.ctxEnd == "deadline" && r.ended >= 0 {
		c.cancel = r.ended // when a deadline falls is a matter of time: the request names the call during which it was seen to fall
	}
	d := make([]int64, len(r.hooks))
	for i, h := range r.hooks {
		d[i] = h.delay
	}
	tq := "-"
	if r.tq >= 0 {
		tq = strconv.FormatInt(r.tq, 10)
	}
	return fmt.Sprintf("%s n=%d d=%s ts=%s te=%s tr=%d tq=%s", c.inputs(), r.n, joinI(d), joinI(r.ts), joinI(r.te), r.tr, tq)
}

func (r rec) obs() string {
	if r.panicV != "" {
		return r.panicV
	}
	hk := "-"
	if len(r.hooks) > 0 {
		p := make([]string, len(r.hooks))
		for i, h := range r.hooks {
			p[i] = fmt.Sprintf("%d:%d", h.num, h.delay)
		}
		hk = strings.Join(p, ",")
	}
	return fmt.Sprintf("n=%d hooks=%s res=%s/%s time=ok", r.n, hk, r.msgs, r.err)
}

// error values of uncomparable dynamic types, as validation libraries and home-made multi-errors return them
type listErr []string

func (e listErr) Error() string { return strings.Join(e, "; ") }

type fieldErr struct {
	call   string
	fields map[string]string
}

func (e fieldErr) Error() string { return fmt.Sprintf("%s: %d invalid fields", e.call, len(e.fields)) }

func comparableErr(e error) bool {
	switch e.(type) {
	case listErr, fieldErr:
		return false
	}
	return true
}

// obsCtx is the message's context; it notes when the code under test first asks it for its deadline or its Done
// channel after the first call failed: context.WithTimeout(ctx, MaxElapsedTime) asks for the deadline (after it has read
// the clock), a select on the bare context asks for Done – either way the MaxElapsedTime budget has started by then.
type obsCtx struct {
	context.Context
	note func()
}

func (c obsCtx) Deadline() (time.Time, bool) { c.note(); return c.Context.Deadline() }
func (c obsCtx) Done() <-chan struct{}       { c.note(); return c.Context.Done() }

// goid: the hook does not say which message it is called for; it runs on the goroutine that handles the message.
func goid() string {
	var buf [64]byte
	f := strings.Fields(string(buf[:runtime.Stack(buf[:], false)]))
	if len(f) >= 2 {
		return f[1]
	}
	return "?"
}

// one message in flight
type flight struct {
	r      rec
	base   time.Time
	calls  int
	cancel func()
	ctx    context.Context
	ended  int
	tq     int64
	errs   []error
}

// runScenario sends c.concN messages (staggered by c.stagger) through ONE middleware instance wrapping ONE handler
// and returns what was seen for each of them.
func runScenario(c tcase) []rec {
	n := c.concN
	if n < 1 {
		n = 1
	}
	var mu sync.Mutex
	byMsg := map[string]*flight{}
	byGo := map[string]*flight{}
	h := func(m *message.Message) ([]*message.Message, error) {
		now := time.Now()
		mu.Lock()
		f := byMsg[m.UUID]
		byGo[goid()] = f
		i := f.calls
		f.calls++
		if i == 0 {
			f.base = now
		}
		f.r.ts = append(f.r.ts, int64(now.Sub(f.base)))
		mu.Unlock()
		if i == c.sleepAt {
			time.Sleep(time.Duration(c.sleepNs))
		}
		if i == c.cancel {
			if c.ctxEnd == "deadline" {
				<-f.ctx.Done() // the deadline falls during this call
			} else {
				f.cancel()
			}
		}
		o := outcome{ok: false}
		if i < len(c.outs) {
			o = c.outs[i]
		}
		var produced []*message.Message
		for j := 0; j < o.nout; j++ {
			produced = append(produced, message.NewMessage(fmt.Sprintf("%d.%d", i, j), nil))
		}
		var err error
		if !o.ok {
			switch o.kind {
			case 'c': // the handler reports a cancellation of something of its own; the message context is alive
				err = fmt.Errorf("e%d: %w", i, context.Canceled)
			case 'u': // an error value of an uncomparable dynamic type (legal: `error` only asks for Error() string)
				if c.mr%2 == 0 { // one type throughout a case: consecutive failures then carry values of the same dynamic type
					err = listErr{"e" + strconv.Itoa(i), "second problem"}
				} else {
					err = fieldErr{call: "e" + strconv.Itoa(i), fields: map[string]string{"name": "empty"}}
				}
			case 'd': // the handler's own per-call time-out
				cctx, ccancel := context.WithTimeout(f.ctx, time.Microsecond)
				<-cctx.Done()
				err = fmt.Errorf("e%d: %w", i, cctx.Err())
				ccancel()
			}
			mu.Lock()
			if err != nil && i < len(f.errs) {
				f.errs[i] = err
			}
			err = f.errs[i%len(f.errs)]
			mu.Unlock()
		}
		mu.Lock()
		f.r.te = append(f.r.te, int64(time.Since(f.base)))
		if f.ended < 0 && f.ctx.Err() != nil {
			f.ended = i
		}
		mu.Unlock()
		return produced, err
	}
	mw := middleware.Retry{
		MaxRetries:          c.mr,
		InitialInterval:     time.Duration(c.init),
		MaxInterval:         time.Duration(c.max),
		Multiplier:          float64(c.mulP) / float64(c.mulQ),
		MaxElapsedTime:      time.Duration(c.el),
		RandomizationFactor: float64(c.rfA) / float64(c.rfB),
	}
	if c.logger {
		mw.Logger = watermill.NopLogger{}
	}
	if c.hook {
		mw.OnRetryHook = func(retryNum int, delay time.Duration) {
			mu.Lock()
			if f := byGo[goid()]; f != nil {
				f.r.hooks = append(f.r.hooks, hookCall{retryNum, int64(delay)})
			}
			mu.Unlock()
		}
	}
	wrapped := mw.Middleware(h) // one instance for all messages of the scenario
	flights := make([]*flight, n)
	msgs := make([]*message.Message, n)
	for k := 0; k < n; k++ {
		f := &flight{tq: -1, ended: -1}
		f.errs = make([]error, len(c.outs)+4)
		for i := range f.errs {
			f.errs[i] = fmt.Errorf("e%d", i)
		}
		ctx, cancel := context.WithCancel(context.Background())
		if c.cancel >= 0 && c.ctxEnd == "deadline" {
			ctx, cancel = context.WithTimeout(context.Background(), 30*time.Millisecond)
		}
		f.cancel, f.ctx = cancel, ctx
		msg := message.NewMessage(fmt.Sprintf("m%d", k), []byte("payload"))
		uuid := msg.UUID
		msg.SetContext(obsCtx{ctx, func() {
			mu.Lock()
			if f := byMsg[uuid]; f != nil && f.calls > 0 && f.tq < 0 {
				f.tq = int64(time.Since(f.base))
			}
			mu.Unlock()
		}})
		flights[k], msgs[k] = f, msg
		byMsg[msg.UUID] = f
	}
	passes := c.passes
	if passes < 1 || n > 1 {
		passes = 1
	}
	perPass := make([]rec, passes) // of message 0, when the same message object is handled several times in a row
	var wg sync.WaitGroup
	for k := 0; k < n; k++ {
		k := k
		wg.Add(1)
		go func() {
			defer wg.Done()
			f := flights[k]
			time.Sleep(time.Duration(int64(k) * c.stagger))
			if c.cancel == 0 && c.ctxEnd == "pre" {
				f.cancel() // the message arrives with its context already cancelled
			}
			for pass := 0; pass < passes; pass++ {
				if pass > 0 {
					// the SAME message object is handled again (redelivery, an outer layer calling the handler again); the caller has
					// not touched it in between: its context is the one set before the first pass and is still alive
					nf := &flight{tq: -1, ended: -1, ctx: f.ctx, cancel: f.cancel}
					nf.errs = make([]error, len(c.outs)+4)
					for i := range nf.errs {
						nf.errs[i] = fmt.Errorf("e%d", i)
					}
					mu.Lock()
					byMsg[msgs[k].UUID] = nf
					flights[k] = nf
					mu.Unlock()
					f = nf
				}
				func() {
					var produced []*message.Message
					var err error
					func() {
						defer func() {
							if v := recover(); v != nil {
								f.r.panicV = wh.PanicText(v)
							}
						}()
						produced, err = wrapped(msgs[k])
					}()
					mu.Lock()
					defer mu.Unlock()
					r := &f.r
					r.tr = int64(time.Since(f.base))
					r.tq = f.tq
					r.ended = f.ended
					if r.ended < 0 && f.ctx.Err() != nil && c.cancel >= 0 {
						r.ended = f.calls - 1 // it ended between two calls
					}
					r.n = f.calls
					if len(produced) == 0 {
						r.msgs = "-"
					} else {
						p := make([]string, len(produced))
						for i, m := range produced {
							p[i] = m.UUID
						}
						r.msgs = strings.Join(p, "+")
					}
					r.err = "?"
					if err == nil {
						r.err = "-"
					} else {
						switch v := err.(type) { // never `==` on values that may be uncomparable
						case listErr:
							if len(v) > 0 {
								r.err = v[0]
							}
						case fieldErr:
							r.err = v.call
						default:
							for i, e := range f.errs {
								if comparableErr(e) && err == e {
									r.err = "e" + strconv.Itoa(i)
								}
							}
						}
						if r.err == "?" {
							r.err = "?" + wh.HexS(err.Error())
						}
					}
					perPass[pass%len(perPass)] = *r
				}()
			}
			f.cancel()
		}()
	}
	wg.Wait()
	if passes > 1 {
		return perPass
	}
	out := make([]rec, n)
	for k := range flights {
		out[k] = flights[k].r
	}
	return out
}

// A select whose two alternatives are both ready may legitimately take the timer; for that the goroutine must have
// stalled for the whole wait (>= 10 ms in the cancellation cases) between creating the timer and entering the select,
// or the delivery of the context's expiry must have been later than a timer due >= 25 ms after it. suspicious says that a
// run shows a call which only such a stall explains; runFiltered re-runs such a scenario twice before it is reported.
const budgetSlack = 25 * int64(time.Millisecond)

func (c tcase) suspicious(r rec) bool {
	j := c.cancel
	if j >= 0 && c.ctxEnd == "deadline" && r.ended >= 0 {
		j = r.ended
	}
	if j >= 0 && r.n > j+1 {
		return true
	}
	if c.el > 0 {
		for k := 1; k < r.n && k < len(r.ts) && k-1 < len(r.te); k++ {
			var d, d1 int64
			if k-1 < len(r.hooks) {
				d = r.hooks[k-1].delay
			}
			if len(r.hooks) > 0 {
				d1 = r.hooks[0].delay
			}
			bound := r.tq
			if bound < 0 {
				if k < 2 {
					continue
				}
				bound = r.ts[1] - d1
			}
			if r.te[k-1]+d > bound+c.el+budgetSlack {
				return true
			}
		}
	}
	return false
}

func runFiltered(c tcase, out *wh.Out) []rec {
	rs := runScenario(c)
	for try := 0; try < 2; try++ {
		sus := false
		for _, r := range rs {
			sus = sus || c.suspicious(r)
		}
		if !sus {
			break
		}
		out.Count("rerun.call_after_context_end")
		out.Note("re-run (a call was made after the context ended): " + c.inputs())
		rs = runScenario(c)
	}
	return rs
}

func parseCase(line string) (tcase, error) {
	c := tcase{cancel: -1, sleepAt: -1, hook: true, mulQ: 1, rfB: 1}
	f := strings.Fields(line)
	if len(f) < 1 || f[0] != "retry" {
		return c, fmt.Errorf("not a retry request")
	}
	fr := func(s string) (int64, int64, error) {
		p := strings.Split(s, "/")
		if len(p) != 2 {
			return 0, 0, fmt.Errorf("fraction %q", s)
		}
		a, e1 := strconv.ParseInt(p[0], 10, 64)
		b, e2 := strconv.ParseInt(p[1], 10, 64)
		if e1 != nil || e2 != nil || b == 0 {
			return 0, 0, fmt.Errorf("fraction %q", s)
		}
		return a, b, nil
	}
	for _, t := range f[1:] {
		kv := strings.SplitN(t, "=", 2)
		if len(kv) != 2 {
			return c, fmt.Errorf("token %q", t)
		}
		var err error
		switch kv[0] {
		case "mr":
			c.mr, err = strconv.Atoi(kv[1])
		case "init":
			c.init, err = strconv.ParseInt(kv[1], 10, 64)
		case "max":
			c.max, err = strconv.ParseInt(kv[1], 10, 64)
		case "el":
			c.el, err = strconv.ParseInt(kv[1], 10, 64)
		case "mul":
			c.mulP, c.mulQ, err = fr(kv[1])
		case "rf":
			c.rfA, c.rfB, err = fr(kv[1])
		case "hook":
			c.hook = kv[1] == "1"
		case "log":
			c.logger = kv[1] == "1"
		case "outs":
			for _, o := range strings.Split(kv[1], ",") {
				if len(o) < 2 || !strings.ContainsRune("fscdu", rune(o[0])) {
					return c, fmt.Errorf("outcome %q", o)
				}
				k, e := strconv.Atoi(o[1:])
				if e != nil {
					return c, e
				}
				c.outs = append(c.outs, outcome{o[0] == 's', k, o[0]})
			}
		case "ctxend":
			if kv[1] != "-" {
				c.ctxEnd = kv[1]
			}
		case "cancel":
			if kv[1] != "-" {
				c.cancel, err = strconv.Atoi(kv[1])
			}
		case "sleep":
			if kv[1] != "-" {
				p := strings.Split(kv[1], ":")
				if len(p) != 2 {
					return c, fmt.Errorf("sleep %q", kv[1])
				}
				c.sleepAt, err = strconv.Atoi(p[0])
				if err == nil {
					c.sleepNs, err = strconv.ParseInt(p[1], 10, 64)
				}
			}
		case "conc":
			if kv[1] != "-" {
				p := strings.Split(kv[1], ":")
				if len(p) != 3 {
					return c, fmt.Errorf("conc %q", kv[1])
				}
				c.concN, err = strconv.Atoi(p[0])
				if err == nil {
					c.concIdx, err = strconv.Atoi(p[1])
				}
				if err == nil {
					c.stagger, err = strconv.ParseInt(p[2], 10, 64)
				}
			}
		case "pass":
			if kv[1] != "-" {
				p := strings.Split(kv[1], ":")
				if len(p) != 2 {
					return c, fmt.Errorf("pass %q", kv[1])
				}
				c.passes, err = strconv.Atoi(p[0])
				if err == nil {
					c.passIdx, err = strconv.Atoi(p[1])
				}
			}
		case "n", "d", "ts", "te", "tr", "tq": // recorded part of an earlier run: taken anew
		default:
			return c, fmt.Errorf("key %q", kv[0])
		}
		if err != nil {
			return c, err
		}
	}
	return c, nil
}

const (
	us = int64(time.Microsecond)
	ms = int64(time.Millisecond)
)

func calls(mr int) int { // number of handler calls the code can make
	if mr < 1 {
		return 2
	}
	return 1 + mr
}

// outsFor: fail^i then succeed (i < total) or fail forever (i >= total); nout(i) outputs for call i.
func outsFor(total, okAt int, nout func(i int) int) []outcome {
	o := make([]outcome, total)
	for i := range o {
		o[i] = outcome{ok: i == okAt, nout: nout(i)}
	}
	return o
}

func generate(a wh.Args) []tcase {
	var cs []tcase
	rng := wh.NewRng(a.Seed)
	thorough := a.Thorough()
	nouts := func(r *wh.Rng) func(int) int {
		k := r.Intn(4)
		return func(i int) int {
			switch k {
			case 0:
				return 0
			case 1:
				return 1
			case 2:
				return i % 3
			}
			return 2
		}
	}

	// (1) the logic, exhaustively, with zero intervals (no waiting): MaxRetries -1..8 x first success at 0..calls / never x hook
	for mr := -1; mr <= 8; mr++ {
		t := calls(mr)
		for okAt := 0; okAt <= t; okAt++ {
			for _, hook := range []bool{true, false} {
				if !hook && okAt%3 != 0 {
					continue
				}
				cs = append(cs, tcase{mr: mr, init: 0, max: 0, mulP: 1, mulQ: 1, rfA: 0, rfB: 1, hook: hook,
					outs: outsFor(t, okAt, nouts(rng)), cancel: -1, sleepAt: -1, group: "logic"})
			}
		}
	}

	// (2) cancellation from inside call j, every j, with waits long enough (>= 10 ms) that the select after the
	// cancelling call finds only ctx.Done() ready
	for mr := 1; mr <= 8; mr++ {
		if !thorough && (mr == 5 || mr == 7) {
			continue
		}
		t := calls(mr)
		for j := 0; j < t; j++ {
			for _, okAt := range []int{t, j, j + 1} { // never succeeds / the cancelling call succeeds / the next one would
				if okAt > t || (okAt == j+1 && j+1 >= t) {
					continue
				}
				initMs := int64(20 + 4*rng.Intn(6))
				c := tcase{mr: mr, init: initMs * ms, max: 2 * initMs * ms, mulP: 1, mulQ: 1, rfA: int64(rng.Intn(2)), rfB: 2, hook: true,
					outs: outsFor(t, okAt, nouts(rng)), cancel: j, sleepAt: -1, group: "cancel",
					el: []int64{0, 10000 * ms, 3600000 * ms}[rng.Intn(3)]} // also with a (far) MaxElapsedTime: the derived context must still follow the message's
				if j >= 2 { // keep the waits before the cancelling call short: 10·3^(j-1) ms only for the last one
					c.init, c.max, c.mulP, c.rfA = 2*ms, 5000*ms, 3, 0
					if j >= 4 {
						c.init = 200 * us
					}
					if j >= 6 {
						c.init = 30 * us
					}
				}
				cs = append(cs, c)
			}
		}
	}

	// (2b) the context ends while the wait is exactly 0 (InitialInterval unset, or MaxInterval 0 from the second retry on):
	// the select is between a closed ctx.Done() and time.After(0). Go may take either when both are ready, so ONE call
	// after the context ended is accepted (rare); the message must not go on using up its retries. The context ends by
	// cancel() inside call j, by being cancelled before Retry is invoked, or by a deadline that falls during call j.
	for mr := 2; mr <= 8; mr++ {
		t := calls(mr)
		for j := 0; j+2 <= mr; j++ {
			kinds := []string{"call", "deadline"}
			if j == 0 {
				kinds = append(kinds, "pre")
			}
			for ki, kind := range kinds {
				if !thorough && (mr+j+ki)%2 == 1 && kind != "pre" {
					continue
				}
				c := tcase{mr: mr, init: 0, max: 0, mulP: []int64{1, 2}[rng.Intn(2)], mulQ: 1, rfA: int64(rng.Intn(2)), rfB: 2, hook: rng.Intn(6) > 0,
					outs: outsFor(t, []int{t, t, j + 2}[rng.Intn(3)], nouts(rng)), cancel: j, ctxEnd: kind, sleepAt: -1, group: "cancel.zero",
					el: []int64{0, 10000 * ms, 3600000 * ms}[rng.Intn(3)]}
				if j >= 1 && rng.Intn(3) == 0 { // a first wait of 1 ms, then MaxInterval 0 makes every later wait 0
					c.init = 1 * ms
				}
				cs = append(cs, c)
			}
		}
	}

	// (2c) the handler's errors are, or wrap, context.Canceled / context.DeadlineExceeded (its own per-call time-out, a
	// cancelled sub-operation) while the message context is alive: they are failures like any other and are retried
	for mr := 1; mr <= 8; mr++ {
		t := calls(mr)
		for v := 0; v < 4; v++ {
			if !thorough && (mr+v)%2 == 1 {
				continue
			}
			okAt := []int{t, t - 1, 2, 1}[v]
			if okAt > t {
				okAt = t
			}
			outs := outsFor(t, okAt, nouts(rng))
			for i := range outs {
				outs[i].kind = "cdcf"[(i+v+mr)%4]
			}
			outs[0].kind = "cd"[v%2]
			cs = append(cs, tcase{mr: mr, init: []int64{0, 100 * us, 1 * ms}[rng.Intn(3)], max: 2 * ms, mulP: 2, mulQ: 1, rfA: int64(rng.Intn(2)), rfB: 2,
				el: []int64{0, 0, 10000 * ms}[rng.Intn(3)], hook: true, outs: outs, cancel: -1, sleepAt: -1, group: "ctxerr"})
		}
	}

	// (2d) the SAME message object goes through the Retry-wrapped handler two or three times in a row (redelivery of the message
	// object, an outer layer invoking the handler again), the caller leaving its context alone: every pass has the full
	// MaxRetries and its own MaxElapsedTime budget - Retry must not leave anything on the message that ends the next pass
	nPass := 10
	if thorough {
		nPass = 60
	}
	for i := 0; i < nPass; i++ {
		mr := 1 + rng.Intn(6)
		t := calls(mr)
		cs = append(cs, tcase{mr: mr, init: []int64{0, 1 * ms, 12 * ms}[i%3], max: 12 * ms, mulP: 1, mulQ: 1, rfA: 0, rfB: 1,
			el: []int64{10000 * ms, 3600000 * ms, 0, 10000 * ms}[i%4], hook: true,
			outs: outsFor(t, []int{t, t, t - 1, 1}[rng.Intn(4)], nouts(rng)), cancel: -1, sleepAt: -1,
			passes: 2 + i%2, group: "repass"})
	}

	// (2e) handler errors of uncomparable dynamic types (a slice-typed error list, a struct with a map field), with a Logger
	// set and at least two failed retries: Retry only passes errors on, it must not compare, hash or otherwise inspect them
	for mr := 2; mr <= 8; mr++ {
		t := calls(mr)
		for v := 0; v < 3; v++ {
			if !thorough && (mr+v)%2 == 1 {
				continue
			}
			outs := outsFor(t, []int{t, t - 1, 3}[v], nouts(rng))
			for i := range outs {
				outs[i].kind = "uuuf"[(i+v)%4]
			}
			cs = append(cs, tcase{mr: mr, init: []int64{0, 200 * us}[rng.Intn(2)], max: 1 * ms, mulP: 2, mulQ: 1, rfA: 0, rfB: 1,
				hook: true, outs: outs, cancel: -1, sleepAt: -1, group: "errtype"})
		}
	}

	// (3) back-off schedule: random configurations, intervals 0..3 ms, multipliers {1, 3/2, 2, 3}, rf {0, 1/2, 1}
	nRand := 260
	if thorough {
		nRand = 30000
	}
	inits := []int64{0, 1, 3, 1000, 50 * us, 200 * us, 500 * us, 1 * ms, 1*ms + 1, 1500 * us, 2 * ms, 3 * ms}
	muls := [][2]int64{{1, 1}, {3, 2}, {2, 1}, {3, 1}}
	rfs := [][2]int64{{0, 1}, {1, 2}, {1, 1}}
	maxMrRand := 8
	if thorough { // also values outside the ranges named in the property (all exactly representable as float64)
		muls = append(muls, [2]int64{5, 4}, [2]int64{4, 1}, [2]int64{7, 4})
		rfs = append(rfs, [2]int64{1, 4}, [2]int64{3, 4})
		inits = append(inits, 4*ms, 5*ms, 999983, 7)
		maxMrRand = 12
	}
	for i := 0; i < nRand; i++ {
		mr := 1 + rng.Intn(maxMrRand)
		t := calls(mr)
		init := inits[rng.Intn(len(inits))]
		max := []int64{init, 2 * init, 3 * ms, 5 * ms, 4*ms + 7}[rng.Intn(5)]
		if max < init {
			max = init
		}
		m := muls[rng.Intn(len(muls))]
		rf := rfs[rng.Intn(len(rfs))]
		okAt := t // fail forever
		if rng.Intn(3) > 0 {
			okAt = rng.Intn(t + 1)
		}
		cs = append(cs, tcase{mr: mr, init: init, max: max, mulP: m[0], mulQ: m[1], rfA: rf[0], rfB: rf[1], hook: rng.Intn(8) > 0,
			outs: outsFor(t, okAt, nouts(rng)), cancel: -1, sleepAt: -1, group: "schedule"})
	}

	// (4) MaxElapsedTime: a call sleeps 5x MaxElapsedTime, so the back-off reports Stop right after it
	nEl := 3
	if thorough {
		nEl = 8
	}
	for mr := 2; mr <= 2+nEl; mr++ {
		t := calls(mr)
		for j := 0; j < t && j <= 4; j++ {
			el := 30 * ms
			c := tcase{mr: mr, init: []int64{0, 100 * us, 300 * us}[rng.Intn(3)], max: 1 * ms, mulP: 2, mulQ: 1, rfA: int64(rng.Intn(2)), rfB: 2,
				el: el, hook: true, outs: outsFor(t, []int{t, j + 1, t - 1}[rng.Intn(3)], nouts(rng)), cancel: -1,
				sleepAt: j, sleepNs: 5 * el, group: "elapsed.sleep"}
			cs = append(cs, c)
		}
	}
	// MaxElapsedTime shorter than the sum of the waits (the context's deadline cuts a wait short), and far longer (no effect)
	nEl2 := 12
	if thorough {
		nEl2 = 600
	}
	for i := 0; i < nEl2; i++ {
		mr := 2 + rng.Intn(7)
		t := calls(mr)
		init := []int64{1 * ms, 2 * ms, 3 * ms}[rng.Intn(3)]
		el := []int64{2 * ms, 5 * ms, 12 * ms, 10000 * ms}[rng.Intn(4)]
		m := muls[rng.Intn(len(muls))]
		rf := rfs[rng.Intn(2)]
		cs = append(cs, tcase{mr: mr, init: init, max: 6 * ms, mulP: m[0], mulQ: m[1], rfA: rf[0], rfB: rf[1], el: el, hook: true,
			outs: outsFor(t, []int{t, t - 1}[rng.Intn(2)], nouts(rng)), cancel: -1, sleepAt: -1, group: "elapsed.short"})
	}

	// MaxElapsedTime equal to every wait (rf 0, multiplier 1): the timer and the context's deadline fall due together and the
	// next NextBackOff reports Stop at once; whichever the select takes, at most one retry is made (this is where a missing
	// Stop check shows: time.After(-1ns) against a context that is only just expiring)
	nEdge := 16
	if thorough {
		nEdge = 600
	}
	for i := 0; i < nEdge; i++ {
		mr := 3 + rng.Intn(6)
		t := calls(mr)
		el := []int64{500 * us, 1 * ms, 2 * ms, 3 * ms}[rng.Intn(4)]
		cs = append(cs, tcase{mr: mr, init: el, max: el, mulP: 1, mulQ: 1, rfA: 0, rfB: 1, el: el, hook: true,
			outs: outsFor(t, t, nouts(rng)), cancel: -1, sleepAt: -1, group: "elapsed.edge"})
	}

	// MaxElapsedTime running out DURING a wait, decided by counting: the wait before call k is far longer (>= 40 ms) than
	// what is left of the budget, so the context's deadline wakes Retry long before the timer and call k is never made.
	// Lateness cannot produce the extra call (it only makes everything later); the model predicts the number of calls.
	type ew struct {
		init, max, el int64
		mulP          int64
	}
	ews := []ew{
		{300 * ms, 300 * ms, 60 * ms, 1},  // first wait 300 ms, budget 60 ms: no retry at all
		{20 * ms, 1000 * ms, 100 * ms, 2}, // waits 20, 40, (80): two retries, the third wait is cut at 100 ms
		{10 * ms, 1000 * ms, 70 * ms, 3},  // waits 10, 30, (90): two retries
		{25 * ms, 25 * ms, 90 * ms, 1},    // waits 25, 25, 25, (25 -> due at 100, only 10 ms late: either outcome is accepted)
		{150 * ms, 150 * ms, 50 * ms, 1},
	}
	for i, e := range ews {
		reps := 1
		if thorough {
			reps = 4
		}
		for rep := 0; rep < reps; rep++ {
			mr := 4 + rng.Intn(5)
			t := calls(mr)
			cs = append(cs, tcase{mr: mr, init: e.init, max: e.max, mulP: e.mulP, mulQ: 1, rfA: 0, rfB: 1, el: e.el, hook: true,
				outs: outsFor(t, []int{t, t - 1}[(i+rep)%2], nouts(rng)), cancel: -1, sleepAt: -1, group: "elapsed.wait"})
		}
	}

	// several messages failing concurrently through ONE middleware instance (same Retry value, same wrapped handler),
	// staggered so that one message starts retrying while the others are deep in their interval sequence; every message
	// must follow its own back-off schedule (RandomizationFactor 0: exactly init * mult^(k-1))
	nConc := 6
	if thorough {
		nConc = 30
	}
	for i := 0; i < nConc; i++ {
		mr := 3 + rng.Intn(3)
		t := calls(mr)
		init := []int64{4 * ms, 6 * ms, 10 * ms}[rng.Intn(3)]
		rf := [][2]int64{{0, 1}, {0, 1}, {1, 2}}[rng.Intn(3)]
		cs = append(cs, tcase{mr: mr, init: init, max: 1000 * ms, mulP: 2, mulQ: 1, rfA: rf[0], rfB: rf[1], hook: true,
			outs: outsFor(t, []int{t, t, t - 1}[rng.Intn(3)], nouts(rng)), cancel: -1, sleepAt: -1,
			concN: 2 + rng.Intn(3), stagger: init*2 + init/2, group: "concurrent"})
	}

	// (5) malformed / unusual configurations: InitialInterval > MaxInterval, Multiplier < 1, MaxInterval 0, MaxRetries <= 0 with waits
	odd := []tcase{
		{mr: 3, init: 2 * ms, max: 1 * ms, mulP: 2, mulQ: 1, rfA: 0, rfB: 1},
		{mr: 3, init: 2 * ms, max: 1 * ms, mulP: 3, mulQ: 2, rfA: 1, rfB: 2},
		{mr: 4, init: 2 * ms, max: 3 * ms, mulP: 1, mulQ: 2, rfA: 0, rfB: 1},
		{mr: 4, init: 1 * ms, max: 0, mulP: 2, mulQ: 1, rfA: 1, rfB: 2},
		{mr: 0, init: 1 * ms, max: 2 * ms, mulP: 2, mulQ: 1, rfA: 1, rfB: 2},
		{mr: -3, init: 1 * ms, max: 2 * ms, mulP: 2, mulQ: 1, rfA: 1, rfB: 1},
		{mr: 5, init: 7, max: 100, mulP: 3, mulQ: 2, rfA: 1, rfB: 2},
		{mr: 8, init: 1*ms + 1, max: 100 * ms, mulP: 3, mulQ: 2, rfA: 1, rfB: 2},
	}
	for _, c := range odd {
		for _, okAt := range []int{calls(c.mr), calls(c.mr) - 1} {
			c := c
			c.hook, c.cancel, c.sleepAt, c.group = true, -1, -1, "odd"
			c.outs = outsFor(calls(c.mr), okAt, nouts(rng))
			cs = append(cs, c)
		}
	}
	return cs
}

func main() {
	a := wh.ParseArgs()
	out := wh.NewOut(a.Out)
	defer out.Close()
	if a.Replay != "" {
		c, err := parseCase(a.Replay)
		if err != nil {
			fmt.Fprintln(os.Stderr, "cannot parse replay request:", err)
			out.Case(a.Replay, "unparsable")
			return
		}
		for k, r := range runFiltered(c, out) {
			ck := c
			if c.passes > 1 {
				ck.passIdx = k
				if k != c.passIdx {
					continue // the replayed request names one pass of the scenario
				}
			} else {
				ck.concIdx = k
				if c.concN > 1 && k != c.concIdx {
					continue // the replayed request names one message of the scenario
				}
			}
			out.Case(ck.req(r), r.obs())
		}
		return
	}
	cs := generate(a)
	lrng := wh.NewRng(a.Seed ^ 0x5eed)
	for i := range cs {
		cs[i].logger = lrng.Intn(3) == 0 || cs[i].group == "errtype"
	}
	recs := make([][]rec, len(cs))
	var wg sync.WaitGroup
	sem := make(chan struct{}, 48) // the cases mostly sleep
	for i := range cs {
		i := i
		wg.Add(1)
		sem <- struct{}{}
		go func() {
			defer wg.Done()
			defer func() { <-sem }()
			recs[i] = runFiltered(cs[i], out)
		}()
	}
	wg.Wait()
	for i, c0 := range cs {
		for k, r := range recs[i] {
			c := c0
			if c.passes > 1 {
				c.passIdx = k
				out.Count("repeated_passes")
			} else {
				c.concIdx = k
			}
			out.Case(c.req(r), r.obs())
			out.Count("group." + c.group)
			out.Count("calls." + wh.Itoa(r.n))
			out.Add("hook_calls", len(r.hooks))
			switch {
			case r.panicV != "":
				out.Count("result.panic")
			case r.err == "-":
				out.Count("result.success")
			case r.msgs == "-":
				out.Count("result.error")
			default:
				out.Count("result.error_with_messages")
			}
			if r.err != "-" && r.n < calls(c.mr) {
				out.Count("gave_up_early." + c.group)
			}
			if c.logger {
				out.Count("logger_set")
			}
			if c.concN > 1 {
				out.Count("concurrent_messages")
			}
			out.Count(fmt.Sprintf("mul.%d/%d", c.mulP, c.mulQ))
			out.Count(fmt.Sprintf("rf.%d/%d", c.rfA, c.rfB))
		}
	}
}
