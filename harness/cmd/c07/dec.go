package main

// Trace conformance of the message-transform subscriber decorator with M_dec (lean/WmModel/GcDecConf.lean): the real decorator
// is wrapped around a scripted inner subscriber; every goroutine logs its own events ("dec <tok>*", see GcDecConf.lean).

import (
	"context"
	"errors"
	"fmt"
	"runtime"
	"strconv"
	"strings"
	"sync"
	"time"

	"github.com/ThreeDotsLabs/watermill/message"

	"wmverif/wh"
)

type decRec struct {
	mu   sync.Mutex
	toks []string
}

func (r *decRec) log(t string) {
	r.mu.Lock()
	r.toks = append(r.toks, t)
	r.mu.Unlock()
}

func goid() int64 {
	var buf [64]byte
	n := runtime.Stack(buf[:], false)
	var id int64
	for _, c := range buf[10:n] {
		if c < '0' || c > '9' {
			break
		}
		id = id*10 + int64(c-'0')
	}
	return id
}

type callName struct{}

// innerSub is the scripted subscriber inside the decorator. What it promises is what M_dec assumes of it (and what C07 states
// about GoChannel): Close returns only after every channel it handed out is closed, Subscribe fails afterwards.
type innerSub struct {
	rec      *decRec
	mu       sync.RWMutex
	closed   bool
	closing  chan struct{}
	chans    []chan *message.Message
	cancel   []chan struct{}
	chClosed []bool
	pushers  sync.WaitGroup
	pushersK []*sync.WaitGroup
	refuse   map[string]bool // Subscribe calls to refuse
	closers  sync.Map        // goroutine id -> name of the decorator Close call running on it
}

func (s *innerSub) Subscribe(ctx context.Context, topic string) (<-chan *message.Message, error) {
	name, _ := ctx.Value(callName{}).(string)
	s.mu.Lock()
	defer s.mu.Unlock()
	if s.closed || s.refuse[name] {
		s.rec.log("is," + name + ",err")
		return nil, errors.New("inner subscriber: refused")
	}
	k := len(s.chans)
	ch := make(chan *message.Message)
	s.chans = append(s.chans, ch)
	s.cancel = append(s.cancel, make(chan struct{}))
	s.chClosed = append(s.chClosed, false)
	s.pushersK = append(s.pushersK, &sync.WaitGroup{})
	s.rec.log(fmt.Sprintf("is,%s,%d", name, k))
	return ch, nil
}

// push offers one message on channel k; true when the pump took it (and has reported it through `transform`).
func (s *innerSub) push(k int, m *message.Message, taken <-chan struct{}) bool {
	s.mu.RLock()
	if s.closed || s.chClosed[k] {
		s.mu.RUnlock()
		return false
	}
	s.pushers.Add(1)
	s.pushersK[k].Add(1)
	ch, cancel, wgK := s.chans[k], s.cancel[k], s.pushersK[k]
	s.mu.RUnlock()
	defer s.pushers.Done()
	defer wgK.Done()
	select {
	case ch <- m:
		// the pump logs the receipt itself (rx); wait for that, so that no receipt is reported after the channel's closing
		select {
		case <-taken:
		case <-time.After(5 * time.Second):
		}
		return true
	case <-s.closing:
		return false
	case <-cancel:
		return false
	}
}

// cancelChan closes channel k the way a cancelled Subscribe context makes a subscriber close it.
func (s *innerSub) cancelChan(k int) {
	s.mu.Lock()
	if s.closed || k >= len(s.chans) || s.chClosed[k] {
		s.mu.Unlock()
		return
	}
	s.chClosed[k] = true
	close(s.cancel[k])
	wg, ch := s.pushersK[k], s.chans[k]
	s.mu.Unlock()
	wg.Wait()
	s.rec.log("ik," + strconv.Itoa(k))
	close(ch)
}

func (s *innerSub) Close() error {
	name := "C?"
	if v, ok := s.closers.Load(goid()); ok {
		name = v.(string)
	}
	s.mu.Lock()
	if !s.closed {
		s.closed = true
		close(s.closing)
	}
	s.mu.Unlock()
	s.pushers.Wait()
	s.rec.log("ic," + name)
	s.mu.Lock()
	for k := range s.chans {
		if !s.chClosed[k] {
			s.chClosed[k] = true
			close(s.chans[k])
		}
	}
	s.mu.Unlock()
	return nil
}

type decSub struct {
	msgs      int  // messages the inner subscriber offers on this subscription's channel
	pauseAt   int  // the consumer stops reading after this many messages (-1: never) and goes on once a Close has returned or the channel was cancelled
	cancelled bool // the inner subscriber closes the channel (context cancel) after offering its messages
	refused   bool // the inner Subscribe refuses
	late      bool // Subscribe is called while/after the Close calls run
}

type decScenario struct {
	subs    []decSub
	closers int // 0: nobody closes (every channel is cancelled instead)
	delayUs int // the Close calls start this long after the pushers
}

func (sc decScenario) describe() string {
	return fmt.Sprintf("dec subs=%+v closers=%d delayUs=%d", sc.subs, sc.closers, sc.delayUs)
}

func genDec(rng *wh.Rng) decScenario {
	sc := decScenario{closers: rng.Intn(3), delayUs: rng.Intn(400)}
	n := 1 + rng.Intn(3)
	for i := 0; i < n; i++ {
		d := decSub{msgs: rng.Intn(4), pauseAt: -1}
		if sc.closers > 0 && rng.Intn(3) == 0 {
			d.pauseAt = rng.Intn(3) // (without a Close nobody would release the pump of a consumer that stopped reading)
		}
		d.cancelled = sc.closers == 0 || rng.Intn(4) == 0
		d.refused = rng.Intn(8) == 0
		d.late = sc.closers > 0 && rng.Intn(5) == 0
		sc.subs = append(sc.subs, d)
	}
	return sc
}

// runDec executes one scenario and returns the token stream (plus "stuck:<what>" tokens when something did not finish).
func runDec(sc decScenario) []string {
	rec := &decRec{}
	inner := &innerSub{rec: rec, closing: make(chan struct{}), refuse: map[string]bool{}}
	const maxCh = 8
	taken := make([]chan struct{}, maxCh)
	for i := range taken {
		taken[i] = make(chan struct{}, 16)
	}
	chanOf := func(uuid string) int {
		k, _ := strconv.Atoi(strings.SplitN(uuid, "-", 2)[0])
		return k
	}
	transform := func(m *message.Message) {
		k := chanOf(m.UUID)
		rec.log("rx," + strconv.Itoa(k))
		taken[k] <- struct{}{}
	}
	message.SetVerifHook(func(name string, args ...string) {
		if name == "decorator.sub.before_out" && len(args) > 0 {
			rec.log("hb," + strconv.Itoa(chanOf(args[0])))
		}
	})
	defer message.SetVerifHook(nil)
	dec, err := message.MessageTransformSubscriberDecorator(transform)(inner)
	if err != nil {
		return []string{"stuck:decorator-not-built"}
	}
	var stuck []string
	var stuckMu sync.Mutex
	addStuck := func(s string) { stuckMu.Lock(); stuck = append(stuck, s); stuckMu.Unlock() }
	closeReturned := make(chan struct{})
	var closeOnce sync.Once
	var consumers, pushers sync.WaitGroup
	cancelledCh := make([]chan struct{}, maxCh)
	for i := range cancelledCh {
		cancelledCh[i] = make(chan struct{})
	}
	var subMu sync.Mutex
	subscribe := func(i int, d decSub) {
		name := "S" + strconv.Itoa(i)
		if d.refused {
			inner.mu.Lock()
			inner.refuse[name] = true
			inner.mu.Unlock()
		}
		rec.log("ns," + name)
		// the inner channel number is known from the log of the inner Subscribe: serialise Subscribe calls to read it off
		subMu.Lock()
		inner.mu.RLock()
		k := len(inner.chans)
		inner.mu.RUnlock()
		out, err := dec.Subscribe(context.WithValue(context.Background(), callName{}, name), "t")
		subMu.Unlock()
		if err != nil {
			rec.log("sr," + name + ",err")
			return
		}
		rec.log("sr," + name + ",ok")
		consumers.Add(1)
		go func() {
			defer consumers.Done()
			n := 0
			for {
				if d.pauseAt >= 0 && n == d.pauseAt {
					select {
					case <-closeReturned:
					case <-cancelledCh[k]:
					case <-time.After(10 * time.Second):
					}
					d.pauseAt = -1
				}
				_, ok := <-out
				if !ok {
					rec.log("oc," + strconv.Itoa(k))
					return
				}
				rec.log("dv," + strconv.Itoa(k))
				n++
			}
		}()
		pushers.Add(1)
		go func() {
			defer pushers.Done()
			for j := 0; j < d.msgs; j++ {
				m := message.NewMessage(fmt.Sprintf("%d-%d", k, j), nil)
				if !inner.push(k, m, taken[k]) {
					break
				}
			}
			if d.cancelled {
				inner.cancelChan(k)
				close(cancelledCh[k])
			}
		}()
	}
	for i, d := range sc.subs {
		if !d.late {
			subscribe(i, d)
		}
	}
	var closers, lates sync.WaitGroup
	if sc.closers > 0 {
		time.Sleep(time.Duration(sc.delayUs) * time.Microsecond)
		for c := 0; c < sc.closers; c++ {
			name := "C" + strconv.Itoa(c)
			closers.Add(1)
			go func() {
				defer closers.Done()
				inner.closers.Store(goid(), name)
				rec.log("nc," + name)
				_ = dec.Close()
				rec.log("cr," + name)
				closeOnce.Do(func() { close(closeReturned) })
			}()
		}
		for i, d := range sc.subs {
			if d.late {
				i, d := i, d
				lates.Add(1)
				go func() { defer lates.Done(); subscribe(i, d) }()
			}
		}
	}
	wait := func(wg *sync.WaitGroup, what string) {
		done := make(chan struct{})
		go func() { wg.Wait(); close(done) }()
		select {
		case <-done:
		case <-time.After(8 * time.Second):
			addStuck("stuck:" + what)
		}
	}
	wait(&closers, "decorator_close_did_not_return")
	wait(&lates, "late_subscribe_did_not_return")
	if sc.closers > 0 {
		// a subscription made after the Close calls is closed by nobody but a further Close
		if len(stuck) == 0 {
			name := "C" + strconv.Itoa(sc.closers)
			inner.closers.Store(goid(), name)
			rec.log("nc," + name)
			fin := make(chan struct{})
			go func() {
				inner.closers.Store(goid(), name)
				_ = dec.Close()
				close(fin)
			}()
			select {
			case <-fin:
				rec.log("cr," + name)
			case <-time.After(8 * time.Second):
				addStuck("stuck:decorator_close_did_not_return")
			}
		}
	}
	wait(&pushers, "pushers_did_not_finish")
	wait(&consumers, "output_channel_not_closed")
	rec.mu.Lock()
	toks := append([]string(nil), rec.toks...)
	rec.mu.Unlock()
	return append(toks, stuck...)
}

func emitDec(out *wh.Out, rng *wh.Rng, n int) {
	for i := 0; i < n; i++ {
		sc := genDec(rng)
		out.Begin(sc.describe())
		toks := runDec(sc)
		out.Case("dec "+strings.Join(toks, " "), "ok")
		out.Count(fmt.Sprintf("dec.subs%d.closers%d", len(sc.subs), sc.closers))
		out.Add("dec.events", len(toks))
	}
}
