// Harness for C07: GoChannel Close and subscription cancel always terminate safely.
// Pairwise: every hook point of Publish / Subscribe / send loop / unsubscribe x {Close, cancel, Publish, Subscribe};
// plus random concurrent programs, bare and behind 1..2 MessageTransform subscriber decorators.
package main

import (
	"fmt"

	"wmverif/gc"
	"wmverif/wh"
)

var hooks = []string{
	"gochannel.publish.after_closed_check", "gochannel.publish.locked", "gochannel.publish.persisted", "gochannel.publish.sent", "gochannel.publish.wait_ack", "gochannel.dispatch.next",
	"gochannel.subscribe.after_closed_check", "gochannel.subscribe.locked", "gochannel.subscribe.created", "gochannel.subscribe.replay", "gochannel.subscribe.replay_msg", "gochannel.subscribe.registered",
	"gochannel.send.locked", "gochannel.send.before_chan", "gochannel.send.wait_settle",
	"gochannel.sub.close.before_lock", "gochannel.sub.close.locked", "gochannel.unsubscribe.before_remove", "gochannel.close.signalled",
	"decorator.sub.before_out",
}

func main() {
	a := wh.ParseArgs()
	out := wh.NewOut(a.Out)
	defer out.Close()
	n := 150
	if a.Thorough() {
		n = 3000
	}
	rng := wh.NewRng(a.Seed)
	gc.EmitProd = true // registry + subscription streams together against the composition M_prod
	emit := func(sc gc.Scenario) bool {
		out.Begin(sc.Describe())
		res := gc.Run(sc)
		gc.Emit(out, res)
		out.Count(fmt.Sprintf("cfg.persist%v.block%v.dec%d", sc.Persistent, sc.Blocking, sc.Decorators))
		if sc.ParkHook != "" {
			out.Count("park." + sc.ParkHook + "/" + sc.ParkOp)
		}
		if gc.TooManyStuck() {
			out.Note("stopped generating: three scenarios ran into the liveness bound")
			return false
		}
		return true
	}
	// first: a subscription cancelled while it leaves a delivered message unsettled, with a blocking Publish waiting for that ack
	for _, pers := range []bool{false, true} {
		for _, buf := range []int{0, 1} {
			sc := gc.Scenario{Buf: buf, Persistent: pers, Blocking: true, Seed: rng.Next(), SecondClose: true, LateOps: true,
				Subs: []gc.SubSpec{
					{Topic: 0, Phase: 0, CancelAtRecv: 0, LeaveUnsettle: true, NestedTopic: -1},
					{Topic: 0, Phase: 0, CancelAtRecv: -1, NestedTopic: -1, NackFirst: 1}},
				Pubs: []gc.PubSpec{{Topic: 0, Calls: 2, Batch: 1}}}
			if !emit(sc) {
				return
			}
		}
	}
	// Close of the Pub/Sub (no context cancel) while senders are blocked in the hand-over to a consumer that does not read:
	// unbuffered and buffered channels, live publishes and the persistent replay, blocking publishers waiting for those acks
	for _, cfg := range []struct{ p, b bool }{{false, false}, {true, false}, {false, true}, {true, true}} {
		for _, buf := range []int{0, 1} {
			for _, phase := range []int{0, 1} {
				if phase == 1 && !cfg.p {
					continue // a late subscription gets something only from the persistent replay
				}
				sc := gc.Scenario{Buf: buf, Persistent: cfg.p, Blocking: cfg.b, Seed: rng.Next(), CloseDuring: true, CloseAfterUs: 3000,
					SecondClose: buf == 1, LateOps: true,
					Subs: []gc.SubSpec{
						{Topic: 0, Phase: phase, AfterPubs: 2, CancelAtRecv: -1, NestedTopic: -1, NoRead: true},
						{Topic: 0, Phase: 0, CancelAtRecv: -1, NestedTopic: -1}},
					Pubs: []gc.PubSpec{{Topic: 0, Calls: 3, Batch: 1}, {Topic: 1, Calls: 1, Batch: 1}}}
				if cfg.b && phase == 0 {
					// … and a Subscribe in flight: it waits for the write lock, which the blocked Publish keeps from it until Close
					sc.Subs = append(sc.Subs, gc.SubSpec{Topic: 0, Phase: 1, AfterPubs: 1, CancelAtRecv: -1, NestedTopic: -1})
				}
				if !emit(sc) {
					return
				}
				out.Count("close_with_blocked_handover")
			}
		}
	}
	// a logger that takes its time, a slow consumer with messages waiting in the channel's buffer, Close / cancel meanwhile
	for i := 0; i < 16; i++ {
		sc := gc.Scenario{Buf: 2, Persistent: i%4 == 3, Seed: rng.Next(), SlowLogUs: 600 + 100*(i%5), CloseDuring: i%2 == 0, CloseAfterUs: 1000 + int(rng.Next()%5000),
			LateOps: true,
			Subs: []gc.SubSpec{{Topic: 0, Phase: 0, CancelAtRecv: -1, NestedTopic: -1, RecvDelayUs: 2000 + int(rng.Next()%2000)}},
			Pubs: []gc.PubSpec{{Topic: 0, Calls: 12, Batch: 1}}}
		if i%2 == 1 {
			sc.Subs[0].CancelAtRecv = 1 // the consumer cancels its own subscription while two more messages wait in the buffer
		}
		if !emit(sc) {
			return
		}
		out.Count("slow_logger_buffered_close")
	}
	cfgs := []struct{ p, b bool }{{false, false}, {true, false}, {false, true}}
	if a.Thorough() {
		cfgs = append(cfgs, struct{ p, b bool }{true, true})
	}
	for _, hook := range hooks {
		ops := []string{"close", "cancel0", "publish", "subscribe"}
		switch hook {
		case "gochannel.sub.close.before_lock", "gochannel.sub.close.locked", "gochannel.unsubscribe.before_remove", "gochannel.close.signalled":
			ops = append(ops, "close2") // reached only once a Close (or a cancel) is under way: overlap it with a second Close
		}
		for _, op := range ops {
			for ci, cfg := range cfgs {
				dec := 0
				if hook == "decorator.sub.before_out" {
					dec = 1 + ci%2
				}
				after := 0
				if hook == "gochannel.subscribe.replay_msg" {
					after = 2 // the replay loop runs only when something was persisted before the Subscribe
				}
				sc := gc.Scenario{Buf: int(rng.Next() % 2), Persistent: cfg.p, Blocking: cfg.b, Seed: rng.Next(), ParkHook: hook, ParkOp: op,
					Decorators: dec, SecondClose: true, LateOps: true,
					Subs: []gc.SubSpec{
						{Topic: 0, Phase: 0, CancelAtRecv: -1, NestedTopic: -1, NackFirst: 1, NackEvery: 2},
						{Topic: 0, Phase: 1, CancelAtRecv: -1, NestedTopic: -1, SlowUs: 50, AfterPubs: after}},
					Pubs: []gc.PubSpec{{Topic: 0, Calls: 2, Batch: 1}, {Topic: 0, Calls: 1, Batch: 2}}}
				if !emit(sc) {
					return
				}
			}
		}
	}
	// the subscriber decorator around a scripted inner subscriber: trace conformance with M_dec
	nDec := 150
	if a.Thorough() {
		nDec = 2500
	}
	emitDec(out, rng, nDec)
	f := gc.Focus{Blocking: 300, Persistent: 400, Cancel: 400, Hold: 200, Nested: 0, Late: 400, CloseRace: 600, Decorators: 350, MaxSubs: 4, MaxPubs: 3, MaxMsgs: 4}
	for i := 0; i < n; i++ {
		if !emit(gc.Random(rng, f)) {
			return
		}
	}
}
