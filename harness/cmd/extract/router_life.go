package main

import (
	"go/ast"
	"strings"
)

func init() {
	for _, id := range []string{"C06", "C10"} {
		extractors[id] = extractRouterLife
	}
}

// Structural facts the model RouterLife (lean/WmModel/RouterLife.lean) takes as atomicity and ordering assumptions:
// skeletons of the functions whose lock-delimited regions / channel operations are the model's steps, plus targeted
// order facts phrased without relying on more identifiers than necessary.
func extractRouterLife(c *ctx) (Facts, error) {
	f := Facts{}
	var firstErr error
	for _, x := range []struct{ key, file, recv, name string }{
		{"close", "message/router.go", "Router", "Close"},
		{"wait_for_handlers", "message/router.go", "Router", "waitForHandlers"},
		{"run_handlers", "message/router.go", "Router", "RunHandlers"},
		{"run", "message/router.go", "Router", "Run"},
		{"handler_run", "message/router.go", "handler", "run"},
		{"handle_close", "message/router.go", "handler", "handleClose"},
		{"handle_message", "message/router.go", "handler", "handleMessage"},
		{"watch_all_handlers_stopped", "message/router.go", "Router", "watchAllHandlersStopped"},
		{"add_handler", "message/router.go", "Router", "AddHandler"},
		{"is_closed", "message/router.go", "Router", "IsClosed"},
		{"stop", "message/router.go", "Handler", "Stop"},
		{"stopped", "message/router.go", "Handler", "Stopped"},
		{"started", "message/router.go", "Handler", "Started"},
		{"decorator_subscribe", "message/decorator.go", "messageTransformSubscriberDecorator", "Subscribe"},
		{"decorator_close", "message/decorator.go", "messageTransformSubscriberDecorator", "Close"},
		{"waitgroup_timeout", "pubsub/sync/waitgroup.go", "", "WaitGroupTimeout"},
	} {
		fd, err := c.fn(x.file, x.recv, x.name)
		if err != nil {
			firstErr = err
			f[x.key] = []string{"<missing>"}
			continue
		}
		f[x.key] = c.skeleton(fd)
	}

	// --- the two waits are sequential in ONE goroutine: loops' wait group, then lock, then running handlers' wait group
	if fd, err := c.fn("message/router.go", "Router", "waitForHandlers"); err == nil {
		goes := 0
		var seq []string
		ast.Inspect(fd.Body, func(n ast.Node) bool {
			if g, ok := n.(*ast.GoStmt); ok {
				goes++
				for _, cl := range c.calls(g) {
					if strings.HasSuffix(cl, ".Wait") || strings.HasSuffix(cl, ".Lock") || strings.HasSuffix(cl, ".Unlock") {
						seq = append(seq, cl)
					}
				}
				return false
			}
			return true
		})
		f["wait_goroutines"] = goes
		f["wait_sequence_in_goroutine"] = seq
		loopsWg, runningWg, runningLock := c.loopsWaitGroup(), c.runningWaitGroup(), c.runningLock()
		f["wait_order_loops_then_lock_then_running"] = goes == 1 && len(seq) >= 4 &&
			strings.HasSuffix(seq[0], "."+loopsWg+".Wait") && strings.HasSuffix(seq[1], "."+runningLock+".Lock") &&
			indexOf(seq, func(s string) bool { return strings.HasSuffix(s, "."+runningWg+".Wait") }) > 1 && loopsWg != "" && runningWg != "" && loopsWg != runningWg
	} else {
		firstErr = err
	}

	// --- handler.run: Add(1) on the running-handlers wait group under its lock, before `go handleMessage`
	if fd, err := c.fn("message/router.go", "handler", "run"); err == nil {
		var body []string
		ast.Inspect(fd.Body, func(n ast.Node) bool {
			if r, ok := n.(*ast.RangeStmt); ok {
				body = c.stmtsFlat(r.Body)
				return false
			}
			return true
		})
		f["receive_loop_body"] = body
		iLock := indexOf(body, func(s string) bool { return strings.HasSuffix(s, ".Lock()") })
		iAdd := indexOf(body, func(s string) bool { return strings.HasSuffix(s, ".Add(1)") })
		iUnlock := indexOf(body, func(s string) bool { return strings.HasSuffix(s, ".Unlock()") })
		iGo := indexOf(body, func(s string) bool { return strings.HasPrefix(s, "go ") })
		f["add_under_lock_before_go"] = iLock >= 0 && iLock < iAdd && iAdd < iUnlock && iUnlock < iGo
	} else {
		firstErr = err
	}

	// --- RunHandlers: stopFn and stopped are assigned before startedCh is closed; the goroutine is spawned after
	if fd, err := c.fn("message/router.go", "Router", "RunHandlers"); err == nil {
		st := c.stmtsFlat(fd.Body)
		iStopFn := indexOf(st, has(".stopFn = "))
		iStopped := indexOf(st, has(".stopped = make("))
		iStartedFlag := indexOf(st, has(".started = true"))
		iStartedCh := indexOf(st, func(s string) bool { return strings.HasPrefix(s, "close(") && strings.Contains(s, "startedCh") })
		iSub := indexOf(st, has(".Subscribe("))
		f["stopfn_and_stopped_before_close_startedch"] = iStopFn >= 0 && iStopped >= 0 && iStopFn < iStartedCh && iStopped < iStartedCh
		f["started_flag_before_close_startedch"] = iStartedFlag >= 0 && iStartedFlag < iStartedCh
		sk := c.skeleton(fd)
		kStartedCh := indexOf(sk, func(s string) bool { return strings.Contains(s, "close(") && strings.Contains(s, "startedCh") })
		kGo := indexOf(sk, func(s string) bool { return strings.HasPrefix(strings.TrimSpace(s), "go ") })
		f["subscribe_before_started_before_spawn"] = iSub >= 0 && iSub < iStartedCh && kStartedCh >= 0 && kStartedCh < kGo
		f["runhandlers_locks_handlerslock_for_whole_body"] = len(sk) > 3 && indexOf(sk, has("handlersLock.Lock()")) >= 0 &&
			indexOf(sk, has("defer r.handlersLock.Unlock()")) == indexOf(sk, has("handlersLock.Lock()"))+1
		f["runhandlers_skips_started"] = indexOf(sk, func(s string) bool { return strings.Contains(s, "if h.started {") }) >= 0
	} else {
		firstErr = err
	}

	// --- Close: both locks for the whole duration; closedCh closed by defer; closingInProgressCh closed before the wait
	if fd, err := c.fn("message/router.go", "Router", "Close"); err == nil {
		sk := c.skeleton(fd)
		first4 := sk
		if len(first4) > 4 {
			first4 = first4[:4]
		}
		f["close_prologue"] = first4
		iSig := indexOf(sk, func(s string) bool {
			return strings.HasPrefix(s, "close(") && strings.Contains(s, "closingInProgressCh")
		})
		iDefer := indexOf(sk, func(s string) bool { return strings.HasPrefix(s, "defer close(") && strings.Contains(s, "closedCh") })
		iWait := indexOf(sk, has("waitForHandlers()"))
		f["close_signals_then_defers_closedch_then_waits"] = iSig >= 0 && iSig < iDefer && iDefer < iWait
		f["close_closedch_only_deferred"] = indexOf(sk, func(s string) bool { return strings.HasPrefix(s, "close(") && strings.Contains(s, "closedCh") }) < 0
	} else {
		firstErr = err
	}

	// --- handlerAdded has capacity 1
	if file, err := c.file("message/router.go"); err == nil {
		capStr := "<none>"
		ast.Inspect(file, func(n ast.Node) bool {
			if kv, ok := n.(*ast.KeyValueExpr); ok {
				if id, ok := kv.Key.(*ast.Ident); ok && id.Name == "handlerAdded" {
					if ce, ok := kv.Value.(*ast.CallExpr); ok && c.src(ce.Fun) == "make" {
						if len(ce.Args) == 2 {
							capStr = c.src(ce.Args[1])
						} else {
							capStr = "0"
						}
					}
				}
			}
			return true
		})
		f["handler_added_capacity"] = capStr
	} else {
		firstErr = err
	}
	return f, firstErr
}

// the wait group AddHandler increments (one per handler loop)
func (c *ctx) loopsWaitGroup() string {
	fd, err := c.fn("message/router.go", "Router", "AddHandler")
	if err != nil {
		return ""
	}
	for _, cl := range c.calls(fd) {
		if strings.HasSuffix(cl, ".Add") {
			p := strings.Split(cl, ".")
			return p[len(p)-2]
		}
	}
	return ""
}

// the wait group / lock the receive loop uses around `go handleMessage`
func (c *ctx) runningWaitGroup() string {
	fd, err := c.fn("message/router.go", "handler", "run")
	if err != nil {
		return ""
	}
	for _, cl := range c.calls(fd) {
		if strings.HasSuffix(cl, ".Add") {
			p := strings.Split(cl, ".")
			return p[len(p)-2]
		}
	}
	return ""
}

func (c *ctx) runningLock() string {
	fd, err := c.fn("message/router.go", "handler", "run")
	if err != nil {
		return ""
	}
	for _, cl := range c.calls(fd) {
		if strings.HasSuffix(cl, ".Lock") {
			p := strings.Split(cl, ".")
			return p[len(p)-2]
		}
	}
	return ""
}
