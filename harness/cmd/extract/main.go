// extract reads the Go sources of the repository under verification (go/ast only, no build) and writes
//   - Lean files with deep-embedded bodies of a few finite-state functions (-lean <dir>)
//   - structural facts as JSON (-facts <dir>/<Cxx>.json)
// Each property registers its extraction in its own file (c03.go, …).
package main

import (
	"bytes"
	"encoding/json"
	"flag"
	"fmt"
	"go/ast"
	"go/parser"
	"go/printer"
	"go/token"
	"os"
	"path/filepath"
	"sort"
	"strings"
)

type ctx struct {
	repo    string
	leanDir string
	fset    *token.FileSet
	files   map[string]*ast.File
}

// Facts of one property: name -> value (string, bool, number or list of strings).
type Facts map[string]interface{}

var extractors = map[string]func(c *ctx) (Facts, error){}

func (c *ctx) file(rel string) (*ast.File, error) {
	if f, ok := c.files[rel]; ok {
		return f, nil
	}
	f, err := parser.ParseFile(c.fset, filepath.Join(c.repo, rel), nil, parser.ParseComments)
	if err != nil {
		return nil, err
	}
	c.files[rel] = f
	return f, nil
}

// fn finds a function or method: recv "" for plain functions, otherwise the receiver type name without '*'.
func (c *ctx) fn(rel, recv, name string) (*ast.FuncDecl, error) {
	f, err := c.file(rel)
	if err != nil {
		return nil, err
	}
	for _, d := range f.Decls {
		fd, ok := d.(*ast.FuncDecl)
		if !ok || fd.Name.Name != name {
			continue
		}
		r := ""
		if fd.Recv != nil && len(fd.Recv.List) == 1 {
			t := fd.Recv.List[0].Type
			if s, ok := t.(*ast.StarExpr); ok {
				t = s.X
			}
			if ix, ok := t.(*ast.IndexExpr); ok {
				t = ix.X
			}
			if id, ok := t.(*ast.Ident); ok {
				r = id.Name
			}
		}
		if r == recv {
			return fd, nil
		}
	}
	return nil, fmt.Errorf("%s: func %s.%s not found", rel, recv, name)
}

func (c *ctx) src(n ast.Node) string {
	var b bytes.Buffer
	printer.Fprint(&b, c.fset, n)
	return strings.Join(strings.Fields(b.String()), " ")
}

// calls lists, in source order, the textual form of every call expression's function inside n
// (e.g. "g.subscribersLock.RLock", "close", "verifhook.Point" are included; hook calls are skipped).
func (c *ctx) calls(n ast.Node) []string {
	var out []string
	ast.Inspect(n, func(x ast.Node) bool {
		if ce, ok := x.(*ast.CallExpr); ok {
			s := c.src(ce.Fun)
			if !strings.HasPrefix(s, "verifhook.") {
				out = append(out, s)
			}
		}
		return true
	})
	return out
}

// stmtsFlat lists, in source order, a one-line rendering of every statement in n (nested included),
// hook calls and logger calls skipped. Used for "relative order" facts.
func (c *ctx) stmtsFlat(n ast.Node) []string {
	var out []string
	ast.Inspect(n, func(x ast.Node) bool {
		switch s := x.(type) {
		case *ast.ExprStmt, *ast.AssignStmt, *ast.DeferStmt, *ast.GoStmt, *ast.ReturnStmt, *ast.SendStmt, *ast.IncDecStmt:
			t := c.src(s.(ast.Node))
			if strings.Contains(t, "verifhook.") || strings.Contains(t, "logger.") || strings.Contains(t, ".logger") {
				return true
			}
			if len(t) > 160 {
				t = t[:160]
			}
			out = append(out, t)
		}
		return true
	})
	return out
}

func indexOf(xs []string, pred func(string) bool) int {
	for i, x := range xs {
		if pred(x) {
			return i
		}
	}
	return -1
}

func has(sub string) func(string) bool { return func(s string) bool { return strings.Contains(s, sub) } }

func leanStr(s string) string {
	return "\"" + strings.NewReplacer("\\", "\\\\", "\"", "\\\"").Replace(s) + "\""
}

func (c *ctx) writeLean(name, content string) error {
	if c.leanDir == "" {
		return nil
	}
	p := filepath.Join(c.leanDir, name)
	old, err := os.ReadFile(p)
	if err == nil && string(old) == content {
		return nil // keep mtime: no rebuild needed
	}
	return writeAtomic(p, []byte(content))
}

// writeAtomic: several checks may regenerate the same file at the same time (`extract_also`); a reader never sees a torn file.
func writeAtomic(p string, b []byte) error {
	if old, err := os.ReadFile(p); err == nil && string(old) == string(b) {
		return nil
	}
	tmp := fmt.Sprintf("%s.tmp%d", p, os.Getpid())
	if err := os.WriteFile(tmp, b, 0o644); err != nil {
		return err
	}
	return os.Rename(tmp, p)
}

func main() {
	repo := flag.String("repo", "/repo", "repository root")
	lean := flag.String("lean", "", "directory for generated Lean files (WmModel/Gen)")
	facts := flag.String("facts", "", "directory for facts JSON")
	only := flag.String("only", "", "comma separated property ids (default all)")
	flag.Parse()
	c := &ctx{repo: *repo, leanDir: *lean, fset: token.NewFileSet(), files: map[string]*ast.File{}}
	ids := []string{}
	for id := range extractors {
		if *only == "" || strings.Contains(","+*only+",", ","+id+",") {
			ids = append(ids, id)
		}
	}
	sort.Strings(ids)
	rc := 0
	for _, id := range ids {
		f, err := extractors[id](c)
		if f == nil {
			f = Facts{}
		}
		if err != nil {
			f["_error"] = err.Error()
			fmt.Fprintf(os.Stderr, "extract %s: %v\n", id, err)
			rc = 1
		}
		if *facts != "" {
			b, _ := json.MarshalIndent(f, "", " ")
			if err := writeAtomic(filepath.Join(*facts, id+".json"), append(b, '\n')); err != nil {
				fmt.Fprintln(os.Stderr, err)
				rc = 2
			}
		}
	}
	os.Exit(rc)
}
