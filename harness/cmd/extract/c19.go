package main

func init() { extractors["C19"] = extractC19 }

func extractC19(c *ctx) (Facts, error) {
	facts := Facts{}
	return facts, nil
}
