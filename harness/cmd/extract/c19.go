package main

import (
	"fmt"
	"go/ast"
	"go/token"
	"strings"
)

func init() { extractors["C19"] = extractC19 }

const mwDir = "message/router/middleware/"

// handlerLit finds the innermost function literal with the shape of a message.HandlerFunc
// (one parameter, two results) inside fd, and the name of the wrapped handler (the parameter of type
// message.HandlerFunc of the closest enclosing function).
func c19HandlerLit(fd *ast.FuncDecl) (lit *ast.FuncLit, hName string) {
	hName = c19HandlerParam(fd.Type)
	var walk func(n ast.Node, h string)
	walk = func(n ast.Node, h string) {
		ast.Inspect(n, func(x ast.Node) bool {
			fl, ok := x.(*ast.FuncLit)
			if !ok {
				return true
			}
			h2 := h
			if p := c19HandlerParam(fl.Type); p != "" {
				h2 = p
			}
			if fl.Type.Params != nil && len(fl.Type.Params.List) == 1 && fl.Type.Results != nil && len(fl.Type.Results.List) == 2 {
				lit, hName = fl, h2
			}
			walk(fl.Body, h2)
			return false
		})
	}
	walk(fd.Body, hName)
	return
}

func c19HandlerParam(ft *ast.FuncType) string {
	if ft.Params == nil {
		return ""
	}
	for _, f := range ft.Params.List {
		if se, ok := f.Type.(*ast.SelectorExpr); ok && se.Sel.Name == "HandlerFunc" && len(f.Names) == 1 {
			return f.Names[0].Name
		}
	}
	return ""
}

func c19ParamName(fl *ast.FuncLit) string {
	if fl == nil || fl.Type.Params == nil || len(fl.Type.Params.List) != 1 || len(fl.Type.Params.List[0].Names) != 1 {
		return "?"
	}
	return fl.Type.Params.List[0].Names[0].Name
}

// countCalls counts call expressions whose function renders as fun.
func (c *ctx) c19CountCalls(n ast.Node, fun string) int {
	k := 0
	ast.Inspect(n, func(x ast.Node) bool {
		if ce, ok := x.(*ast.CallExpr); ok && c.src(ce.Fun) == fun {
			k++
		}
		return true
	})
	return k
}

type c19Names struct {
	msg, h            string
	orig, ctx, cancel string
	x, err            string
	recv              string
}

// wrapper statements in the language of WmModel/GoMw.lean
func (c *ctx) c19WStmt(st ast.Stmt, n *c19Names) string {
	unknown := ".unknown " + leanStr(c.src(st))
	switch s := st.(type) {
	case *ast.AssignStmt:
		if s.Tok == token.DEFINE && len(s.Lhs) == 1 && len(s.Rhs) == 1 && c.src(s.Rhs[0]) == n.msg+".Context()" {
			n.orig = c.src(s.Lhs[0])
			return ".saveCtx"
		}
		if s.Tok == token.DEFINE && len(s.Lhs) == 2 && len(s.Rhs) == 1 {
			if ce, ok := s.Rhs[0].(*ast.CallExpr); ok {
				if c.src(ce.Fun) == "context.WithTimeout" && len(ce.Args) == 2 && n.orig != "" && c.src(ce.Args[0]) == n.orig {
					n.ctx, n.cancel = c.src(s.Lhs[0]), c.src(s.Lhs[1])
					return ".deriveTimeout"
				}
				if c.src(ce.Fun) == n.h && len(ce.Args) == 1 && c.src(ce.Args[0]) == n.msg {
					n.x, n.err = c.src(s.Lhs[0]), c.src(s.Lhs[1])
					return ".callAssign"
				}
			}
		}
	case *ast.DeferStmt:
		if n.cancel != "" && c.src(s.Call) == n.cancel+"()" {
			return ".deferCancel"
		}
		if fl, ok := s.Call.Fun.(*ast.FuncLit); ok && len(s.Call.Args) == 0 && len(fl.Body.List) == 2 && n.cancel != "" && n.orig != "" {
			if c.src(fl.Body.List[0]) == n.cancel+"()" && c.src(fl.Body.List[1]) == n.msg+".SetContext("+n.orig+")" {
				return ".deferCancelRestore"
			}
		}
	case *ast.ExprStmt:
		t := c.src(s.X)
		if n.ctx != "" && t == n.msg+".SetContext("+n.ctx+")" {
			return ".setDerivedCtx"
		}
		if t == n.msg+".Ack()" {
			return ".ack"
		}
		if ue, ok := s.X.(*ast.UnaryExpr); ok && ue.Op == token.ARROW && strings.HasSuffix(c.src(ue.X), ".ticker.C") {
			return ".waitTick"
		}
	case *ast.ReturnStmt:
		if len(s.Results) == 1 && c.src(s.Results[0]) == n.h+"("+n.msg+")" {
			return ".callRet"
		}
		if len(s.Results) == 2 && n.x != "" && c.src(s.Results[0]) == n.x && c.src(s.Results[1]) == n.err {
			return ".retBoth"
		}
	case *ast.IfStmt:
		if s.Init == nil && s.Else == nil && n.err != "" && c.src(s.Cond) == n.err+" != nil" && len(s.Body.List) == 1 &&
			c.src(s.Body.List[0]) == n.recv+".applyDelay("+n.msg+")" {
			return ".ifErrApplyDelay"
		}
	}
	return unknown
}

func (c *ctx) c19WrapperBody(rel, recv, fn string, facts Facts, key string) []string {
	fd, err := c.fn(rel, recv, fn)
	if err != nil {
		facts[key+"_found"] = false
		return []string{".unknown " + leanStr(err.Error())}
	}
	lit, h := c19HandlerLit(fd)
	if lit == nil || h == "" {
		facts[key+"_found"] = false
		return []string{".unknown " + leanStr("no handler literal in "+fn)}
	}
	n := &c19Names{msg: c19ParamName(lit), h: h}
	if fd.Recv != nil && len(fd.Recv.List) == 1 && len(fd.Recv.List[0].Names) == 1 {
		n.recv = fd.Recv.List[0].Names[0].Name
	}
	var out []string
	unknown := 0
	for _, st := range lit.Body.List {
		s := c.c19WStmt(st, n)
		if strings.HasPrefix(s, ".unknown") {
			unknown++
		}
		out = append(out, s)
	}
	facts[key+"_statements"] = len(out)
	facts[key+"_unknown_statements"] = unknown
	facts[key+"_inner_calls"] = c.c19CountCalls(lit.Body, h)
	return out
}

// applyDelay in the language DStmt of WmModel/GoMw.lean
func (c *ctx) c19DelayBody(facts Facts) []string {
	fd, err := c.fn(mwDir+"delay_on_error.go", "DelayOnError", "applyDelay")
	if err != nil {
		return []string{".unknown " + leanStr(err.Error())}
	}
	recv := "d"
	if fd.Recv != nil && len(fd.Recv.List[0].Names) == 1 {
		recv = fd.Recv.List[0].Names[0].Name
	}
	msg := "msg"
	if fd.Type.Params != nil && len(fd.Type.Params.List) == 1 && len(fd.Type.Params.List[0].Names) == 1 {
		msg = fd.Type.Params.List[0].Names[0].Name
	}
	strVar, durVar, errVar := "", "", ""
	var stmt func(st ast.Stmt) string
	block := func(b *ast.BlockStmt) string {
		var parts []string
		for _, s := range b.List {
			parts = append(parts, stmt(s))
		}
		return "[" + strings.Join(parts, ", ") + "]"
	}
	stmt = func(st ast.Stmt) string {
		unknown := ".unknown " + leanStr(c.src(st))
		switch s := st.(type) {
		case *ast.AssignStmt:
			if s.Tok == token.DEFINE && len(s.Lhs) == 1 && len(s.Rhs) == 1 && c.src(s.Rhs[0]) == msg+".Metadata.Get(delay.DelayedForKey)" {
				strVar = c.src(s.Lhs[0])
				return ".getStr"
			}
			if s.Tok == token.DEFINE && len(s.Lhs) == 2 && len(s.Rhs) == 1 && strVar != "" && c.src(s.Rhs[0]) == "time.ParseDuration("+strVar+")" {
				durVar, errVar = c.src(s.Lhs[0]), c.src(s.Lhs[1])
				return ".parse"
			}
			if s.Tok == token.ASSIGN && len(s.Lhs) == 1 && len(s.Rhs) == 1 && durVar != "" && c.src(s.Lhs[0]) == durVar {
				r := c.src(s.Rhs[0])
				if r == "time.Duration(float64("+durVar+") * "+recv+".Multiplier)" || r == "time.Duration("+recv+".Multiplier * float64("+durVar+"))" {
					return ".mulFloat"
				}
				if r == recv+".MaxInterval" {
					return ".setMax"
				}
			}
			if s.Tok == token.MUL_ASSIGN && len(s.Lhs) == 1 && durVar != "" && c.src(s.Lhs[0]) == durVar && c.src(s.Rhs[0]) == "time.Duration("+recv+".Multiplier)" {
				return ".mulTruncated"
			}
		case *ast.ExprStmt:
			t := c.src(s.X)
			if durVar != "" && t == "delay.Message("+msg+", delay.For("+durVar+"))" {
				return ".writeVar"
			}
			if t == "delay.Message("+msg+", delay.For("+recv+".InitialInterval))" {
				return ".writeInit"
			}
		case *ast.IfStmt:
			if s.Init != nil {
				return unknown
			}
			cond := c.src(s.Cond)
			if strVar != "" && errVar != "" && (cond == strVar+" != \"\" && "+errVar+" == nil" || cond == errVar+" == nil && "+strVar+" != \"\"") {
				if eb, ok := s.Else.(*ast.BlockStmt); ok {
					return ".ifParsed " + block(s.Body) + " " + block(eb)
				}
			}
			if durVar != "" && cond == durVar+" > "+recv+".MaxInterval" && s.Else == nil {
				return ".ifGtMax " + block(s.Body)
			}
		}
		return unknown
	}
	var out []string
	for _, st := range fd.Body.List {
		out = append(out, stmt(st))
	}
	unknown := 0
	for _, s := range out {
		unknown += strings.Count(s, ".unknown")
	}
	facts["applydelay_statements"] = len(out)
	facts["applydelay_unknown_statements"] = unknown
	return out
}

func (c *ctx) c19ConstValue(rel, name string) string {
	f, err := c.file(rel)
	if err != nil {
		return "?"
	}
	val := "?"
	ast.Inspect(f, func(x ast.Node) bool {
		if vs, ok := x.(*ast.ValueSpec); ok {
			for i, n := range vs.Names {
				if n.Name == name && i < len(vs.Values) {
					val = c.src(vs.Values[i])
				}
			}
		}
		return true
	})
	return val
}

func (c *ctx) c19Returns(n ast.Node) []string {
	var out []string
	ast.Inspect(n, func(x ast.Node) bool {
		if r, ok := x.(*ast.ReturnStmt); ok {
			out = append(out, c.src(r))
		}
		return true
	})
	return out
}

func extractC19(c *ctx) (Facts, error) {
	facts := Facts{}
	var firstErr error
	note := func(err error) {
		if err != nil && firstErr == nil {
			firstErr = err
		}
	}

	// ---- generated bodies
	var sb strings.Builder
	sb.WriteString("/- GENERATED by harness/cmd/extract from message/router/middleware/*.go on every run – do not edit -/\n")
	sb.WriteString("import WmModel.GoMw\nnamespace Wm.GoMw.Gen\nopen Wm.GoMw\n\n")
	for _, w := range []struct{ name, file, recv, fn, key string }{
		{"timeoutBody", "timeout.go", "", "Timeout", "timeout"},
		{"instantAckBody", "instant_ack.go", "", "InstantAck", "instant_ack"},
		{"throttleBody", "throttle.go", "Throttle", "Middleware", "throttle"},
		{"delayMwBody", "delay_on_error.go", "DelayOnError", "Middleware", "delay_mw"},
	} {
		stmts := c.c19WrapperBody(mwDir+w.file, w.recv, w.fn, facts, w.key)
		fmt.Fprintf(&sb, "def %s : List WStmt := [\n  %s\n]\n\n", w.name, strings.Join(stmts, ",\n  "))
	}
	fmt.Fprintf(&sb, "def applyDelayBody : List DStmt := [\n  %s\n]\n\n", strings.Join(c.c19DelayBody(facts), ",\n  "))
	sb.WriteString("end Wm.GoMw.Gen\n")
	note(c.writeLean("MwBody.lean", sb.String()))

	// ---- CorrelationID
	if fd, err := c.fn(mwDir+"correlation.go", "", "CorrelationID"); err != nil {
		note(err)
	} else {
		lit, h := c19HandlerLit(fd)
		if lit != nil {
			m := c19ParamName(lit)
			flat := c.stmtsFlat(lit.Body)
			iCall := indexOf(flat, has(h+"("+m+")"))
			iRead := indexOf(flat, has("MessageCorrelationID("+m+")"))
			facts["correlation_reads_id_after_call"] = iCall >= 0 && iRead > iCall
			facts["correlation_inner_calls"] = c.c19CountCalls(lit.Body, h)
			// one loop over the produced messages whose body is the single call SetCorrelationID(id, out)
			loops, okLoop := 0, false
			var outsVar, errVar, idVar string
			for _, st := range lit.Body.List {
				if as, ok := st.(*ast.AssignStmt); ok && len(as.Lhs) == 2 && len(as.Rhs) == 1 && c.src(as.Rhs[0]) == h+"("+m+")" {
					outsVar, errVar = c.src(as.Lhs[0]), c.src(as.Lhs[1])
				}
				if as, ok := st.(*ast.AssignStmt); ok && len(as.Lhs) == 1 && len(as.Rhs) == 1 && c.src(as.Rhs[0]) == "MessageCorrelationID("+m+")" {
					idVar = c.src(as.Lhs[0])
				}
				if rs, ok := st.(*ast.RangeStmt); ok {
					loops++
					if outsVar != "" && c.src(rs.X) == outsVar && rs.Value != nil && len(rs.Body.List) == 1 &&
						c.src(rs.Body.List[0]) == "SetCorrelationID("+idVar+", "+c.src(rs.Value)+")" {
						okLoop = true
					}
				}
			}
			facts["correlation_sets_id_on_every_output"] = loops == 1 && okLoop
			rets := c.c19Returns(lit.Body)
			facts["correlation_returns_handler_results"] = len(rets) == 1 && outsVar != "" && rets[0] == "return "+outsVar+", "+errVar
		}
	}
	if fd, err := c.fn(mwDir+"correlation.go", "", "SetCorrelationID"); err != nil {
		note(err)
	} else {
		ok := false
		if len(fd.Body.List) == 2 && fd.Type.Params != nil && len(fd.Type.Params.List) == 2 {
			id := fd.Type.Params.List[0].Names[0].Name
			m := fd.Type.Params.List[1].Names[0].Name
			if is, isIf := fd.Body.List[0].(*ast.IfStmt); isIf && is.Else == nil && is.Init == nil &&
				c.src(is.Cond) == "MessageCorrelationID("+m+") != \"\"" && len(is.Body.List) == 1 && c.src(is.Body.List[0]) == "return" &&
				c.src(fd.Body.List[1]) == m+".Metadata.Set(CorrelationIDMetadataKey, "+id+")" {
				ok = true
			}
		}
		facts["set_correlation_id_only_when_get_is_empty"] = ok
	}
	if fd, err := c.fn(mwDir+"correlation.go", "", "MessageCorrelationID"); err != nil {
		note(err)
	} else {
		rets := c.c19Returns(fd.Body)
		facts["message_correlation_id_is_metadata_get"] = len(rets) == 1 && strings.HasSuffix(rets[0], ".Metadata.Get(CorrelationIDMetadataKey)")
	}
	facts["correlation_key"] = c.c19ConstValue(mwDir+"correlation.go", "CorrelationIDMetadataKey")

	// ---- Recoverer
	if fd, err := c.fn(mwDir+"recoverer.go", "", "Recoverer"); err != nil {
		note(err)
	} else {
		lit, h := c19HandlerLit(fd)
		if lit != nil {
			m := c19ParamName(lit)
			facts["recoverer_inner_calls"] = c.c19CountCalls(lit.Body, h)
			facts["recoverer_never_repanics"] = c.c19CountCalls(lit.Body, "panic") == 0
			named := lit.Type.Results != nil && len(lit.Type.Results.List) == 2 && len(lit.Type.Results.List[0].Names) == 1 && len(lit.Type.Results.List[1].Names) == 1
			facts["recoverer_named_results"] = named
			deferOK, valueKept := false, false
			flagName := ""
			if named {
				errName := lit.Type.Results.List[1].Names[0].Name
				for _, st := range lit.Body.List {
					ds, ok := st.(*ast.DeferStmt)
					if !ok {
						continue
					}
					fl, ok := ds.Call.Fun.(*ast.FuncLit)
					if !ok || len(fl.Body.List) != 1 {
						continue
					}
					is, ok := fl.Body.List[0].(*ast.IfStmt)
					if !ok || is.Init == nil || is.Else != nil {
						continue
					}
					init := c.src(is.Init)
					if !strings.HasSuffix(init, ":= recover()") {
						continue
					}
					rv := strings.TrimSpace(strings.TrimSuffix(init, ":= recover()"))
					cond := c.src(is.Cond)
					if strings.HasPrefix(cond, rv+" != nil || ") {
						flagName = strings.TrimPrefix(cond, rv+" != nil || ")
						deferOK = true
					}
					if len(is.Body.List) == 1 {
						t := c.src(is.Body.List[0])
						valueKept = strings.HasPrefix(t, errName+" = errors.WithStack(RecoveredPanicError{V: "+rv+",")
					}
				}
			}
			facts["recoverer_defer_recovers_value_or_flag"] = deferOK
			facts["recoverer_error_carries_recovered_value"] = valueKept
			flat := c.stmtsFlat(lit.Body)
			iFlagSet := indexOf(flat, func(s string) bool { return flagName != "" && s == flagName+" := true" })
			iCall := indexOf(flat, has("= "+h+"("+m+")"))
			iFlagClr := indexOf(flat, func(s string) bool { return flagName != "" && s == flagName+" = false" })
			facts["recoverer_flag_set_before_and_cleared_after_call"] = iFlagSet >= 0 && iFlagSet < iCall && iCall < iFlagClr
		}
	}
	if fd, err := c.fn(mwDir+"recoverer.go", "RecoveredPanicError", "Error"); err != nil {
		note(err)
	} else {
		rets := c.c19Returns(fd.Body)
		facts["recovered_error_text_has_value"] = len(rets) == 1 && strings.Contains(rets[0], "%#v") && strings.Contains(rets[0], ".V")
	}

	// ---- IgnoreErrors
	if fd, err := c.fn(mwDir+"ignore_errors.go", "IgnoreErrors", "Middleware"); err != nil {
		note(err)
	} else {
		lit, h := c19HandlerLit(fd)
		if lit != nil {
			facts["ignore_inner_calls"] = c.c19CountCalls(lit.Body, h)
			key := ""
			ast.Inspect(lit.Body, func(x ast.Node) bool {
				if ix, ok := x.(*ast.IndexExpr); ok && strings.HasSuffix(c.src(ix.X), ".ignoredErrors") {
					key = c.src(ix.Index)
				}
				return true
			})
			facts["ignore_matches_on"] = key
			rets := c.c19Returns(lit.Body)
			facts["ignore_returns"] = rets
			// names of the handler's results: <outs>, <err> := h(msg)
			m := c19ParamName(lit)
			outsVar, errVar := "", ""
			for _, st := range lit.Body.List {
				if as, ok := st.(*ast.AssignStmt); ok && len(as.Lhs) == 2 && len(as.Rhs) == 1 && c.src(as.Rhs[0]) == h+"("+m+")" {
					outsVar, errVar = c.src(as.Lhs[0]), c.src(as.Lhs[1])
				}
			}
			// listed -> (outs, nil); other error -> (outs, err); success -> (outs, nil): outputs always kept
			facts["ignore_returns_keep_outputs"] = outsVar != "" && len(rets) == 3 && rets[0] == "return "+outsVar+", nil" &&
				rets[1] == "return "+outsVar+", "+errVar && rets[2] == "return "+outsVar+", nil"
			facts["ignore_matches_on_pkg_errors_cause_text"] = key == "errors.Cause("+errVar+").Error()"
		}
	}
	if fd, err := c.fn(mwDir+"ignore_errors.go", "", "NewIgnoreErrors"); err != nil {
		note(err)
	} else {
		facts["ignore_list_keyed_by_error_text"] = indexOf(c.stmtsFlat(fd.Body), has("[err.Error()] = struct{}{}")) >= 0
	}

	// ---- CircuitBreaker
	if fd, err := c.fn(mwDir+"circuit_breaker.go", "CircuitBreaker", "Middleware"); err != nil {
		note(err)
	} else {
		lit, h := c19HandlerLit(fd)
		if lit != nil {
			m := c19ParamName(lit)
			facts["breaker_inner_calls"] = c.c19CountCalls(lit.Body, h)
			rets := c.c19Returns(lit.Body)
			facts["breaker_returns"] = rets
			facts["breaker_executes_handler_call"] = len(rets) == 2 && rets[0] == "return "+h+"("+m+")"
			// out, err := cb.Execute(...); ... return result, err   with the same err
			execErr := ""
			for _, st := range lit.Body.List {
				if as, ok := st.(*ast.AssignStmt); ok && len(as.Lhs) == 2 && len(as.Rhs) == 1 && strings.HasSuffix(c.src(as.Rhs[0].(ast.Node)), "})") &&
					strings.Contains(c.src(as.Rhs[0]), ".Execute(") {
					execErr = c.src(as.Lhs[1])
				}
			}
			facts["breaker_returns_error_of_execute"] = execErr != "" && len(rets) == 2 && strings.HasSuffix(rets[1], ", "+execErr)
		}
	}

	// ---- Retry (only what the minimal model of C19 uses)
	if fd, err := c.fn(mwDir+"retry.go", "Retry", "Middleware"); err != nil {
		note(err)
	} else {
		lit, h := c19HandlerLit(fd)
		if lit != nil {
			m := c19ParamName(lit)
			facts["retry_inner_call_sites"] = c.c19CountCalls(lit.Body, h)
			flat := c.stmtsFlat(lit.Body)
			iCtx := indexOf(flat, func(s string) bool { return s == "ctx := "+m+".Context()" })
			iFirst := indexOf(flat, has(":= "+h+"("+m+")"))
			iAgain := indexOf(flat, has("= "+h+"("+m+")"))
			for i, s := range flat {
				if strings.Contains(s, " = "+h+"("+m+")") && !strings.Contains(s, ":=") {
					iAgain = i
				}
			}
			facts["retry_reads_context_once_between_first_and_later_attempts"] = iFirst >= 0 && iFirst < iCtx && iCtx < iAgain
			nCtxReads := 0
			for _, s := range flat {
				if strings.Contains(s, m+".Context()") {
					nCtxReads++
				}
			}
			facts["retry_context_reads"] = nCtxReads
			doneCase := false
			ast.Inspect(lit.Body, func(x ast.Node) bool {
				if cc, ok := x.(*ast.CommClause); ok && cc.Comm != nil && strings.Contains(c.src(cc.Comm), "<-ctx.Done()") {
					doneCase = len(cc.Body) == 1 && strings.HasPrefix(c.src(cc.Body[0]), "return ")
				}
				return true
			})
			facts["retry_returns_when_context_done"] = doneCase
			rets := c.c19Returns(lit.Body)
			facts["retry_last_return"] = rets[len(rets)-1]
			exit := ""
			ast.Inspect(lit.Body, func(x ast.Node) bool {
				if is, ok := x.(*ast.IfStmt); ok && strings.Contains(c.src(is.Cond), "MaxRetries") {
					exit = c.src(is.Cond)
				}
				return true
			})
			facts["retry_exit_condition"] = exit
			facts["retry_exits_when_counter_exceeds_max_retries"] = strings.HasSuffix(exit, ".MaxRetries") && strings.Contains(exit, " > ")
			facts["retry_exhausted_drops_outputs"] = strings.HasPrefix(rets[len(rets)-1], "return nil, ")
		}
	}

	// ---- no per-handler state: between the middleware function and the handler literal there is nothing but `return func…`
	// (a variable declared there would be shared by all concurrent calls of the wrapped handler)
	var stateful []string
	for _, w := range []struct{ file, recv, fn string }{
		{"timeout.go", "", "Timeout"}, {"correlation.go", "", "CorrelationID"}, {"recoverer.go", "", "Recoverer"},
		{"ignore_errors.go", "IgnoreErrors", "Middleware"}, {"instant_ack.go", "", "InstantAck"}, {"throttle.go", "Throttle", "Middleware"},
		{"circuit_breaker.go", "CircuitBreaker", "Middleware"}, {"delay_on_error.go", "DelayOnError", "Middleware"}, {"retry.go", "Retry", "Middleware"},
	} {
		fd, err := c.fn(mwDir+w.file, w.recv, w.fn)
		if err != nil {
			note(err)
			stateful = append(stateful, w.fn+"@"+w.file+": not found")
			continue
		}
		body := fd.Body
		for depth := 0; depth < 4; depth++ {
			if len(body.List) != 1 {
				stateful = append(stateful, w.fn+"@"+w.file)
				break
			}
			rs, ok := body.List[0].(*ast.ReturnStmt)
			if !ok || len(rs.Results) != 1 {
				stateful = append(stateful, w.fn+"@"+w.file)
				break
			}
			fl, ok := rs.Results[0].(*ast.FuncLit)
			if !ok {
				stateful = append(stateful, w.fn+"@"+w.file)
				break
			}
			if fl.Type.Params != nil && len(fl.Type.Params.List) == 1 && fl.Type.Results != nil && len(fl.Type.Results.List) == 2 {
				break // reached the handler literal
			}
			body = fl.Body
		}
	}
	if stateful == nil {
		stateful = []string{}
	}
	facts["middlewares_with_state_outside_the_handler_literal"] = stateful

	// ---- delay metadata keys and writer
	facts["delayed_for_key"] = c.c19ConstValue("components/delay/delay.go", "DelayedForKey")
	facts["delayed_until_key"] = c.c19ConstValue("components/delay/delay.go", "DelayedUntilKey")
	if fd, err := c.fn("components/delay/delay.go", "", "Message"); err != nil {
		note(err)
	} else {
		flat := c.stmtsFlat(fd.Body)
		facts["delay_message_writes_for_as_duration_string"] = indexOf(flat, has(".Metadata.Set(DelayedForKey, delay.duration.String())")) >= 0
		facts["delay_message_writes_until"] = indexOf(flat, has(".Metadata.Set(DelayedUntilKey, ")) >= 0
	}
	if fd, err := c.fn("components/delay/delay.go", "", "For"); err != nil {
		note(err)
	} else {
		facts["delay_for_keeps_duration"] = strings.Contains(c.src(fd.Body), "duration: delayedFor")
	}
	return facts, firstErr
}
