package main

import (
	"go/ast"
	"go/token"
	"reflect"
	"strconv"
	"strings"
)

func init() { extractors["C17"] = extractC17 }

const (
	c17Forwarder = "components/forwarder/forwarder.go"
	c17Publisher = "components/forwarder/publisher.go"
	c17Envelope  = "components/forwarder/envelope.go"
	c17FanIn     = "components/fanin/fanin.go"
	c17FanOut    = "pubsub/gochannel/fanout.go"
	c17Requeuer  = "components/requeuer/requeuer.go"
	c17Router    = "message/router.go"
)

// c17CallArgs returns the textual arguments of the first call whose function text ends with suffix inside n.
func (c *ctx) c17CallArgs(n ast.Node, suffix string) ([]string, bool) {
	var out []string
	found := false
	ast.Inspect(n, func(x ast.Node) bool {
		if found {
			return false
		}
		if ce, ok := x.(*ast.CallExpr); ok && strings.HasSuffix(c.src(ce.Fun), suffix) {
			for _, a := range ce.Args {
				s := c.src(a)
				if ce.Ellipsis != token.NoPos && a == ce.Args[len(ce.Args)-1] {
					s += "..."
				}
				out = append(out, s)
			}
			found = true
			return false
		}
		return true
	})
	return out, found
}

func (c *ctx) c17CountCalls(n ast.Node, suffix string) int {
	k := 0
	ast.Inspect(n, func(x ast.Node) bool {
		if ce, ok := x.(*ast.CallExpr); ok && strings.HasSuffix(c.src(ce.Fun), suffix) {
			k++
		}
		return true
	})
	return k
}

// c17JSONTags lists "Field:jsonname" of a struct type.
func c17JSONTags(f *ast.File, typeName string) []string {
	var out []string
	for _, d := range f.Decls {
		gd, ok := d.(*ast.GenDecl)
		if !ok || gd.Tok != token.TYPE {
			continue
		}
		for _, sp := range gd.Specs {
			ts := sp.(*ast.TypeSpec)
			st, ok := ts.Type.(*ast.StructType)
			if !ok || ts.Name.Name != typeName {
				continue
			}
			for _, fl := range st.Fields.List {
				tag := ""
				if fl.Tag != nil {
					if v, err := strconv.Unquote(fl.Tag.Value); err == nil {
						tag = reflect.StructTag(v).Get("json")
					}
				}
				for _, n := range fl.Names {
					out = append(out, n.Name+":"+tag)
				}
			}
		}
	}
	return out
}

func c17Order(flat []string, subs ...string) bool {
	pos := -1
	for _, sub := range subs {
		i := -1
		for j := pos + 1; j < len(flat); j++ {
			if strings.Contains(flat[j], sub) {
				i = j
				break
			}
		}
		if i < 0 {
			return false
		}
		pos = i
	}
	return true
}

func extractC17(c *ctx) (Facts, error) {
	facts := Facts{}
	var firstErr error
	note := func(err error) {
		if err != nil && firstErr == nil {
			firstErr = err
		}
	}

	// ---- forwarder.go
	if f, err := c.file(c17Forwarder); err != nil {
		note(err)
	} else {
		facts["forwarder_default_topic"] = c13StringConsts(f)["defaultForwarderTopic"]
	}
	if fd, err := c.fn(c17Forwarder, "Forwarder", "forwardMessage"); err != nil {
		note(err)
	} else {
		msg := ""
		if p := c13FieldNames(fd.Type.Params); len(p) == 1 {
			msg = p[0]
		}
		recv := c13RecvName(fd)
		// first statement: destTopic, unwrappedMsg, err := unwrapMessageFromEnvelope(msg)
		var lhs []string
		if as, ok := fd.Body.List[0].(*ast.AssignStmt); ok && len(as.Rhs) == 1 && c.src(as.Rhs[0]) == "unwrapMessageFromEnvelope("+msg+")" {
			for _, l := range as.Lhs {
				lhs = append(lhs, c.src(l))
			}
		}
		facts["forward_unwraps_first"] = len(lhs) == 3
		args, ok := c.c17CallArgs(fd, ".publisher.Publish")
		facts["forward_publishes_unwrapped_to_embedded_topic"] = ok && len(lhs) == 3 && len(args) == 2 && args[0] == lhs[0] && args[1] == lhs[1]
		facts["forward_publish_calls_in_source"] = c.c17CountCalls(fd, ".Publish")
		// the error branch: if err != nil { …; if f.config.AckWhenCannotUnwrap { return nil }; return errors.Wrap(err, …) }
		branch := false
		pubErrReturned := false
		for _, st := range fd.Body.List {
			is, ok := st.(*ast.IfStmt)
			if !ok {
				continue
			}
			if is.Init == nil && len(lhs) == 3 && c.src(is.Cond) == lhs[2]+" != nil" {
				n := len(is.Body.List)
				if n >= 2 {
					inner, ok1 := is.Body.List[n-2].(*ast.IfStmt)
					last, ok2 := is.Body.List[n-1].(*ast.ReturnStmt)
					if ok1 && ok2 && c.src(inner.Cond) == recv+".config.AckWhenCannotUnwrap" && len(inner.Body.List) == 1 &&
						c.src(inner.Body.List[0]) == "return nil" && inner.Else == nil && len(last.Results) == 1 && c.src(last.Results[0]) != "nil" {
						branch = true
					}
				}
			}
			if is.Init != nil && strings.Contains(c.src(is.Init), ".publisher.Publish(") && strings.HasSuffix(c.src(is.Cond), "!= nil") &&
				len(is.Body.List) == 1 {
				if rs, ok := is.Body.List[0].(*ast.ReturnStmt); ok && len(rs.Results) == 1 && c.src(rs.Results[0]) != "nil" {
					pubErrReturned = true
				}
			}
		}
		facts["forward_invalid_envelope_branch"] = branch
		facts["forward_publish_error_returned"] = pubErrReturned
		last := fd.Body.List[len(fd.Body.List)-1]
		facts["forward_ends_return_nil"] = c.src(last) == "return nil"
	}
	if fd, err := c.fn(c17Forwarder, "", "NewForwarder"); err != nil {
		note(err)
	} else {
		args, ok := c.c17CallArgs(fd, ".AddNoPublisherHandler")
		p := c13FieldNames(fd.Type.Params)
		facts["forwarder_handler_registration"] = ok && len(args) == 4 && len(p) == 4 && args[1] == p[3]+".ForwarderTopic" && args[2] == p[0] && strings.HasSuffix(args[3], ".forwardMessage")
	}

	// ---- envelope.go
	if f, err := c.file(c17Envelope); err != nil {
		note(err)
	} else {
		facts["envelope_json_fields"] = c17JSONTags(f, "messageEnvelope")
	}
	if fd, err := c.fn(c17Envelope, "messageEnvelope", "validate"); err != nil {
		note(err)
	} else {
		ok := false
		if len(fd.Body.List) == 2 {
			if is, isIf := fd.Body.List[0].(*ast.IfStmt); isIf && c.src(is.Cond) == c13RecvName(fd)+`.DestinationTopic == ""` && len(is.Body.List) == 1 {
				if rs, isRet := is.Body.List[0].(*ast.ReturnStmt); isRet && len(rs.Results) == 1 && c.src(rs.Results[0]) != "nil" {
					ok = c.src(fd.Body.List[1]) == "return nil"
				}
			}
		}
		facts["envelope_valid_iff_destination_nonempty"] = ok
	}
	if fd, err := c.fn(c17Envelope, "", "unwrapMessageFromEnvelope"); err != nil {
		note(err)
	} else {
		flat := c.stmtsFlat(fd.Body)
		facts["unwrap_order"] = c17Order(flat, "json.Unmarshal(", ".validate()", "message.NewMessage(", ".Metadata =", "return ")
		args, ok := c.c17CallArgs(fd, "message.NewMessage")
		facts["unwrap_new_message_from_envelope_uuid_payload"] = ok && len(args) == 2 && strings.HasSuffix(args[0], ".UUID") && strings.HasSuffix(args[1], ".Payload")
		md := false
		for _, s := range flat {
			if strings.Contains(s, ".Metadata = ") && strings.HasSuffix(s, ".Metadata") {
				md = true
			}
		}
		facts["unwrap_metadata_from_envelope"] = md
		last := fd.Body.List[len(fd.Body.List)-1]
		rs, isRet := last.(*ast.ReturnStmt)
		facts["unwrap_returns_envelope_destination"] = isRet && len(rs.Results) == 3 && strings.HasSuffix(c.src(rs.Results[0]), ".DestinationTopic") && c.src(rs.Results[2]) == "nil"
	}
	if fd, err := c.fn(c17Envelope, "", "newMessageEnvelope"); err != nil {
		note(err)
	} else {
		p := c13FieldNames(fd.Type.Params)
		kv := map[string]string{}
		ast.Inspect(fd, func(x ast.Node) bool {
			if e, ok := x.(*ast.KeyValueExpr); ok {
				kv[c.src(e.Key)] = c.src(e.Value)
			}
			return true
		})
		facts["envelope_built_from_topic_and_message"] = len(p) == 2 && kv["DestinationTopic"] == p[0] && kv["UUID"] == p[1]+".UUID" &&
			kv["Payload"] == p[1]+".Payload" && kv["Metadata"] == p[1]+".Metadata"
	}

	// ---- publisher.go
	if fd, err := c.fn(c17Publisher, "Publisher", "Publish"); err != nil {
		note(err)
	} else {
		p := c13FieldNames(fd.Type.Params)
		recv := c13RecvName(fd)
		// the wrap loop precedes the single Publish call, which is outside any loop
		inLoop, outside := 0, 0
		var walk func(n ast.Node, loop bool)
		walk = func(n ast.Node, loop bool) {
			ast.Inspect(n, func(x ast.Node) bool {
				switch s := x.(type) {
				case *ast.RangeStmt:
					if x != n {
						walk(s.Body, true)
						return false
					}
				case *ast.ForStmt:
					if x != n {
						walk(s.Body, true)
						return false
					}
				case *ast.CallExpr:
					if strings.HasSuffix(c.src(s.Fun), ".wrappedPublisher.Publish") {
						if loop {
							inLoop++
						} else {
							outside++
						}
					}
				}
				return true
			})
		}
		walk(fd.Body, false)
		facts["publisher_single_publish_outside_loop"] = inLoop == 0 && outside == 1
		args, ok := c.c17CallArgs(fd, ".wrappedPublisher.Publish")
		facts["publisher_publishes_batch_on_forwarder_topic"] = ok && len(args) == 2 && args[0] == recv+".config.ForwarderTopic" && strings.HasSuffix(args[1], "...")
		wargs, ok := c.c17CallArgs(fd, "wrapMessageInEnvelope")
		facts["publisher_wraps_with_publish_topic"] = ok && len(p) == 2 && len(wargs) == 2 && wargs[0] == p[0]
	}

	// ---- fanin.go
	if fd, err := c.fn(c17FanIn, "", "NewFanIn"); err != nil {
		note(err)
	} else {
		p := c13FieldNames(fd.Type.Params)
		args, ok := c.c17CallArgs(fd, ".AddHandler")
		good := ok && len(args) == 6 && len(p) == 4 && args[2] == p[0] && args[3] == p[2]+".TargetTopic" && args[4] == p[1]
		facts["fanin_handler_registration"] = good
		pass := false
		ast.Inspect(fd, func(x ast.Node) bool {
			if fl, ok := x.(*ast.FuncLit); ok && len(fl.Body.List) == 1 {
				mp := c13FieldNames(fl.Type.Params)
				if len(mp) == 1 && c.src(fl.Body.List[0]) == "return []*message.Message{"+mp[0]+"}, nil" {
					pass = true
				}
			}
			return true
		})
		facts["fanin_handler_is_passthrough"] = pass
		// one handler per source topic: AddHandler sits in a range over config.SourceTopics with the loop variable as subscribe topic
		perTopic := false
		ast.Inspect(fd, func(x ast.Node) bool {
			if rs, ok := x.(*ast.RangeStmt); ok && strings.HasSuffix(c.src(rs.X), ".SourceTopics") && rs.Value != nil {
				if a, ok := c.c17CallArgs(rs.Body, ".AddHandler"); ok && len(a) == 6 && a[1] == c.src(rs.Value) {
					perTopic = true
				}
			}
			return true
		})
		facts["fanin_one_handler_per_source_topic"] = perTopic
	}
	if fd, err := c.fn(c17FanIn, "Config", "Validate"); err != nil {
		note(err)
	} else {
		s := c.src(fd.Body)
		facts["fanin_validate_checks"] = []bool{strings.Contains(s, "len("+c13RecvName(fd)+".SourceTopics) == 0"), strings.Contains(s, `fromTopic == ""`),
			strings.Contains(s, c13RecvName(fd)+`.TargetTopic == ""`), strings.Contains(s, "fromTopic == "+c13RecvName(fd)+".TargetTopic")}
	}

	// ---- fanout.go
	if fd, err := c.fn(c17FanOut, "FanOut", "AddSubscription"); err != nil {
		note(err)
	} else {
		p := c13FieldNames(fd.Type.Params)
		recv := c13RecvName(fd)
		args, ok := c.c17CallArgs(fd, ".AddHandler")
		facts["fanout_handler_registration"] = ok && len(args) == 6 && len(p) == 1 && args[1] == p[0] && args[2] == recv+".subscriber" &&
			args[3] == p[0] && args[4] == recv+".internalPubSub" && args[5] == "message.PassthroughHandler"
		flat := c.stmtsFlat(fd.Body)
		facts["fanout_add_subscription_idempotent"] = c17Order(flat, ".subscribedLock.Lock()", ".subscribedTopics["+p[0]+"]", "return", ".AddHandler(", ".subscribedTopics["+p[0]+"] =")
	}
	if fd, err := c.fn(c17FanOut, "FanOut", "Subscribe"); err != nil {
		note(err)
	} else {
		facts["fanout_subscribe_on_internal_pubsub"] = len(fd.Body.List) == 1 && strings.HasPrefix(c.src(fd.Body.List[0]), "return "+c13RecvName(fd)+".internalPubSub.Subscribe(")
	}
	if f, err := c.file(c17Router); err != nil {
		note(err)
	} else {
		// var PassthroughHandler HandlerFunc = func(msg *Message) ([]*Message, error) { return []*Message{msg}, nil }
		pass := false
		for _, d := range f.Decls {
			gd, ok := d.(*ast.GenDecl)
			if !ok || gd.Tok != token.VAR {
				continue
			}
			for _, sp := range gd.Specs {
				vs := sp.(*ast.ValueSpec)
				if len(vs.Names) == 1 && vs.Names[0].Name == "PassthroughHandler" && len(vs.Values) == 1 {
					if fl, ok := vs.Values[0].(*ast.FuncLit); ok {
						p := c13FieldNames(fl.Type.Params)
						pass = len(p) == 1 && len(fl.Body.List) == 1 && c.src(fl.Body.List[0]) == "return []*Message{"+p[0]+"}, nil"
					}
				}
			}
		}
		facts["router_passthrough_handler"] = pass
	}

	// ---- requeuer.go
	if f, err := c.file(c17Requeuer); err != nil {
		note(err)
	} else {
		facts["requeuer_retries_key"] = c13StringConsts(f)["RetriesKey"]
	}
	if fd, err := c.fn(c17Requeuer, "Requeuer", "handler"); err != nil {
		note(err)
	} else {
		p := c13FieldNames(fd.Type.Params)
		msg := ""
		if len(p) == 1 {
			msg = p[0]
		}
		flat := c.stmtsFlat(fd.Body)
		facts["requeuer_statement_order"] = c17Order(flat, ".GeneratePublishTopic(", msg+".Metadata.Get(RetriesKey)", "strconv.Atoi(", "retries = 0", "retries++",
			msg+".Metadata.Set(RetriesKey, strconv.Itoa(retries))", ".Publisher.Publish(")
		incs, otherWrites := 0, 0
		ast.Inspect(fd, func(x ast.Node) bool {
			switch s := x.(type) {
			case *ast.IncDecStmt:
				if c.src(s.X) == "retries" && s.Tok == token.INC {
					incs++
				} else {
					otherWrites++
				}
			case *ast.AssignStmt:
				for _, l := range s.Lhs {
					if c.src(l) == "retries" && c.src(s) != "retries = 0" && !strings.Contains(c.src(s), "strconv.Atoi(") {
						otherWrites++
					}
				}
			}
			return true
		})
		facts["requeuer_counter_incremented_once"] = incs == 1 && otherWrites == 0
		facts["requeuer_metadata_writes_in_source"] = c.c17CountCalls(fd, ".Metadata.Set")
		args, ok := c.c17CallArgs(fd, ".Publisher.Publish")
		facts["requeuer_publishes_message_to_generated_topic"] = ok && len(args) == 2 && args[0] == "topic" && args[1] == msg
		facts["requeuer_publish_calls_in_source"] = c.c17CountCalls(fd, ".Publish")
		// every error is returned (→ Nack): each `if err != nil` body is `return err` except the Atoi one
		errIfs, errRets := 0, 0
		for _, st := range fd.Body.List {
			if is, ok := st.(*ast.IfStmt); ok && c.src(is.Cond) == "err != nil" {
				errIfs++
				if len(is.Body.List) == 1 && c.src(is.Body.List[0]) == "return err" {
					errRets++
				}
			}
		}
		facts["requeuer_error_branches"] = []int{errIfs, errRets}
	}
	if fd, err := c.fn(c17Requeuer, "", "NewRequeuer"); err != nil {
		note(err)
	} else {
		args, ok := c.c17CallArgs(fd, ".AddNoPublisherHandler")
		facts["requeuer_handler_registration"] = ok && len(args) == 4 && args[1] == "config.SubscribeTopic" && args[2] == "config.Subscriber" && strings.HasSuffix(args[3], ".handler")
	}
	return facts, firstErr
}
