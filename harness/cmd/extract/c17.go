package main

import (
	"go/ast"
	"go/token"
	"reflect"
	"strconv"
	"strings"
)

func init() { extractors["C17"] = extractC17 }

const (
	c17Forwarder = "components/forwarder/forwarder.go"
	c17Publisher = "components/forwarder/publisher.go"
	c17Envelope  = "components/forwarder/envelope.go"
	c17FanIn     = "components/fanin/fanin.go"
	c17FanOut    = "pubsub/gochannel/fanout.go"
	c17Requeuer  = "components/requeuer/requeuer.go"
	c17Router    = "message/router.go"
)

// c17CallArgs returns the textual arguments of the first call whose function text ends with suffix inside n.
func (c *ctx) c17CallArgs(n ast.Node, suffix string) ([]string, bool) {
	var out []string
	found := false
	ast.Inspect(n, func(x ast.Node) bool {
		if found {
			return false
		}
		if ce, ok := x.(*ast.CallExpr); ok && strings.HasSuffix(c.src(ce.Fun), suffix) {
			for _, a := range ce.Args {
				s := c.src(a)
				if ce.Ellipsis != token.NoPos && a == ce.Args[len(ce.Args)-1] {
					s += "..."
				}
				out = append(out, s)
			}
			found = true
			return false
		}
		return true
	})
	return out, found
}

func (c *ctx) c17CountCalls(n ast.Node, suffix string) int {
	k := 0
	ast.Inspect(n, func(x ast.Node) bool {
		if ce, ok := x.(*ast.CallExpr); ok && strings.HasSuffix(c.src(ce.Fun), suffix) {
			k++
		}
		return true
	})
	return k
}

// c17JSONTags lists "Field:jsonname" of a struct type.
func c17JSONTags(f *ast.File, typeName string) []string {
	var out []string
	for _, d := range f.Decls {
		gd, ok := d.(*ast.GenDecl)
		if !ok || gd.Tok != token.TYPE {
			continue
		}
		for _, sp := range gd.Specs {
			ts := sp.(*ast.TypeSpec)
			st, ok := ts.Type.(*ast.StructType)
			if !ok || ts.Name.Name != typeName {
				continue
			}
			for _, fl := range st.Fields.List {
				tag := ""
				if fl.Tag != nil {
					if v, err := strconv.Unquote(fl.Tag.Value); err == nil {
						tag = reflect.StructTag(v).Get("json")
					}
				}
				for _, n := range fl.Names {
					out = append(out, n.Name+":"+tag)
				}
			}
		}
	}
	return out
}

func c17Order(flat []string, subs ...string) bool {
	pos := -1
	for _, sub := range subs {
		i := -1
		for j := pos + 1; j < len(flat); j++ {
			if strings.Contains(flat[j], sub) {
				i = j
				break
			}
		}
		if i < 0 {
			return false
		}
		pos = i
	}
	return true
}

func extractC17(c *ctx) (Facts, error) {
	facts := Facts{}
	var firstErr error
	note := func(err error) {
		if err != nil && firstErr == nil {
			firstErr = err
		}
	}

	// ---- forwarder.go
	if f, err := c.file(c17Forwarder); err != nil {
		note(err)
	} else {
		facts["forwarder_default_topic"] = c13StringConsts(f)["defaultForwarderTopic"]
	}
	if fd, err := c.fn(c17Forwarder, "Forwarder", "forwardMessage"); err != nil {
		note(err)
	} else {
		msg := ""
		if p := c13FieldNames(fd.Type.Params); len(p) == 1 {
			msg = p[0]
		}
		recv := c13RecvName(fd)
		// first statement: destTopic, unwrappedMsg, err := unwrapMessageFromEnvelope(msg)
		var lhs []string
		if as, ok := fd.Body.List[0].(*ast.AssignStmt); ok && len(as.Rhs) == 1 && c.src(as.Rhs[0]) == "unwrapMessageFromEnvelope("+msg+")" {
			for _, l := range as.Lhs {
				lhs = append(lhs, c.src(l))
			}
		}
		facts["forward_unwraps_first"] = len(lhs) == 3
		args, ok := c.c17CallArgs(fd, ".publisher.Publish")
		facts["forward_publishes_unwrapped_to_embedded_topic"] = ok && len(lhs) == 3 && len(args) == 2 && args[0] == lhs[0] && args[1] == lhs[1]
		facts["forward_publish_calls_in_source"] = c.c17CountCalls(fd, ".Publish")
		// the error branch: if err != nil { …; if f.config.AckWhenCannotUnwrap { return nil }; return errors.Wrap(err, …) }
		branch := false
		pubErrReturned := false
		for _, st := range fd.Body.List {
			is, ok := st.(*ast.IfStmt)
			if !ok {
				continue
			}
			if is.Init == nil && len(lhs) == 3 && c.src(is.Cond) == lhs[2]+" != nil" {
				n := len(is.Body.List)
				if n >= 2 {
					inner, ok1 := is.Body.List[n-2].(*ast.IfStmt)
					last, ok2 := is.Body.List[n-1].(*ast.ReturnStmt)
					if ok1 && ok2 && c.src(inner.Cond) == recv+".config.AckWhenCannotUnwrap" && len(inner.Body.List) == 1 &&
						c.src(inner.Body.List[0]) == "return nil" && inner.Else == nil && len(last.Results) == 1 && c.src(last.Results[0]) != "nil" {
						branch = true
					}
				}
			}
			if is.Init != nil && strings.Contains(c.src(is.Init), ".publisher.Publish(") && strings.HasSuffix(c.src(is.Cond), "!= nil") &&
				len(is.Body.List) == 1 {
				if rs, ok := is.Body.List[0].(*ast.ReturnStmt); ok && len(rs.Results) == 1 && c.src(rs.Results[0]) != "nil" {
					pubErrReturned = true
				}
			}
		}
		facts["forward_invalid_envelope_branch"] = branch
		facts["forward_publish_error_returned"] = pubErrReturned
		last := fd.Body.List[len(fd.Body.List)-1]
		facts["forward_ends_return_nil"] = c.src(last) == "return nil"
	}
	if fd, err := c.fn(c17Forwarder, "", "NewForwarder"); err != nil {
		note(err)
	} else {
		args, ok := c.c17CallArgs(fd, ".AddNoPublisherHandler")
		p := c13FieldNames(fd.Type.Params)
		facts["forwarder_handler_registration"] = ok && len(args) == 4 && len(p) == 4 && args[1] == p[3]+".ForwarderTopic" && args[2] == p[0] && strings.HasSuffix(args[3], ".forwardMessage")
	}

	// ---- envelope.go
	if f, err := c.file(c17Envelope); err != nil {
		note(err)
	} else {
		facts["envelope_json_fields"] = c17JSONTags(f, "messageEnvelope")
	}
	if fd, err := c.fn(c17Envelope, "messageEnvelope", "validate"); err != nil {
		note(err)
	} else {
		ok := false
		if len(fd.Body.List) == 2 {
			if is, isIf := fd.Body.List[0].(*ast.IfStmt); isIf && c.src(is.Cond) == c13RecvName(fd)+`.DestinationTopic == ""` && len(is.Body.List) == 1 {
				if rs, isRet := is.Body.List[0].(*ast.ReturnStmt); isRet && len(rs.Results) == 1 && c.src(rs.Results[0]) != "nil" {
					ok = c.src(fd.Body.List[1]) == "return nil"
				}
			}
		}
		facts["envelope_valid_iff_destination_nonempty"] = ok
	}
	if fd, err := c.fn(c17Envelope, "", "unwrapMessageFromEnvelope"); err != nil {
		note(err)
	} else {
		flat := c.stmtsFlat(fd.Body)
		facts["unwrap_order"] = c17Order(flat, "json.Unmarshal(", ".validate()", "message.NewMessage(", ".Metadata =", "return ")
		args, ok := c.c17CallArgs(fd, "message.NewMessage")
		facts["unwrap_new_message_from_envelope_uuid_payload"] = ok && len(args) == 2 && strings.HasSuffix(args[0], ".UUID") && strings.HasSuffix(args[1], ".Payload")
		md := false
		for _, s := range flat {
			if strings.Contains(s, ".Metadata = ") && strings.HasSuffix(s, ".Metadata") {
				md = true
			}
		}
		facts["unwrap_metadata_from_envelope"] = md
		last := fd.Body.List[len(fd.Body.List)-1]
		rs, isRet := last.(*ast.ReturnStmt)
		facts["unwrap_returns_envelope_destination"] = isRet && len(rs.Results) == 3 && strings.HasSuffix(c.src(rs.Results[0]), ".DestinationTopic") && c.src(rs.Results[2]) == "nil"
	}
	if fd, err := c.fn(c17Envelope, "", "newMessageEnvelope"); err != nil {
		note(err)
	} else {
		p := c13FieldNames(fd.Type.Params)
		kv := map[string]string{}
		ast.Inspect(fd, func(x ast.Node) bool {
			if e, ok := x.(*ast.KeyValueExpr); ok {
				kv[c.src(e.Key)] = c.src(e.Value)
			}
			return true
		})
		facts["envelope_built_from_topic_and_message"] = len(p) == 2 && kv["DestinationTopic"] == p[0] && kv["UUID"] == p[1]+".UUID" &&
			kv["Payload"] == p[1]+".Payload" && kv["Metadata"] == p[1]+".Metadata"
	}

	// ---- publisher.go
	if fd, err := c.fn(c17Publisher, "Publisher", "Publish"); err != nil {
		note(err)
	} else {
		p := c13FieldNames(fd.Type.Params)
		recv := c13RecvName(fd)
		// the wrap loop precedes the single Publish call, which is outside any loop
		inLoop, outside := 0, 0
		var walk func(n ast.Node, loop bool)
		walk = func(n ast.Node, loop bool) {
			ast.Inspect(n, func(x ast.Node) bool {
				switch s := x.(type) {
				case *ast.RangeStmt:
					if x != n {
						walk(s.Body, true)
						return false
					}
				case *ast.ForStmt:
					if x != n {
						walk(s.Body, true)
						return false
					}
				case *ast.CallExpr:
					if strings.HasSuffix(c.src(s.Fun), ".wrappedPublisher.Publish") {
						if loop {
							inLoop++
						} else {
							outside++
						}
					}
				}
				return true
			})
		}
		walk(fd.Body, false)
		facts["publisher_single_publish_outside_loop"] = inLoop == 0 && outside == 1
		args, ok := c.c17CallArgs(fd, ".wrappedPublisher.Publish")
		facts["publisher_publishes_batch_on_forwarder_topic"] = ok && len(args) == 2 && args[0] == recv+".config.ForwarderTopic" && strings.HasSuffix(args[1], "...")
		wargs, ok := c.c17CallArgs(fd, "wrapMessageInEnvelope")
		facts["publisher_wraps_with_publish_topic"] = ok && len(p) == 2 && len(wargs) == 2 && wargs[0] == p[0]
	}

	// ---- fanin.go
	if fd, err := c.fn(c17FanIn, "", "NewFanIn"); err != nil {
		note(err)
	} else {
		p := c13FieldNames(fd.Type.Params)
		args, ok := c.c17CallArgs(fd, ".AddHandler")
		good := ok && len(args) == 6 && len(p) == 4 && args[2] == p[0] && args[3] == p[2]+".TargetTopic" && args[4] == p[1]
		facts["fanin_handler_registration"] = good
		pass := false
		ast.Inspect(fd, func(x ast.Node) bool {
			if fl, ok := x.(*ast.FuncLit); ok && len(fl.Body.List) == 1 {
				mp := c13FieldNames(fl.Type.Params)
				if len(mp) == 1 && c.src(fl.Body.List[0]) == "return []*message.Message{"+mp[0]+"}, nil" {
					pass = true
				}
			}
			return true
		})
		facts["fanin_handler_is_passthrough"] = pass
		// one handler per source topic: AddHandler sits in a range over config.SourceTopics with the loop variable as subscribe topic
		perTopic := false
		ast.Inspect(fd, func(x ast.Node) bool {
			if rs, ok := x.(*ast.RangeStmt); ok && strings.HasSuffix(c.src(rs.X), ".SourceTopics") && rs.Value != nil {
				if a, ok := c.c17CallArgs(rs.Body, ".AddHandler"); ok && len(a) == 6 && a[1] == c.src(rs.Value) {
					perTopic = true
				}
			}
			return true
		})
		facts["fanin_one_handler_per_source_topic"] = perTopic
	}
	if fd, err := c.fn(c17FanIn, "Config", "Validate"); err != nil {
		note(err)
	} else {
		s := c.src(fd.Body)
		facts["fanin_validate_checks"] = []bool{strings.Contains(s, "len("+c13RecvName(fd)+".SourceTopics) == 0"), strings.Contains(s, `fromTopic == ""`),
			strings.Contains(s, c13RecvName(fd)+`.TargetTopic == ""`), strings.Contains(s, "fromTopic == "+c13RecvName(fd)+".TargetTopic")}
	}

	// ---- fanout.go
	if fd, err := c.fn(c17FanOut, "FanOut", "AddSubscription"); err != nil {
		note(err)
	} else {
		p := c13FieldNames(fd.Type.Params)
		recv := c13RecvName(fd)
		args, ok := c.c17CallArgs(fd, ".AddHandler")
		facts["fanout_handler_registration"] = ok && len(args) == 6 && len(p) == 1 && args[1] == p[0] && args[2] == recv+".subscriber" &&
			args[3] == p[0] && args[4] == recv+".internalPubSub" && args[5] == "message.PassthroughHandler"
		flat := c.stmtsFlat(fd.Body)
		facts["fanout_add_subscription_idempotent"] = c17Order(flat, ".subscribedLock.Lock()", ".subscribedTopics["+p[0]+"]", "return", ".AddHandler(", ".subscribedTopics["+p[0]+"] =")
	}
	if fd, err := c.fn(c17FanOut, "FanOut", "Subscribe"); err != nil {
		note(err)
	} else {
		facts["fanout_subscribe_on_internal_pubsub"] = len(fd.Body.List) == 1 && strings.HasPrefix(c.src(fd.Body.List[0]), "return "+c13RecvName(fd)+".internalPubSub.Subscribe(")
	}
	if f, err := c.file(c17Router); err != nil {
		note(err)
	} else {
		// var PassthroughHandler HandlerFunc = func(msg *Message) ([]*Message, error) { return []*Message{msg}, nil }
		pass := false
		for _, d := range f.Decls {
			gd, ok := d.(*ast.GenDecl)
			if !ok || gd.Tok != token.VAR {
				continue
			}
			for _, sp := range gd.Specs {
				vs := sp.(*ast.ValueSpec)
				if len(vs.Names) == 1 && vs.Names[0].Name == "PassthroughHandler" && len(vs.Values) == 1 {
					if fl, ok := vs.Values[0].(*ast.FuncLit); ok {
						p := c13FieldNames(fl.Type.Params)
						pass = len(p) == 1 && len(fl.Body.List) == 1 && c.src(fl.Body.List[0]) == "return []*Message{"+p[0]+"}, nil"
					}
				}
			}
		}
		facts["router_passthrough_handler"] = pass
	}

	// ---- requeuer.go
	if f, err := c.file(c17Requeuer); err != nil {
		note(err)
	} else {
		facts["requeuer_retries_key"] = c13StringConsts(f)["RetriesKey"]
	}
	if fd, err := c.fn(c17Requeuer, "Requeuer", "handler"); err != nil {
		note(err)
	} else {
		p := c13FieldNames(fd.Type.Params)
		msg := ""
		if len(p) == 1 {
			msg = p[0]
		}
		flat := c.stmtsFlat(fd.Body)
		facts["requeuer_statement_order"] = c17Order(flat, ".GeneratePublishTopic(", msg+".Metadata.Get(RetriesKey)", "strconv.Atoi(", "retries = 0", "retries++",
			msg+".Metadata.Set(RetriesKey, strconv.Itoa(retries))", ".Publisher.Publish(")
		incs, otherWrites := 0, 0
		ast.Inspect(fd, func(x ast.Node) bool {
			switch s := x.(type) {
			case *ast.IncDecStmt:
				if c.src(s.X) == "retries" && s.Tok == token.INC {
					incs++
				} else {
					otherWrites++
				}
			case *ast.AssignStmt:
				for _, l := range s.Lhs {
					if c.src(l) == "retries" && c.src(s) != "retries = 0" && !strings.Contains(c.src(s), "strconv.Atoi(") {
						otherWrites++
					}
				}
			}
			return true
		})
		facts["requeuer_counter_incremented_once"] = incs == 1 && otherWrites == 0
		facts["requeuer_metadata_writes_in_source"] = c.c17CountCalls(fd, ".Metadata.Set")
		args, ok := c.c17CallArgs(fd, ".Publisher.Publish")
		facts["requeuer_publishes_message_to_generated_topic"] = ok && len(args) == 2 && args[0] == "topic" && args[1] == msg
		facts["requeuer_publish_calls_in_source"] = c.c17CountCalls(fd, ".Publish")
		// every error is returned (→ Nack): each `if err != nil` body is `return err` except the Atoi one
		errIfs, errRets := 0, 0
		for _, st := range fd.Body.List {
			if is, ok := st.(*ast.IfStmt); ok && c.src(is.Cond) == "err != nil" {
				errIfs++
				if len(is.Body.List) == 1 && c.src(is.Body.List[0]) == "return err" {
					errRets++
				}
			}
		}
		facts["requeuer_error_branches"] = []int{errIfs, errRets}
	}
	if fd, err := c.fn(c17Requeuer, "", "NewRequeuer"); err != nil {
		note(err)
	} else {
		args, ok := c.c17CallArgs(fd, ".AddNoPublisherHandler")
		facts["requeuer_handler_registration"] = ok && len(args) == 4 && args[1] == "config.SubscribeTopic" && args[2] == "config.Subscriber" && strings.HasSuffix(args[3], ".handler")
	}
	// ---- deep-embedded bodies (WmModel/Gen/RelayBody.lean)
	rq, uw, fw := c.c17RequeuerBody(), c.c17UnwrapBody(), c.c17ForwardBody()
	unknown := 0
	for _, l := range append(append(append([]string{}, rq...), uw...), fw...) {
		if strings.Contains(l, ".unknown ") {
			unknown++
		}
	}
	facts["body_unknown_statements"] = unknown
	facts["body_statement_counts"] = []int{len(rq), len(uw), len(fw)}
	var sb strings.Builder
	sb.WriteString("/- GENERATED by harness/cmd/extract from " + c17Requeuer + ", " + c17Forwarder + ", " + c17Envelope + " on every run – do not edit -/\n")
	sb.WriteString("import WmModel.GoRelay\nnamespace Wm.GoRelay.Gen\nopen Wm.GoRelay\n\n")
	sb.WriteString("def requeuerBody : List RqStmt := [\n  " + strings.Join(rq, ",\n  ") + "\n]\n\n")
	sb.WriteString("def unwrapBody : List UwStmt := [\n  " + strings.Join(uw, ",\n  ") + "\n]\n\n")
	sb.WriteString("def forwardBody : List FwStmt := [\n  " + strings.Join(fw, ",\n  ") + "\n]\n\n")
	sb.WriteString("end Wm.GoRelay.Gen\n")
	if err := c.writeLean("RelayBody.lean", sb.String()); err != nil {
		return facts, err
	}
	return facts, firstErr
}

func (c *ctx) c17Unknown(n ast.Node) string { return ".unknown " + leanStr(c.src(n)) }

// isErrReturn: `return <zero values…>, <non-nil error expression>` with nres results.
func (c *ctx) c17IsErrReturn(st ast.Stmt, nres int) bool {
	rs, ok := st.(*ast.ReturnStmt)
	if !ok || len(rs.Results) != nres {
		return false
	}
	for i := 0; i < nres-1; i++ {
		z := c.src(rs.Results[i])
		if z != `""` && z != "nil" {
			return false
		}
	}
	return c.src(rs.Results[nres-1]) != "nil"
}

// (*Requeuer).handler
func (c *ctx) c17RequeuerBody() []string {
	fd, err := c.fn(c17Requeuer, "Requeuer", "handler")
	if err != nil {
		return []string{".unknown " + leanStr(err.Error())}
	}
	f, _ := c.file(c17Requeuer)
	consts := c13StringConsts(f)
	recv := c13RecvName(fd)
	p := c13FieldNames(fd.Type.Params)
	if len(p) != 1 {
		return []string{".unknown " + leanStr("handler signature")}
	}
	msg := p[0]
	topicVar, errVar, strVar, numVar := "", "", "", ""
	key := func(e ast.Expr) (string, bool) {
		if id, ok := e.(*ast.Ident); ok {
			v, ok := consts[id.Name]
			return v, ok
		}
		return "", false
	}
	var out []string
	for _, st := range fd.Body.List {
		u := c.c17Unknown(st)
		switch s := st.(type) {
		case *ast.IfStmt:
			cond := c.src(s.Cond)
			switch {
			case s.Init == nil && s.Else == nil && cond == recv+".config.Delay > 0" && len(s.Body.List) == 1:
				// select { case <-msg.Context().Done(): return msg.Context().Err(); case <-time.After(r.config.Delay): }
				sel, ok := s.Body.List[0].(*ast.SelectStmt)
				good := ok && len(sel.Body.List) == 2
				if good {
					seenDone, seenTimer := false, false
					for _, cl := range sel.Body.List {
						cc := cl.(*ast.CommClause)
						if cc.Comm == nil {
							good = false
							continue
						}
						switch c.src(cc.Comm) {
						case "<-" + msg + ".Context().Done()":
							seenDone = len(cc.Body) == 1 && c.src(cc.Body[0]) == "return "+msg+".Context().Err()"
						case "<-time.After(" + recv + ".config.Delay)":
							seenTimer = len(cc.Body) == 0
						default:
							good = false
						}
					}
					good = good && seenDone && seenTimer
				}
				if good {
					u = ".delayWait"
				}
			case s.Init == nil && s.Else == nil && errVar != "" && cond == errVar+" != nil" && len(s.Body.List) == 1:
				b := c.src(s.Body.List[0])
				if b == "return "+errVar {
					u = ".ifErrReturn"
				} else if numVar != "" && b == numVar+" = 0" {
					u = ".ifErrZero"
				}
			}
		case *ast.AssignStmt:
			l := make([]string, len(s.Lhs))
			for i, x := range s.Lhs {
				l[i] = c.src(x)
			}
			r := ""
			if len(s.Rhs) == 1 {
				r = c.src(s.Rhs[0])
			}
			switch {
			case s.Tok == token.DEFINE && len(l) == 2 && r == recv+".config.GeneratePublishTopic(GeneratePublishTopicParams{Message: "+msg+"})":
				topicVar, errVar = l[0], l[1]
				u = ".genTopic"
			case s.Tok == token.DEFINE && len(l) == 1:
				if ce, ok := s.Rhs[0].(*ast.CallExpr); ok && c.src(ce.Fun) == msg+".Metadata.Get" && len(ce.Args) == 1 {
					if k, ok := key(ce.Args[0]); ok {
						strVar = l[0]
						u = ".getRetries " + leanStr(k)
					}
				}
			case s.Tok == token.DEFINE && len(l) == 2 && strVar != "" && r == "strconv.Atoi("+strVar+")" && l[1] == errVar:
				numVar = l[0]
				u = ".atoi"
			case s.Tok == token.ASSIGN && len(l) == 1 && l[0] == errVar && topicVar != "" && r == recv+".config.Publisher.Publish("+topicVar+", "+msg+")":
				u = ".publish"
			}
		case *ast.IncDecStmt:
			if s.Tok == token.INC && numVar != "" && c.src(s.X) == numVar {
				u = ".inc"
			}
		case *ast.ExprStmt:
			if ce, ok := s.X.(*ast.CallExpr); ok && c.src(ce.Fun) == msg+".Metadata.Set" && len(ce.Args) == 2 && numVar != "" &&
				c.src(ce.Args[1]) == "strconv.Itoa("+numVar+")" {
				if k, ok := key(ce.Args[0]); ok {
					u = ".setRetries " + leanStr(k)
				}
			}
		case *ast.ReturnStmt:
			if len(s.Results) == 1 && c.src(s.Results[0]) == "nil" {
				u = ".retNil"
			}
		}
		out = append(out, u)
	}
	return out
}

// unwrapMessageFromEnvelope
func (c *ctx) c17UnwrapBody() []string {
	fd, err := c.fn(c17Envelope, "", "unwrapMessageFromEnvelope")
	if err != nil {
		return []string{".unknown " + leanStr(err.Error())}
	}
	p := c13FieldNames(fd.Type.Params)
	if len(p) != 1 || len(c13FieldNames(fd.Type.Results)) != 3 {
		return []string{".unknown " + leanStr("unwrapMessageFromEnvelope signature")}
	}
	msg := p[0]
	envVar, wmVar := "", ""
	var out []string
	for _, st := range fd.Body.List {
		u := c.c17Unknown(st)
		switch s := st.(type) {
		case *ast.AssignStmt:
			if len(s.Lhs) != 1 || len(s.Rhs) != 1 {
				break
			}
			l, r := c.src(s.Lhs[0]), c.src(s.Rhs[0])
			switch {
			case s.Tok == token.DEFINE && r == "messageEnvelope{}":
				envVar = l
				u = ".declEnvelope"
			case s.Tok == token.DEFINE && envVar != "" && r == "message.NewMessage("+envVar+".UUID, "+envVar+".Payload)":
				wmVar = l
				u = ".newMessage"
			case s.Tok == token.ASSIGN && wmVar != "" && l == wmVar+".Metadata" && r == envVar+".Metadata":
				u = ".setMetadata"
			}
		case *ast.IfStmt:
			if s.Init == nil || s.Else != nil || len(s.Body.List) != 1 || !c.c17IsErrReturn(s.Body.List[0], 3) || envVar == "" {
				break
			}
			as, ok := s.Init.(*ast.AssignStmt)
			if !ok || len(as.Lhs) != 1 || len(as.Rhs) != 1 || c.src(s.Cond) != c.src(as.Lhs[0])+" != nil" {
				break
			}
			switch c.src(as.Rhs[0]) {
			case "json.Unmarshal(" + msg + ".Payload, &" + envVar + ")":
				u = ".unmarshalIfErrRet"
			case envVar + ".validate()":
				u = ".validateIfErrRet"
			}
		case *ast.ExprStmt:
			if wmVar != "" && c.src(s.X) == wmVar+".SetContext("+msg+".Context())" {
				u = ".setContext"
			}
		case *ast.ReturnStmt:
			if len(s.Results) == 3 && envVar != "" && wmVar != "" && c.src(s.Results[0]) == envVar+".DestinationTopic" &&
				c.src(s.Results[1]) == wmVar && c.src(s.Results[2]) == "nil" {
				u = ".retOk"
			}
		}
		out = append(out, u)
	}
	return out
}

// (*Forwarder).forwardMessage
func (c *ctx) c17ForwardBody() []string {
	fd, err := c.fn(c17Forwarder, "Forwarder", "forwardMessage")
	if err != nil {
		return []string{".unknown " + leanStr(err.Error())}
	}
	p := c13FieldNames(fd.Type.Params)
	if len(p) != 1 {
		return []string{".unknown " + leanStr("forwardMessage signature")}
	}
	msg, recv := p[0], c13RecvName(fd)
	topicVar, umVar, errVar := "", "", ""
	isLog := func(st ast.Stmt) bool {
		es, ok := st.(*ast.ExprStmt)
		if !ok {
			return false
		}
		ce, ok := es.X.(*ast.CallExpr)
		return ok && strings.HasPrefix(c.src(ce.Fun), recv+".logger.")
	}
	var out []string
	for _, st := range fd.Body.List {
		u := c.c17Unknown(st)
		switch s := st.(type) {
		case *ast.AssignStmt:
			if s.Tok == token.DEFINE && len(s.Lhs) == 3 && len(s.Rhs) == 1 && c.src(s.Rhs[0]) == "unwrapMessageFromEnvelope("+msg+")" {
				topicVar, umVar, errVar = c.src(s.Lhs[0]), c.src(s.Lhs[1]), c.src(s.Lhs[2])
				u = ".unwrap"
			}
		case *ast.IfStmt:
			if s.Else != nil {
				break
			}
			if s.Init == nil && errVar != "" && c.src(s.Cond) == errVar+" != nil" {
				var body []string
				for _, b := range s.Body.List {
					if isLog(b) {
						continue // logging has no effect on publishing or settlement
					}
					bu := c.c17Unknown(b)
					switch bs := b.(type) {
					case *ast.IfStmt:
						if bs.Init == nil && bs.Else == nil && c.src(bs.Cond) == recv+".config.AckWhenCannotUnwrap" && len(bs.Body.List) == 1 &&
							c.src(bs.Body.List[0]) == "return nil" {
							bu = ".ifAckFlagRetNil"
						}
					case *ast.ReturnStmt:
						if c.c17IsErrReturn(bs, 1) {
							bu = ".retErr"
						}
					}
					body = append(body, bu)
				}
				u = ".ifErr [\n    " + strings.Join(body, ",\n    ") + "\n  ]"
			} else if s.Init != nil && topicVar != "" {
				as, ok := s.Init.(*ast.AssignStmt)
				if ok && len(as.Lhs) == 1 && len(as.Rhs) == 1 && c.src(as.Rhs[0]) == recv+".publisher.Publish("+topicVar+", "+umVar+")" &&
					c.src(s.Cond) == c.src(as.Lhs[0])+" != nil" && len(s.Body.List) == 1 && c.c17IsErrReturn(s.Body.List[0], 1) {
					u = ".ifPublishErrRetErr"
				}
			}
		case *ast.ReturnStmt:
			if len(s.Results) == 1 && c.src(s.Results[0]) == "nil" {
				u = ".retNil"
			}
		}
		out = append(out, u)
	}
	return out
}
