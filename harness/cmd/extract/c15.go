package main

import (
	"fmt"
	"go/ast"
	"go/token"
	"regexp"
	"strings"
)

func init() { extractors["C15"] = extractC15 }

// C15: (a) the three router handler closures of components/cqrs printed in the statement language of
// WmModel/GoCqrs.lean (-> WmModel/Gen/CqrsBody.lean, tied to the model by Props/C15Tie.lean);
// (b) structural facts about the buses, the marshalers' name glue and ctx.go.

const c15Dir = "components/cqrs/"

type c15Printer struct {
	c       *ctx
	defs    map[string][]string // identifier -> right-hand sides of every `x := rhs` / `x, y := call` in the enclosing function
	inner   map[string][]string // the same, definitions inside the closure only
	unknown int
	ren     []*regexp.Regexp // identifiers of this function that play a fixed role …
	to      []string         // … and the canonical names the patterns below are written with
}

// rename makes the printer read `from` as the canonical identifier `to` (so that renaming a receiver, parameter or
// local flag in the Go source does not change what is printed).
func (p *c15Printer) rename(from, to string) {
	if from == "" || from == to || from == "_" {
		return
	}
	p.ren = append(p.ren, regexp.MustCompile(`\b`+regexp.QuoteMeta(from)+`\b`))
	p.to = append(p.to, to)
}

func (p *c15Printer) src(n ast.Node) string {
	s := p.c.src(n)
	for i, re := range p.ren {
		s = re.ReplaceAllString(s, p.to[i])
	}
	return s
}

func c15ParamName(fl *ast.FieldList, i int) string {
	k := 0
	if fl == nil {
		return ""
	}
	for _, f := range fl.List {
		for _, n := range f.Names {
			if k == i {
				return n.Name
			}
			k++
		}
	}
	return ""
}

// roles finds the identifiers with a fixed role: receiver, closure parameter (the message), logger parameter,
// the handler (parameter or range variable), the handlers slice, the boolean flag set to true inside the loop.
func (p *c15Printer) roles(fd *ast.FuncDecl, lit *ast.FuncLit, group bool) {
	if fd.Recv != nil && len(fd.Recv.List) == 1 && len(fd.Recv.List[0].Names) == 1 {
		p.rename(fd.Recv.List[0].Names[0].Name, "p")
	}
	p.rename(c15ParamName(lit.Type.Params, 0), "msg")
	for _, f := range fd.Type.Params.List {
		if strings.HasSuffix(p.c.src(f.Type), "LoggerAdapter") && len(f.Names) == 1 {
			p.rename(f.Names[0].Name, "logger")
		}
	}
	if !group {
		p.rename(c15ParamName(fd.Type.Params, 0), "handler")
		return
	}
	p.rename(c15ParamName(fd.Type.Params, 0), "handlers")
	ast.Inspect(lit, func(n ast.Node) bool {
		if rs, ok := n.(*ast.RangeStmt); ok && rs.Value != nil {
			p.rename(p.c.src(rs.Value), "handler")
		}
		if as, ok := n.(*ast.AssignStmt); ok && as.Tok == token.DEFINE && len(as.Lhs) == 1 && len(as.Rhs) == 1 && p.c.src(as.Rhs[0]) == "false" {
			p.rename(p.c.src(as.Lhs[0]), "handledAnyEvent")
		}
		return true
	})
}

var (
	c15ReNameFromMsg = regexp.MustCompile(`^p\.config\.Marshaler\.NameFromMessage\(msg\)$`)
	c15ReName        = regexp.MustCompile(`^p\.config\.Marshaler\.Name\((\w+)\)$`)
	c15ReNew         = regexp.MustCompile(`^handler\.New(Command|Event)\(\)$`)
	c15ReLogger      = regexp.MustCompile(`^logger\.(Trace|Debug|Info|Error)\(`)
)

func (p *c15Printer) collectDefs(fd *ast.FuncDecl) {
	p.defs = c15CollectDefs(p.src, fd)
}

func c15CollectDefs(src func(ast.Node) string, fd ast.Node) map[string][]string {
	defs := map[string][]string{}
	ast.Inspect(fd, func(n ast.Node) bool {
		as, ok := n.(*ast.AssignStmt)
		if !ok || as.Tok != token.DEFINE {
			return true
		}
		for i, l := range as.Lhs {
			if _, ok := l.(*ast.Ident); !ok {
				continue
			}
			rhs := as.Rhs[0]
			if len(as.Rhs) == len(as.Lhs) {
				rhs = as.Rhs[i]
			}
			defs[src(l)] = append(defs[src(l)], src(rhs))
		}
		return true
	})
	return defs
}

// allDefs reports whether ident has at least one definition and every one matches re.
func (p *c15Printer) allDefs(ident string, re *regexp.Regexp) bool {
	ds := p.defs[ident]
	if len(ds) == 0 {
		return false
	}
	for _, d := range ds {
		if !re.MatchString(d) {
			return false
		}
	}
	return true
}

func (p *c15Printer) isMsgName(e ast.Expr) bool {
	_, ok := e.(*ast.Ident)
	return ok && p.allDefs(p.src(e), c15ReNameFromMsg)
}

func (p *c15Printer) isFreshValue(e ast.Expr) bool {
	_, ok := e.(*ast.Ident)
	return ok && p.allDefs(p.src(e), c15ReNew)
}

// isExpectedName: an identifier defined (only) as p.config.Marshaler.Name(x) with x := handler.NewX().
func (p *c15Printer) isExpectedName(e ast.Expr) bool {
	if _, ok := e.(*ast.Ident); !ok {
		return false
	}
	ds := p.defs[p.src(e)]
	if len(ds) == 0 {
		return false
	}
	for _, d := range ds {
		m := c15ReName.FindStringSubmatch(d)
		if m == nil || !p.allDefs(m[1], c15ReNew) {
			return false
		}
	}
	return true
}

func (p *c15Printer) unk(kind string, n ast.Node) string {
	p.unknown++
	return "(." + kind + " " + leanStr(p.c.src(n)) + ")"
}

func (p *c15Printer) cond(e ast.Expr) string {
	switch x := e.(type) {
	case *ast.ParenExpr:
		return p.cond(x.X)
	case *ast.UnaryExpr:
		if x.Op == token.NOT {
			return "(.not " + p.cond(x.X) + ")"
		}
	case *ast.BinaryExpr:
		switch x.Op {
		case token.LAND:
			return "(.and " + p.cond(x.X) + " " + p.cond(x.Y) + ")"
		case token.NEQ, token.EQL:
			if (p.isMsgName(x.X) && p.isExpectedName(x.Y)) || (p.isMsgName(x.Y) && p.isExpectedName(x.X)) {
				if x.Op == token.NEQ {
					return ".nameNe"
				}
				return ".nameEq"
			}
			if x.Op == token.NEQ && p.src(x.X) == "err" && p.src(x.Y) == "nil" && p.errIsHandleResult() {
				return ".errNotNil"
			}
		}
	case *ast.SelectorExpr:
		switch p.src(x) {
		case "p.config.AckCommandHandlingErrors":
			return ".flagAckCmdErr"
		case "p.config.AckOnUnknownEvent":
			return ".flagAckUnknown"
		}
	case *ast.Ident:
		if ds := p.defs[p.src(x)]; len(ds) == 1 && ds[0] == "false" && p.src(x) == "handledAnyEvent" {
			return ".handledAny"
		}
	}
	return p.unk("unknown", e)
}

// errIsHandleResult: outside the `if err := Unmarshal…` statement (matched as a whole), `err` is the result of handle(…).
func (p *c15Printer) errIsHandleResult() bool {
	n := 0
	for _, d := range p.inner["err"] {
		if strings.HasPrefix(d, "handle(") {
			n++
		} else if !strings.HasPrefix(d, "p.config.Marshaler.Unmarshal(") && !strings.HasPrefix(d, "params.Handler.Handle(") {
			return false
		}
	}
	return n == 1
}

func (p *c15Printer) block(list []ast.Stmt, indent string) string {
	return p.blockF(list, indent, false)
}

func (p *c15Printer) blockF(list []ast.Stmt, indent string, multi bool) string {
	var parts []string
	for i := 0; i < len(list); i++ {
		s, used := p.stmt(list, i, indent+"  ")
		parts = append(parts, s)
		i += used - 1
	}
	if len(parts) == 0 {
		return "(block [])"
	}
	if !multi && len(parts) <= 2 && !strings.Contains(strings.Join(parts, ""), "\n") {
		return "(block [" + strings.Join(parts, ", ") + "])"
	}
	return "(block [\n" + indent + "  " + strings.Join(parts, ",\n"+indent+"  ") + "\n" + indent + "])"
}

// handleParamsOK checks the composite literal handed to handle(): Handler: handler, …Name: <message name>,
// Command/Event: <fresh value>, Message: msg (GroupName is free).
func (p *c15Printer) handleParamsOK(e ast.Expr) bool {
	cl, ok := e.(*ast.CompositeLit)
	if !ok {
		return false
	}
	seen := map[string]bool{}
	for _, el := range cl.Elts {
		kv, ok := el.(*ast.KeyValueExpr)
		if !ok {
			return false
		}
		k := p.src(kv.Key)
		switch k {
		case "Handler":
			if p.src(kv.Value) != "handler" {
				return false
			}
		case "CommandName", "EventName":
			if !p.isMsgName(kv.Value) {
				return false
			}
			k = "Name"
		case "Command", "Event":
			if !p.isFreshValue(kv.Value) {
				return false
			}
			k = "Value"
		case "Message":
			if p.src(kv.Value) != "msg" {
				return false
			}
		case "GroupName":
		default:
			return false
		}
		seen[k] = true
	}
	return seen["Handler"] && seen["Name"] && seen["Value"] && seen["Message"]
}

// stmt prints list[i] (possibly together with list[i+1]); returns the text and the number of statements consumed.
func (p *c15Printer) stmt(list []ast.Stmt, i int, indent string) (string, int) {
	st := list[i]
	src := p.src(st)
	next := ""
	if i+1 < len(list) {
		next = p.src(list[i+1])
	}
	switch s := st.(type) {
	case *ast.AssignStmt:
		if len(s.Lhs) == 1 && len(s.Rhs) == 1 {
			lhs, rhs := p.src(s.Lhs[0]), p.src(s.Rhs[0])
			if s.Tok == token.DEFINE {
				switch {
				case c15ReNew.MatchString(rhs):
					return ".newValue", 1
				case c15ReNameFromMsg.MatchString(rhs):
					return ".readName", 1
				case p.isExpectedName(s.Lhs[0]):
					return ".expectName", 1
				case lhs == "ctx" && rhs == "CtxWithOriginalMessage(msg.Context(), msg)" && next == "msg.SetContext(ctx)":
					return ".setCtx", 2
				case lhs == "handledAnyEvent" && rhs == "false":
					return ".initHandled", 1
				case lhs == "err":
					if ce, ok := s.Rhs[0].(*ast.CallExpr); ok && p.src(ce.Fun) == "handle" && len(ce.Args) == 1 && p.handleParamsOK(ce.Args[0]) {
						return ".callHandle", 1
					}
				case lhs == "handle":
					// handle := func(params …) error { return params.Handler.Handle(ctx, params.X) }; if p.config.OnHandle != nil { handle = p.config.OnHandle }
					if fl, ok := s.Rhs[0].(*ast.FuncLit); ok && len(fl.Body.List) == 1 {
						body := p.src(fl.Body.List[0])
						if (body == "return params.Handler.Handle(ctx, params.Command)" || body == "return params.Handler.Handle(ctx, params.Event)") &&
							next == "if p.config.OnHandle != nil { handle = p.config.OnHandle }" {
							return ".chooseHandle", 2
						}
					}
				}
			} else if s.Tok == token.ASSIGN && lhs == "handledAnyEvent" && rhs == "true" {
				return ".setHandled", 1
			}
		}
	case *ast.ExprStmt:
		if c15ReLogger.MatchString(src) {
			return ".log", 1
		}
	case *ast.ReturnStmt:
		if len(s.Results) == 1 {
			r := p.src(s.Results[0])
			switch {
			case r == "nil":
				return ".retNil", 1
			case r == "err" && p.errIsHandleResult():
				return ".retErr", 1
			case strings.HasPrefix(r, "fmt.Errorf(") || strings.HasPrefix(r, "errors.New("):
				return ".retNewErr", 1
			}
		}
	case *ast.BranchStmt:
		if s.Tok == token.CONTINUE && s.Label == nil {
			return ".continue_", 1
		}
	case *ast.IfStmt:
		if s.Init != nil {
			// if err := p.config.Marshaler.Unmarshal(msg, x); err != nil { return err }
			if as, ok := s.Init.(*ast.AssignStmt); ok && as.Tok == token.DEFINE && len(as.Lhs) == 1 && len(as.Rhs) == 1 && p.src(as.Lhs[0]) == "err" {
				if ce, ok := as.Rhs[0].(*ast.CallExpr); ok && p.src(ce.Fun) == "p.config.Marshaler.Unmarshal" && len(ce.Args) == 2 &&
					p.src(ce.Args[0]) == "msg" && p.isFreshValue(ce.Args[1]) &&
					p.src(s.Cond) == "err != nil" && s.Else == nil && len(s.Body.List) == 1 && p.src(s.Body.List[0]) == "return err" {
					return ".unmarshalOrReturn", 1
				}
			}
			return p.unk("unknown", st), 1
		}
		cond := p.cond(s.Cond)
		t := p.block(s.Body.List, indent)
		e := ".skip"
		switch el := s.Else.(type) {
		case nil:
		case *ast.BlockStmt:
			e = p.block(el.List, indent)
		default:
			e = p.unk("unknown", el)
		}
		return ".ite " + cond + " " + t + " " + e, 1
	}
	return p.unk("unknown", st), 1
}

// closure returns the function literal returned by the method (the router handler func).
func c15Closure(fd *ast.FuncDecl) *ast.FuncLit {
	var lit *ast.FuncLit
	for _, st := range fd.Body.List {
		if rs, ok := st.(*ast.ReturnStmt); ok && len(rs.Results) == 2 {
			if fl, ok := rs.Results[0].(*ast.FuncLit); ok {
				lit = fl
			}
		}
	}
	return lit
}

func c15Top(p *c15Printer, list []ast.Stmt) string {
	s := p.blockF(list, "", true)
	return strings.TrimSuffix(strings.TrimPrefix(s, "("), ")")
}

func extractC15(c *ctx) (Facts, error) {
	facts := Facts{}
	var firstErr error
	note := func(err error) {
		if err != nil && firstErr == nil {
			firstErr = err
		}
	}
	var sb strings.Builder
	sb.WriteString("/- GENERATED by harness/cmd/extract from components/cqrs/{command_processor,event_processor,event_processor_group}.go on every run – do not edit -/\n")
	sb.WriteString("import WmModel.GoCqrs\nnamespace Wm.GoCqrs.Gen\nopen Wm.GoCqrs\n\n")

	emit := func(name string, p *c15Printer, list []ast.Stmt) {
		fmt.Fprintf(&sb, "def %s : Stmt := %s\n\n", name, c15Top(p, list))
	}
	missing := func(names ...string) {
		for _, n := range names {
			fmt.Fprintf(&sb, "def %s : Stmt := .unknown \"not found\"\n\n", n)
		}
	}

	// --- command / event closures
	for _, x := range []struct{ file, recv, def, key string }{
		{"command_processor.go", "CommandProcessor", "commandBody", "command"},
		{"event_processor.go", "EventProcessor", "eventBody", "event"},
	} {
		fd, err := c.fn(c15Dir+x.file, x.recv, "routerHandlerFunc")
		if err != nil {
			note(err)
			missing(x.def)
			continue
		}
		lit := c15Closure(fd)
		if lit == nil {
			note(fmt.Errorf("%s.routerHandlerFunc: returned closure not found", x.recv))
			missing(x.def)
			continue
		}
		p := &c15Printer{c: c}
		p.roles(fd, lit, false)
		p.collectDefs(fd)
		p.inner = c15CollectDefs(p.src, lit)
		emit(x.def, p, lit.Body.List)
		facts[x.key+"_closure_unknown_statements"] = p.unknown
		facts[x.key+"_closure_statements"] = len(lit.Body.List)
		// the expected name is computed once, outside the closure, from the handler's own fresh value
		outside := false
		for _, st := range fd.Body.List {
			if as, ok := st.(*ast.AssignStmt); ok && as.Tok == token.DEFINE && len(as.Lhs) == 1 && p.isExpectedName(as.Lhs[0]) {
				outside = true
			}
		}
		facts[x.key+"_expected_name_computed_outside_closure"] = outside
	}

	// --- group closure: pre; for _, handler := range handlers { body }; post
	if fd, err := c.fn(c15Dir+"event_processor_group.go", "EventGroupProcessor", "routerHandlerGroupFunc"); err != nil {
		note(err)
		missing("groupPre", "groupLoopBody", "groupPost")
	} else if lit := c15Closure(fd); lit == nil {
		note(fmt.Errorf("routerHandlerGroupFunc: returned closure not found"))
		missing("groupPre", "groupLoopBody", "groupPost")
	} else {
		p := &c15Printer{c: c}
		p.roles(fd, lit, true)
		p.collectDefs(fd)
		p.inner = c15CollectDefs(p.src, lit)
		loopAt, loops := -1, 0
		ast.Inspect(lit, func(n ast.Node) bool {
			switch n.(type) {
			case *ast.RangeStmt, *ast.ForStmt:
				loops++
			}
			return true
		})
		for i, st := range lit.Body.List {
			if rs, ok := st.(*ast.RangeStmt); ok && p.src(rs.X) == "handlers" && rs.Tok == token.DEFINE &&
				rs.Key != nil && p.src(rs.Key) == "_" && rs.Value != nil && p.src(rs.Value) == "handler" {
				loopAt = i
			}
		}
		facts["group_closure_loops"] = loops
		facts["group_loop_ranges_over_handlers_in_order"] = loopAt >= 0 && loops == 1
		if loopAt < 0 || loops != 1 {
			missing("groupPre", "groupLoopBody", "groupPost")
			facts["group_closure_unknown_statements"] = 1
		} else {
			emit("groupPre", p, lit.Body.List[:loopAt])
			emit("groupLoopBody", p, lit.Body.List[loopAt].(*ast.RangeStmt).Body.List)
			emit("groupPost", p, lit.Body.List[loopAt+1:])
			facts["group_closure_unknown_statements"] = p.unknown
		}
	}
	sb.WriteString("end Wm.GoCqrs.Gen\n")
	note(c.writeLean("CqrsBody.lean", sb.String()))

	// --- processors are NoPublisher handlers of the router (nil ⇒ Ack, error ⇒ Nack: C02)
	for _, x := range []struct{ file, recv, fn, key string }{
		{"command_processor.go", "CommandProcessor", "addHandlerToRouter", "command_processor"},
		{"event_processor.go", "", "addHandlerToRouter", "event_processors"},
	} {
		fd, err := c.fn(c15Dir+x.file, x.recv, x.fn)
		if err != nil {
			note(err)
			continue
		}
		n := 0
		for _, call := range c.calls(fd.Body) {
			if call == "r.AddNoPublisherHandler" {
				n++
			}
		}
		facts[x.key+"_added_with_AddNoPublisherHandler"] = n == 1
	}

	c15BusFacts(c, facts, note)
	c15ConstructorFacts(c, facts, note)
	c15MarshalerFacts(c, facts, note)
	c15CtxFacts(c, facts, note)
	return facts, firstErr
}

// c15Defs maps identifiers of a function to the calls that define them (`a, b := f(…)` gives both a and b the text of the call).
func c15Defs(c *ctx, fd *ast.FuncDecl) map[string][]string {
	return c15CollectDefs(func(n ast.Node) string { return c.src(n) }, fd)
}

func c15CallNames(c *ctx, n ast.Node, keep map[string]string) []string {
	var out []string
	for _, call := range c.calls(n) {
		for suffix, short := range keep {
			if call == suffix || strings.HasSuffix(call, "."+suffix) {
				out = append(out, short)
			}
		}
	}
	return out
}

func c15Loops(n ast.Node) int {
	k := 0
	ast.Inspect(n, func(x ast.Node) bool {
		switch x.(type) {
		case *ast.ForStmt, *ast.RangeStmt, *ast.GoStmt:
			k++
		}
		return true
	})
	return k
}

func c15FindCall(c *ctx, n ast.Node, fun string) *ast.CallExpr {
	var out *ast.CallExpr
	ast.Inspect(n, func(x ast.Node) bool {
		if ce, ok := x.(*ast.CallExpr); ok && c.src(ce.Fun) == fun && out == nil {
			out = ce
		}
		return true
	})
	return out
}

func c15OnlyDef(defs map[string][]string, e ast.Expr, prefix string) bool {
	id, ok := e.(*ast.Ident)
	if !ok {
		return false
	}
	ds := defs[id.Name]
	return len(ds) == 1 && strings.HasPrefix(ds[0], prefix)
}

// c15HookGuard: `if c.config.<hook> != nil { err := c.config.<hook>(…); if err != nil { return … } }`
func c15HookGuard(c *ctx, fd *ast.FuncDecl, hook string) bool {
	ok := false
	ast.Inspect(fd.Body, func(x ast.Node) bool {
		is, isIf := x.(*ast.IfStmt)
		if !isIf || c.src(is.Cond) != "c.config."+hook+" != nil" {
			return true
		}
		for _, st := range is.Body.List {
			if inner, isIf := st.(*ast.IfStmt); isIf && c.src(inner.Cond) == "err != nil" && len(inner.Body.List) == 1 {
				if rs, isRet := inner.Body.List[0].(*ast.ReturnStmt); isRet && len(rs.Results) > 0 && c.src(rs.Results[len(rs.Results)-1]) != "nil" {
					ok = true
				}
			}
		}
		return true
	})
	return ok
}

func c15BusFacts(c *ctx, facts Facts, note func(error)) {
	// EventBus.Publish
	if fd, err := c.fn(c15Dir+"event_bus.go", "EventBus", "Publish"); err != nil {
		note(err)
	} else {
		defs := c15Defs(c, fd)
		facts["event_bus_call_order"] = c15CallNames(c, fd.Body, map[string]string{
			"Marshaler.Marshal": "Marshal", "Marshaler.Name": "Name", "GeneratePublishTopic": "GeneratePublishTopic",
			"SetContext": "SetContext", "OnPublish": "OnPublish", "publisher.Publish": "Publish"})
		facts["event_bus_loops_or_goroutines"] = c15Loops(fd.Body)
		if pc := c15FindCall(c, fd.Body, "c.publisher.Publish"); pc != nil && len(pc.Args) == 2 {
			facts["event_bus_publish_topic_from_generator"] = c15OnlyDef(defs, pc.Args[0], "c.config.GeneratePublishTopic(")
			facts["event_bus_publish_message_from_marshal"] = c15OnlyDef(defs, pc.Args[1], "c.config.Marshaler.Marshal(")
		}
		if gc := c15FindCall(c, fd.Body, "c.config.GeneratePublishTopic"); gc != nil && len(gc.Args) == 1 {
			facts["event_bus_topic_generated_from_marshaler_name"] = c15FieldFromDef(c, defs, gc.Args[0], "EventName", "c.config.Marshaler.Name(")
		}
		facts["event_bus_hook_error_returns"] = c15HookGuard(c, fd, "OnPublish")
	}
	// CommandBus.newMessage + SendWithModifiedMessage + Send
	if fd, err := c.fn(c15Dir+"command_bus.go", "CommandBus", "newMessage"); err != nil {
		note(err)
	} else {
		defs := c15Defs(c, fd)
		facts["command_bus_newmessage_call_order"] = c15CallNames(c, fd.Body, map[string]string{
			"Marshaler.Marshal": "Marshal", "Marshaler.Name": "Name", "GeneratePublishTopic": "GeneratePublishTopic",
			"SetContext": "SetContext", "OnSend": "OnSend", "publisher.Publish": "Publish"})
		facts["command_bus_newmessage_loops_or_goroutines"] = c15Loops(fd.Body)
		if gc := c15FindCall(c, fd.Body, "c.config.GeneratePublishTopic"); gc != nil && len(gc.Args) == 1 {
			facts["command_bus_topic_generated_from_marshaler_name"] = c15FieldFromDef(c, defs, gc.Args[0], "CommandName", "c.config.Marshaler.Name(")
		}
		facts["command_bus_hook_error_returns"] = c15HookGuard(c, fd, "OnSend")
		// the last statement returns (message from Marshal, topic from the generator, nil)
		okRet := false
		if n := len(fd.Body.List); n > 0 {
			if rs, ok := fd.Body.List[n-1].(*ast.ReturnStmt); ok && len(rs.Results) == 3 {
				okRet = c15OnlyDef(defs, rs.Results[0], "c.config.Marshaler.Marshal(") && c15OnlyDef(defs, rs.Results[1], "c.config.GeneratePublishTopic(") && c.src(rs.Results[2]) == "nil"
			}
		}
		facts["command_bus_newmessage_returns_marshalled_message_and_generated_topic"] = okRet
	}
	if fd, err := c.fn(c15Dir+"command_bus.go", "CommandBus", "SendWithModifiedMessage"); err != nil {
		note(err)
	} else {
		facts["command_bus_send_call_order"] = c15CallNames(c, fd.Body, map[string]string{
			"c.newMessage": "newMessage", "modify": "modify", "publisher.Publish": "Publish"})
		facts["command_bus_send_loops_or_goroutines"] = c15Loops(fd.Body)
		ok := false
		if pc := c15FindCall(c, fd.Body, "c.publisher.Publish"); pc != nil && len(pc.Args) == 2 {
			// msg, topicName, err := c.newMessage(ctx, cmd); Publish(topicName, msg)
			ast.Inspect(fd.Body, func(x ast.Node) bool {
				if as, isAs := x.(*ast.AssignStmt); isAs && as.Tok == token.DEFINE && len(as.Lhs) == 3 && len(as.Rhs) == 1 &&
					strings.HasPrefix(c.src(as.Rhs[0]), "c.newMessage(") {
					ok = c.src(as.Lhs[0]) == c.src(pc.Args[1]) && c.src(as.Lhs[1]) == c.src(pc.Args[0])
				}
				return true
			})
		}
		facts["command_bus_publishes_newmessage_results"] = ok
		// an error of newMessage or modify returns before the publish
		early := 0
		for _, st := range fd.Body.List {
			if c15FindCall(c, st, "c.publisher.Publish") != nil {
				break
			}
			ast.Inspect(st, func(x ast.Node) bool {
				if _, isRet := x.(*ast.ReturnStmt); isRet {
					early++
				}
				return true
			})
		}
		facts["command_bus_error_returns_before_publish"] = early
	}
	if fd, err := c.fn(c15Dir+"command_bus.go", "CommandBus", "Send"); err != nil {
		note(err)
	} else {
		facts["command_bus_send_delegates"] = len(fd.Body.List) == 1 && c.src(fd.Body.List[0]) == "return c.SendWithModifiedMessage(ctx, cmd, nil)"
	}
}

// c15FieldFromDef: in the composite literal e, field `field` is an identifier whose only definition starts with prefix.
func c15FieldFromDef(c *ctx, defs map[string][]string, e ast.Expr, field, prefix string) bool {
	cl, ok := e.(*ast.CompositeLit)
	if !ok {
		return false
	}
	for _, el := range cl.Elts {
		if kv, ok := el.(*ast.KeyValueExpr); ok && c.src(kv.Key) == field {
			return c15OnlyDef(defs, kv.Value, prefix)
		}
	}
	return false
}

func c15MarshalerFacts(c *ctx, facts Facts, note func(error)) {
	for _, x := range []struct{ file, recv, key, lib string }{
		{"marshaler_json.go", "JSONMarshaler", "json", "json.Marshal("},
		{"marshaler_protobuf.go", "ProtoMarshaler", "proto", "proto.Marshal("},
	} {
		if fd, err := c.fn(c15Dir+x.file, x.recv, "Marshal"); err != nil {
			note(err)
		} else {
			defs := c15Defs(c, fd)
			key, val := "", ""
			n := 0
			ast.Inspect(fd.Body, func(n2 ast.Node) bool {
				if ce, ok := n2.(*ast.CallExpr); ok && c.src(ce.Fun) == "msg.Metadata.Set" && len(ce.Args) == 2 {
					n++
					key, val = c.src(ce.Args[0]), c.src(ce.Args[1])
				}
				return true
			})
			arg := ""
			if len(fd.Type.Params.List) == 1 && len(fd.Type.Params.List[0].Names) == 1 {
				arg = fd.Type.Params.List[0].Names[0].Name
			}
			facts[x.key+"_marshal_metadata_writes"] = n
			facts[x.key+"_marshal_name_key"] = strings.Trim(key, "\"")
			facts[x.key+"_marshal_name_value_is_own_Name_of_argument"] = val == "m.Name("+arg+")"
			if nm := c15FindCall(c, fd.Body, "message.NewMessage"); nm != nil && len(nm.Args) == 2 {
				facts[x.key+"_marshal_payload_from_library_encoding"] = c15OnlyDef(defs, nm.Args[1], x.lib)
			}
		}
		if fd, err := c.fn(c15Dir+x.file, x.recv, "NameFromMessage"); err != nil {
			note(err)
		} else {
			got := ""
			if len(fd.Body.List) == 1 {
				if rs, ok := fd.Body.List[0].(*ast.ReturnStmt); ok && len(rs.Results) == 1 {
					if ce, ok := rs.Results[0].(*ast.CallExpr); ok && c.src(ce.Fun) == "msg.Metadata.Get" && len(ce.Args) == 1 {
						got = strings.Trim(c.src(ce.Args[0]), "\"")
					}
				}
			}
			facts[x.key+"_name_from_message_reads_key"] = got
		}
		if fd, err := c.fn(c15Dir+x.file, x.recv, "Name"); err != nil {
			note(err)
		} else {
			ok := false
			if len(fd.Body.List) == 2 && len(fd.Type.Params.List) == 1 && len(fd.Type.Params.List[0].Names) == 1 {
				a := fd.Type.Params.List[0].Names[0].Name
				ok = c.src(fd.Body.List[0]) == "if m.GenerateName != nil { return m.GenerateName("+a+") }" &&
					c.src(fd.Body.List[1]) == "return FullyQualifiedStructName("+a+")"
			}
			facts[x.key+"_name_is_generator_else_fully_qualified"] = ok
		}
	}
}

func c15CtxFacts(c *ctx, facts Facts, note func(error)) {
	with, err1 := c.fn(c15Dir+"ctx.go", "", "CtxWithOriginalMessage")
	from, err2 := c.fn(c15Dir+"ctx.go", "", "OriginalMessageFromCtx")
	note(err1)
	note(err2)
	if err1 != nil || err2 != nil {
		return
	}
	wkey, rkey := "", ""
	wok := false
	if len(with.Body.List) == 1 {
		if rs, ok := with.Body.List[0].(*ast.ReturnStmt); ok && len(rs.Results) == 1 {
			if ce, ok := rs.Results[0].(*ast.CallExpr); ok && c.src(ce.Fun) == "context.WithValue" && len(ce.Args) == 3 {
				wkey = c.src(ce.Args[1])
				wok = c.src(ce.Args[0]) == with.Type.Params.List[0].Names[0].Name && c.src(ce.Args[2]) == with.Type.Params.List[len(with.Type.Params.List)-1].Names[0].Name
			}
		}
	}
	ast.Inspect(from.Body, func(n ast.Node) bool {
		if ce, ok := n.(*ast.CallExpr); ok && c.src(ce.Fun) == "ctx.Value" && len(ce.Args) == 1 {
			rkey = c.src(ce.Args[0])
		}
		return true
	})
	facts["ctx_with_original_wraps_parent_with_message"] = wok
	facts["ctx_same_key_written_and_read"] = wkey != "" && wkey == rkey
}

// c15ConstructorFacts: the non-deprecated constructors keep the configuration they are given – no field of `config` is
// assigned (wrapped, cached, replaced) between validation and the struct literal that stores it; only setDefaults and
// Validate are called on it.
func c15ConstructorFacts(c *ctx, facts Facts, note func(error)) {
	for _, x := range []struct{ file, fn, key string }{
		{"event_bus.go", "NewEventBusWithConfig", "event_bus"},
		{"command_bus.go", "NewCommandBusWithConfig", "command_bus"},
		{"command_processor.go", "NewCommandProcessorWithConfig", "command_processor"},
		{"event_processor.go", "NewEventProcessorWithConfig", "event_processor"},
		{"event_processor_group.go", "NewEventGroupProcessorWithConfig", "event_group_processor"},
	} {
		fd, err := c.fn(c15Dir+x.file, "", x.fn)
		if err != nil {
			note(err)
			continue
		}
		cfg := c15ParamName(fd.Type.Params, 1)
		assigned := 0
		var calls []string
		ast.Inspect(fd.Body, func(n ast.Node) bool {
			switch st := n.(type) {
			case *ast.AssignStmt:
				for _, l := range st.Lhs {
					t := c.src(l)
					if t == cfg || strings.HasPrefix(t, cfg+".") {
						assigned++
					}
				}
			case *ast.CallExpr:
				f := c.src(st.Fun)
				if strings.HasPrefix(f, cfg+".") {
					calls = append(calls, strings.TrimPrefix(f, cfg+"."))
				}
				for _, a := range st.Args {
					// the configuration (or its address) handed to some other function
					if t := c.src(a); t == cfg || t == "&"+cfg {
						calls = append(calls, "passed to "+f)
					}
				}
			}
			return true
		})
		facts[x.key+"_constructor_config_assignments"] = assigned
		facts[x.key+"_constructor_calls_on_config"] = calls
	}
}
