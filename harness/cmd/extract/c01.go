package main

import (
	"go/ast"
	"strings"
)

func init() { extractors["C01"] = extractC01 }

// Structural facts the Pipeline model (lean/WmModel/Pipeline.lean) takes from the two mechanisms of C01:
//   - handler.handleMessage: Nack on handler error / publish error / recovered panic, Ack as the last statement, after
//     publishProducedMessages returned nil (steps `fault`, `publishOk`, `ack`);
//   - subscriber.sendMessageToSubscriber: the send loop `continue`s on Nacked and leaves on Acked (step `fault` puts the
//     token back to `pending`, only `ack` removes it).
//
// Besides the skeletons (exact shape) a few derived facts are phrased without identifier names.
func extractC01(c *ctx) (Facts, error) {
	f := Facts{}
	var firstErr error
	hm, err := c.fn("message/router.go", "handler", "handleMessage")
	if err != nil {
		return f, err
	}
	f["handle_message"] = c.skeleton(hm)
	if pp, err := c.fn("message/router.go", "handler", "publishProducedMessages"); err == nil {
		f["publish_produced"] = c.skeleton(pp)
	} else {
		firstErr = err
	}
	sl, err := c.fn("pubsub/gochannel/pubsub.go", "subscriber", "sendMessageToSubscriber")
	if err != nil {
		return f, err
	}
	f["send_loop"] = c.skeleton(sl)

	// ---- derived facts about handleMessage
	msgName := ""
	if hm.Type.Params != nil && len(hm.Type.Params.List) > 0 && len(hm.Type.Params.List[0].Names) > 0 {
		msgName = hm.Type.Params.List[0].Names[0].Name
	}
	isCallOn := func(st ast.Stmt, method string) bool {
		es, ok := st.(*ast.ExprStmt)
		if !ok {
			return false
		}
		ce, ok := es.X.(*ast.CallExpr)
		if !ok {
			return false
		}
		se, ok := ce.Fun.(*ast.SelectorExpr)
		if !ok || se.Sel.Name != method {
			return false
		}
		id, ok := se.X.(*ast.Ident)
		return ok && id.Name == msgName
	}
	count := func(n ast.Node, method string) int {
		k := 0
		ast.Inspect(n, func(x ast.Node) bool {
			if st, ok := x.(ast.Stmt); ok && isCallOn(st, method) {
				k++
			}
			return true
		})
		return k
	}
	// top-level statements, hooks and logger calls removed
	var top []ast.Stmt
	simple := func(st ast.Stmt) bool {
		switch st.(type) {
		case *ast.ExprStmt, *ast.AssignStmt:
			return true
		}
		return false
	}
	for _, st := range hm.Body.List {
		if simple(st) && c.skip(c.src(st)) {
			continue
		}
		top = append(top, st)
	}
	f["hm.ack_calls_total"] = count(hm.Body, "Ack")
	f["hm.ack_is_last_top_level_statement"] = len(top) > 0 && isCallOn(top[len(top)-1], "Ack")
	// every top-level `if … err != nil { … }` Nacks the consumed message and returns, and never Acks
	errBranches, errBranchesOk := 0, 0
	pubIdx, ackIdx := -1, -1
	for i, st := range top {
		if isCallOn(st, "Ack") {
			ackIdx = i
		}
		is, ok := st.(*ast.IfStmt)
		if !ok {
			continue
		}
		if strings.Contains(c.src(is.Cond), "err != nil") {
			errBranches++
			body := is.Body.List
			_, endsInReturn := body[len(body)-1].(*ast.ReturnStmt)
			if count(is.Body, "Nack") == 1 && count(is.Body, "Ack") == 0 && endsInReturn {
				errBranchesOk++
			}
			if is.Init != nil && len(c.calls(is.Init)) > 0 && pubIdx < 0 {
				pubIdx = i // the branch whose condition is the result of a call: publishing of the produced messages
			}
		}
	}
	f["hm.error_branches"] = errBranches
	f["hm.error_branches_nack_and_return"] = errBranchesOk
	f["hm.publish_call_before_ack"] = pubIdx >= 0 && ackIdx > pubIdx
	// the deferred recover block Nacks and never Acks
	recNack, recAck := 0, 0
	for _, st := range top {
		ds, ok := st.(*ast.DeferStmt)
		if !ok {
			continue
		}
		if fl, ok := ds.Call.Fun.(*ast.FuncLit); ok && strings.Contains(c.src(fl), "recover()") {
			recNack += count(fl.Body, "Nack")
			recAck += count(fl.Body, "Ack")
		}
	}
	f["hm.recover_block_nacks"] = recNack
	f["hm.recover_block_acks"] = recAck

	// ---- derived facts about the send loop: in the select that waits for the settlement, Nacked continues the loop,
	// Acked returns
	ackedReturns, nackedContinues, loops := false, false, 0
	ast.Inspect(sl.Body, func(x ast.Node) bool {
		if _, ok := x.(*ast.ForStmt); ok {
			loops++
		}
		ss, ok := x.(*ast.SelectStmt)
		if !ok {
			return true
		}
		for _, cl := range ss.Body.List {
			cc := cl.(*ast.CommClause)
			if cc.Comm == nil || len(cc.Body) == 0 {
				continue
			}
			comm := c.src(cc.Comm)
			var last ast.Stmt
			for _, st := range cc.Body {
				if !(simple(st) && c.skip(c.src(st))) {
					last = st
				}
			}
			if last == nil {
				continue
			}
			switch {
			case strings.Contains(comm, ".Nacked()"):
				if bs, ok := last.(*ast.BranchStmt); ok && bs.Tok.String() == "continue" {
					nackedContinues = true
				}
			case strings.Contains(comm, ".Acked()"):
				if _, ok := last.(*ast.ReturnStmt); ok {
					ackedReturns = true
				}
			}
		}
		return true
	})
	f["send_loop.loops"] = loops
	f["send_loop.nacked_case_continues_loop"] = nackedContinues
	f["send_loop.acked_case_returns"] = ackedReturns
	// the fan-out: sendMessage starts one goroutine per subscriber of the topic (range over the whole snapshot)
	if sm, err := c.fn("pubsub/gochannel/pubsub.go", "GoChannel", "sendMessage"); err == nil {
		f["send_message"] = c.skeleton(sm)
	} else if firstErr == nil {
		firstErr = err
	}
	return f, firstErr
}
