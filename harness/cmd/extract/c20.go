package main

import (
	"fmt"
	"go/ast"
	"go/token"
	"strings"
)

func init() { extractors["C20"] = extractC20 }

// ---------------------------------------------------------------- shapes: source text with local names blanked
//
// A "shape" is the text of a statement or expression in which every identifier that is declared inside the
// function (receiver, parameters, named results, := / var / range variables) is replaced by "_".  Package level
// names, field names, method names and literals stay.  Renaming a local variable therefore changes no fact.

type shaper struct {
	c      *ctx
	locals map[string]bool
	tok    map[string]string // receiver -> recv, parameters -> p0.., named results -> r0.., of function literals a0.. / b0..
	// names bound while printing applyDelay
	recvName, boundName, errName string
}

func newShaper(c *ctx, fd *ast.FuncDecl) *shaper {
	s := &shaper{c: c, locals: map[string]bool{}, tok: map[string]string{}}
	addFields := func(fl *ast.FieldList, prefix string) {
		if fl == nil {
			return
		}
		i := 0
		for _, f := range fl.List {
			for _, n := range f.Names {
				s.locals[n.Name] = true
				if prefix == "recv" {
					s.tok[n.Name] = "recv"
				} else if prefix != "" {
					s.tok[n.Name] = fmt.Sprintf("%s%d", prefix, i)
				}
				i++
			}
		}
	}
	addFields(fd.Recv, "recv")
	addFields(fd.Type.Params, "p")
	addFields(fd.Type.Results, "r")
	ast.Inspect(fd.Body, func(n ast.Node) bool {
		switch x := n.(type) {
		case *ast.AssignStmt:
			if x.Tok == token.DEFINE {
				for _, l := range x.Lhs {
					if id, ok := l.(*ast.Ident); ok {
						s.locals[id.Name] = true
					}
				}
			}
		case *ast.RangeStmt:
			if x.Tok == token.DEFINE {
				for _, e := range []ast.Expr{x.Key, x.Value} {
					if id, ok := e.(*ast.Ident); ok {
						s.locals[id.Name] = true
					}
				}
			}
		case *ast.FuncLit:
			addFields(x.Type.Params, "a")
			addFields(x.Type.Results, "b")
		case *ast.ValueSpec:
			for _, n := range x.Names {
				s.locals[n.Name] = true
			}
		}
		return true
	})
	return s
}

func (s *shaper) e(x ast.Expr) string {
	switch v := x.(type) {
	case nil:
		return ""
	case *ast.Ident:
		if t, ok := s.tok[v.Name]; ok {
			return t
		}
		if s.locals[v.Name] {
			return "_"
		}
		return v.Name
	case *ast.BasicLit:
		return v.Value
	case *ast.SelectorExpr:
		return s.e(v.X) + "." + v.Sel.Name
	case *ast.CallExpr:
		args := make([]string, len(v.Args))
		for i, a := range v.Args {
			args[i] = s.e(a)
		}
		el := ""
		if v.Ellipsis != token.NoPos {
			el = "..."
		}
		return s.e(v.Fun) + "(" + strings.Join(args, ",") + el + ")"
	case *ast.BinaryExpr:
		return "(" + s.e(v.X) + v.Op.String() + s.e(v.Y) + ")"
	case *ast.UnaryExpr:
		return v.Op.String() + s.e(v.X)
	case *ast.ParenExpr:
		return s.e(v.X)
	case *ast.IndexExpr:
		return s.e(v.X) + "[" + s.e(v.Index) + "]"
	case *ast.TypeAssertExpr:
		return s.e(v.X) + ".(" + s.e(v.Type) + ")"
	case *ast.StarExpr:
		return "*" + s.e(v.X)
	case *ast.CompositeLit:
		el := make([]string, len(v.Elts))
		for i, a := range v.Elts {
			el[i] = s.e(a)
		}
		return s.e(v.Type) + "{" + strings.Join(el, ",") + "}"
	case *ast.KeyValueExpr:
		k := s.c.src(v.Key) // field names of composite literals are not locals
		return k + ":" + s.e(v.Value)
	case *ast.FuncLit:
		return "func{" + s.block(v.Body) + "}"
	}
	return "?" + s.c.src(x)
}

func (s *shaper) block(b *ast.BlockStmt) string {
	if b == nil {
		return ""
	}
	parts := []string{}
	for _, st := range b.List {
		if t := s.st(st); t != "" {
			parts = append(parts, t)
		}
	}
	return strings.Join(parts, ";")
}

func (s *shaper) st(x ast.Stmt) string {
	src := s.c.src(x)
	if strings.HasPrefix(src, "verifhook.") {
		return "" // hook points (build tag verif) are not part of the shape
	}
	switch v := x.(type) {
	case *ast.ExprStmt:
		return s.e(v.X)
	case *ast.AssignStmt:
		l := make([]string, len(v.Lhs))
		for i, a := range v.Lhs {
			l[i] = s.e(a)
		}
		r := make([]string, len(v.Rhs))
		for i, a := range v.Rhs {
			r[i] = s.e(a)
		}
		return strings.Join(l, ",") + v.Tok.String() + strings.Join(r, ",")
	case *ast.ReturnStmt:
		r := make([]string, len(v.Results))
		for i, a := range v.Results {
			r[i] = s.e(a)
		}
		return strings.TrimSpace("return " + strings.Join(r, ","))
	case *ast.IfStmt:
		t := "if "
		if v.Init != nil {
			t += s.st(v.Init) + ";"
		}
		t += s.e(v.Cond) + " {" + s.block(v.Body) + "}"
		switch el := v.Else.(type) {
		case *ast.BlockStmt:
			t += " else {" + s.block(el) + "}"
		case *ast.IfStmt:
			t += " else " + s.st(el)
		}
		return t
	case *ast.RangeStmt:
		return "for range " + s.e(v.X) + " {" + s.block(v.Body) + "}"
	case *ast.DeferStmt:
		return "defer " + s.e(v.Call)
	case *ast.GoStmt:
		return "go " + s.e(v.Call)
	case *ast.BlockStmt:
		return "{" + s.block(v) + "}"
	case *ast.SendStmt:
		return s.e(v.Chan) + "<-" + s.e(v.Value)
	case *ast.SelectStmt:
		cs := []string{}
		for _, c := range v.Body.List {
			cc := c.(*ast.CommClause)
			h := "default"
			if cc.Comm != nil {
				h = "case " + s.st(cc.Comm)
			}
			b := []string{}
			for _, st := range cc.Body {
				if t := s.st(st); t != "" {
					b = append(b, t)
				}
			}
			cs = append(cs, h+":{"+strings.Join(b, ";")+"}")
		}
		return "select{" + strings.Join(cs, " ") + "}"
	case *ast.IncDecStmt:
		return s.e(v.X) + v.Tok.String()
	}
	return "?" + src
}

// flat lists the shapes of all statements of a block in source order, nested blocks included (pre-order).
func (s *shaper) flat(b *ast.BlockStmt) []string {
	var out []string
	ast.Inspect(b, func(n ast.Node) bool {
		if st, ok := n.(ast.Stmt); ok {
			if _, isBlock := st.(*ast.BlockStmt); !isBlock {
				if t := s.st(st); t != "" {
					out = append(out, t)
				}
			}
		}
		return true
	})
	return out
}

func idx(xs []string, sub string) int { return indexOf(xs, has(sub)) }

func ordered(ix ...int) bool {
	for i, x := range ix {
		if x < 0 || (i > 0 && ix[i-1] >= x) {
			return false
		}
	}
	return true
}

func countSub(xs []string, sub string) int {
	n := 0
	for _, x := range xs {
		n += strings.Count(x, sub)
	}
	return n
}

// ---------------------------------------------------------------- applyDelay as a deep-embedded body

func (s *shaper) delayCond(x ast.Expr) (string, bool) {
	switch s.e(x) {
	case `(p1.Metadata.Get(DelayedForKey)!="")`:
		return ".metaForNonEmpty", true
	case `(p1.Context().Value(delayContextKey)!=nil)`:
		return ".ctxHasDelay", true
	case `(recv.config.DefaultDelayGenerator!=nil)`:
		return ".genNotNil", true
	case `!recv.config.AllowNoDelay`:
		return ".notAllowNoDelay", true
	}
	return "", false
}

// delayLeaf needs the parameter names to check WHICH local is passed where (topic vs. message).
func (s *shaper) delayLeaf(x ast.Stmt, topicName, msgName string) string {
	unknown := ".unknown " + leanStr(s.c.src(x))
	src := s.c.src(x)
	switch v := x.(type) {
	case *ast.ReturnStmt:
		switch s.st(v) {
		case "return nil":
			return ".retNil"
		case `return errors.New("message doesn't have a delay set")`:
			return ".retNoDelayErr"
		}
	case *ast.AssignStmt:
		if v.Tok == token.DEFINE && len(v.Lhs) == 1 && src == s.c.src(v.Lhs[0])+" := "+msgName+".Context().Value(delayContextKey).(Delay)" {
			s.boundName = s.c.src(v.Lhs[0])
			return ".bindCtx"
		}
		if v.Tok == token.DEFINE && len(v.Lhs) == 2 {
			want := s.c.src(v.Lhs[0]) + ", " + s.c.src(v.Lhs[1]) + " := " + s.recvName + ".config.DefaultDelayGenerator(DefaultDelayGeneratorParams{ Topic: " + topicName + ", Message: " + msgName + ", })"
			if src == want {
				s.boundName = s.c.src(v.Lhs[0])
				s.errName = s.c.src(v.Lhs[1])
				return ".callGen"
			}
		}
	case *ast.IfStmt:
		if v.Init == nil && v.Else == nil && s.errName != "" && src == "if "+s.errName+" != nil { return "+s.errName+" }" {
			return ".ifErrRetErr"
		}
	case *ast.ExprStmt:
		if s.boundName != "" && src == "Message("+msgName+", "+s.boundName+")" {
			return ".stampBound"
		}
	}
	return unknown
}

func (c *ctx) delayBody(fd *ast.FuncDecl) ([]string, int) {
	s := newShaper(c, fd)
	var out []string
	unknown := 0
	if fd.Recv == nil || len(fd.Recv.List) != 1 || len(fd.Recv.List[0].Names) != 1 || fd.Type.Params == nil {
		return []string{".unknown " + leanStr("unexpected signature")}, 1
	}
	s.recvName = fd.Recv.List[0].Names[0].Name
	var params []string
	for _, f := range fd.Type.Params.List {
		for _, n := range f.Names {
			params = append(params, n.Name+" "+c.src(f.Type))
		}
	}
	if len(params) != 2 || !strings.HasSuffix(params[0], " string") || !strings.HasSuffix(params[1], " *message.Message") {
		return []string{".unknown " + leanStr("unexpected parameters: "+strings.Join(params, ", "))}, 1
	}
	topicName := strings.Fields(params[0])[0]
	msgName := strings.Fields(params[1])[0]
	for _, st := range fd.Body.List {
		if ifs, ok := st.(*ast.IfStmt); ok && ifs.Init == nil && ifs.Else == nil {
			if cond, ok := s.delayCond(ifs.Cond); ok {
				s.boundName, s.errName = "", ""
				leaves := []string{}
				for _, b := range ifs.Body.List {
					l := s.delayLeaf(b, topicName, msgName)
					if strings.HasPrefix(l, ".unknown") {
						unknown++
					}
					leaves = append(leaves, l)
				}
				out = append(out, ".ifThen "+cond+" ["+strings.Join(leaves, ", ")+"]")
				continue
			}
			out = append(out, ".unknown "+leanStr(c.src(st)))
			unknown++
			continue
		}
		s.boundName, s.errName = "", ""
		l := s.delayLeaf(st, topicName, msgName)
		if strings.HasPrefix(l, ".unknown") {
			unknown++
			out = append(out, l)
		} else {
			out = append(out, ".leaf "+l)
		}
	}
	return out, unknown
}

// ---------------------------------------------------------------- metrics bodies as deep-embedded statement lists

var mpubTop = map[string]string{
	`if (len(p1)==0) {return recv.pub.Publish(p0)}`:                                   ".ifEmptyForward",
	`_:=p1[0].Context()`:                                                              ".captureCtxFirst",
	`_:=labelsFromCtx(_,publisherLabelKeys...)`:                                       ".labelsFromCtx",
	`if (_[labelKeyPublisherName]=="") {_[labelKeyPublisherName]=recv.publisherName}`: ".defaultPublisherName",
	`if (_[labelKeyHandlerName]=="") {_[labelKeyHandlerName]=labelValueNoHandler}`:    ".defaultHandlerName",
	`_:=time.Now()`: ".start",
	`for range p1 {_.SetContext(setPublishObservedToCtx(_.Context()))}`: ".markAll",
	`return recv.pub.Publish(p0,p1...)`:                                 ".forward",
}

var mpubDefer = map[string]string{
	`if publishAlreadyObserved(_) {return}`:                                ".ifMarkedReturn",
	`if (r0!=nil) {_[labelSuccess]="false"} else {_[labelSuccess]="true"}`: ".labelSuccessByErr",
	`recv.publishTimeSeconds.With(_).Observe(time.Since(_).Seconds())`:     ".observe",
}

var mhdlTop = map[string]string{
	`_:=time.Now()`:   ".now",
	`_:=a0.Context()`: ".captureCtx",
	`_:=prometheus.Labels{labelKeyHandlerName:message.HandlerNameFromCtx(_)}`: ".labelsInit",
	`_:=true`:       ".flagTrue",
	`b0,b1=p0(a0)`:  ".callAssign",
	`_=false`:       ".flagFalse",
	`return b0,b1`:  ".returnResults",
	`return p0(a0)`: ".returnCall",
}

var mhdlDefer = map[string]string{
	`if ((b1!=nil)||_) {_[labelSuccess]="false"} else {_[labelSuccess]="true"}`: ".labelByErrOrFlag",
	`if (b1!=nil) {_[labelSuccess]="false"} else {_[labelSuccess]="true"}`:      ".labelByErrOnly",
	`recv.handlerExecutionTimeSeconds.With(_).Observe(time.Since(_).Seconds())`: ".observe",
}

// embed prints a statement list; a `defer func() {…}()` becomes `.deferFn […]`; anything else not in the tables `.unknown`.
func (s *shaper) embed(list []ast.Stmt, top, def map[string]string) ([]string, int) {
	var out []string
	unknown := 0
	for _, st := range list {
		sh := s.st(st)
		if sh == "" {
			continue
		}
		if d, ok := st.(*ast.DeferStmt); ok {
			if fl, ok := d.Call.Fun.(*ast.FuncLit); ok && len(d.Call.Args) == 0 {
				var body []string
				for _, b := range fl.Body.List {
					if t, ok := def[s.st(b)]; ok {
						body = append(body, t)
					} else {
						body = append(body, ".unknown "+leanStr(s.c.src(b)))
						unknown++
					}
				}
				out = append(out, ".deferFn ["+strings.Join(body, ", ")+"]")
				continue
			}
		}
		if t, ok := top[sh]; ok {
			out = append(out, t)
		} else {
			out = append(out, ".unknown "+leanStr(s.c.src(st)))
			unknown++
		}
	}
	return out, unknown
}

// ---------------------------------------------------------------- facts

func extractC20(c *ctx) (Facts, error) {
	f := Facts{}
	var firstErr error
	fail := func(err error) {
		if firstErr == nil {
			firstErr = err
		}
	}

	// --- delay: applyDelay body (generated Lean) and the Publish loop
	var sb strings.Builder
	sb.WriteString("/- GENERATED by harness/cmd/extract from components/delay/publisher.go on every run – do not edit -/\n")
	sb.WriteString("import WmModel.GoDelay\nnamespace Wm.GoDelay.Gen\nopen Wm.GoDelay\n\n")
	stmts := []string{".unknown \"not found\""}
	unknown := 1
	if fd, err := c.fn("components/delay/publisher.go", "publisher", "applyDelay"); err != nil {
		fail(err)
	} else {
		stmts, unknown = c.delayBody(fd)
	}
	f["applyDelay_statements"] = len(stmts)
	f["applyDelay_unknown_statements"] = unknown
	fmt.Fprintf(&sb, "def applyDelayBody : List Stmt := [\n  %s\n]\n\n", strings.Join(stmts, ",\n  "))
	shape := func(rel, recv, name string) string {
		fd, err := c.fn(rel, recv, name)
		if err != nil {
			fail(err)
			return "missing"
		}
		return newShaper(c, fd).block(fd.Body)
	}
	dp := shape("components/delay/publisher.go", "publisher", "Publish")
	tp := shape("message/decorator.go", "messageTransformPublisherDecorator", "Publish")
	f["delay_publish_shape"] = dp
	f["transform_publish_shape"] = tp
	psh := func(sh, want, tag string) string {
		if sh == want {
			return ".loopThenForward " + leanStr(tag)
		}
		return ".other " + leanStr(sh)
	}
	fmt.Fprintf(&sb, "def delayPublishShape : PublishShape := %s\n\n", psh(dp,
		"for range p1 {_:=recv.applyDelay(p0,p1[_]);if (_!=nil) {return _}};return recv.pub.Publish(p0,p1...)", "applyDelay-return-on-error"))
	fmt.Fprintf(&sb, "def transformPublishShape : PublishShape := %s\n\n", psh(tp,
		"for range p1 {recv.transform(p1[_])};return recv.Publisher.Publish(p0,p1...)", "transform"))
	sb.WriteString("end Wm.GoDelay.Gen\n")
	if err := c.writeLean("DelayBody.lean", sb.String()); err != nil {
		fail(err)
	}
	f["delay_close_shape"] = shape("components/delay/publisher.go", "publisher", "Close")
	f["delay_message_shape"] = shape("components/delay/delay.go", "", "Message")
	f["delay_for_shape"] = shape("components/delay/delay.go", "", "For")
	f["delay_until_shape"] = shape("components/delay/delay.go", "", "Until")
	f["delay_withcontext_shape"] = shape("components/delay/delay.go", "", "WithContext")
	if df, err := c.file("components/delay/delay.go"); err == nil {
		for _, d := range df.Decls {
			if gd, ok := d.(*ast.GenDecl); ok && gd.Tok == token.CONST {
				for _, sp := range gd.Specs {
					vs := sp.(*ast.ValueSpec)
					for i, n := range vs.Names {
						if (n.Name == "DelayedUntilKey" || n.Name == "DelayedForKey") && i < len(vs.Values) {
							f["const_"+n.Name] = c.src(vs.Values[i])
						}
					}
				}
			}
		}
	} else {
		fail(err)
	}

	// --- transform subscriber decorator: pump, Subscribe error, Close
	if fd, err := c.fn("message/decorator.go", "messageTransformSubscriberDecorator", "Subscribe"); err != nil {
		fail(err)
	} else {
		s := newShaper(c, fd)
		fl := s.flat(fd.Body)
		// subscribeWg.Add(1) only after the wrapped Subscribe succeeded (the early error return has no Done())
		f["tsub_wg_add_after_error_return"] = ordered(idx(fl, "if (_!=nil) {return nil,_}"), idx(fl, "recv.subscribeWg.Add(1)")) &&
			countSub(fl[:1+idx(fl, "if (_!=nil) {return nil,_}")], "subscribeWg.Add(") == 0
		f["tsub_subscribe_error_returned"] = idx(fl, "if (_!=nil) {return nil,_}") == 1 && strings.HasPrefix(fl[0], "_,_:=recv.sub.Subscribe(p0,p1)")
		pump := ""
		for _, x := range fl {
			if strings.HasPrefix(x, "for range _ {recv.transform(_)") {
				pump = x
			}
		}
		f["tsub_pump_shape"] = pump
		f["tsub_pump_closes_out_after_loop"] = ordered(idx(fl, "for range _ {recv.transform(_)"), indexOf(fl, func(x string) bool { return x == "close(_)" }))
	}
	f["tsub_close_shape"] = shape("message/decorator.go", "messageTransformSubscriberDecorator", "Close")

	// --- metrics publisher decorator
	if fd, err := c.fn("components/metrics/publisher.go", "PublisherPrometheusMetricsDecorator", "Publish"); err != nil {
		fail(err)
	} else {
		s := newShaper(c, fd)
		fl := s.flat(fd.Body)
		named := false
		if fd.Type.Results != nil && len(fd.Type.Results.List) == 1 && len(fd.Type.Results.List[0].Names) == 1 && c.src(fd.Type.Results.List[0].Type) == "error" {
			named = true
		}
		f["mpub_named_error_result"] = named
		if len(fd.Body.List) > 0 {
			f["mpub_first_statement"] = s.st(fd.Body.List[0])
		}
		f["mpub_order_ctx_defer_mark_forward"] = ordered(
			idx(fl, "_:=p1[0].Context()"),
			idx(fl, "defer func{"),
			idx(fl, "for range p1 {_.SetContext(setPublishObservedToCtx(_.Context()))}"),
			indexOf(fl, func(x string) bool { return x == "return recv.pub.Publish(p0,p1...)" }))
		for _, st := range fd.Body.List {
			if d, ok := st.(*ast.DeferStmt); ok {
				if fl, ok := d.Call.Fun.(*ast.FuncLit); ok {
					parts := []string{}
					for _, b := range fl.Body.List {
						parts = append(parts, s.st(b))
					}
					f["mpub_defer_statements"] = parts
				}
			}
		}
		f["mpub_observe_calls"] = countSub([]string{s.block(fd.Body)}, ".Observe(")
	}
	f["mpub_close_shape"] = shape("components/metrics/publisher.go", "PublisherPrometheusMetricsDecorator", "Close")

	// --- metrics subscriber decorator
	if fd, err := c.fn("components/metrics/subscriber.go", "SubscriberPrometheusMetricsDecorator", "recordMetrics"); err != nil {
		fail(err)
	} else {
		s := newShaper(c, fd)
		var goBody []string
		top := []string{}
		for _, st := range fd.Body.List {
			if g, ok := st.(*ast.GoStmt); ok {
				if fl, ok := g.Call.Fun.(*ast.FuncLit); ok {
					for _, b := range fl.Body.List {
						goBody = append(goBody, s.st(b))
					}
				}
				top = append(top, "go")
				continue
			}
			top = append(top, s.st(st))
		}
		f["msub_goroutine_statements"] = goBody
		f["msub_order_ctx_go_mark"] = ordered(idx(top, "_:=p0.Context()"), indexOf(top, func(x string) bool { return x == "go" }),
			idx(top, "p0.SetContext(setSubscribeObservedToCtx(p0.Context()))"))
		f["msub_inc_calls"] = countSub([]string{s.block(fd.Body)}, ".Inc()")
	}
	if fd, err := c.fn("components/metrics/builder.go", "PrometheusMetricsBuilder", "DecorateSubscriber"); err != nil {
		fail(err)
	} else {
		fl := newShaper(c, fd).flat(fd.Body)
		f["msub_is_transform_decorator_with_recordMetrics"] = idx(fl, "_.Subscriber,_=message.MessageTransformSubscriberDecorator(_.recordMetrics)(p0)") >= 0
	}

	// --- metrics handler middleware (repair of finding D4: panicked flag)
	if fd, err := c.fn("components/metrics/handler.go", "HandlerPrometheusMetricsMiddleware", "Middleware"); err != nil {
		fail(err)
	} else {
		var inner *ast.FuncLit
		ast.Inspect(fd.Body, func(n ast.Node) bool {
			if fl, ok := n.(*ast.FuncLit); ok && inner == nil {
				inner = fl
			}
			return inner == nil
		})
		if inner == nil {
			f["mhdl_found"] = false
		} else {
			s := newShaper(c, fd)
			top := []string{}
			for _, st := range inner.Body.List {
				if d, ok := st.(*ast.DeferStmt); ok {
					if fl, ok := d.Call.Fun.(*ast.FuncLit); ok {
						parts := []string{}
						for _, b := range fl.Body.List {
							parts = append(parts, s.st(b))
						}
						f["mhdl_defer_statements"] = parts
					}
					top = append(top, "defer")
					continue
				}
				top = append(top, s.st(st))
			}
			f["mhdl_order_flag_defer_call_clear_return"] = ordered(
				indexOf(top, func(x string) bool { return x == "_:=true" }),
				indexOf(top, func(x string) bool { return x == "defer" }),
				indexOf(top, func(x string) bool { return x == "b0,b1=p0(a0)" }),
				indexOf(top, func(x string) bool { return x == "_=false" }),
				indexOf(top, func(x string) bool { return x == "return b0,b1" }))
			f["mhdl_observe_calls"] = countSub([]string{s.block(inner.Body)}, ".Observe(")
		}
	}

	// --- deep-embedded bodies of the metrics publisher decorator and of the handler middleware (generated Lean)
	{
		var mb strings.Builder
		mb.WriteString("/- GENERATED by harness/cmd/extract from components/metrics/{publisher,handler}.go on every run – do not edit -/\n")
		mb.WriteString("import WmModel.GoMetrics\nnamespace Wm.GoMetrics.Gen\nopen Wm.GoMetrics\n\n")
		pst, pu := []string{".unknown \"not found\""}, 1
		if fd, err := c.fn("components/metrics/publisher.go", "PublisherPrometheusMetricsDecorator", "Publish"); err == nil {
			named := fd.Type.Results != nil && len(fd.Type.Results.List) == 1 && len(fd.Type.Results.List[0].Names) == 1
			if named {
				pst, pu = newShaper(c, fd).embed(fd.Body.List, mpubTop, mpubDefer)
			} else {
				pst = []string{".unknown \"result is not a named error\""}
			}
		}
		f["mpub_body_statements"] = len(pst)
		f["mpub_body_unknown_statements"] = pu
		fmt.Fprintf(&mb, "def metricsPublishBody : List PStmt := [\n  %s\n]\n\n", strings.Join(pst, ",\n  "))
		hst, hu := []string{".unknown \"not found\""}, 1
		if fd, err := c.fn("components/metrics/handler.go", "HandlerPrometheusMetricsMiddleware", "Middleware"); err == nil {
			// the body must be exactly `return func(msg) (msgs, err) { … }`
			if len(fd.Body.List) == 1 {
				if rs, ok := fd.Body.List[0].(*ast.ReturnStmt); ok && len(rs.Results) == 1 {
					if fl, ok := rs.Results[0].(*ast.FuncLit); ok {
						hst, hu = newShaper(c, fd).embed(fl.Body.List, mhdlTop, mhdlDefer)
					}
				}
			}
		}
		f["mhdl_body_statements"] = len(hst)
		f["mhdl_body_unknown_statements"] = hu
		fmt.Fprintf(&mb, "def handlerBody : List HStmt := [\n  %s\n]\n\n", strings.Join(hst, ",\n  "))
		mb.WriteString("end Wm.GoMetrics.Gen\n")
		if err := c.writeLean("MetricsBody.lean", mb.String()); err != nil {
			fail(err)
		}
	}

	f["builder_router_metrics_shape"] = shape("components/metrics/builder.go", "PrometheusMetricsBuilder", "AddPrometheusRouterMetrics")

	// --- the two "already observed" marks must be DISTINCT context keys (same type, different constant values):
	// the value of each constant is computed from its declaration (explicit literal, or iota = index of the spec in its block)
	if cf, err := c.file("components/metrics/ctx.go"); err != nil {
		fail(err)
	} else {
		vals := map[string]string{}
		for _, d := range cf.Decls {
			gd, ok := d.(*ast.GenDecl)
			if !ok || gd.Tok != token.CONST {
				continue
			}
			var lastExpr, lastType string
			for k, sp := range gd.Specs {
				vs := sp.(*ast.ValueSpec)
				if len(vs.Values) > 0 {
					lastExpr = c.src(vs.Values[0])
					lastType = ""
					if vs.Type != nil {
						lastType = c.src(vs.Type)
					}
				}
				for _, n := range vs.Names {
					v := "?" + lastExpr
					if lastExpr == "iota" {
						v = fmt.Sprintf("%d", k)
					} else if _, e := fmt.Sscanf(lastExpr, "%d", new(int)); e == nil {
						v = lastExpr
					}
					if len(vs.Names) != 1 || (len(vs.Values) > 1) {
						v = "?multi"
					}
					vals[n.Name] = lastType + "(" + v + ")"
				}
			}
		}
		p, s1 := vals["publishObserved"], vals["subscribeObserved"]
		f["ctx_mark_keys"] = "publishObserved=" + p + ",subscribeObserved=" + s1
		f["ctx_mark_keys_distinct"] = p != "" && s1 != "" && p != s1 && !strings.Contains(p+s1, "?")
	}

	// --- the context marks
	f["ctx_publishAlreadyObserved"] = shape("components/metrics/ctx.go", "", "publishAlreadyObserved")
	f["ctx_setPublishObservedToCtx"] = shape("components/metrics/ctx.go", "", "setPublishObservedToCtx")
	f["ctx_subscribeAlreadyObserved"] = shape("components/metrics/ctx.go", "", "subscribeAlreadyObserved")
	f["ctx_setSubscribeObservedToCtx"] = shape("components/metrics/ctx.go", "", "setSubscribeObservedToCtx")
	return f, firstErr
}
