package main

func init() { extractors["C12"] = extractC12 }

// C12: structural facts about (Retry).Middleware in message/router/middleware/retry.go.
func extractC12(c *ctx) (Facts, error) {
	facts := Facts{}
	_, err := c.fn("message/router/middleware/retry.go", "Retry", "Middleware")
	facts["middleware_found"] = err == nil
	return facts, err
}
