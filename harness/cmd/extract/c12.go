package main

import (
	"fmt"
	"go/ast"
	"go/token"
	"strings"
)

func init() { extractors["C12"] = extractC12 }

// C12: print the body of the closure returned by (Retry).Middleware (message/router/middleware/retry.go) in the
// statement language of WmModel/GoRetry.lean – statements before the retry loop, the loop body, statements after it –
// and derive the structural facts the model relies on from the same statements.
//
// The printer is dumb: every statement is matched against a fixed list of shapes (identifiers are resolved
// structurally: the handler is the parameter of Middleware, the message the parameter of the closure, the
// produced-messages / error variables are the two results of the first handler call, the back-off object is the
// variable bound to backoff.NewExponentialBackOff(), the wait is the variable bound to its NextBackOff(), the counter
// is the variable incremented in the loop); anything else is printed as `.unknown "<source>"`.
type retryNames struct {
	recv, h, msg       string // receiver, handler parameter, message parameter
	prod, err          string // results of the handler call
	bo, ctx, wait, num string // back-off object, context, wait time, retry counter
	label              string // label of the loop
}

func extractC12(c *ctx) (Facts, error) {
	facts := Facts{}
	const rel = "message/router/middleware/retry.go"
	before := []string{".unknown " + leanStr("closure not found")}
	body, after := []string{}, []string{}
	fd, err := c.fn(rel, "Retry", "Middleware")
	var n retryNames
	if err == nil {
		var lit *ast.FuncLit
		if fd.Recv != nil && len(fd.Recv.List[0].Names) == 1 {
			n.recv = fd.Recv.List[0].Names[0].Name
		}
		if len(fd.Type.Params.List) == 1 && len(fd.Type.Params.List[0].Names) == 1 {
			n.h = fd.Type.Params.List[0].Names[0].Name
		}
		if len(fd.Body.List) == 1 {
			if rs, ok := fd.Body.List[0].(*ast.ReturnStmt); ok && len(rs.Results) == 1 {
				lit, _ = rs.Results[0].(*ast.FuncLit)
			}
		}
		if lit == nil || n.recv == "" || n.h == "" {
			err = fmt.Errorf("%s: Middleware is not `return func(msg) {...}`", rel)
		} else {
			if len(lit.Type.Params.List) == 1 && len(lit.Type.Params.List[0].Names) == 1 {
				n.msg = lit.Type.Params.List[0].Names[0].Name
			}
			before, body, after = c.retryStmts(&n, lit.Body.List)
		}
	}
	facts["middleware_is_single_closure"] = err == nil

	unknown := 0
	for _, l := range [][]string{before, body, after} {
		for _, s := range l {
			if strings.HasPrefix(s, ".unknown") {
				unknown++
			}
		}
	}
	facts["statements_before_loop"] = len(before)
	facts["statements_in_loop"] = len(body)
	facts["statements_after_loop"] = len(after)
	facts["unknown_statements"] = unknown

	// facts phrased over the printed statements (so a rename does not break them)
	idx := func(l []string, pred func(string) bool) int { return indexOf(l, pred) }
	pre := func(p string) func(string) bool { return func(s string) bool { return strings.HasPrefix(s, p) } }
	// the MaxRetries check: operator and operands, placed directly after the increment, as the last statement of the loop
	chk := idx(body, pre(".ifBreak"))
	if chk >= 0 {
		facts["maxretries_check"] = body[chk]
		facts["maxretries_check_follows_increment"] = chk > 0 && body[chk-1] == ".incRetryNum"
		facts["maxretries_check_is_last_in_loop"] = chk == len(body)-1
	} else {
		facts["maxretries_check"] = "missing"
	}
	ci := idx(before, pre(".setRetryNum"))
	if ci >= 0 {
		facts["counter_init"] = before[ci]
	} else {
		facts["counter_init"] = "missing"
	}
	// Stop check right after NextBackOff and before the select
	nb, st, sel := idx(body, pre(".nextBackOff")), idx(body, pre(".ifStopRet")), idx(body, pre(".selectCtxTimer"))
	facts["stop_check_between_nextbackoff_and_select"] = nb == 0 && st == 1 && sel == 2
	if st >= 0 {
		facts["stop_check"] = body[st]
	} else {
		facts["stop_check"] = "missing"
	}
	// the select has exactly {ctx.Done -> return producedMessages, err ; time.After(waitTime) -> go on}
	if sel >= 0 {
		facts["select"] = body[sel]
	} else {
		facts["select"] = "missing-or-different-alternatives"
	}
	// handler call after the select, success return right after it
	call := idx(body, pre(".callH"))
	facts["handler_call_after_select"] = sel >= 0 && call == sel+1
	if call >= 0 && call+1 < len(body) {
		facts["after_handler_call_in_loop"] = body[call+1]
	}
	if len(before) >= 2 {
		facts["first_two_statements"] = before[0] + "; " + before[1]
	}
	// hook: arguments, before the increment
	hk := idx(body, pre(".hookIfSet"))
	if hk >= 0 {
		facts["hook_call"] = body[hk]
		facts["hook_before_increment"] = hk < idx(body, pre(".incRetryNum"))
	} else {
		facts["hook_call"] = "missing"
	}
	// final return carries err
	if len(after) == 1 {
		facts["final_return"] = after[0]
	} else {
		facts["final_return"] = "not-a-single-return"
	}
	// back-off wiring and reset
	var wiring []string
	for _, s := range before {
		if strings.HasPrefix(s, ".setBo") {
			wiring = append(wiring, strings.TrimPrefix(s, ".setBo "))
		}
	}
	facts["backoff_wiring"] = wiring
	facts["reset_is_last_before_loop"] = len(before) > 0 && before[len(before)-1] == ".reset"
	facts["ctx_deadline_guard_present"] = idx(before, pre(".ctxFromMsg")) >= 0 && idx(before, pre(".ctxTimeoutIfElapsed")) > idx(before, pre(".ctxFromMsg"))

	var sb strings.Builder
	sb.WriteString("/- GENERATED by harness/cmd/extract from message/router/middleware/retry.go on every run – do not edit -/\n")
	sb.WriteString("import WmModel.GoRetry\nnamespace Wm.GoRetry.Gen\nopen Wm.GoRetry\n\n")
	for _, p := range []struct {
		name string
		l    []string
	}{{"before", before}, {"loopBody", body}, {"after", after}} {
		if len(p.l) == 0 {
			fmt.Fprintf(&sb, "def %s : List Stmt := []\n\n", p.name)
			continue
		}
		fmt.Fprintf(&sb, "def %s : List Stmt := [\n  %s\n]\n\n", p.name, strings.Join(p.l, ",\n  "))
	}
	sb.WriteString("end Wm.GoRetry.Gen\n")
	if werr := c.writeLean("RetryBody.lean", sb.String()); werr != nil {
		return facts, werr
	}
	return facts, err
}

// retryStmts splits the closure body at the (labelled) for loop and prints the three parts.
func (c *ctx) retryStmts(n *retryNames, list []ast.Stmt) (before, body, after []string) {
	loopAt := -1
	var loop *ast.ForStmt
	for i, st := range list {
		s := st
		if ls, ok := s.(*ast.LabeledStmt); ok {
			if fs, ok := ls.Stmt.(*ast.ForStmt); ok {
				n.label = ls.Label.Name
				loop, loopAt = fs, i
				break
			}
		}
		if fs, ok := s.(*ast.ForStmt); ok {
			loop, loopAt = fs, i
			break
		}
	}
	if loop == nil || loop.Init != nil || loop.Cond != nil || loop.Post != nil {
		// no plain `for { }`: everything is "before", the tie theorem cannot hold
		for _, st := range list {
			before = append(before, ".unknown "+leanStr(c.src(st)))
		}
		return
	}
	// names bound inside the loop are needed for the statements before it only in one case (none); scan the loop first
	// for the counter (the variable incremented) so that `retryNum := 1` before the loop is recognised
	for _, st := range loop.Body.List {
		if id, ok := st.(*ast.IncDecStmt); ok && id.Tok == token.INC {
			if x, ok := id.X.(*ast.Ident); ok {
				n.num = x.Name
			}
		}
	}
	for _, st := range list[:loopAt] {
		before = append(before, c.retryStmt(n, st, false))
	}
	for _, st := range loop.Body.List {
		body = append(body, c.retryStmt(n, st, true))
	}
	for _, st := range list[loopAt+1:] {
		after = append(after, c.retryStmt(n, st, false))
	}
	return
}

func (n *retryNames) msgsE(s string) (string, bool) {
	switch {
	case s == "nil":
		return ".nil", true
	case n.prod != "" && s == n.prod:
		return ".prod", true
	}
	return "", false
}

func (n *retryNames) errE(s string) (string, bool) {
	switch {
	case s == "nil":
		return ".nil", true
	case n.err != "" && s == n.err:
		return ".err", true
	}
	return "", false
}

func (n *retryNames) intE(s string) (string, bool) {
	switch {
	case n.num != "" && s == n.num:
		return ".retryNum", true
	case s == n.recv+".MaxRetries":
		return ".maxRetries", true
	}
	ok := len(s) > 0 && len(s) < 10
	for _, ch := range s {
		if ch < '0' || ch > '9' {
			ok = false
		}
	}
	if ok {
		return "(.lit " + s + ")", true
	}
	return "", false
}

var retryFields = map[string]string{
	"InitialInterval": ".initialInterval", "MaxInterval": ".maxInterval", "Multiplier": ".multiplier",
	"MaxElapsedTime": ".maxElapsedTime", "RandomizationFactor": ".randomizationFactor",
}

// ret2 recognises `return m, e`.
func (c *ctx) ret2(n *retryNames, st ast.Stmt) (string, string, bool) {
	rs, ok := st.(*ast.ReturnStmt)
	if !ok || len(rs.Results) != 2 {
		return "", "", false
	}
	m, ok1 := n.msgsE(c.src(rs.Results[0]))
	e, ok2 := n.errE(c.src(rs.Results[1]))
	return m, e, ok1 && ok2
}

// recvFrom recognises `<-X` used as a statement or `case <-X:` and returns X.
func recvFrom(st ast.Stmt) ast.Expr {
	es, ok := st.(*ast.ExprStmt)
	if !ok {
		return nil
	}
	ue, ok := es.X.(*ast.UnaryExpr)
	if !ok || ue.Op != token.ARROW {
		return nil
	}
	return ue.X
}

func (c *ctx) retryStmt(n *retryNames, st ast.Stmt, inLoop bool) string {
	unknown := ".unknown " + leanStr(c.src(st))
	switch s := st.(type) {
	case *ast.AssignStmt:
		// producedMessages, err := h(msg)   /   producedMessages, err = h(msg)
		if len(s.Lhs) == 2 && len(s.Rhs) == 1 {
			if ce, ok := s.Rhs[0].(*ast.CallExpr); ok && c.src(ce.Fun) == n.h && len(ce.Args) == 1 && c.src(ce.Args[0]) == n.msg {
				l0, l1 := c.src(s.Lhs[0]), c.src(s.Lhs[1])
				if s.Tok == token.DEFINE && n.prod == "" {
					n.prod, n.err = l0, l1
					return ".callH"
				}
				if s.Tok == token.ASSIGN && l0 == n.prod && l1 == n.err {
					return ".callH"
				}
			}
			return unknown
		}
		if len(s.Lhs) != 1 || len(s.Rhs) != 1 {
			return unknown
		}
		l, r := c.src(s.Lhs[0]), c.src(s.Rhs[0])
		switch {
		case s.Tok == token.DEFINE && r == "backoff.NewExponentialBackOff()":
			n.bo = l
			return ".newBackoff"
		case s.Tok == token.ASSIGN && n.bo != "" && strings.HasPrefix(l, n.bo+".") && strings.HasPrefix(r, n.recv+"."):
			f, ok1 := retryFields[strings.TrimPrefix(l, n.bo+".")]
			src, ok2 := retryFields[strings.TrimPrefix(r, n.recv+".")]
			if ok1 && ok2 {
				return ".setBo " + f + " " + src
			}
		case s.Tok == token.DEFINE && r == n.msg+".Context()":
			n.ctx = l
			return ".ctxFromMsg"
		case s.Tok == token.DEFINE && n.num != "" && l == n.num:
			if v, ok := n.intE(r); ok && strings.HasPrefix(v, "(.lit ") {
				return ".setRetryNum " + strings.TrimSuffix(strings.TrimPrefix(v, "(.lit "), ")")
			}
		case s.Tok == token.DEFINE && n.bo != "" && r == n.bo+".NextBackOff()" && inLoop:
			n.wait = l
			return ".nextBackOff"
		}
	case *ast.ExprStmt:
		if n.bo != "" && c.src(s.X) == n.bo+".Reset()" {
			return ".reset"
		}
	case *ast.IncDecStmt:
		if s.Tok == token.INC && n.num != "" && c.src(s.X) == n.num {
			return ".incRetryNum"
		}
	case *ast.ReturnStmt:
		if m, e, ok := c.ret2(n, s); ok {
			return ".ret " + m + " " + e
		}
	case *ast.SelectStmt:
		// exactly two alternatives: `case <-ctx.Done(): return m, e` and `case <-time.After(waitTime):` with an empty body
		if len(s.Body.List) != 2 || n.ctx == "" || n.wait == "" {
			return unknown
		}
		var ctxAlt, timerAlt string
		for _, cl := range s.Body.List {
			cc, ok := cl.(*ast.CommClause)
			if !ok || cc.Comm == nil {
				return unknown // a default clause or something else
			}
			x := recvFrom(cc.Comm)
			if x == nil {
				return unknown
			}
			switch c.src(x) {
			case n.ctx + ".Done()":
				if len(cc.Body) == 1 {
					if m, e, ok := c.ret2(n, cc.Body[0]); ok {
						ctxAlt = m + " " + e
					}
				}
			case "time.After(" + n.wait + ")":
				if len(cc.Body) == 0 {
					timerAlt = ".wait"
				}
			}
		}
		if ctxAlt != "" && timerAlt != "" {
			return ".selectCtxTimer " + ctxAlt + " " + timerAlt
		}
	case *ast.IfStmt:
		if s.Init != nil || s.Else != nil {
			return unknown
		}
		be, ok := s.Cond.(*ast.BinaryExpr)
		if !ok {
			return unknown
		}
		l, r := c.src(be.X), c.src(be.Y)
		one := func() ast.Stmt {
			if len(s.Body.List) == 1 {
				return s.Body.List[0]
			}
			return nil
		}
		switch {
		// if err == nil { return m, e }
		case be.Op == token.EQL && n.err != "" && l == n.err && r == "nil" && one() != nil:
			if m, e, ok := c.ret2(n, one()); ok {
				return ".ifErrNilRet " + m + " " + e
			}
		// if waitTime == backoff.Stop { return m, e }
		case be.Op == token.EQL && n.wait != "" && l == n.wait && r == "backoff.Stop" && one() != nil:
			if m, e, ok := c.ret2(n, one()); ok {
				return ".ifStopRet " + m + " " + e
			}
		// if r.MaxElapsedTime > 0 { var cancel func(); ctx, cancel = context.WithTimeout(ctx, r.MaxElapsedTime); defer cancel() }
		case be.Op == token.GTR && l == n.recv+".MaxElapsedTime" && r == "0" && n.ctx != "":
			var cancelName string
			okAssign, okDefer := false, false
			for _, b := range s.Body.List {
				switch x := b.(type) {
				case *ast.DeclStmt:
				case *ast.AssignStmt:
					if len(x.Lhs) == 2 && len(x.Rhs) == 1 && c.src(x.Lhs[0]) == n.ctx &&
						c.src(x.Rhs[0]) == "context.WithTimeout("+n.ctx+", "+n.recv+".MaxElapsedTime)" {
						cancelName = c.src(x.Lhs[1])
						okAssign = true
					} else {
						return unknown
					}
				case *ast.DeferStmt:
					if cancelName != "" && c.src(x.Call) == cancelName+"()" {
						okDefer = true
					} else {
						return unknown
					}
				default:
					return unknown
				}
			}
			if okAssign && okDefer {
				return ".ctxTimeoutIfElapsed"
			}
		// if r.Logger != nil { r.Logger.Error(…) }
		case be.Op == token.NEQ && l == n.recv+".Logger" && r == "nil" && one() != nil:
			if es, ok := one().(*ast.ExprStmt); ok {
				if ce, ok := es.X.(*ast.CallExpr); ok && strings.HasPrefix(c.src(ce.Fun), n.recv+".Logger.") {
					return ".logIfLogger"
				}
			}
		// if r.OnRetryHook != nil { r.OnRetryHook(a0, a1) }
		case be.Op == token.NEQ && l == n.recv+".OnRetryHook" && r == "nil" && one() != nil:
			if es, ok := one().(*ast.ExprStmt); ok {
				if ce, ok := es.X.(*ast.CallExpr); ok && c.src(ce.Fun) == n.recv+".OnRetryHook" && len(ce.Args) == 2 {
					a0, ok0 := n.intE(c.src(ce.Args[0]))
					if ok0 && n.wait != "" && c.src(ce.Args[1]) == n.wait {
						return ".hookIfSet " + a0 + " .wait"
					}
				}
			}
		// if a <op> b { break retryLoop }
		case one() != nil && inLoop:
			bs, ok := one().(*ast.BranchStmt)
			if !ok || bs.Tok != token.BREAK {
				return unknown
			}
			if bs.Label != nil && bs.Label.Name != n.label {
				return unknown
			}
			ops := map[token.Token]string{token.GTR: ".gt", token.GEQ: ".ge", token.LSS: ".lt", token.LEQ: ".le", token.EQL: ".eq", token.NEQ: ".ne"}
			op, ok := ops[be.Op]
			a, ok1 := n.intE(l)
			b, ok2 := n.intE(r)
			if ok && ok1 && ok2 {
				return ".ifBreak " + op + " " + a + " " + b
			}
		}
	}
	return unknown
}
