package main

import (
	"go/ast"
	"strings"
)

// skeleton renders the control-flow and synchronisation skeleton of a function body as a list of lines:
// calls, assignments, returns, defers, go statements, sends, selects with their cases, ifs with their
// conditions, loops. Logger calls and verification hooks are skipped. Used for structural facts: the concurrent
// models take the atomic regions and their order from exactly this shape.
func (c *ctx) skeleton(fd *ast.FuncDecl) []string {
	var out []string
	c.skelBlock(fd.Body.List, "", &out)
	return out
}

func (c *ctx) skip(s string) bool {
	return strings.Contains(s, "verifhook.") || strings.Contains(s, ".logger.") || strings.HasPrefix(s, "logger.") ||
		strings.Contains(s, "logFields") && strings.Contains(s, ":=")
}

func (c *ctx) skelBlock(list []ast.Stmt, ind string, out *[]string) {
	for _, st := range list {
		c.skelStmt(st, ind, out)
	}
}

func (c *ctx) skelStmt(st ast.Stmt, ind string, out *[]string) {
	add := func(s string) {
		if len(s) > 200 {
			s = s[:200]
		}
		*out = append(*out, ind+s)
	}
	switch s := st.(type) {
	case *ast.BlockStmt:
		c.skelBlock(s.List, ind, out)
	case *ast.IfStmt:
		h := "if "
		if s.Init != nil {
			h += c.src(s.Init) + "; "
		}
		add(h + c.src(s.Cond) + " {")
		c.skelBlock(s.Body.List, ind+"  ", out)
		if s.Else != nil {
			add("} else {")
			c.skelStmt(s.Else, ind+"  ", out)
		}
		add("}")
	case *ast.ForStmt:
		h := "for"
		if s.Cond != nil {
			h += " " + c.src(s.Cond)
		}
		add(h + " {")
		c.skelBlock(s.Body.List, ind+"  ", out)
		add("}")
	case *ast.RangeStmt:
		add("for range " + c.src(s.X) + " {")
		c.skelBlock(s.Body.List, ind+"  ", out)
		add("}")
	case *ast.SelectStmt:
		add("select {")
		for _, cl := range s.Body.List {
			cc := cl.(*ast.CommClause)
			if cc.Comm == nil {
				add("default:")
			} else {
				add("case " + c.src(cc.Comm) + ":")
			}
			c.skelBlock(cc.Body, ind+"  ", out)
		}
		add("}")
	case *ast.SwitchStmt, *ast.TypeSwitchStmt:
		add("switch " + c.src(st)[:min(60, len(c.src(st)))])
	case *ast.LabeledStmt:
		add(s.Label.Name + ":")
		c.skelStmt(s.Stmt, ind, out)
	case *ast.GoStmt:
		if fl, ok := s.Call.Fun.(*ast.FuncLit); ok {
			add("go func {")
			c.skelBlock(fl.Body.List, ind+"  ", out)
			add("}")
		} else {
			add("go " + c.src(s.Call))
		}
	case *ast.DeferStmt:
		if fl, ok := s.Call.Fun.(*ast.FuncLit); ok {
			add("defer func {")
			c.skelBlock(fl.Body.List, ind+"  ", out)
			add("}")
		} else {
			add("defer " + c.src(s.Call))
		}
	default:
		t := c.src(st)
		if c.skip(t) {
			return
		}
		add(t)
	}
}

func min(a, b int) int {
	if a < b {
		return a
	}
	return b
}
