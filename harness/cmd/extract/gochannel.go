package main

func init() {
	for _, id := range []string{"C04", "C05", "C11"} {
		extractors[id] = extractGoChannel
	}
	extractors["C07"] = extractC07
}

// C07 additionally takes the subscriber decorator's Subscribe (with its pump goroutine) and Close as the atomic steps
// of M_dec (lean/WmModel/GcDec.lean).
func extractC07(c *ctx) (Facts, error) {
	f, firstErr := extractGoChannel(c)
	if f == nil {
		f = Facts{}
	}
	for _, x := range []struct{ key, name string }{
		{"decorator_subscribe", "Subscribe"},
		{"decorator_close", "Close"},
	} {
		fd, err := c.fn("message/decorator.go", "messageTransformSubscriberDecorator", x.name)
		if err != nil {
			firstErr = err
			f[x.key] = []string{"<missing>"}
			continue
		}
		f[x.key] = c.skeleton(fd)
	}
	return f, firstErr
}

// Structural facts the GoChannel models (lean/WmModel/GcSub.lean, GcTopic.lean) take as atomicity and ordering
// assumptions: the skeletons of the functions whose lock-delimited regions are the model's atomic steps.
func extractGoChannel(c *ctx) (Facts, error) {
	f := Facts{}
	var firstErr error
	for _, x := range []struct{ key, recv, name string }{
		{"send_loop", "subscriber", "sendMessageToSubscriber"},
		{"subscriber_close", "subscriber", "Close"},
		{"publish", "GoChannel", "Publish"},
		{"wait_for_ack", "GoChannel", "waitForAckFromSubscribers"},
		{"send_message", "GoChannel", "sendMessage"},
		{"subscribe", "GoChannel", "Subscribe"},
		{"add_subscriber", "GoChannel", "addSubscriber"},
		{"remove_subscriber", "GoChannel", "removeSubscriber"},
		{"topic_subscribers", "GoChannel", "topicSubscribers"},
		{"is_closed", "GoChannel", "isClosed"},
		{"close", "GoChannel", "Close"},
	} {
		fd, err := c.fn("pubsub/gochannel/pubsub.go", x.recv, x.name)
		if err != nil {
			firstErr = err
			f[x.key] = []string{"<missing>"}
			continue
		}
		f[x.key] = c.skeleton(fd)
	}
	if fd, err := c.fn("message/message.go", "Message", "Copy"); err == nil {
		f["message_copy"] = c.skeleton(fd)
	} else {
		firstErr = err
	}
	return f, firstErr
}
