package main

import (
	"fmt"
	"go/ast"
	"go/token"
	"sort"
	"strconv"
	"strings"
)

func init() { extractors["C08"] = extractC08 }

func c08Fld(s string) string {
	switch s {
	case "name":
		return ".name"
	case "publisherName":
		return ".publisherName"
	case "subscriberName":
		return ".subscriberName"
	case "subscribeTopic":
		return ".subscribeTopic"
	case "publishTopic":
		return ".publishTopic"
	}
	return "(.other " + leanStr(s) + ")"
}

// composite returns the key: value pairs of the first composite literal of the given type name inside n.
func (c *ctx) c08Composite(n ast.Node, typ string) map[string]string {
	out := map[string]string{}
	done := false
	ast.Inspect(n, func(x ast.Node) bool {
		if done {
			return false
		}
		if cl, ok := x.(*ast.CompositeLit); ok && c.src(cl.Type) == typ {
			for _, e := range cl.Elts {
				if kv, ok := e.(*ast.KeyValueExpr); ok {
					out[c.src(kv.Key)] = c.src(kv.Value)
				}
			}
			done = true
			return false
		}
		return true
	})
	return out
}

func extractC08(c *ctx) (Facts, error) {
	facts := Facts{}
	const rel = "message/router.go"
	const relCtx = "message/router_context.go"
	var firstErr error
	note := func(err error) {
		if err != nil && firstErr == nil {
			firstErr = err
		}
	}
	get := func(file, recv, name string) *ast.FuncDecl {
		fd, err := c.fn(file, recv, name)
		note(err)
		return fd
	}

	// ---- key constants of router_context.go
	keyVal := map[string]string{}
	if f, err := c.file(relCtx); err != nil {
		note(err)
	} else {
		for _, d := range f.Decls {
			gd, ok := d.(*ast.GenDecl)
			if !ok || gd.Tok != token.CONST {
				continue
			}
			for _, sp := range gd.Specs {
				vs := sp.(*ast.ValueSpec)
				if vs.Type == nil || c.src(vs.Type) != "ctxKey" {
					continue
				}
				for i, n := range vs.Names {
					if i < len(vs.Values) {
						if s, err := strconv.Unquote(c.src(vs.Values[i])); err == nil {
							keyVal[n.Name] = s
						}
					}
				}
			}
		}
	}
	vals := []string{}
	for _, v := range keyVal {
		vals = append(vals, v)
	}
	sort.Strings(vals)
	distinct := true
	for i := 1; i < len(vals); i++ {
		if vals[i] == vals[i-1] {
			distinct = false
		}
	}
	// the key type is a DEFINED type of package message (not an alias of string): nothing outside the package can make an equal key
	if f, err := c.file(relCtx); err == nil {
		defined := false
		for _, d := range f.Decls {
			if gd, ok := d.(*ast.GenDecl); ok && gd.Tok == token.TYPE {
				for _, sp := range gd.Specs {
					if ts, ok := sp.(*ast.TypeSpec); ok && ts.Name.Name == "ctxKey" {
						defined = !ts.Assign.IsValid()
					}
				}
			}
		}
		facts["ctx_key_is_a_private_defined_type"] = defined
	}
	facts["ctx_key_constants"] = len(keyVal)
	facts["ctx_key_values_distinct"] = distinct

	// ---- accessors: XFromCtx(ctx) { return valFromCtx(ctx, <key>) }
	accKey := map[string]string{}
	accModel := [][2]string{{"HandlerNameFromCtx", ".handlerName"}, {"PublisherNameFromCtx", ".publisherName"},
		{"SubscriberNameFromCtx", ".subscriberName"}, {"SubscribeTopicFromCtx", ".subscribeTopic"}, {"PublishTopicFromCtx", ".publishTopic"}}
	for _, a := range accModel {
		fd := get(relCtx, "", a[0])
		if fd == nil || len(fd.Body.List) != 1 {
			continue
		}
		if rs, ok := fd.Body.List[0].(*ast.ReturnStmt); ok && len(rs.Results) == 1 {
			if ce, ok := rs.Results[0].(*ast.CallExpr); ok && c.src(ce.Fun) == "valFromCtx" && len(ce.Args) == 2 {
				accKey[a[0]] = c.src(ce.Args[1])
			}
		}
	}
	facts["ctx_accessors_found"] = len(accKey)
	// valFromCtx: ctx.Value(key).(string), "" when absent
	if fd := get(relCtx, "", "valFromCtx"); fd != nil {
		s := c.src(fd.Body)
		facts["valFromCtx_reads_param_key"] = strings.Contains(s, "ctx.Value(key).(string)") && strings.Contains(s, `return ""`)
	}

	// ---- addHandlerContext: for i, msg := range messages { ctx := msg.Context(); ctx = context.WithValue(ctx, K, h.F) …; messages[i].SetContext(ctx) }
	// (a statement may be wrapped in `if h.G != "" { … }` – the shape before fix 5846d09 – and is then printed with its guard)
	var sets []string
	setsOK := false
	unconditional := 0
	if fd := get(rel, "handler", "addHandlerContext"); fd != nil && len(fd.Body.List) == 1 {
		recv := fd.Recv.List[0].Names[0].Name
		if rs, ok := fd.Body.List[0].(*ast.RangeStmt); ok && rs.Key != nil && rs.Value != nil && len(fd.Type.Params.List) == 1 &&
			c.src(rs.X) == fd.Type.Params.List[0].Names[0].Name {
			idx, val, param := c.src(rs.Key), c.src(rs.Value), c.src(rs.X)
			body := rs.Body.List
			okShape := len(body) >= 2 && c.src(body[0]) == "ctx := "+val+".Context()" &&
				(c.src(body[len(body)-1]) == param+"["+idx+"].SetContext(ctx)" || c.src(body[len(body)-1]) == val+".SetContext(ctx)")
			if okShape {
				setsOK = true
				// ctx = context.WithValue(ctx, K, h.F)  -> (field, key value)
				withValue := func(st ast.Stmt) (string, string, bool) {
					as, ok := st.(*ast.AssignStmt)
					if !ok || as.Tok != token.ASSIGN || len(as.Lhs) != 1 || len(as.Rhs) != 1 || c.src(as.Lhs[0]) != "ctx" {
						return "", "", false
					}
					ce, ok := as.Rhs[0].(*ast.CallExpr)
					if !ok || c.src(ce.Fun) != "context.WithValue" || len(ce.Args) != 3 || c.src(ce.Args[0]) != "ctx" ||
						!strings.HasPrefix(c.src(ce.Args[2]), recv+".") {
						return "", "", false
					}
					kv, ok := keyVal[c.src(ce.Args[1])]
					if !ok {
						return "", "", false
					}
					return strings.TrimPrefix(c.src(ce.Args[2]), recv+"."), kv, true
				}
				for _, st := range body[1 : len(body)-1] {
					entry := ""
					if f, kv, ok := withValue(st); ok {
						unconditional++
						entry = fmt.Sprintf("⟨%s, none, %s⟩", c08Fld(f), leanStr(kv))
					} else if is, ok := st.(*ast.IfStmt); ok && is.Init == nil && is.Else == nil && len(is.Body.List) == 1 {
						if be, ok := is.Cond.(*ast.BinaryExpr); ok && be.Op == token.NEQ && c.src(be.Y) == `""` && strings.HasPrefix(c.src(be.X), recv+".") {
							guard := strings.TrimPrefix(c.src(be.X), recv+".")
							if f, kv, ok := withValue(is.Body.List[0]); ok {
								entry = fmt.Sprintf("⟨%s, some %s, %s⟩", c08Fld(f), c08Fld(guard), leanStr(kv))
							}
						}
					}
					if entry == "" {
						setsOK = false
						entry = fmt.Sprintf("⟨.other %s, none, \"?\"⟩", leanStr(c.src(st)))
					}
					sets = append(sets, entry)
				}
			}
		}
	}
	facts["addHandlerContext_shape_recognised"] = setsOK
	facts["addHandlerContext_set_statements"] = len(sets)
	facts["addHandlerContext_unconditional_sets"] = unconditional // fix 5846d09: an empty value must hide a stale one

	// ---- AddHandler stores what it is given
	if fd := get(rel, "Router", "AddHandler"); fd != nil {
		ps := []string{}
		for _, p := range fd.Type.Params.List {
			for _, n := range p.Names {
				ps = append(ps, n.Name)
			}
		}
		lit := c.c08Composite(fd, "handler")
		names := map[string]string{} // local -> StructName argument
		ast.Inspect(fd, func(x ast.Node) bool {
			if as, ok := x.(*ast.AssignStmt); ok && as.Tok == token.DEFINE && len(as.Lhs) == len(as.Rhs) {
				for i := range as.Lhs {
					if ce, ok := as.Rhs[i].(*ast.CallExpr); ok && strings.HasSuffix(c.src(ce.Fun), "StructName") && len(ce.Args) == 1 {
						names[c.src(as.Lhs[i])] = c.src(ce.Args[0])
					}
				}
			}
			return true
		})
		okStore := len(ps) == 6 &&
			lit["name"] == ps[0] && lit["subscribeTopic"] == ps[1] && lit["subscriber"] == ps[2] &&
			lit["publishTopic"] == ps[3] && lit["publisher"] == ps[4] && lit["handlerFunc"] == ps[5]
		facts["AddHandler_stores_its_parameters"] = okStore
		facts["AddHandler_type_names_from_own_objects"] = len(ps) == 6 && names[lit["publisherName"]] == ps[4] && names[lit["subscriberName"]] == ps[2]
		stored := false
		for _, s := range c.stmtsFlat(fd) {
			if len(ps) > 0 && strings.HasSuffix(s, ".handlers["+ps[0]+"] = newHandler") {
				stored = true
			}
		}
		facts["AddHandler_registers_under_own_name"] = stored
	}
	if fd := get(rel, "Router", "AddNoPublisherHandler"); fd != nil {
		ok := false
		ast.Inspect(fd, func(x ast.Node) bool {
			if ce, ok2 := x.(*ast.CallExpr); ok2 && strings.HasSuffix(c.src(ce.Fun), ".AddHandler") && len(ce.Args) == 6 {
				ps := []string{}
				for _, p := range fd.Type.Params.List {
					for _, n := range p.Names {
						ps = append(ps, n.Name)
					}
				}
				ok = len(ps) == 4 && c.src(ce.Args[0]) == ps[0] && c.src(ce.Args[1]) == ps[1] && c.src(ce.Args[2]) == ps[2] &&
					c.src(ce.Args[3]) == `""` && c.src(ce.Args[4]) == "disabledPublisher{}"
			}
			return true
		})
		facts["AddNoPublisherHandler_uses_disabled_publisher_and_empty_topic"] = ok
		// the adapter drops nothing but can return no messages
		facts["AddNoPublisherHandler_adapter_returns_nil_messages"] = strings.Contains(c.src(fd), "return nil, handlerFunc(msg)")
	}
	// ---- decorateHandlerPublisher: a handler without a publisher is left alone (first statement: if h.publisher == nil { return nil })
	if fd := get(rel, "Router", "decorateHandlerPublisher"); fd != nil && len(fd.Type.Params.List) == 1 && len(fd.Body.List) > 0 {
		hp := fd.Type.Params.List[0].Names[0].Name
		ok := false
		if is, isIf := fd.Body.List[0].(*ast.IfStmt); isIf && is.Init == nil && is.Else == nil &&
			c.src(is.Cond) == hp+".publisher == nil" && c.src(is.Body) == "{ return nil }" {
			ok = true
		}
		facts["decorateHandlerPublisher_skips_nil_publisher"] = ok
	}
	if fd := get(rel, "disabledPublisher", "Publish"); fd != nil {
		facts["disabledPublisher_publish_only_errors"] = len(fd.Body.List) == 1 && c.src(fd.Body.List[0]) == "return ErrOutputInNoPublisherHandler"
	}

	// ---- RunHandlers: subscribe with the handler's own subscriber and topic, the channel goes to the same handler
	if fd := get(rel, "Router", "RunHandlers"); fd != nil {
		st := c.stmtsFlat(fd)
		i := indexOf(st, has(".subscriber.Subscribe("))
		ok := false
		hv := ""
		if i >= 0 {
			// messages, err := h.subscriber.Subscribe(ctx, h.subscribeTopic)
			parts := strings.SplitN(st[i], ":=", 2)
			if len(parts) == 2 {
				rhs := strings.TrimSpace(parts[1])
				hv = strings.SplitN(rhs, ".", 2)[0]
				res := strings.TrimSpace(strings.SplitN(parts[0], ",", 2)[0])
				ok = rhs == hv+".subscriber.Subscribe(ctx, "+hv+".subscribeTopic)" &&
					indexOf(st, func(s string) bool { return s == hv+".messagesCh = "+res }) > i
			}
		}
		// the decorators are applied inside the one loop over the handlers, after its `if h.started { continue }`
		// (a handler that is already running must not be wrapped again by a later RunHandlers call)
		loops, guarded := 0, false
		for _, st := range fd.Body.List {
			rs, ok := st.(*ast.RangeStmt)
			if !ok || !strings.Contains(c.src(rs.Body), ".decorateHandlerPublisher(") && !strings.Contains(c.src(rs.Body), ".decorateHandlerSubscriber(") {
				continue
			}
			loops++
			skipAt, decAt := -1, -1
			for k, b := range rs.Body.List {
				if is, ok := b.(*ast.IfStmt); ok && is.Init == nil && is.Else == nil && strings.HasSuffix(c.src(is.Cond), ".started") &&
					len(is.Body.List) == 1 && c.src(is.Body.List[0]) == "continue" && skipAt < 0 {
					skipAt = k
				}
				if strings.Contains(c.src(b), ".decorateHandlerPublisher(") || strings.Contains(c.src(b), ".decorateHandlerSubscriber(") {
					if decAt < 0 {
						decAt = k
					}
				}
			}
			guarded = skipAt >= 0 && decAt > skipAt
		}
		facts["runhandlers_decorates_only_unstarted"] = loops == 1 && guarded
		facts["runhandlers_subscribes_own_subscriber_own_topic"] = ok
		facts["runhandlers_runs_same_handler"] = hv != "" && indexOf(st, has(hv+".run(ctx, ")) > i
	}
	if fd := get(rel, "handler", "run"); fd != nil {
		recv := fd.Recv.List[0].Names[0].Name
		ok := false
		for _, s := range fd.Body.List {
			if rs, ok2 := s.(*ast.RangeStmt); ok2 && c.src(rs.X) == recv+".messagesCh" && rs.Key != nil && rs.Value == nil {
				mv := c.src(rs.Key)
				ast.Inspect(rs.Body, func(x ast.Node) bool {
					if g, ok3 := x.(*ast.GoStmt); ok3 && c.src(g.Call.Fun) == recv+".handleMessage" && len(g.Call.Args) == 2 && c.src(g.Call.Args[0]) == mv {
						ok = true
					}
					return true
				})
			}
		}
		facts["run_dispatches_own_channel_to_own_handleMessage"] = ok
	}
	// ---- decorateHandlerSubscriber's transform adds THIS handler's context
	if fd := get(rel, "Router", "decorateHandlerSubscriber"); fd != nil && len(fd.Type.Params.List) == 1 {
		hp := fd.Type.Params.List[0].Names[0].Name
		facts["subscriber_transform_adds_own_handler_context"] = strings.Contains(c.src(fd), hp+".addHandlerContext(msg)")
		// the context decorator is applied to EVERY handler's subscriber: a top-level statement, under no condition
		// (whatever the subscriber the application handed over is, e.g. one it wrapped itself with the same decorator type)
		uncond := false
		for _, st := range fd.Body.List {
			if as, ok := st.(*ast.AssignStmt); ok && len(as.Rhs) == 1 && strings.HasPrefix(c.src(as.Rhs[0]), "MessageTransformSubscriberDecorator(") {
				uncond = true
			}
		}
		facts["subscriber_context_decorator_unconditional"] = uncond
	}
	// ---- handleMessage / publishProducedMessages
	if fd := get(rel, "handler", "handleMessage"); fd != nil && len(fd.Type.Params.List) == 2 {
		recv := fd.Recv.List[0].Names[0].Name
		hp := fd.Type.Params.List[1].Names[0].Name
		mp := fd.Type.Params.List[0].Names[0].Name
		st := c.stmtsFlat(fd)
		iCall := indexOf(st, func(s string) bool { return strings.HasSuffix(s, ":= "+hp+"("+mp+")") })
		prod := ""
		if iCall >= 0 {
			prod = strings.TrimSpace(strings.SplitN(st[iCall], ",", 2)[0])
		}
		iCtx := indexOf(st, func(s string) bool { return s == recv+".addHandlerContext("+prod+"...)" })
		iPub := indexOf(st, has(recv+".publishProducedMessages("+prod+", "))
		facts["handleMessage_context_then_publish_of_returned_slice"] = iCall >= 0 && iCtx > iCall && iPub > iCtx
		// between the call and the publish nothing assigns the produced slice
		reassigned := false
		for _, s := range st[max(iCall+1, 0):] {
			if prod != "" && (strings.HasPrefix(s, prod+" =") || strings.HasPrefix(s, prod+", ") || strings.HasPrefix(s, prod+"[")) {
				reassigned = true
			}
		}
		facts["handleMessage_does_not_touch_returned_slice"] = iCall >= 0 && !reassigned
	}
	if fd := get(rel, "handler", "publishProducedMessages"); fd != nil && len(fd.Type.Params.List) >= 1 {
		recv := fd.Recv.List[0].Names[0].Name
		pp := fd.Type.Params.List[0].Names[0].Name
		n := 0
		args := ""
		ast.Inspect(fd, func(x ast.Node) bool {
			if ce, ok := x.(*ast.CallExpr); ok && strings.HasSuffix(c.src(ce.Fun), ".Publish") {
				n++
				as := make([]string, len(ce.Args))
				for i, a := range ce.Args {
					as[i] = c.src(a)
				}
				if ce.Ellipsis != token.NoPos {
					as[len(as)-1] += "..."
				}
				args = c.src(ce.Fun) + "(" + strings.Join(as, ", ") + ")"
			}
			return true
		})
		facts["publish_calls_in_publishProducedMessages"] = n
		facts["publish_call_is_own_publisher_own_topic_whole_slice"] = args == recv+".publisher.Publish("+recv+".publishTopic, "+pp+"...)"
		// guards before it: empty -> nil ; nil publisher -> error
		body := fd.Body.List
		g1, g2 := false, false
		if len(body) >= 2 {
			if is, ok := body[0].(*ast.IfStmt); ok && c.src(is.Cond) == "len("+pp+") == 0" && c.src(is.Body) == "{ return nil }" {
				g1 = true
			}
			if is, ok := body[1].(*ast.IfStmt); ok && c.src(is.Cond) == recv+".publisher == nil" && c.src(is.Body) == "{ return ErrOutputInNoPublisherHandler }" {
				g2 = true
			}
		}
		facts["publish_guard_empty_returns_nil"] = g1
		facts["publish_guard_nil_publisher_returns_error"] = g2
	}

	// ---- exact control-flow skeletons of the two functions that decide what is published and how the message is settled
	// (logger lines dropped): any inserted condition between the function's return and the publish breaks these
	c08NoLog := func(lines []string) []string {
		var out []string
		for _, l := range lines {
			if strings.Contains(l, "logger.") || strings.Contains(l, "msgFields :=") {
				continue
			}
			out = append(out, l)
		}
		return out
	}
	if fd := get(rel, "handler", "handleMessage"); fd != nil {
		facts["skeleton_handleMessage"] = c08NoLog(c.skeleton(fd))
	}
	if fd := get(rel, "handler", "publishProducedMessages"); fd != nil {
		facts["skeleton_publishProducedMessages"] = c08NoLog(c.skeleton(fd))
	}

	// ---- generated Lean
	var sb strings.Builder
	sb.WriteString("/- GENERATED by harness/cmd/extract from message/router.go and message/router_context.go on every run – do not edit -/\n")
	sb.WriteString("import WmModel.RouteGo\nnamespace Wm.RouteGo.Gen\nopen Wm.Route Wm.RouteGo\n\n")
	sb.WriteString("/-- handler.addHandlerContext + the five accessors -/\ndef ctxCode : CtxCode := {\n  sets := [")
	sb.WriteString(strings.Join(sets, ",\n           "))
	sb.WriteString("],\n  accessors := [")
	var accs []string
	for _, a := range accModel {
		if k, ok := accKey[a[0]]; ok {
			if kv, ok := keyVal[k]; ok {
				accs = append(accs, fmt.Sprintf("(%s, %s)", a[1], leanStr(kv)))
			}
		}
	}
	sb.WriteString(strings.Join(accs, ", "))
	sb.WriteString("] }\n\nend Wm.RouteGo.Gen\n")
	if err := c.writeLean("RouteCtx.lean", sb.String()); err != nil {
		return facts, err
	}
	return facts, firstErr
}
