package main

import (
	"fmt"
	"go/ast"
	"go/token"
	"strings"
)

func init() { extractors["C09"] = extractC09 }

// c09Loop is what the extractor reads off a function that folds a slice of wrappers into an accumulator.
type c09Loop struct {
	dir      string // ".down" | ".up" | ".other \"src\""
	filter   string // FCond term
	body     string // ".wrapAcc" | ".unknown \"src\""
	over     string // source text of the slice iterated
	acc      string // accumulator variable
	accInit  string // its initial value (source text)
	loopPos  int    // index of the (first) loop among the function's top-level statements
	nLoops   int    // number of top-level loops
	stmtsTop []ast.Stmt
}

func (s c09Loop) lean() string {
	return fmt.Sprintf("{ dir := %s, filter := %s, body := %s }", s.dir, s.filter, s.body)
}

func c09unk(c *ctx, n ast.Node) string { return ".unknown " + leanStr(c.src(n)) }

// foldLoop finds the single top-level loop of fd and describes it.
// elemSel: "" when the slice elements are called directly (decorators), "Handler" when a field of the element is called.
func (c *ctx) foldLoop(fd *ast.FuncDecl, elemSel string) (c09Loop, error) {
	sh := c09Loop{dir: ".other \"no loop\"", filter: ".tt", body: ".unknown \"no loop\"", loopPos: -1, stmtsTop: fd.Body.List}
	recv := ""
	if fd.Recv != nil && len(fd.Recv.List) == 1 && len(fd.Recv.List[0].Names) == 1 {
		recv = fd.Recv.List[0].Names[0].Name
	}
	var loopBody *ast.BlockStmt
	idx, elem := "", "" // index variable, element variable (range value or alias)
	nLoops := 0
	for i, st := range fd.Body.List {
		if nLoops >= 1 {
			// only the first top-level loop is described; later ones are counted
			switch st.(type) {
			case *ast.ForStmt, *ast.RangeStmt:
				nLoops++
			}
			continue
		}
		switch s := st.(type) {
		case *ast.ForStmt:
			nLoops++
			sh.loopPos = i
			loopBody = s.Body
			sh.dir = ".other " + leanStr(c.src(s.Init)+"; "+c.src(s.Cond)+"; "+c.src(s.Post))
			as, ok1 := s.Init.(*ast.AssignStmt)
			cond, ok2 := s.Cond.(*ast.BinaryExpr)
			post, ok3 := s.Post.(*ast.IncDecStmt)
			if !ok1 || !ok2 || !ok3 || len(as.Lhs) != 1 || len(as.Rhs) != 1 || as.Tok != token.DEFINE {
				continue
			}
			iv := c.src(as.Lhs[0])
			if c.src(post.X) != iv || c.src(cond.X) != iv {
				continue
			}
			init := c.src(as.Rhs[0])
			// for i := len(X) - 1; i >= 0; i--
			if strings.HasPrefix(init, "len(") && strings.HasSuffix(init, ") - 1") && cond.Op == token.GEQ && c.src(cond.Y) == "0" && post.Tok == token.DEC {
				sh.dir, sh.over, idx = ".down", init[4:len(init)-5], iv
			}
			// for i := 0; i < len(X); i++
			if init == "0" && cond.Op == token.LSS && strings.HasPrefix(c.src(cond.Y), "len(") && post.Tok == token.INC {
				y := c.src(cond.Y)
				sh.dir, sh.over, idx = ".up", y[4:len(y)-1], iv
			}
		case *ast.RangeStmt:
			nLoops++
			sh.loopPos = i
			loopBody = s.Body
			sh.dir, sh.over = ".up", c.src(s.X)
			if s.Key != nil {
				idx = c.src(s.Key)
			}
			if s.Value != nil {
				elem = c.src(s.Value)
			}
			if s.Tok != token.DEFINE {
				sh.dir = ".other " + leanStr("range without :=")
			}
		}
	}
	sh.nLoops = nLoops
	if nLoops < 1 || loopBody == nil {
		return sh, fmt.Errorf("%s: no top-level loop found", fd.Name.Name)
	}
	// local aliases defined in the loop body:  cur := X[i]   /   flag := <cond>
	alias := map[string]ast.Expr{}
	var rest []ast.Stmt
	for _, st := range loopBody.List {
		if as, ok := st.(*ast.AssignStmt); ok && as.Tok == token.DEFINE && len(as.Lhs) == 1 && len(as.Rhs) == 1 {
			name := c.src(as.Lhs[0])
			if idx != "" && c.src(as.Rhs[0]) == sh.over+"["+idx+"]" {
				elem = name
				continue
			}
			alias[name] = as.Rhs[0]
			continue
		}
		if es, ok := st.(*ast.ExprStmt); ok && strings.HasPrefix(c.src(es), "verifhook.") {
			continue
		}
		rest = append(rest, st)
	}
	isElem := func(e ast.Expr) bool {
		s := c.src(e)
		return (elem != "" && s == elem) || (idx != "" && idx != "_" && s == sh.over+"["+idx+"]")
	}
	// acc = F(acc) | acc, err = F(acc)  where F is the element (or its field elemSel)
	wrapStmt := func(st ast.Stmt) (string, bool) {
		as, ok := st.(*ast.AssignStmt)
		if !ok || as.Tok != token.ASSIGN || len(as.Rhs) != 1 || len(as.Lhs) < 1 || len(as.Lhs) > 2 {
			return "", false
		}
		call, ok := as.Rhs[0].(*ast.CallExpr)
		if !ok || len(call.Args) != 1 || call.Ellipsis != token.NoPos {
			return "", false
		}
		acc := c.src(as.Lhs[0])
		if c.src(call.Args[0]) != acc {
			return "", false
		}
		if len(as.Lhs) == 2 && c.src(as.Lhs[1]) != "err" {
			return "", false
		}
		fun := call.Fun
		if elemSel != "" {
			sel, ok := fun.(*ast.SelectorExpr)
			if !ok || sel.Sel.Name != elemSel {
				return "", false
			}
			fun = sel.X
		}
		if !isElem(fun) {
			return "", false
		}
		return acc, true
	}
	var cond func(e ast.Expr, depth int) string
	cond = func(e ast.Expr, depth int) string {
		if depth > 8 {
			return c09unk(c, e)
		}
		switch x := e.(type) {
		case *ast.ParenExpr:
			return cond(x.X, depth+1)
		case *ast.Ident:
			if a, ok := alias[x.Name]; ok {
				return cond(a, depth+1)
			}
			if x.Name == "true" {
				return ".tt"
			}
		case *ast.UnaryExpr:
			if x.Op == token.NOT {
				return "(.not " + cond(x.X, depth+1) + ")"
			}
		case *ast.SelectorExpr:
			if isElem(x.X) && x.Sel.Name == "IsRouterLevel" {
				return ".isRouterLevel"
			}
		case *ast.BinaryExpr:
			switch x.Op {
			case token.LOR:
				return "(.or " + cond(x.X, depth+1) + " " + cond(x.Y, depth+1) + ")"
			case token.LAND:
				return "(.and " + cond(x.X, depth+1) + " " + cond(x.Y, depth+1) + ")"
			case token.EQL, token.NEQ:
				isElemName := func(e ast.Expr) bool {
					s, ok := e.(*ast.SelectorExpr)
					return ok && isElem(s.X) && s.Sel.Name == "HandlerName"
				}
				isOwnName := func(e ast.Expr) bool { return recv != "" && c.src(e) == recv+".name" }
				if (isElemName(x.X) && isOwnName(x.Y)) || (isElemName(x.Y) && isOwnName(x.X)) {
					if x.Op == token.EQL {
						return ".nameEq"
					}
					return ".nameNe"
				}
			}
		}
		return c09unk(c, e)
	}
	// accepted bodies:  [wrap]  |  [wrap, if err != nil { return … }]  |  [if COND { wrap }]
	sh.body = ".unknown " + leanStr(c.src(loopBody))
	switch {
	case len(rest) >= 1 && len(rest) <= 2:
		if acc, ok := wrapStmt(rest[0]); ok {
			okTail := len(rest) == 1
			if len(rest) == 2 {
				if is, ok := rest[1].(*ast.IfStmt); ok && is.Init == nil && is.Else == nil && c.src(is.Cond) == "err != nil" &&
					len(is.Body.List) == 1 {
					if _, ok := is.Body.List[0].(*ast.ReturnStmt); ok {
						okTail = true
					}
				}
			}
			if okTail {
				sh.acc, sh.body, sh.filter = acc, ".wrapAcc", ".tt"
			}
		} else if is, ok := rest[0].(*ast.IfStmt); ok && len(rest) == 1 && is.Init == nil && is.Else == nil && len(is.Body.List) == 1 {
			if acc, ok := wrapStmt(is.Body.List[0]); ok {
				sh.acc, sh.body, sh.filter = acc, ".wrapAcc", cond(is.Cond, 0)
			}
		}
	}
	// initial value of the accumulator: the last top-level `acc := e` / `acc = e` before the loop
	for _, st := range fd.Body.List[:sh.loopPos] {
		if as, ok := st.(*ast.AssignStmt); ok && len(as.Lhs) >= 1 && len(as.Rhs) == 1 && c.src(as.Lhs[0]) == sh.acc {
			sh.accInit = c.src(as.Rhs[0])
		}
	}
	return sh, nil
}

// appendFact describes `for _, x := range <param> { v := T{…}; r.F = append(r.F, v) }` in a registration helper:
// returns "<field>|Handler=<..>|HandlerName=<..>|IsRouterLevel=<..>" or "?".
func (c *ctx) appendFact(fd *ast.FuncDecl) string {
	var rs *ast.RangeStmt
	for _, st := range fd.Body.List {
		if r, ok := st.(*ast.RangeStmt); ok {
			if rs != nil {
				return "? two loops"
			}
			rs = r
		}
	}
	if rs == nil || rs.Value == nil {
		return "? no range loop"
	}
	val := c.src(rs.Value)
	rangedParam := false
	for _, p := range fd.Type.Params.List {
		if _, ok := p.Type.(*ast.Ellipsis); ok && len(p.Names) == 1 && p.Names[0].Name == c.src(rs.X) {
			rangedParam = true
		}
	}
	if !rangedParam {
		return "? loop is not over the variadic parameter"
	}
	var lit *ast.CompositeLit
	field := ""
	nAppend := 0
	ast.Inspect(rs.Body, func(n ast.Node) bool {
		switch x := n.(type) {
		case *ast.CompositeLit:
			if lit == nil {
				lit = x
			}
		case *ast.AssignStmt:
			if len(x.Lhs) == 1 && len(x.Rhs) == 1 {
				if call, ok := x.Rhs[0].(*ast.CallExpr); ok && c.src(call.Fun) == "append" && len(call.Args) == 2 &&
					c.src(call.Args[0]) == c.src(x.Lhs[0]) && call.Ellipsis == token.NoPos {
					field = c.src(x.Lhs[0])
					nAppend++
				}
			}
		}
		return true
	})
	if lit == nil || nAppend != 1 {
		return "? no single append of a composite literal"
	}
	if len(fd.Recv.List[0].Names) == 1 {
		field = strings.TrimPrefix(field, fd.Recv.List[0].Names[0].Name+".")
	}
	kv := map[string]string{}
	for _, e := range lit.Elts {
		if k, ok := e.(*ast.KeyValueExpr); ok {
			v := c.src(k.Value)
			if v == val {
				v = "<element>"
			}
			for i, p := range fd.Type.Params.List {
				for _, n := range p.Names {
					if n.Name == v {
						v = fmt.Sprintf("<param%d>", i)
					}
				}
			}
			kv[c.src(k.Key)] = v
		}
	}
	return fmt.Sprintf("%s|Handler=%s|HandlerName=%s|IsRouterLevel=%s", field, kv["Handler"], kv["HandlerName"], kv["IsRouterLevel"])
}

func extractC09(c *ctx) (Facts, error) {
	facts := Facts{}
	const rel = "message/router.go"
	var firstErr error
	note := func(err error) {
		if err != nil && firstErr == nil {
			firstErr = err
		}
	}
	get := func(recv, name string) *ast.FuncDecl {
		fd, err := c.fn(rel, recv, name)
		note(err)
		return fd
	}
	bad := c09Loop{dir: ".other \"missing\"", filter: ".tt", body: ".unknown \"missing\""}
	mw, pd, sd := bad, bad, bad
	subCtxFirst := false
	pubNilGuard := false

	// --- handler.run: the wrap loop
	if fd := get("handler", "run"); fd != nil {
		sh, err := c.foldLoop(fd, "Handler")
		note(err)
		mw = sh
		param2 := ""
		if len(fd.Type.Params.List) == 2 && len(fd.Type.Params.List[1].Names) == 1 {
			param2 = fd.Type.Params.List[1].Names[0].Name
		}
		facts["run_top_level_loops"] = sh.nLoops // the wrap loop, then the receive loop
		facts["run_loop_over_snapshot_param"] = sh.over != "" && sh.over == param2
		facts["run_loop_acc_init_is_handler_func"] = strings.HasSuffix(sh.accInit, ".handlerFunc")
		// the wrapped function, and nothing else, is what handleMessage gets
		passed := false
		ast.Inspect(fd, func(n ast.Node) bool {
			if g, ok := n.(*ast.GoStmt); ok && strings.HasSuffix(c.src(g.Call.Fun), ".handleMessage") && len(g.Call.Args) == 2 {
				passed = c.src(g.Call.Args[1]) == sh.acc && sh.acc != ""
			}
			return true
		})
		facts["run_passes_wrapped_func_to_handleMessage"] = passed
	}
	if fd := get("handler", "handleMessage"); fd != nil && len(fd.Type.Params.List) == 2 {
		hp := fd.Type.Params.List[1].Names[0].Name
		mp := fd.Type.Params.List[0].Names[0].Name
		n := 0
		for _, s := range c.calls(fd) {
			if s == hp {
				n++
			}
		}
		facts["handleMessage_calls_handler_param_times"] = n
		argOk := false
		ast.Inspect(fd, func(x ast.Node) bool {
			if ce, ok := x.(*ast.CallExpr); ok && c.src(ce.Fun) == hp && len(ce.Args) == 1 && c.src(ce.Args[0]) == mp {
				argOk = true
			}
			return true
		})
		facts["handleMessage_calls_handler_with_msg"] = argOk
	}
	// --- registration: one slice, in call order
	if fd := get("Router", "addRouterLevelMiddleware"); fd != nil {
		facts["router_level_append"] = c.appendFact(fd)
	}
	if fd := get("Router", "addHandlerLevelMiddleware"); fd != nil {
		facts["handler_level_append"] = c.appendFact(fd)
	}
	callsWith := func(fd *ast.FuncDecl, suffix string) string {
		out := "?"
		ast.Inspect(fd, func(x ast.Node) bool {
			if ce, ok := x.(*ast.CallExpr); ok && strings.HasSuffix(c.src(ce.Fun), suffix) {
				args := make([]string, len(ce.Args))
				for i, a := range ce.Args {
					args[i] = c.src(a)
				}
				if ce.Ellipsis != token.NoPos {
					args[len(args)-1] += "..."
				}
				out = strings.Join(args, ", ")
			}
			return true
		})
		return out
	}
	if fd := get("Router", "AddMiddleware"); fd != nil {
		facts["Router_AddMiddleware_forwards"] = callsWith(fd, ".addRouterLevelMiddleware")
	}
	if fd := get("Handler", "AddMiddleware"); fd != nil {
		a := callsWith(fd, ".addHandlerLevelMiddleware")
		// first argument must be the handler's own name
		facts["Handler_AddMiddleware_forwards_own_name"] = strings.HasSuffix(strings.SplitN(a, ",", 2)[0], ".name") && strings.HasSuffix(a, "m...")
	}
	for _, p := range [][2]string{{"AddPublisherDecorators", "publisherDecorators"}, {"AddSubscriberDecorators", "subscriberDecorators"}} {
		if fd := get("Router", p[0]); fd != nil {
			ok := false
			param := fd.Type.Params.List[0].Names[0].Name
			recv := fd.Recv.List[0].Names[0].Name
			for _, s := range c.stmtsFlat(fd) {
				if s == fmt.Sprintf("%s.%s = append(%s.%s, %s...)", recv, p[1], recv, p[1], param) {
					ok = true
				}
			}
			facts[p[0]+"_appends_in_order"] = ok
			// … and never keeps the caller's slice itself (`xs...` passes the slice, not a copy): every statement that
			// writes the router's list is that append
			adopts := false
			for _, s := range c.stmtsFlat(fd) {
				if strings.HasPrefix(s, recv+"."+p[1]+" = ") && !strings.HasPrefix(s, recv+"."+p[1]+" = append("+recv+"."+p[1]+", ") {
					adopts = true
				}
			}
			facts[p[0]+"_copies_the_arguments"] = ok && !adopts
		}
	}
	// --- RunHandlers: decorate, subscribe on the decorated subscriber, snapshot of the middlewares for run
	if fd := get("Router", "RunHandlers"); fd != nil {
		st := c.stmtsFlat(fd)
		iPub := indexOf(st, has(".decorateHandlerPublisher("))
		iSub := indexOf(st, has(".decorateHandlerSubscriber("))
		iSubscribe := indexOf(st, has(".subscriber.Subscribe("))
		iSnap := indexOf(st, func(s string) bool {
			return strings.Contains(s, ":= append([]middleware{}, ") && strings.Contains(s, ".middlewares...)")
		})
		iRun := indexOf(st, has(".run(ctx, "))
		facts["runhandlers_decorates_before_subscribe"] = iPub >= 0 && iSub >= 0 && iSubscribe > iPub && iSubscribe > iSub
		snapVar := ""
		if iSnap >= 0 {
			snapVar = strings.TrimSpace(strings.SplitN(st[iSnap], ":=", 2)[0])
		}
		facts["runhandlers_snapshot_passed_to_run"] = iSnap >= 0 && iRun > iSnap && strings.Contains(st[iRun], ".run(ctx, "+snapVar+")")
		facts["runhandlers_skips_started"] = strings.Contains(c.src(fd), "if h.started { continue }")
	}
	// --- Run: the plugins are executed before the handlers are started (what a plugin registers reaches them)
	if fd := get("Router", "Run"); fd != nil {
		st := c.stmtsFlat(fd)
		iPlug := indexOf(st, func(s string) bool { return strings.Contains(s, "plugin(r)") })
		iRH := indexOf(st, has(".RunHandlers(ctx)"))
		facts["run_loads_plugins_before_runhandlers"] = iPlug >= 0 && iRH > iPlug
	}
	// --- MessageTransformSubscriberDecorator wraps: it returns a fresh object around what it is given and never
	// modifies that (the same pre-decorated subscriber may be given to several handlers)
	if fd, err := c.fn("message/decorator.go", "", "MessageTransformSubscriberDecorator"); err != nil {
		note(err)
	} else {
		fresh := false
		ast.Inspect(fd, func(x ast.Node) bool {
			if fl, ok := x.(*ast.FuncLit); ok && len(fl.Type.Params.List) == 1 && len(fl.Body.List) == 1 {
				if rs, ok := fl.Body.List[0].(*ast.ReturnStmt); ok && len(rs.Results) == 2 {
					r0 := c.src(rs.Results[0])
					p := fl.Type.Params.List[0].Names[0].Name
					fresh = strings.HasPrefix(r0, "&messageTransformSubscriberDecorator{") && strings.Contains(r0, "sub: "+p+",")
				}
			}
			return true
		})
		facts["transform_subscriber_decorator_returns_fresh_wrapper"] = fresh
	}
	// --- decorators
	if fd := get("Router", "decorateHandlerPublisher"); fd != nil {
		sh, err := c.foldLoop(fd, "")
		note(err)
		pd = sh
		// the function leaves a nil publisher alone: first statement `if h.publisher == nil { return nil }`
		if len(fd.Type.Params.List) == 1 && len(fd.Body.List) > 0 {
			hp := fd.Type.Params.List[0].Names[0].Name
			if is, ok := fd.Body.List[0].(*ast.IfStmt); ok && is.Init == nil && is.Else == nil &&
				c.src(is.Cond) == hp+".publisher == nil" && c.src(is.Body) == "{ return nil }" {
				pubNilGuard = true
			}
		}
		facts["pubdec_nil_publisher_guard_first"] = pubNilGuard
		facts["pubdec_top_level_loops"] = sh.nLoops
		facts["pubdec_loop_over_router_list"] = strings.HasSuffix(sh.over, ".publisherDecorators")
		facts["pubdec_acc_init_is_handler_publisher"] = strings.HasSuffix(sh.accInit, ".publisher")
		stored := false
		for _, s := range fd.Body.List[sh.loopPos+1:] {
			if as, ok := s.(*ast.AssignStmt); ok && len(as.Lhs) == 1 && strings.HasSuffix(c.src(as.Lhs[0]), ".publisher") && c.src(as.Rhs[0]) == sh.acc {
				stored = true
			}
		}
		facts["pubdec_result_stored_as_handler_publisher"] = stored
	}
	if fd := get("Router", "decorateHandlerSubscriber"); fd != nil {
		sh, err := c.foldLoop(fd, "")
		note(err)
		sd = sh
		facts["subdec_top_level_loops"] = sh.nLoops
		facts["subdec_loop_over_router_list"] = strings.HasSuffix(sh.over, ".subscriberDecorators")
		stored := false
		for _, s := range fd.Body.List[sh.loopPos+1:] {
			if as, ok := s.(*ast.AssignStmt); ok && len(as.Lhs) == 1 && strings.HasSuffix(c.src(as.Lhs[0]), ".subscriber") && c.src(as.Rhs[0]) == sh.acc {
				stored = true
			}
		}
		facts["subdec_result_stored_as_handler_subscriber"] = stored
		// before the loop: acc := h.subscriber, then acc, err = MessageTransformSubscriberDecorator(f)(acc), nothing else assigns acc
		assigns := []string{}
		for _, s := range fd.Body.List[:c09max0(sh.loopPos)] {
			if as, ok := s.(*ast.AssignStmt); ok && len(as.Rhs) == 1 && c.src(as.Lhs[0]) == sh.acc && sh.acc != "" {
				assigns = append(assigns, c.src(as.Rhs[0]))
			}
		}
		if len(assigns) == 2 && strings.HasSuffix(assigns[0], ".subscriber") &&
			strings.HasPrefix(assigns[1], "MessageTransformSubscriberDecorator(") && strings.HasSuffix(assigns[1], ")("+sh.acc+")") {
			subCtxFirst = true
			// and the transform it is given adds the handler context
			tr := strings.TrimSuffix(strings.TrimPrefix(assigns[1], "MessageTransformSubscriberDecorator("), ")("+sh.acc+")")
			adds := false
			for _, s := range fd.Body.List[:sh.loopPos] {
				if as, ok := s.(*ast.AssignStmt); ok && c.src(as.Lhs[0]) == tr && strings.Contains(c.src(as.Rhs[0]), ".addHandlerContext(") {
					adds = true
				}
			}
			facts["subdec_context_transform_adds_handler_context"] = adds
		}
		facts["subdec_context_decorator_first"] = subCtxFirst
	}
	for k, sh := range map[string]c09Loop{"mw": mw, "pubdec": pd, "subdec": sd} {
		facts[k+"_loop_dir"] = strings.SplitN(sh.dir, " ", 2)[0]
		facts[k+"_loop_filter"] = sh.filter
		facts[k+"_loop_body"] = strings.SplitN(sh.body, " ", 2)[0]
	}
	var sb strings.Builder
	sb.WriteString("/- GENERATED by harness/cmd/extract from message/router.go on every run – do not edit -/\n")
	sb.WriteString("import WmModel.ChainGo\nnamespace Wm.ChainGo.Gen\nopen Wm.ChainGo\n\n")
	fmt.Fprintf(&sb, "/-- handler.run: the middleware wrap loop -/\ndef mwLoop : Loop := %s\n\n", mw.lean())
	fmt.Fprintf(&sb, "/-- decorateHandlerPublisher -/\ndef pubDecLoop : Loop := %s\n\n", pd.lean())
	fmt.Fprintf(&sb, "/-- decorateHandlerPublisher begins with `if h.publisher == nil { return nil }` -/\ndef pubDecNilGuard : Bool := %v\n\n", pubNilGuard)
	fmt.Fprintf(&sb, "/-- decorateHandlerSubscriber -/\ndef subDecLoop : Loop := %s\n\n", sd.lean())
	fmt.Fprintf(&sb, "/-- the handler-context decorator is applied to the handler's subscriber before the loop -/\ndef subCtxFirst : Bool := %v\n\n", subCtxFirst)
	sb.WriteString("end Wm.ChainGo.Gen\n")
	if err := c.writeLean("ChainLoops.lean", sb.String()); err != nil {
		return facts, err
	}
	return facts, firstErr
}

func c09max0(n int) int {
	if n < 0 {
		return 0
	}
	return n
}
