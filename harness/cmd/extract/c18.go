package main

import (
	"go/ast"
	"strings"
)

func init() { extractors["C18"] = extractC18 }

const (
	c18Backend   = "components/requestreply/backend_pubsub.go"
	c18Handler   = "components/requestreply/handler.go"
	c18Bus       = "components/requestreply/command_bus.go"
	c18Marshaler = "components/requestreply/backend_pubsub_marshaler.go"
)

// c18FirstFuncLit returns the first function literal inside n (the closure a constructor returns / a goroutine runs).
func c18FirstFuncLit(n ast.Node) *ast.FuncLit {
	var out *ast.FuncLit
	ast.Inspect(n, func(x ast.Node) bool {
		if out != nil {
			return false
		}
		if fl, ok := x.(*ast.FuncLit); ok {
			out = fl
			return false
		}
		return true
	})
	return out
}

// c18GoFunc returns the body of the first `go func() {…}()` statement inside n.
func c18GoFunc(n ast.Node) *ast.FuncLit {
	var out *ast.FuncLit
	ast.Inspect(n, func(x ast.Node) bool {
		if out != nil {
			return false
		}
		if g, ok := x.(*ast.GoStmt); ok {
			if fl, ok := g.Call.Fun.(*ast.FuncLit); ok {
				out = fl
				return false
			}
		}
		return true
	})
	return out
}

func (c *ctx) c18Skel(body *ast.BlockStmt) []string {
	var out []string
	c.skelBlock(body.List, "", &out)
	return c18NoLog(out)
}

// c18NoLog drops logging lines from a skeleton (they carry no control flow).
func c18NoLog(lines []string) []string {
	out := []string{}
	for _, l := range lines {
		if strings.Contains(l, ".Logger.") {
			continue
		}
		out = append(out, l)
	}
	return out
}

// c18ReplyChan finds the channel the listener goroutine closes by `defer close(<ch>)` and the capacity it was made with.
func (c *ctx) c18ReplyChan(fd *ast.FuncDecl, g *ast.FuncLit) (name, capacity string) {
	for _, st := range g.Body.List {
		if d, ok := st.(*ast.DeferStmt); ok {
			if id, ok := d.Call.Fun.(*ast.Ident); ok && id.Name == "close" && len(d.Call.Args) == 1 {
				name = c.src(d.Call.Args[0])
			}
		}
	}
	ast.Inspect(fd, func(x ast.Node) bool {
		as, ok := x.(*ast.AssignStmt)
		if !ok || len(as.Lhs) != 1 || len(as.Rhs) != 1 || c.src(as.Lhs[0]) != name {
			return true
		}
		if ce, ok := as.Rhs[0].(*ast.CallExpr); ok {
			if id, ok := ce.Fun.(*ast.Ident); ok && id.Name == "make" {
				if len(ce.Args) == 2 {
					capacity = c.src(ce.Args[1])
				} else {
					capacity = "0"
				}
			}
		}
		return true
	})
	return
}

// c18Sends classifies every send on channel ch inside n: "select+ctx.Done", "select+default", or "bare" (a blocking send).
func (c *ctx) c18Sends(n ast.Node, ch string) []string {
	var out []string
	guarded := map[*ast.SendStmt]string{}
	ast.Inspect(n, func(x ast.Node) bool {
		sel, ok := x.(*ast.SelectStmt)
		if !ok {
			return true
		}
		var sends []*ast.SendStmt
		other := ""
		for _, cl := range sel.Body.List {
			cc := cl.(*ast.CommClause)
			switch {
			case cc.Comm == nil:
				other = "default"
			default:
				if s, ok := cc.Comm.(*ast.SendStmt); ok && c.src(s.Chan) == ch {
					sends = append(sends, s)
				} else if strings.Contains(c.src(cc.Comm), ".Done()") && other == "" {
					other = c.src(cc.Comm)
				}
			}
		}
		for _, s := range sends {
			if other == "" {
				guarded[s] = "select-without-escape"
			} else {
				guarded[s] = "select+" + other
			}
		}
		return true
	})
	ast.Inspect(n, func(x ast.Node) bool {
		if s, ok := x.(*ast.SendStmt); ok && c.src(s.Chan) == ch {
			if g, ok := guarded[s]; ok {
				out = append(out, g)
			} else {
				out = append(out, "bare")
			}
		}
		return true
	})
	return out
}

func (c *ctx) c18CountCalls(n ast.Node, pred func(string) bool) int {
	k := 0
	ast.Inspect(n, func(x ast.Node) bool {
		if ce, ok := x.(*ast.CallExpr); ok && pred(c.src(ce.Fun)) {
			k++
		}
		return true
	})
	return k
}

// Structural facts the request-reply model (lean/WmModel/ReqReply.lean) takes from the source: the shape of the listener
// goroutine (every send on the reply channel can escape; close and the finished callback are deferred, once each, in this
// order), the operation-id filter of handleNotifyMsg, and publish-before-decision in OnCommandProcessed.
func extractC18(c *ctx) (Facts, error) {
	f := Facts{}
	var firstErr error
	note := func(err error) {
		if err != nil && firstErr == nil {
			firstErr = err
		}
	}

	listen, err := c.fn(c18Backend, "PubSubBackend", "ListenForNotifications")
	note(err)
	if listen != nil {
		f["listen_for_notifications"] = c18NoLog(c.skeleton(listen))
		if g := c18GoFunc(listen); g != nil {
			ch, capacity := c.c18ReplyChan(listen, g)
			f["reply_chan_capacity"] = capacity
			f["reply_chan_sends"] = c.c18Sends(g, ch)
			f["reply_chan_sends_outside_goroutine"] = len(c.c18Sends(listen, ch)) - len(c.c18Sends(g, ch))
			var defers []string
			for _, st := range g.Body.List {
				if d, ok := st.(*ast.DeferStmt); ok {
					if fl, ok := d.Call.Fun.(*ast.FuncLit); ok {
						calls := []string{}
						for _, s := range c.calls(fl) {
							if strings.Contains(s, "Finished") {
								calls = append(calls, "finished-callback")
							}
						}
						defers = append(defers, "defer func{"+strings.Join(calls, ",")+"}")
					} else {
						s := c.src(d.Call)
						if ch != "" {
							s = strings.ReplaceAll(s, ch, "<replyChan>")
						}
						defers = append(defers, "defer "+s)
					}
				}
			}
			f["listener_defers_in_order"] = defers
			f["listener_close_calls"] = c.c18CountCalls(g, func(s string) bool { return s == "close" })
			f["listener_finished_callback_calls"] = c.c18CountCalls(g, func(s string) bool { return strings.HasSuffix(s, "OnListenForReplyFinished") })
			// the loop: one outer select with exactly {ctx.Done, receive from the notification channel}
			var outer []string
			ast.Inspect(g, func(x ast.Node) bool {
				if outer != nil {
					return false
				}
				if sel, ok := x.(*ast.SelectStmt); ok {
					for _, cl := range sel.Body.List {
						cc := cl.(*ast.CommClause)
						if cc.Comm == nil {
							outer = append(outer, "default")
						} else {
							outer = append(outer, c.src(cc.Comm))
						}
					}
					return false
				}
				return true
			})
			f["listener_outer_select"] = outer
		} else {
			f["reply_chan_sends"] = []string{"<no goroutine>"}
		}
		// the subscription is made with the derived (cancellable) context, before the goroutine starts
		var pCtx, pSub, pGo int
		ast.Inspect(listen, func(x ast.Node) bool {
			switch n := x.(type) {
			case *ast.CallExpr:
				s := c.src(n.Fun)
				if (s == "context.WithTimeout" || s == "context.WithCancel") && len(n.Args) > 0 && c.src(n.Args[0]) == "ctx" && pCtx == 0 {
					pCtx = int(n.Pos())
				}
				if strings.HasSuffix(s, ".Subscribe") && len(n.Args) > 0 && c.src(n.Args[0]) == "ctx" && pSub == 0 {
					pSub = int(n.Pos())
				}
			case *ast.GoStmt:
				if pGo == 0 {
					pGo = int(n.Pos())
				}
			}
			return true
		})
		f["subscribe_with_derived_ctx_before_goroutine"] = pCtx > 0 && pSub > pCtx && pGo > pSub
	}

	if fd, err := c.fn(c18Backend, "PubSubBackend", "handleNotifyMsg"); err == nil {
		f["handle_notify_msg"] = c18NoLog(c.skeleton(fd))
	} else {
		note(err)
	}

	if fd, err := c.fn(c18Backend, "PubSubBackend", "OnCommandProcessed"); err == nil {
		f["on_command_processed"] = c18NoLog(c.skeleton(fd))
		flat := c.stmtsFlat(fd)
		iPub := indexOf(flat, has(".Publisher.Publish("))
		iDecide := indexOf(flat, func(s string) bool { return s == "return params.HandleErr" })
		iNil := -1
		for i, s := range flat {
			if s == "return nil" {
				iNil = i
			}
		}
		f["publish_before_ack_decision"] = iPub >= 0 && iDecide > iPub && iNil > iPub
		f["on_command_processed_settle_calls"] = c.c18CountCalls(fd, func(s string) bool {
			return strings.HasSuffix(s, ".Ack") || strings.HasSuffix(s, ".Nack")
		})
	} else {
		note(err)
	}
	if fd, err := c.fn(c18Backend, "", "operationIDFromMetadata"); err == nil {
		f["operation_id_from_metadata"] = c18NoLog(c.skeleton(fd))
	} else {
		note(err)
	}

	for _, x := range []struct{ key, name string }{{"command_handler", "NewCommandHandler"}, {"command_handler_with_result", "NewCommandHandlerWithResult"}} {
		fd, err := c.fn(c18Handler, "", x.name)
		if err != nil {
			note(err)
			continue
		}
		if fl := c18FirstFuncLit(fd); fl != nil {
			f[x.key] = c.c18Skel(fl.Body)
			f[x.key+"_settle_calls"] = c.c18CountCalls(fd, func(s string) bool {
				return strings.HasSuffix(s, ".Ack") || strings.HasSuffix(s, ".Nack")
			})
		} else {
			f[x.key] = []string{"<no closure>"}
		}
	}

	for _, x := range []struct{ key, name string }{{"send_with_reply", "SendWithReply"}, {"send_with_replies", "SendWithReplies"}} {
		if fd, err := c.fn(c18Bus, "", x.name); err == nil {
			f[x.key] = c18NoLog(c.skeleton(fd))
		} else {
			note(err)
		}
	}
	if fd, err := c.fn(c18Bus, "", "SendWithReplies"); err == nil {
		flat := c.stmtsFlat(fd)
		iListen := indexOf(flat, has(".ListenForNotifications("))
		iSend := indexOf(flat, has(".SendWithModifiedMessage("))
		f["listen_before_send"] = iListen >= 0 && iSend > iListen
	}

	for _, x := range []struct{ key, name string }{{"marshal_reply", "MarshalReply"}, {"unmarshal_reply", "UnmarshalReply"}} {
		if fd, err := c.fn(c18Marshaler, "BackendPubsubJSONMarshaler", x.name); err == nil {
			f[x.key] = c18NoLog(c.skeleton(fd))
		} else {
			note(err)
		}
	}
	return f, firstErr
}
