package main

import (
	"fmt"
	"go/ast"
	"go/token"
	"strconv"
	"strings"
)

func init() { extractors["C13"] = extractC13 }

const c13PoisonFile = "message/router/middleware/poison.go"

// c13ImportAlias returns the local name under which the file imports path ("" when it does not).
func c13ImportAlias(f *ast.File, path string) string {
	for _, im := range f.Imports {
		p, _ := strconv.Unquote(im.Path.Value)
		if p != path {
			continue
		}
		if im.Name != nil {
			return im.Name.Name
		}
		return p[strings.LastIndex(p, "/")+1:]
	}
	return ""
}

// c13StringConsts collects the string constants declared at file level.
func c13StringConsts(f *ast.File) map[string]string {
	out := map[string]string{}
	for _, d := range f.Decls {
		gd, ok := d.(*ast.GenDecl)
		if !ok || gd.Tok != token.CONST {
			continue
		}
		for _, sp := range gd.Specs {
			vs := sp.(*ast.ValueSpec)
			for i, n := range vs.Names {
				if i < len(vs.Values) {
					if bl, ok := vs.Values[i].(*ast.BasicLit); ok && bl.Kind == token.STRING {
						if v, err := strconv.Unquote(bl.Value); err == nil {
							out[n.Name] = v
						}
					}
				}
			}
		}
	}
	return out
}

type c13PoisonNames struct {
	recv, msg, err, pubErr string // identifiers in scope
	errorsPkg, multiPkg    string
	msgPkg                 string
	publishFn              string // name of the method that publishes the poison message
	consts                 map[string]string
}

// render prints a statement list in the syntax of WmModel/GoPoison.lean (one statement per line, nested lists indented).
func c13RenderList(stmts [][]string, ind string) string {
	var sb strings.Builder
	sb.WriteString("[\n")
	for i, st := range stmts {
		for j, l := range st {
			sb.WriteString(ind + "  " + l)
			if j == len(st)-1 && i < len(stmts)-1 {
				sb.WriteString(",")
			}
			sb.WriteString("\n")
		}
	}
	sb.WriteString(ind + "]")
	return sb.String()
}

func (c *ctx) poisonCond(n *c13PoisonNames, e ast.Expr) (string, bool) {
	s := c.src(e)
	switch s {
	case n.err + " != nil":
		return ".errNotNil", true
	case n.err + " == nil":
		return ".errNil", true
	case "!" + n.recv + ".shouldGoToPoisonQueue(" + n.err + ")":
		return ".notFilter", true
	}
	if n.pubErr != "" && s == n.pubErr+" != nil" {
		return ".pubErrNotNil", true
	}
	return "", false
}

// poisonStmt prints one statement as lines (a nested block spans several lines).
func (c *ctx) poisonStmt(n *c13PoisonNames, st ast.Stmt) []string {
	unknown := []string{".unknown " + leanStr(c.src(st))}
	switch s := st.(type) {
	case *ast.IfStmt:
		if s.Init != nil || s.Else != nil {
			return unknown
		}
		cond, ok := c.poisonCond(n, s.Cond)
		if !ok {
			return unknown
		}
		var body [][]string
		for _, b := range s.Body.List {
			body = append(body, c.poisonStmt(n, b))
		}
		lines := []string{".ifThen " + cond + " ["}
		for i, b := range body {
			for j, l := range b {
				if j == len(b)-1 && i < len(body)-1 {
					l += ","
				}
				lines = append(lines, "  "+l)
			}
		}
		return append(lines, "]")
	case *ast.ReturnStmt:
		if len(s.Results) == 0 {
			return []string{".ret"}
		}
		if len(s.Results) == 1 {
			r := c.src(s.Results[0])
			if r == "nil" {
				return []string{".retNil"}
			}
			if r == n.recv+".pub.Publish("+n.recv+".topic, "+n.msg+")" {
				return []string{".retPublish"}
			}
		}
	case *ast.AssignStmt:
		if len(s.Lhs) != 1 || len(s.Rhs) != 1 {
			return unknown
		}
		l, r := c.src(s.Lhs[0]), c.src(s.Rhs[0])
		if s.Tok == token.DEFINE && r == n.recv+"."+n.publishFn+"("+n.msg+", "+n.err+")" {
			n.pubErr = l
			return []string{".callPublishPoison"}
		}
		if s.Tok == token.ASSIGN && n.pubErr != "" && l == n.pubErr {
			if ce, ok := s.Rhs[0].(*ast.CallExpr); ok && c.src(ce.Fun) == n.errorsPkg+".Wrap" && len(ce.Args) == 2 && c.src(ce.Args[0]) == n.pubErr {
				if bl, ok := ce.Args[1].(*ast.BasicLit); ok && bl.Kind == token.STRING {
					if v, err := strconv.Unquote(bl.Value); err == nil {
						return []string{".wrapPubErr " + leanStr(v)}
					}
				}
			}
		}
		if s.Tok == token.ASSIGN && l == n.err {
			if r == "nil" {
				return []string{".clearErr"}
			}
			if n.pubErr != "" && r == n.multiPkg+".Append("+n.err+", "+n.pubErr+")" {
				return []string{".appendErr"}
			}
		}
	case *ast.ExprStmt:
		ce, ok := s.X.(*ast.CallExpr)
		if !ok || c.src(ce.Fun) != n.msg+".Metadata.Set" || len(ce.Args) != 2 {
			return unknown
		}
		key := ""
		switch k := ce.Args[0].(type) {
		case *ast.Ident:
			v, ok := n.consts[k.Name]
			if !ok {
				return unknown
			}
			key = v
		case *ast.BasicLit:
			v, err := strconv.Unquote(k.Value)
			if err != nil {
				return unknown
			}
			key = v
		default:
			return unknown
		}
		ctxArg := "(" + n.msg + ".Context())"
		val := ""
		switch c.src(ce.Args[1]) {
		case n.err + ".Error()":
			val = ".errText"
		case n.msgPkg + ".SubscribeTopicFromCtx" + ctxArg:
			val = ".ctxTopic"
		case n.msgPkg + ".HandlerNameFromCtx" + ctxArg:
			val = ".ctxHandler"
		case n.msgPkg + ".SubscriberNameFromCtx" + ctxArg:
			val = ".ctxSubscriber"
		default:
			return unknown
		}
		return []string{".setMeta " + leanStr(key) + " " + val}
	}
	return unknown
}

func c13RecvName(fd *ast.FuncDecl) string {
	if fd.Recv != nil && len(fd.Recv.List) == 1 && len(fd.Recv.List[0].Names) == 1 {
		return fd.Recv.List[0].Names[0].Name
	}
	return ""
}

func c13FieldNames(fl *ast.FieldList) []string {
	var out []string
	if fl == nil {
		return out
	}
	for _, f := range fl.List {
		if len(f.Names) == 0 {
			out = append(out, "_")
		}
		for _, n := range f.Names {
			out = append(out, n.Name)
		}
	}
	return out
}

func extractC13(c *ctx) (Facts, error) {
	facts := Facts{}
	f, err := c.file(c13PoisonFile)
	if err != nil {
		return facts, err
	}
	consts := c13StringConsts(f)
	for _, k := range []string{"ReasonForPoisonedKey", "PoisonedTopicKey", "PoisonedHandlerKey", "PoisonedSubscriberKey"} {
		facts["const_"+k] = consts[k]
	}
	names := &c13PoisonNames{
		errorsPkg: c13ImportAlias(f, "github.com/pkg/errors"),
		multiPkg:  c13ImportAlias(f, "github.com/hashicorp/go-multierror"),
		msgPkg:    c13ImportAlias(f, "github.com/ThreeDotsLabs/watermill/message"),
		consts:    consts,
	}
	unknowns := 0
	var deferStmts, publishStmts [][]string
	var firstErr error

	// --- Middleware: func (pq poisonQueue) Middleware(h) HandlerFunc { return func(msg) (events, err) { defer func(){…}(); return h(msg) } }
	mw, err := c.fn(c13PoisonFile, "poisonQueue", "Middleware")
	shape := "?"
	if err != nil {
		firstErr = err
	} else {
		names.recv = c13RecvName(mw)
		hName := ""
		if p := c13FieldNames(mw.Type.Params); len(p) == 1 {
			hName = p[0]
		}
		if len(mw.Body.List) == 1 {
			if rs, ok := mw.Body.List[0].(*ast.ReturnStmt); ok && len(rs.Results) == 1 {
				if fl, ok := rs.Results[0].(*ast.FuncLit); ok {
					params, results := c13FieldNames(fl.Type.Params), c13FieldNames(fl.Type.Results)
					facts["closure_params"] = len(params)
					facts["closure_named_results"] = len(results) == 2 && results[0] != "_" && results[1] != "_"
					if len(params) == 1 && len(results) == 2 {
						names.msg, names.err = params[0], results[1]
						// which method publishes: the only method of the receiver type called with (msg, err)
						pubFd, perr := c.fn(c13PoisonFile, "poisonQueue", "publishPoisonMessage")
						if perr == nil {
							names.publishFn = pubFd.Name.Name
						}
						if len(fl.Body.List) == 2 {
							ds, ok1 := fl.Body.List[0].(*ast.DeferStmt)
							ret, ok2 := fl.Body.List[1].(*ast.ReturnStmt)
							if ok1 && ok2 && len(ret.Results) == 1 && c.src(ret.Results[0]) == hName+"("+names.msg+")" && len(ds.Call.Args) == 0 {
								if dfl, ok := ds.Call.Fun.(*ast.FuncLit); ok && len(c13FieldNames(dfl.Type.Params)) == 0 && len(c13FieldNames(dfl.Type.Results)) == 0 {
									shape = "defer closure; return h(msg)"
									for _, st := range dfl.Body.List {
										deferStmts = append(deferStmts, c.poisonStmt(names, st))
									}
								}
							}
						}
					}
				}
			}
		}
	}
	facts["middleware_shape"] = shape
	if shape == "?" {
		deferStmts = [][]string{{".unknown " + leanStr("Middleware does not have the shape `defer func(){…}(); return h(msg)`")}}
	}

	// --- publishPoisonMessage(msg, err)
	pub, err := c.fn(c13PoisonFile, "poisonQueue", "publishPoisonMessage")
	if err != nil {
		firstErr = err
		publishStmts = [][]string{{".unknown " + leanStr(err.Error())}}
	} else {
		pn := *names
		pn.recv = c13RecvName(pub)
		pn.pubErr = ""
		if p := c13FieldNames(pub.Type.Params); len(p) == 2 {
			pn.msg, pn.err = p[0], p[1]
		}
		for _, st := range pub.Body.List {
			publishStmts = append(publishStmts, c.poisonStmt(&pn, st))
		}
		// ordering fact: all metadata writes precede the Publish call, which is the last statement
		flat := c.stmtsFlat(pub.Body)
		lastSet, pubIdx := -1, -1
		for i, s := range flat {
			if strings.Contains(s, ".Metadata.Set(") {
				lastSet = i
			}
			if strings.Contains(s, ".Publish(") {
				pubIdx = i
			}
		}
		facts["publish_after_metadata_writes"] = pubIdx >= 0 && lastSet >= 0 && lastSet < pubIdx && pubIdx == len(flat)-1
		n := 0
		for _, s := range flat {
			if strings.Contains(s, ".Publish(") {
				n++
			}
		}
		facts["publish_calls_in_source"] = n
	}
	for _, group := range [][][]string{deferStmts, publishStmts} {
		for _, st := range group {
			for _, l := range st {
				if strings.Contains(l, ".unknown ") {
					unknowns++
				}
			}
		}
	}
	facts["unknown_statements"] = unknowns
	// the user-supplied filter is consulted at exactly one place of the file (it may be stateful)
	nfilter := 0
	ast.Inspect(f, func(x ast.Node) bool {
		if ce, ok := x.(*ast.CallExpr); ok && strings.HasSuffix(c.src(ce.Fun), ".shouldGoToPoisonQueue") {
			nfilter++
		}
		return true
	})
	facts["filter_consultations_in_source"] = nfilter
	// the middleware value holds nothing but its configuration (no state shared between messages or handlers)
	nfields := -1
	for _, d := range f.Decls {
		if gd, ok := d.(*ast.GenDecl); ok && gd.Tok == token.TYPE {
			for _, sp := range gd.Specs {
				if ts, ok := sp.(*ast.TypeSpec); ok && ts.Name.Name == "poisonQueue" {
					if st, ok := ts.Type.(*ast.StructType); ok {
						nfields = 0
						for _, fl := range st.Fields.List {
							if len(fl.Names) == 0 {
								nfields++
							}
							nfields += len(fl.Names)
						}
					}
				}
			}
		}
	}
	facts["poisonQueue_fields"] = nfields

	// --- constructors: both refuse the empty topic with ErrInvalidPoisonQueueTopic and hand out pq.Middleware
	for _, name := range []string{"PoisonQueue", "PoisonQueueWithFilter"} {
		fd, err := c.fn(c13PoisonFile, "", name)
		if err != nil {
			firstErr = err
			continue
		}
		guard := false
		if len(fd.Body.List) > 0 {
			if is, ok := fd.Body.List[0].(*ast.IfStmt); ok && len(fd.Type.Params.List) >= 2 {
				topic := c13FieldNames(fd.Type.Params)[1]
				if c.src(is.Cond) == topic+` == ""` && len(is.Body.List) == 1 && c.src(is.Body.List[0]) == "return nil, ErrInvalidPoisonQueueTopic" {
					guard = true
				}
			}
		}
		facts[name+"_refuses_empty_topic"] = guard
		last := fd.Body.List[len(fd.Body.List)-1]
		facts[name+"_returns_Middleware"] = strings.HasSuffix(c.src(last), ".Middleware, nil")
	}
	if fd, err := c.fn(c13PoisonFile, "", "PoisonQueue"); err == nil {
		// the default filter accepts every error
		def := false
		ast.Inspect(fd, func(x ast.Node) bool {
			if kv, ok := x.(*ast.KeyValueExpr); ok && c.src(kv.Key) == "shouldGoToPoisonQueue" {
				if fl, ok := kv.Value.(*ast.FuncLit); ok && len(fl.Body.List) == 1 && c.src(fl.Body.List[0]) == "return true" {
					def = true
				}
			}
			return true
		})
		facts["PoisonQueue_default_filter_accepts_all"] = def
	}

	var sb strings.Builder
	sb.WriteString("/- GENERATED by harness/cmd/extract from " + c13PoisonFile + " on every run – do not edit -/\n")
	sb.WriteString("import WmModel.GoPoison\nnamespace Wm.GoPoison.Gen\nopen Wm.GoPoison\n\n")
	fmt.Fprintf(&sb, "def deferBody : List Stmt := %s\n\n", c13RenderList(deferStmts, ""))
	fmt.Fprintf(&sb, "def publishBody : List Stmt := %s\n\n", c13RenderList(publishStmts, ""))
	sb.WriteString("end Wm.GoPoison.Gen\n")
	if err := c.writeLean("PoisonBody.lean", sb.String()); err != nil {
		return facts, err
	}
	return facts, firstErr
}
