// Harness for C06: Router.Close is graceful. Real message.Router with scripted subscribers/publishers and with
// GoChannel; a message is held at every point of its path (hook park/release) while Close, a second Close, Stop or
// cancel arrives; subscribers that emit during their Close; handler durations {0, <, >} CloseTimeout; 1..8 Close callers.
package main

import (
	"strings"

	"wmverif/rl"
	"wmverif/wh"
)

func main() {
	a := wh.ParseArgs()
	out := wh.NewOut(a.Out)
	defer out.Close()
	if a.Replay != "" {
		f := strings.Fields(a.Replay)
		if len(f) >= 2 && f[0] == "trace" {
			if sc, err := rl.Decode(f[1]); err == nil {
				rl.Emit(out, rl.Run(sc))
				return
			}
		}
		out.Case(a.Replay, "bad-replay")
		return
	}
	rng := wh.NewRng(a.Seed)
	emit := func(sc rl.Scenario) bool {
		rl.Emit(out, rl.RunMaybeIsolated(sc))
		if rl.TooManyStuck() {
			out.Note("stopped generating: three scenarios ran into the liveness bound")
			return false
		}
		return true
	}
	var all []rl.Scenario
	all = append(all, rl.LockOrder(rng, a.Thorough())...)
	all = append(all, rl.BeforeRunning(rng, a.Thorough())...)
	all = append(all, rl.PollingClose(rng, a.Thorough())...)
	all = append(all, rl.DuplicateAdd(rng, a.Thorough())...)
	all = append(all, rl.NegativeTimeout(rng, a.Thorough())...)
	all = append(all, rl.CloseFails(rng, a.Thorough())...)
	all = append(all, rl.SubscribeRetry(rng, a.Thorough())...)
	all = append(all, rl.LastMessage(rng, a.Thorough())...)
	all = append(all, rl.PathPoints(rng, a.Thorough())...)
	all = append(all, rl.ClosePoints(rng, a.Thorough())...)
	all = append(all, rl.Durations(rng, a.Thorough())...)
	all = append(all, rl.GoChan(rng, a.Thorough())...)
	for _, sc := range all {
		if !emit(sc) {
			return
		}
	}
	n := 220
	if a.Thorough() {
		n = 1200
	}
	for i := 0; i < n; i++ {
		if !emit(rl.RandomClose(rng)) {
			return
		}
	}
}
