package main

import (
	"fmt"
	"runtime"
	"sort"
	"strconv"
	"strings"
	"sync/atomic"
	"time"

	"github.com/ThreeDotsLabs/watermill/components/delay"
	"github.com/ThreeDotsLabs/watermill/message"
	"github.com/prometheus/client_golang/prometheus"

	"wmverif/wh"
)

// waitMax bounds every wait for something the property says must happen.  It is generous (30 s against microseconds),
// so it never expires on the unchanged tree; after three expiries in one run (something is already being reported as
// a violation) later waits are cut to 1 s so that the run still ends within its budget.
const waitMax = 30 * time.Second

var expiries int32

func maxWait() time.Duration {
	if atomic.LoadInt32(&expiries) >= 3 {
		return time.Second
	}
	return waitMax
}

func expired() { atomic.AddInt32(&expiries, 1) }

// structName mirrors watermill's internal.StructName (the harness types are no fmt.Stringers).
func structName(v interface{}) string {
	return strings.TrimLeft(fmt.Sprintf("%T", v), "*")
}

func i64(n int64) string { return strconv.FormatInt(n, 10) }

// canonFor renders the value of _watermill_delayed_for: d<ns> iff it is exactly Go's rendering of a duration, else x<hex>.
func canonFor(s string) string {
	if d, err := time.ParseDuration(s); err == nil && d.String() == s {
		return "d" + i64(int64(d))
	}
	return "x" + wh.HexS(s)
}

// canonUntil renders the value of _watermill_delayed_until: t<unix sec> iff it is exactly the UTC RFC 3339 rendering of that second.
// A rendering in a zone east/west of UTC (suffix +hh:mm / -hh:mm) is t<unix sec>@<offset seconds>: the instant plus the
// zone it is written in, so that the token still determines the string.
func canonUntil(s string) string {
	if t, err := time.Parse(time.RFC3339, s); err == nil && t.Format(time.RFC3339) == s {
		if _, off := t.Zone(); off != 0 {
			return "t" + i64(t.Unix()) + "@" + i64(int64(off))
		} else if strings.HasSuffix(s, "Z") {
			return "t" + i64(t.Unix())
		}
	}
	return "x" + wh.HexS(s)
}

// rawOf is the inverse of the two canonical forms (used to build pre-set metadata from a request).
func rawOf(tok string) (string, bool) {
	if tok == "-" {
		return "", false
	}
	switch tok[0] {
	case 'x':
		if tok[1:] == "-" {
			return "", true
		}
		b, err := hexDecode(tok[1:])
		if err != nil {
			panic("bad hex in request: " + tok)
		}
		return string(b), true
	case 'd':
		n, err := strconv.ParseInt(tok[1:], 10, 64)
		if err != nil {
			panic("bad token " + tok)
		}
		return time.Duration(n).String(), true
	case 't':
		p := strings.SplitN(tok[1:], "@", 2)
		n, err := strconv.ParseInt(p[0], 10, 64)
		if err != nil {
			panic("bad token " + tok)
		}
		if len(p) == 2 {
			z, err := strconv.ParseInt(p[1], 10, 64)
			if err != nil {
				panic("bad token " + tok)
			}
			return time.Unix(n, 0).In(time.FixedZone("", int(z))).Format(time.RFC3339), true
		}
		return time.Unix(n, 0).UTC().Format(time.RFC3339), true
	}
	panic("bad token " + tok)
}

func hexDecode(s string) ([]byte, error) {
	out := make([]byte, 0, len(s)/2)
	if len(s)%2 != 0 {
		return nil, fmt.Errorf("odd")
	}
	for i := 0; i < len(s); i += 2 {
		n, err := strconv.ParseUint(s[i:i+2], 16, 8)
		if err != nil {
			return nil, err
		}
		out = append(out, byte(n))
	}
	return out, nil
}

// msgToken: <id>:<for>:<until>:<other metadata sorted k=v&…|->
func msgToken(id int, m *message.Message) string {
	f, u := "-", "-"
	var rest []string
	keys := make([]string, 0, len(m.Metadata))
	for k := range m.Metadata {
		keys = append(keys, k)
	}
	sort.Strings(keys)
	for _, k := range keys {
		v := m.Metadata[k]
		switch k {
		case delay.DelayedForKey:
			f = canonFor(v)
		case delay.DelayedUntilKey:
			u = canonUntil(v)
		default:
			rest = append(rest, wh.HexS(k)+"="+wh.HexS(v))
		}
	}
	r := "-"
	if len(rest) > 0 {
		r = strings.Join(rest, "&")
	}
	return wh.Itoa(id) + ":" + f + ":" + u + ":" + r
}

// gatherCounts renders sample COUNTS of a private registry: <fam>{label=hexvalue,…}=n sorted; "-" when empty.
// Durations are never looked at. total = sum of the counts.
func gatherCounts(reg *prometheus.Registry) (string, int) {
	mfs, err := reg.Gather()
	if err != nil {
		return "gather-error:" + wh.HexS(err.Error()), -1
	}
	var lines []string
	total := 0
	for _, mf := range mfs {
		name := mf.GetName()
		short := "x" + wh.HexS(name)
		switch {
		case strings.HasSuffix(name, "publish_time_seconds"):
			short = "pub"
		case strings.HasSuffix(name, "subscriber_messages_received_total"):
			short = "sub"
		case strings.HasSuffix(name, "handler_execution_time_seconds"):
			short = "hdl"
		}
		for _, m := range mf.GetMetric() {
			var ls []string
			for _, lp := range m.GetLabel() {
				ls = append(ls, lp.GetName()+"="+wh.HexS(lp.GetValue()))
			}
			sort.Strings(ls)
			var n uint64
			if h := m.GetHistogram(); h != nil {
				n = h.GetSampleCount()
			} else if c := m.GetCounter(); c != nil {
				v := c.GetValue()
				n = uint64(v + 0.5)
				if float64(n) != v {
					return "non-integral-counter", -1
				}
			} else {
				return "unexpected-metric-type", -1
			}
			if n == 0 {
				continue
			}
			total += int(n)
			lines = append(lines, short+"{"+strings.Join(ls, ",")+"}="+strconv.FormatUint(n, 10))
		}
	}
	if len(lines) == 0 {
		return "-", 0
	}
	sort.Strings(lines)
	return strings.Join(lines, ","), total
}

// quiesce waits until every goroutine started by the case has ended (deterministic signal), or – when goroutines
// are known to stay (unsettled messages) – until the registry shows at least `expect` samples and stays unchanged
// for a grace period.  Returns how it ended.
// base0 is the number of goroutines before the first case; cases run one after the other and each returns to it
// (plus the goroutines of calls the watchdog had to give up on: they stay for ever).
var base0 int

// guard runs one call of the code under test under a watchdog: a call that does not return within the bound is
// observed as "stuck" (its goroutine stays behind, the scenario goes on or is abandoned, the process never hangs).
// The bound is 5 s (against microseconds); after three expiries in one run it is cut to 1 s.
func guard(call func() string) string { return guardFor(0, call) }

// drainWait bounds the wait of the draining scripted subscriber for the settlement of one message it handed out during
// its Close (3 s; 500 ms after three expiries in the run).
func drainWait() time.Duration {
	if atomic.LoadInt32(&expiries) >= 3 {
		return 500 * time.Millisecond
	}
	return 3 * time.Second
}

// guardFor: like guard with `extra` added to the bound (a Close that legitimately waits for settlements).
func guardFor(extra time.Duration, call func() string) string {
	done := make(chan string, 1)
	go func() {
		defer func() {
			if v := recover(); v != nil {
				done <- wh.PanicText(v)
			}
		}()
		done <- call()
	}()
	bound := 5 * time.Second
	if atomic.LoadInt32(&expiries) >= 3 {
		bound = time.Second
	}
	select {
	case r := <-done:
		return r
	case <-time.After(bound + extra):
		expired()
		base0++ // the stuck call's goroutine
		return "stuck"
	}
}

var quiesceStats = map[string]int{}

func quiesce(reg *prometheus.Registry, expect int, mayLeak bool) string {
	how := quiesce1(reg, base0, expect, mayLeak)
	if mayLeak {
		quiesceStats["quiesce.counts_stable(goroutines_may_stay)."+how]++
	} else {
		quiesceStats["quiesce.all_goroutines_ended."+how]++
	}
	return how
}

func quiesce1(reg *prometheus.Registry, baseline int, expect int, mayLeak bool) string {
	start := time.Now()
	deadline := start.Add(maxWait())
	stable := 0
	last := -1
	for time.Now().Before(deadline) {
		if !mayLeak && runtime.NumGoroutine() <= baseline {
			return "goroutines"
		}
		if mayLeak || time.Since(start) > 3*time.Second {
			_, tot := gatherCounts(reg)
			if tot >= expect && tot == last {
				stable++
				if stable >= 25 {
					return "stable"
				}
			} else {
				stable = 0
			}
			last = tot
		}
		runtime.Gosched()
		time.Sleep(200 * time.Microsecond)
	}
	expired()
	return "timeout"
}

func errClass(err error) string {
	if err == nil {
		return "ok"
	}
	switch err {
	case errInner:
		return "e:inner"
	case errGen:
		return "e:gen"
	case errClose:
		return "e:close"
	case errSub:
		return "e:sub"
	}
	if err.Error() == "message doesn't have a delay set" {
		return "e:nodelay"
	}
	return "e:x" + wh.HexS(err.Error())
}
