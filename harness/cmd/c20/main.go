// Harness for C20: drives the REAL decorators of watermill – message transform (message/decorator.go),
// delay.Publisher (components/delay) and the Prometheus metrics decorators / middleware (components/metrics) –
// over scripted innermost publishers / subscribers and through a real message.Router.
//
//	REQ pub <stack> <script> <closeErr> <msgs> <ops> @ inner=<hex> base=<ns> m<id>=<now>:<t0>:<t1> g<layer>.<id>=<now>:<t0>:<t1>
//	OBS <res>/<inner calls>;…|inner=<topic>[<id>:<for>:<until>:<other>,…];…|gen=<id>,…|probe=<ok>/<err>/<empty>/<repub>|metrics=…|closes=<n>
//	REQ sub <stack> <subscribe script: one bit per Subscribe call, 1 = refused> <close script: one bit per Close call> <n> <script a/n/u/A/N> <reads> @ inner=<hex>
//	OBS sub=<res>|recv=<id>:<path>:<same object>:<inner settlement>,…|A=<metrics>|close=<res>/<inner closes>|chan=<closed>|drain=<like recv>|B=<metrics>
//	REQ rt <kp> <ks> <km> <script> <outcomes> @ pub=<hex> sub=<hex>
//	OBS settle=<a|n…>|pub=<res>:<n msgs>;…|inv=<n>|metrics=…|close=ok
//	REQ rto <ks> <rounds> <outcomes> @ pub=<hex> sub=<hex>   (overlapping invocations of one handler, run in a child process)
//	OBS settle=<per round>|inv=<n>|metrics=…|close=ok   or   crashed:<hex of the fatal error line>
//	REQ ch <sub stack> <pub stack> <script> <n> @ sub=<hex> pub=<hex>      (received object handed to the publisher stack)
//	OBS <res>;…|probe=<ok>/<err>/<empty>/<repub>|metrics=…|recv=<n>
//
// stack: layers outermost first, T<tag> transform, M metrics, D<allowNoDelay><generator> delay.
// Everything after " @ " is data recorded from this execution (type names, clock readings with the window they were
// measured in); a replay ignores it and records again.  Metrics are compared by sample COUNT per label set only.
package main

import (
	"fmt"
	"os"
	"runtime"
	"strings"
	"time"

	"wmverif/wh"
)

var tags = []string{"a", "b", "c"}

// durations in ns: past, zero, 1 ns, fractional, minutes, days, ~250 years
var durs = []int64{-5000000000, 0, 1, 1500000000, 90000000000, 129600000000000, 7889400000000000000}

// offsets for Until relative to the start of the case: past, now, soon, days, ~200 years
var offs = []int64{-3600000000000, 0, 1000000000, 172800000000000, 6311520000000000000}

func pickI(r *wh.Rng, xs []int64) string { return i64(xs[r.Intn(len(xs))]) }

// zones (seconds east of UTC) of the time.Time handed to delay.Until: +02:00, -05:00, +05:30, -00:30
var zones = []int64{7200, -18000, 19800, -1800}

// sentinel dates (unix seconds) outside the range of a time.Duration seen from now: 2400-01-01, 9999-12-31T00:00:00
// (midnight, so that the local date in the zones used stays within year 9999, which RFC 3339 can write),
// the zero time 0001-01-01, 1500-01-01; and two inside it: 2200-01-01, 1800-01-01
var farDates = []int64{13569465600, 253402214400, -62135596800, -14831769600, 7258118400, -5364662400}

// untilSpec: an offset from now or (1 in 4) an absolute far date, in half of the cases with a time that carries a non-UTC location
func untilSpec(r *wh.Rng) string {
	s := "u" + pickI(r, offs)
	if r.Intn(4) == 0 {
		s = "U" + pickI(r, farDates)
	}
	if r.Bool() {
		s += "z" + pickI(r, zones)
	}
	return s
}

func randLayer(r *wh.Rng, sub bool) layerSpec {
	n := 3
	if sub {
		n = 2
	}
	switch r.Intn(n) {
	case 0:
		return layerSpec{kind: 'T', tag: tags[r.Intn(3)]}
	case 1:
		return layerSpec{kind: 'M'}
	}
	l := layerSpec{kind: 'D', allow: r.Intn(3) == 0}
	switch r.Intn(8) {
	case 0, 1:
		l.gen = "n"
	case 2:
		l.gen = "e"
	case 3:
		l.gen = "z"
	case 4, 5:
		l.gen = "f" + pickI(r, durs)
	case 6:
		l.gen = untilSpec(r)
	case 7:
		l.gen = "o" + pickI(r, durs)
	}
	return l
}

func randMsg(r *wh.Rng) msgSpec {
	m := msgSpec{"-", "-", "-"}
	switch r.Intn(10) {
	case 0, 1:
		m.forTok = "d" + pickI(r, durs)
	case 2:
		m.forTok = "x" + wh.HexS(r.Pick("soon", "1 hour", "60s", " "))
	case 3:
		m.forTok = "x-" // key present, value empty
	}
	switch r.Intn(10) {
	case 0, 1:
		m.untilTok = "t" + i64(int64(r.Intn(4000000000))-1000000000)
	case 2:
		// canonUntil: a well-formed rendering in a non-UTC zone is t<sec>@<zone> in the request as well
		m.untilTok = canonUntil(r.Pick("tomorrow", "2024-01-01", "2024-01-01T00:00:00+02:00", "2031-05-06T07:08:09-05:00"))
	}
	switch r.Intn(10) {
	case 0:
		m.ctx = "z"
	case 1, 2, 3:
		m.ctx = "f" + pickI(r, durs)
	case 4, 5:
		m.ctx = untilSpec(r)
	}
	return m
}

func randPub(r *wh.Rng) (pubCase, string) {
	var c pubCase
	depth := r.Intn(4)
	for i := 0; i < depth; i++ {
		c.stack = append(c.stack, randLayer(r, false))
	}
	n := r.Intn(7)
	for i := 0; i < n; i++ {
		c.msgs = append(c.msgs, randMsg(r))
	}
	for i, k := 0, r.Intn(5); i < k; i++ {
		c.script = append(c.script, r.Intn(10) < 3)
	}
	mode := "fresh"
	switch r.Intn(10) {
	case 0:
		mode = "republish"
	case 1:
		mode = "empty"
	}
	nops := 1 + r.Intn(4)
	if mode == "republish" && n > 0 {
		for i := 0; i < nops; i++ {
			op := opSpec{topic: r.Intn(2)}
			for id := 0; id < n; id++ {
				if r.Intn(2) == 0 {
					op.ids = append(op.ids, id)
				}
			}
			if len(op.ids) == 0 {
				op.ids = []int{r.Intn(n)}
			}
			c.ops = append(c.ops, op)
		}
	} else {
		// every message object is published at most once: split a permutation of the ids over the calls
		perm := make([]int, n)
		for i := range perm {
			perm[i] = i
		}
		for i := n - 1; i > 0; i-- {
			j := r.Intn(i + 1)
			perm[i], perm[j] = perm[j], perm[i]
		}
		for i := 0; i < nops; i++ {
			op := opSpec{topic: r.Intn(2)}
			take := 0
			if len(perm) > 0 {
				take = 1 + r.Intn(len(perm))
				if i < nops-1 && take > 3 {
					take = 1 + r.Intn(3)
				}
			}
			op.ids = append(op.ids, perm[:take]...)
			perm = perm[take:]
			if len(op.ids) == 0 && !(mode == "empty" && r.Intn(2) == 0) {
				continue
			}
			c.ops = append(c.ops, op)
		}
		if mode == "empty" && r.Intn(2) == 0 {
			c.ops = append(c.ops, opSpec{topic: 0})
		}
	}
	if r.Intn(10) < 7 {
		c.ops = append(c.ops, opSpec{close: true})
		c.closeErr = r.Intn(4) == 0
	}
	return c, mode
}

func enumStacks(alpha []layerSpec, maxDepth int, f func([]layerSpec)) {
	var rec func(prefix []layerSpec)
	rec = func(prefix []layerSpec) {
		f(append([]layerSpec{}, prefix...))
		if len(prefix) == maxDepth {
			return
		}
		for _, l := range alpha {
			rec(append(append([]layerSpec{}, prefix...), l))
		}
	}
	rec(nil)
}

func statPub(out *wh.Out, c pubCase, obs string) {
	out.Count("pub.depth" + wh.Itoa(len(c.stack)))
	nM := 0
	for _, l := range c.stack {
		out.Count("pub.layer." + string(l.kind))
		if l.kind == 'M' {
			nM++
		}
		if l.kind == 'D' {
			out.Count("pub.delaycfg.allow" + b01(l.allow) + ".gen_" + l.gen[:1])
		}
	}
	if nM >= 2 {
		out.Count("pub.metrics_stacked_twice_or_more")
	}
	for _, m := range c.msgs {
		k := "none"
		if m.forTok != "-" && m.forTok != "x-" {
			k = "metadata"
		} else if m.ctx != "-" {
			k = "ctx_" + m.ctx[:1]
		}
		out.Count("pub.msg.delay_source_candidate." + k)
	}
	for _, o := range c.ops {
		switch {
		case o.close:
			out.Count("pub.op.close")
		case len(o.ids) == 0:
			out.Count("pub.op.publish_empty")
		default:
			out.Count("pub.op.publish")
		}
	}
	for _, e := range []string{"e:nodelay", "e:gen", "e:inner", "e:close"} {
		if n := strings.Count(obs, e+"/"); n > 0 {
			out.Add("pub.result."+e, n)
		}
	}
	out.Add("pub.result.ok", strings.Count(obs, "ok/"))
}

func genPub(out *wh.Out, a wh.Args, rng *wh.Rng) {
	alpha := []layerSpec{{kind: 'T', tag: "a"}, {kind: 'M'}, {kind: 'D', gen: "n"}, {kind: 'D', allow: true, gen: "n"},
		{kind: 'D', gen: "f60000000000"}, {kind: 'D', gen: "e"}}
	fixedMsgs := []msgSpec{
		{"-", "-", "-"},
		{"d5000000000", "t1893456000", "-"},
		{"-", "-", "f3000000000"},
		{"-", "-", "u7200000000000z7200"},
		{"x" + wh.HexS("abc"), "-", "f1000"},
		{"x-", "t100", "-"},
		{"-", "-", "z"},
	}
	enumStacks(alpha, 3, func(st []layerSpec) {
		c := pubCase{stack: st, script: []bool{false, true, false, false}, msgs: fixedMsgs,
			ops: []opSpec{{topic: 0, ids: []int{2, 3}}, {topic: 1, ids: []int{1, 4}}, {topic: 0, ids: []int{0}},
				{topic: 0, ids: []int{5, 6}}, {close: true}}}
		req, obs := runPub(c)
		out.Case(req, obs)
		out.Count("pub.enumerated_stacks")
		statPub(out, c, obs)
	})
	n := 4000
	if a.Thorough() {
		n = 60000
	}
	for i := 0; i < n && !overBudget(out); i++ {
		c, mode := randPub(rng)
		req, obs := runPub(c)
		out.Case(req, obs)
		out.Count("pub.random.mode_" + mode)
		statPub(out, c, obs)
	}
}

func randScript(r *wh.Rng, n int) string {
	b := make([]byte, n)
	for i := range b {
		b[i] = "aaanuuAN"[r.Intn(8)]
	}
	return string(b)
}

func statSub(out *wh.Out, c subCase) {
	out.Count("sub.depth" + wh.Itoa(len(c.stack)))
	nM := 0
	for _, l := range c.stack {
		out.Count("sub.layer." + string(l.kind))
		if l.kind == 'M' {
			nM++
		}
	}
	if nM >= 2 {
		out.Count("sub.metrics_stacked_twice_or_more")
	}
	out.Add("sub.messages", c.n)
	out.Add("sub.settle.ack", strings.Count(c.script, "a"))
	out.Add("sub.settle.nack", strings.Count(c.script, "n"))
	out.Add("sub.settle.late", strings.Count(c.script, "u"))
	out.Add("sub.handed_out_during_close", strings.Count(c.script, "d")+strings.Count(c.script, "e"))
	out.Add("sub.settle.ack_after_context_cancelled", strings.Count(c.script, "A"))
	out.Add("sub.settle.nack_after_context_cancelled", strings.Count(c.script, "N"))
	out.Count("sub.close_calls_x" + wh.Itoa(len(c.closes)))
	if c.reads < c.n-strings.Count(c.script, "d")-strings.Count(c.script, "e") {
		out.Count("sub.close_with_unread_messages")
	}
	for _, e := range c.subs {
		if e {
			out.Count("sub.subscribe_refused")
		}
	}
	out.Count("sub.subscribe_calls_x" + wh.Itoa(len(c.subs)))
	for _, e := range c.closes {
		if e {
			out.Count("sub.close_error")
		}
	}
}

func genSub(out *wh.Out, a wh.Args, rng *wh.Rng) {
	alpha := []layerSpec{{kind: 'T', tag: "a"}, {kind: 'T', tag: "b"}, {kind: 'M'}}
	progs := []subCase{
		{n: 3, script: "anu", reads: 3, closes: []bool{false}},
		{n: 2, script: "na", reads: 2, closes: []bool{true}},
		{n: 0, reads: 0, closes: []bool{false}},
		{n: 1, script: "a", reads: 0, subs: []bool{true}, closes: []bool{false}},
		// the wrapped subscriber refuses a Subscribe, the caller retries and is accepted; messages and acks flow; Close
		{n: 2, script: "an", reads: 2, subs: []bool{true, false}, closes: []bool{false}},
		// accepted, messages and acks flow, a further Subscribe is refused, then Close (also retried after a failure)
		{n: 2, script: "nu", reads: 2, subs: []bool{false, true}, closes: []bool{true, false}},
		{n: 1, script: "A", reads: 1, subs: []bool{true, true, false}, closes: []bool{false}},
		// a wrapped subscriber with a graceful Close: it hands out what it had fetched WHILE its Close runs (one message at
		// a time, each waiting to be settled); the consumer reads until the channel is closed
		{n: 4, script: "ande", reads: 2, closes: []bool{false}},
		{n: 3, script: "ddd", reads: 0, subs: []bool{true, false}, closes: []bool{true, false}},
		// settled after the subscription context was cancelled (ack and nack), next to ones settled while subscribed
		{n: 4, script: "aANn", reads: 4, closes: []bool{false}},
		{n: 3, script: "NuA", reads: 3, closes: []bool{false}},
		// the wrapped subscriber's Close fails and the caller retries: every call and its own result pass through
		{n: 1, script: "a", reads: 1, closes: []bool{true, false}},
		{n: 2, script: "un", reads: 2, closes: []bool{false, true, false}},
	}
	enumStacks(alpha, 3, func(st []layerSpec) {
		for _, p := range progs {
			if overBudget(out) {
				return
			}
			c := p
			c.stack = st
			if len(c.subs) == 0 {
				c.subs = []bool{false}
			}
			out.Begin(c.head())
			req, obs := runSub(c)
			out.Case(req, obs)
			out.Count("sub.enumerated")
			statSub(out, c)
		}
	})
	n := 300
	if a.Thorough() {
		n = 4000
	}
	for i := 0; i < n && !overBudget(out); i++ {
		var c subCase
		for d, k := 0, rng.Intn(4); d < k; d++ {
			c.stack = append(c.stack, randLayer(rng, true))
		}
		c.n = rng.Intn(5)
		c.script = randScript(rng, c.n)
		c.reads = c.n
		if c.n > 0 && rng.Intn(5) == 0 {
			c.reads = rng.Intn(c.n)
		} else if rng.Intn(5) == 0 {
			// everything so far is read; 1..3 more messages are handed out while the wrapped Close drains
			for j, k := 0, 1+rng.Intn(3); j < k; j++ {
				c.script += string("dde"[rng.Intn(3)])
				c.n++
			}
		}
		switch rng.Intn(12) {
		case 0:
			c.subs = []bool{true}
		case 1:
			c.subs = []bool{true, false}
		case 2:
			c.subs = []bool{false, true}
		case 3:
			c.subs = []bool{true, true, false}
		default:
			c.subs = []bool{false}
		}
		c.closes = []bool{rng.Intn(5) == 0}
		if rng.Intn(3) == 0 {
			for j, k := 0, 1+rng.Intn(2); j < k; j++ {
				c.closes = append(c.closes, rng.Intn(3) == 0)
			}
		}
		out.Begin(c.head())
		req, obs := runSub(c)
		out.Case(req, obs)
		statSub(out, c)
	}
}

func statRt(out *wh.Out, c rtCase, obs string) {
	out.Count("rt.pub_decorated_x" + wh.Itoa(c.kp))
	out.Count("rt.sub_decorated_x" + wh.Itoa(c.ks))
	out.Count("rt.middleware_x" + wh.Itoa(c.km))
	for _, o := range c.outcomes {
		switch o[0] {
		case 's':
			out.Count("rt.outcome.success_outputs" + o[1:])
		case 'e':
			out.Count("rt.outcome.error")
		case 'p':
			out.Count("rt.outcome.panic")
		case 't':
			out.Count("rt.outcome.pass_through_consumed_message")
		}
	}
	out.Add("rt.publish_failures", strings.Count(obs, "e:inner:"))
}

func genRt(out *wh.Out, a wh.Args, rng *wh.Rng) {
	for kp := 0; kp <= 2; kp++ {
		for ks := 0; ks <= 2; ks++ {
			if overBudget(out) {
				return
			}
			c := rtCase{kp: kp, ks: ks, km: 1, script: []bool{false, true, false}, outcomes: []string{"s0", "s1", "e", "p", "s2", "s1"}}
			out.Begin(c.head())
			req, obs := runRt(c)
			out.Case(req, obs)
			statRt(out, c, obs)
			// pass-through handlers: the consumed message object itself is published, alone and mixed with fresh outputs
			c = rtCase{kp: kp, ks: ks, km: 1, script: []bool{false, false, true}, outcomes: []string{"t0-0", "t0-1", "t1-0", "s1", "t1-1", "p", "t0-0"}}
			out.Begin(c.head())
			req, obs = runRt(c)
			out.Case(req, obs)
			statRt(out, c, obs)
		}
	}
	n := 250
	if a.Thorough() {
		n = 3000
	}
	for i := 0; i < n && !overBudget(out); i++ {
		c := rtCase{kp: rng.Intn(4), ks: rng.Intn(4), km: 1}
		switch rng.Intn(16) {
		case 0, 1:
			c.km = 2 // middleware registered twice: open finding handler-middleware-applied-twice (every invocation observed twice)
		case 2:
			c.km = 0 // middleware not registered: outside the property, model conformance only
		}
		for j, k := 0, rng.Intn(6); j < k; j++ {
			switch rng.Intn(8) {
			case 0:
				c.outcomes = append(c.outcomes, "e")
			case 1:
				c.outcomes = append(c.outcomes, "p")
			case 2, 3:
				c.outcomes = append(c.outcomes, "t"+wh.Itoa(rng.Intn(3))+"-"+wh.Itoa(rng.Intn(3)))
			default:
				c.outcomes = append(c.outcomes, "s"+wh.Itoa(rng.Intn(3)))
			}
		}
		for j, k := 0, rng.Intn(5); j < k; j++ {
			c.script = append(c.script, rng.Intn(3) == 0)
		}
		out.Begin(c.head())
		req, obs := runRt(c)
		out.Case(req, obs)
		statRt(out, c, obs)
	}
}

func statCh(out *wh.Out, c chCase) {
	out.Count("ch.cases")
	if hasM(c.subStack) && hasM(c.pubStack) {
		out.Count("ch.metrics_on_both_sides")
	}
	out.Add("ch.messages_received_then_published", c.n)
}

func genCh(out *wh.Out, a wh.Args, rng *wh.Rng) {
	alpha := []layerSpec{{kind: 'T', tag: "a"}, {kind: 'M'}}
	// every pair of stacks of depth <= 2 over {transform, metrics}
	var stacks [][]layerSpec
	enumStacks(alpha, 2, func(st []layerSpec) { stacks = append(stacks, st) })
	for _, ss := range stacks {
		for _, ps := range stacks {
			if overBudget(out) {
				return
			}
			c := chCase{subStack: ss, pubStack: ps, script: []bool{false, true}, n: 3}
			out.Begin(c.head())
			out.Case(runCh(c))
			statCh(out, c)
		}
	}
	n := 60
	if a.Thorough() {
		n = 1500
	}
	for i := 0; i < n && !overBudget(out); i++ {
		var c chCase
		for d, k := 0, rng.Intn(4); d < k; d++ {
			c.subStack = append(c.subStack, randLayer(rng, true))
		}
		for d, k := 0, rng.Intn(4); d < k; d++ {
			c.pubStack = append(c.pubStack, randLayer(rng, true))
		}
		c.n = rng.Intn(5)
		for j, k := 0, rng.Intn(5); j < k; j++ {
			c.script = append(c.script, rng.Intn(3) == 0)
		}
		out.Begin(c.head())
		out.Case(runCh(c))
		statCh(out, c)
	}
}

func genRto(out *wh.Out, a wh.Args, rng *wh.Rng) {
	rounds := 40
	n := 3
	if a.Thorough() {
		rounds, n = 120, 10
	}
	for i := 0; i < n && !overBudget(out); i++ {
		c := rtoCase{ks: i % 3, rounds: rounds}
		for j, k := 0, 4+rng.Intn(7); j < k; j++ {
			c.outcomes = append(c.outcomes, []string{"s0", "e", "s0", "p"}[(i+j+rng.Intn(2))%4])
		}
		out.Begin(c.head())
		req, obs := runRto(c)
		out.Case(req, obs)
		out.Count("rto.scenarios_in_child_process")
		out.Add("rto.overlapping_invocations", c.rounds*len(c.outcomes))
		if strings.HasPrefix(obs, "crashed:") {
			out.Count("rto.child_crashed")
		}
	}
}

func replay(out *wh.Out, line string) {
	if i := strings.Index(line, " @"); i >= 0 {
		line = line[:i]
	}
	f := strings.Fields(line)
	defer func() {
		if v := recover(); v != nil {
			fmt.Fprintln(os.Stderr, "cannot replay:", v)
			out.Case(line, "bad-replay")
		}
	}()
	switch {
	case len(f) == 6 && f[0] == "pub":
		out.Case(runPub(parsePub(f)))
	case len(f) == 7 && f[0] == "sub":
		out.Case(runSub(parseSub(f)))
	case len(f) == 6 && f[0] == "rt":
		out.Case(runRt(parseRt(f)))
	case len(f) == 5 && f[0] == "ch":
		out.Case(runCh(parseCh(f)))
	case len(f) == 4 && f[0] == "rto":
		out.Case(runRto(parseRto(f)))
	default:
		fmt.Fprintln(os.Stderr, "unknown request")
		out.Case(line, "bad-replay")
	}
}

// budget: the generators stop adding cases when the run has used its wall-clock budget (only reached when waits
// expire, i.e. when violations are already being reported)
var started = time.Now()
var budget = 100 * time.Second

func overBudget(out *wh.Out) bool {
	if time.Since(started) > budget {
		out.Count("budget_exhausted_generator_stopped_early")
		return true
	}
	return false
}

func main() {
	a := wh.ParseArgs()
	if a.Thorough() {
		budget = 1100 * time.Second
	}
	out := wh.NewOut(a.Out)
	defer out.Close()
	base0 = runtime.NumGoroutine()
	defer func() {
		for k, v := range quiesceStats {
			out.Add(k, v)
		}
	}()
	if a.Replay != "" {
		replay(out, a.Replay)
		return
	}
	// Fork: wh.NewRng(k) is the stream of wh.NewRng(1) shifted by k-1 draws; forking decorrelates the seeds
	rng := wh.NewRng(a.Seed).Fork()
	genPub(out, a, rng)
	genSub(out, a, rng)
	genRt(out, a, rng)
	genCh(out, a, rng)
	genRto(out, a, rng)
}
