package main

import (
	"context"
	"runtime"
	"strconv"
	"strings"
	"sync"
	"time"

	"github.com/ThreeDotsLabs/watermill/components/metrics"
	"github.com/ThreeDotsLabs/watermill/message"
	"github.com/prometheus/client_golang/prometheus"

	"wmverif/wh"
)

type subCase struct {
	stack []layerSpec // T<tag> | M, outermost first
	// one entry per Subscribe call (1..3, at most one accepted): true = the innermost subscriber refuses that call.
	// The calls up to the first accepted one are made first (a caller retrying a refused Subscribe), the remaining
	// ones after the messages were received and settled, before Close.
	subs   []bool
	closes []bool // one entry per Close call (1..3): true = the innermost subscriber's Close fails that time
	n      int
	// per message: a ack / n nack right after receiving; A ack / N nack AFTER the subscription context was cancelled;
	// u left unsettled until after Close, then acked.
	// d / e (only at the tail, reads = number of the other messages): the wrapped subscriber hands the message out DURING
	// its Close (a graceful Close that drains what it has already fetched, one message at a time, each waiting to be
	// settled); the consumer is still reading and acks (d) / nacks (e) it.
	script string
	reads  int
}

func b01(b bool) string {
	if b {
		return "1"
	}
	return "0"
}

func (c subCase) head() string {
	st := make([]string, len(c.stack))
	for i, l := range c.stack {
		st[i] = l.String()
	}
	sc := c.script
	if sc == "" {
		sc = "-"
	}
	return "sub " + joinOr(st, ",") + " " + bits(c.subs) + " " + bits(c.closes) + " " + wh.Itoa(c.n) + " " + sc + " " + wh.Itoa(c.reads)
}

func parseSub(f []string) subCase {
	var c subCase
	if f[1] != "-" {
		for _, l := range strings.Split(f[1], ",") {
			c.stack = append(c.stack, parseLayer(l))
		}
	}
	c.subs = parseBits(f[2])
	if len(c.subs) == 0 {
		c.subs = []bool{false}
	}
	c.closes = parseBits(f[3])
	if len(c.closes) == 0 {
		c.closes = []bool{false}
	}
	c.n, _ = strconv.Atoi(f[4])
	if f[5] != "-" {
		c.script = f[5]
	}
	c.reads, _ = strconv.Atoi(f[6])
	return c
}

// scriptSub is the innermost subscriber: it offers its messages one by one on an unbuffered channel and closes the
// channel when Close is called (like the real subscribers do).
//
// Like the real subscribers it gives every message a context derived from the subscription context (cancelled with
// it, and when the subscriber is closed).
type scriptSub struct {
	msgs        []*message.Message
	subScript   []bool // Subscribe call i is refused iff subScript[i]
	subCalls    int
	closeScript []bool // Close call i fails iff closeScript[i]
	ch          chan *message.Message
	closing     chan struct{}
	done        chan struct{}
	once        sync.Once
	mu          sync.Mutex
	closes      int
	started     bool
	cancels     []context.CancelFunc
	drain       int // the last `drain` messages are handed out by the first Close call
	unsettled   int // drained messages that were not settled within the bound
}

func (s *scriptSub) Subscribe(ctx context.Context, topic string) (<-chan *message.Message, error) {
	s.mu.Lock()
	call := s.subCalls
	s.subCalls++
	if (call < len(s.subScript) && s.subScript[call]) || s.started {
		s.mu.Unlock()
		return nil, errSub
	}
	s.started = true
	for _, m := range s.msgs {
		mctx, cancel := context.WithCancel(ctx)
		m.SetContext(mctx)
		s.cancels = append(s.cancels, cancel)
	}
	s.mu.Unlock()
	go func() {
		defer close(s.done)
		for _, m := range s.msgs[:len(s.msgs)-s.drain] {
			select {
			case s.ch <- m:
			case <-s.closing:
				return
			}
		}
		<-s.closing
	}()
	return s.ch, nil
}

func (s *scriptSub) Close() error {
	s.mu.Lock()
	call := s.closes
	s.closes++
	started := s.started
	cancels := s.cancels
	s.mu.Unlock()
	s.once.Do(func() {
		close(s.closing)
		if !started {
			return
		}
		<-s.done
		// graceful Close: what was already fetched is still handed out, one message at a time, each waiting to be
		// settled; only then is the output channel closed
		for _, m := range s.msgs[len(s.msgs)-s.drain:] {
			select {
			case s.ch <- m:
			case <-time.After(drainWait()):
				expired()
				s.unsettled++
				continue
			}
			select {
			case <-m.Acked():
			case <-m.Nacked():
			case <-time.After(drainWait()):
				expired()
				s.unsettled++
			}
		}
		close(s.ch)
	})
	for _, c := range cancels {
		c()
	}
	if call < len(s.closeScript) && s.closeScript[call] {
		return errClose
	}
	return nil
}

func closedCh(c <-chan struct{}) bool {
	select {
	case <-c:
		return true
	default:
		return false
	}
}

func hasM(st []layerSpec) bool {
	for _, l := range st {
		if l.kind == 'M' {
			return true
		}
	}
	return false
}

func runSub(c subCase) (string, string) {
	drainN := strings.Count(c.script, "d") + strings.Count(c.script, "e")
	inner := &scriptSub{subScript: c.subs, closeScript: c.closes, ch: make(chan *message.Message),
		closing: make(chan struct{}), done: make(chan struct{}), drain: drainN}
	idOf := map[*message.Message]int{}
	for i := 0; i < c.n; i++ {
		m := message.NewMessage("s"+wh.Itoa(i), []byte("p"))
		m.Metadata.Set("k", "v")
		inner.msgs = append(inner.msgs, m)
		idOf[m] = i
	}
	reg := prometheus.NewRegistry()
	b := metrics.NewPrometheusMetricsBuilder(reg, "ns", "ss")
	var sub message.Subscriber = inner
	for i := len(c.stack) - 1; i >= 0; i-- {
		l := c.stack[i]
		var err error
		switch l.kind {
		case 'T':
			tag := l.tag
			sub, err = message.MessageTransformSubscriberDecorator(func(m *message.Message) {
				m.Metadata.Set("path", m.Metadata.Get("path")+tag)
			})(sub)
		case 'M':
			sub, err = b.DecorateSubscriber(sub)
		default:
			return c.head(), "bad-layer"
		}
		if err != nil {
			return c.head(), "build-error:" + wh.HexS(err.Error())
		}
	}
	rec := " @ inner=" + wh.HexS(structName(inner))
	withM := hasM(c.stack)
	subCtx, cancelSub := context.WithCancel(context.Background())
	defer cancelSub()
	// Subscribe, retrying a refused call, until one is accepted; every call under the watchdog
	var out <-chan *message.Message
	var err error = errSub
	var subRes []string
	subscribe := func() string {
		var ch <-chan *message.Message
		var e error
		r := guard(func() string {
			ch, e = sub.Subscribe(subCtx, "topic")
			return errClass(e)
		})
		if r == "ok" {
			out, err = ch, nil
		}
		return r
	}
	nextSub := 0
	for nextSub < len(c.subs) && err != nil {
		r := subscribe()
		subRes = append(subRes, r)
		nextSub++
		if r == "stuck" {
			nextSub = len(c.subs)
		}
	}
	var recv []string
	var got []*message.Message
	settled := 0
	if err == nil {
		for i := 0; i < c.reads; i++ {
			var m *message.Message
			var ok bool
			select {
			case m, ok = <-out:
			case <-time.After(maxWait()):
				expired()
				recv = append(recv, "timeout")
				i = c.reads
				continue
			}
			if !ok {
				recv = append(recv, "closed-early")
				break
			}
			got = append(got, m)
			id, known := idOf[m]
			same := "s"
			if !known {
				same = "c" // not the object the inner subscriber sent
				id = 9999
				if n, e := strconv.Atoi(strings.TrimPrefix(m.UUID, "s")); e == nil && n < c.n {
					id = n
				}
			}
			act := byte('u')
			if id < len(c.script) {
				act = c.script[id]
			}
			switch act {
			case 'a':
				m.Ack()
				settled++
			case 'n':
				m.Nack()
				settled++
			}
			is := "-"
			if id < len(inner.msgs) {
				if closedCh(inner.msgs[id].Acked()) {
					is = "a"
				} else if closedCh(inner.msgs[id].Nacked()) {
					is = "n"
				}
			}
			recv = append(recv, wh.Itoa(id)+":"+wh.HexS(m.Metadata.Get("path"))+":"+same+":"+is)
		}
	}
	// the remaining (refused) Subscribe calls: with messages and acks having flowed in between
	for ; nextSub < len(c.subs); nextSub++ {
		var e error
		r := guard(func() string {
			_, e = sub.Subscribe(subCtx, "topic")
			return errClass(e)
		})
		subRes = append(subRes, r)
		if r == "stuck" {
			break
		}
	}
	obs := "sub=" + strings.Join(subRes, ",") + "|recv=" + joinOr(recv, ",")
	// snapshot A: the settled messages are counted, the unsettled ones are not (the counting goroutines stay)
	expA := 0
	if withM {
		expA = settled
	}
	quiesce(reg, expA, true)
	a, _ := gatherCounts(reg)
	obs += "|A=" + a
	// settle AFTER the subscription context was cancelled: the message is settled all the same and must be counted
	if strings.ContainsAny(c.script, "AN") && err == nil {
		cancelSub()
		for i := 0; i < 20; i++ { // give anything that (wrongly) reacts to the cancellation the time to do so
			runtime.Gosched()
			time.Sleep(200 * time.Microsecond)
		}
		for _, m := range got {
			if id, ok := idOf[m]; ok && id < len(c.script) {
				switch c.script[id] {
				case 'A':
					m.Ack()
				case 'N':
					m.Nack()
				}
			}
		}
	}
	// Close, as often as the case says (a caller that retries a failed Close)
	// a consumer that keeps reading until the channel is closed (as the Router does): it receives and settles what the
	// wrapped subscriber hands out while its Close is draining
	var drained []string
	var drainedMsgs []*message.Message
	drainDone := make(chan struct{})
	if drainN > 0 && out != nil {
		go func() {
			defer close(drainDone)
			for m := range out {
				id, known := idOf[m]
				same := "s"
				if !known {
					same, id = "c", 9999
				}
				if id < len(c.script) && c.script[id] == 'e' {
					m.Nack()
				} else {
					m.Ack()
				}
				is := "-"
				if id < len(inner.msgs) {
					if closedCh(inner.msgs[id].Acked()) {
						is = "a"
					} else if closedCh(inner.msgs[id].Nacked()) {
						is = "n"
					}
				}
				drained = append(drained, wh.Itoa(id)+":"+wh.HexS(m.Metadata.Get("path"))+":"+same+":"+is)
				drainedMsgs = append(drainedMsgs, m)
			}
		}()
	} else {
		close(drainDone)
	}
	var crs []string
	for range c.closes {
		r := guardFor(time.Duration(2*drainN)*drainWait(), func() string { return errClass(sub.Close()) })
		crs = append(crs, r)
		if r == "stuck" {
			break // a Close that hangs holds the decorator's locks: later calls would hang as well
		}
	}
	inner.mu.Lock()
	closes := inner.closes
	inner.mu.Unlock()
	obs += "|close=" + strings.Join(crs, ",") + "/" + wh.Itoa(closes)
	ch := "-"
	if drainN > 0 && out != nil {
		select {
		case <-drainDone:
			ch = "closed"
		case <-time.After(5 * time.Second):
			ch = "open"
		}
	} else if out != nil {
		select {
		case _, ok := <-out:
			if ok {
				ch = "message-after-close"
			} else {
				ch = "closed"
			}
		case <-time.After(5 * time.Second):
			ch = "open"
		}
	}
	obs += "|chan=" + ch
	drainToks := []string{"consumer-still-reading"} // while it runs, what the consumer goroutine writes is not touched
	if ch != "open" {
		drainToks = drained
		got = append(got, drainedMsgs...)
	}
	obs += "|drain=" + joinOr(drainToks, ",")
	for _, m := range got {
		m.Ack() // the messages left unsettled are acked now
	}
	expB := 0
	if withM {
		expB = len(got)
	}
	how := quiesce(reg, expB, withM && c.reads < c.n-drainN && err == nil)
	bm, _ := gatherCounts(reg)
	obs += "|B=" + bm
	if how == "timeout" {
		obs += "|quiesce-timeout"
	}
	// release the counting goroutines of messages that were taken by a pump but never read
	for _, m := range inner.msgs {
		m.Ack()
	}
	for i := 0; i < 5000 && runtime.NumGoroutine() > base0; i++ {
		time.Sleep(200 * time.Microsecond)
	}
	return c.head() + rec, obs
}
