package main

import (
	"context"
	"errors"
	"strconv"
	"strings"
	"sync"
	"time"

	"github.com/ThreeDotsLabs/watermill"
	"github.com/ThreeDotsLabs/watermill/components/metrics"
	"github.com/ThreeDotsLabs/watermill/message"
	"github.com/prometheus/client_golang/prometheus"

	"wmverif/wh"
)

// rtCase: one Router handler "h" whose publisher / subscriber carry the metrics decorator kp / ks times and whose
// handler function is wrapped km times (normally once) by the metrics middleware; the handler's behaviour per message is scripted.
type rtCase struct {
	kp, ks   int
	km       int      // number of times the metrics middleware is registered (the property speaks of once)
	script   []bool   // innermost publisher: true = that Publish call fails
	outcomes []string // s<k> success with k outputs | e error | p panic | t<pre>-<post> pass-through: pre fresh, the consumed message itself, post fresh
}

func (c rtCase) head() string {
	return "rt " + wh.Itoa(c.kp) + " " + wh.Itoa(c.ks) + " " + wh.Itoa(c.km) + " " + bits(c.script) + " " + joinOr(c.outcomes, ",")
}

func parseRt(f []string) rtCase {
	var c rtCase
	c.kp, _ = strconv.Atoi(f[1])
	c.ks, _ = strconv.Atoi(f[2])
	c.km, _ = strconv.Atoi(f[3])
	c.script = parseBits(f[4])
	if f[5] != "-" {
		c.outcomes = strings.Split(f[5], ",")
	}
	return c
}

type rtPub struct {
	mu     sync.Mutex
	script []bool
	n      int
	calls  []string
}

func (p *rtPub) Publish(topic string, msgs ...*message.Message) error {
	p.mu.Lock()
	defer p.mu.Unlock()
	fail := p.n < len(p.script) && p.script[p.n]
	p.n++
	r := "ok"
	if fail {
		r = "e:inner"
	}
	p.calls = append(p.calls, r+":"+wh.Itoa(len(msgs)))
	if fail {
		return errInner
	}
	return nil
}
func (p *rtPub) Close() error { return nil }

type rtSub struct {
	ch   chan *message.Message
	once sync.Once
}

func (s *rtSub) Subscribe(ctx context.Context, topic string) (<-chan *message.Message, error) {
	return s.ch, nil
}
func (s *rtSub) Close() error {
	s.once.Do(func() { close(s.ch) })
	return nil
}

var errHandler = errors.New("scripted handler error")

func runRt(c rtCase) (string, string) {
	pub := &rtPub{script: c.script}
	sub := &rtSub{ch: make(chan *message.Message)}
	rec := " @ pub=" + wh.HexS(structName(pub)) + " sub=" + wh.HexS(structName(sub))
	reg := prometheus.NewRegistry()
	b := metrics.NewPrometheusMetricsBuilder(reg, "ns", "ss")
	r, err := message.NewRouter(message.RouterConfig{CloseTimeout: waitMax}, watermill.NopLogger{})
	if err != nil {
		return c.head() + rec, "router-error"
	}
	kp, ks, km := c.kp, c.ks, c.km
	if kp > 0 && ks > 0 && km > 0 {
		// the convenience function of the builder adds one of each
		b.AddPrometheusRouterMetrics(r)
		kp, ks, km = kp-1, ks-1, km-1
	}
	for i := 0; i < kp; i++ {
		r.AddPublisherDecorators(b.DecoratePublisher)
	}
	for i := 0; i < ks; i++ {
		r.AddSubscriberDecorators(b.DecorateSubscriber)
	}
	for i := 0; i < km; i++ {
		r.AddMiddleware(b.NewRouterMiddleware().Middleware)
	}
	var mu sync.Mutex
	inv := 0
	idx := map[string]int{}
	r.AddHandler("h", "in", sub, "out", pub, func(msg *message.Message) ([]*message.Message, error) {
		mu.Lock()
		inv++
		o := c.outcomes[idx[msg.UUID]]
		mu.Unlock()
		switch o[0] {
		case 'e':
			return nil, errHandler
		case 'p':
			panic("scripted handler panic")
		}
		fresh := func(k int, tag string) []*message.Message {
			outs := make([]*message.Message, k)
			for i := range outs {
				outs[i] = message.NewMessage(msg.UUID+tag+wh.Itoa(i), []byte("o"))
			}
			return outs
		}
		if o[0] == 't' {
			// pass-through: the consumed message object itself is part of the output
			p := strings.SplitN(o[1:], "-", 2)
			pre, _ := strconv.Atoi(p[0])
			post := 0
			if len(p) == 2 {
				post, _ = strconv.Atoi(p[1])
			}
			outs := append(fresh(pre, "a"), msg)
			return append(outs, fresh(post, "b")...), nil
		}
		k, _ := strconv.Atoi(o[1:])
		return fresh(k, "o"), nil
	})
	done := make(chan struct{})
	go func() {
		defer close(done)
		_ = r.Run(context.Background())
	}()
	select {
	case <-r.Running():
	case <-time.After(maxWait()):
		expired()
		return c.head() + rec, "router-not-running"
	}
	var settle strings.Builder
	for i := range c.outcomes {
		m := message.NewMessage("in"+wh.Itoa(i), []byte("p"))
		mu.Lock()
		idx[m.UUID] = i
		mu.Unlock()
		select {
		case sub.ch <- m:
		case <-time.After(maxWait()):
			expired()
			settle.WriteByte('T')
			continue
		}
		select {
		case <-m.Acked():
			settle.WriteByte('a')
		case <-m.Nacked():
			settle.WriteByte('n')
		case <-time.After(maxWait()):
			expired()
			settle.WriteByte('t')
		}
	}
	cl := "ok"
	if err := r.Close(); err != nil {
		cl = "err"
	}
	select {
	case <-done:
	case <-time.After(maxWait()):
		expired()
		cl += "+run-not-returned"
	}
	pub.mu.Lock()
	calls := append([]string{}, pub.calls...)
	pub.mu.Unlock()
	mu.Lock()
	ninv := inv
	mu.Unlock()
	expect := ninv * c.km
	if c.kp > 0 {
		expect += len(calls)
	}
	if c.ks > 0 {
		expect += len(c.outcomes)
	}
	how := quiesce(reg, expect, false)
	mt, _ := gatherCounts(reg)
	st := settle.String()
	if st == "" {
		st = "-"
	}
	obs := "settle=" + st + "|pub=" + joinOr(calls, ";") + "|inv=" + wh.Itoa(ninv) + "|metrics=" + mt + "|close=" + cl
	if how == "timeout" {
		obs += "|quiesce-timeout"
	}
	return c.head() + rec, obs
}
