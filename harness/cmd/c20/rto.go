package main

import (
	"bytes"
	"context"
	"flag"
	"os"
	"os/exec"
	"strconv"
	"strings"
	"sync"
	"sync/atomic"
	"time"

	"github.com/ThreeDotsLabs/watermill"
	"github.com/ThreeDotsLabs/watermill/components/metrics"
	"github.com/ThreeDotsLabs/watermill/message"
	"github.com/prometheus/client_golang/prometheus"

	"wmverif/wh"
)

// childFlag: this process is the child that executes one rto scenario (see runRto).
var childFlag = flag.Bool("child", false, "internal: run the replayed rto scenario in this process")

// rtoCase: OVERLAPPING invocations of one Router handler.  A Router runs every message of a subscription in its own
// goroutine, so the invocations of one handler overlap whenever the subscriber delivers faster than the handler
// returns.  Per round the scripted subscriber hands over all messages; the handler holds every invocation until all
// of the round have started and then lets them return together (success / error / panic as scripted), so the deferred
// observers of the metrics middleware run at the same time.  Each invocation must still be counted once with ITS label.
//
// The scenario runs in a child process: code that shares state between overlapping invocations may die with a Go
// `fatal error` (concurrent map writes) that no recover() catches; the harness observes that as "crashed:<reason>".
type rtoCase struct {
	ks       int      // metrics subscriber decorator applied ks times; the middleware is registered once
	rounds   int      // rounds of len(outcomes) overlapping invocations
	outcomes []string // s0 success | e error | p panic
}

func (c rtoCase) head() string {
	return "rto " + wh.Itoa(c.ks) + " " + wh.Itoa(c.rounds) + " " + joinOr(c.outcomes, ",")
}

func parseRto(f []string) rtoCase {
	var c rtoCase
	c.ks, _ = strconv.Atoi(f[1])
	c.rounds, _ = strconv.Atoi(f[2])
	if f[3] != "-" {
		c.outcomes = strings.Split(f[3], ",")
	}
	return c
}

func rtoRec() string {
	return " @ pub=" + wh.HexS(structName(&rtPub{})) + " sub=" + wh.HexS(structName(&rtSub{}))
}

// runRto executes the scenario in a child process and returns what the child observed.
func runRto(c rtoCase) (string, string) {
	if *childFlag {
		return runRtoHere(c)
	}
	tmp, err := os.CreateTemp("", "c20_rto_*.cases")
	if err != nil {
		return c.head() + rtoRec(), "cannot-create-temp"
	}
	tmp.Close()
	defer os.Remove(tmp.Name())
	ctx, cancel := context.WithTimeout(context.Background(), 120*time.Second)
	defer cancel()
	cmd := exec.CommandContext(ctx, os.Args[0], "-tier", "quick", "-seed", "1", "-out", tmp.Name(), "-replay", c.head(), "-child")
	cmd.Env = append(os.Environ(), "GORACE=halt_on_error=0 exitcode=0 atexit_sleep_ms=0")
	var stderr bytes.Buffer
	cmd.Stderr = &stderr
	runErr := cmd.Run()
	// a data race reported by the child's race detector is passed on (the check lists it next to the verdict)
	if i := strings.Index(stderr.String(), "WARNING: DATA RACE"); i >= 0 {
		s := stderr.String()[i:]
		if len(s) > 3000 {
			s = s[:3000]
		}
		os.Stderr.WriteString(s + "\n")
	}
	if b, err := os.ReadFile(tmp.Name()); err == nil {
		for _, l := range strings.Split(string(b), "\n") {
			if strings.HasPrefix(l, "OBS ") {
				return c.head() + rtoRec(), l[4:]
			}
		}
	}
	reason := "exit"
	if runErr != nil {
		reason = runErr.Error()
	}
	for _, l := range strings.Split(stderr.String(), "\n") {
		if strings.HasPrefix(l, "fatal error:") || strings.HasPrefix(l, "panic:") {
			reason = l
			break
		}
	}
	return c.head() + rtoRec(), "crashed:" + wh.HexS(reason)
}

func runRtoHere(c rtoCase) (string, string) {
	pub := &rtPub{}
	sub := &rtSub{ch: make(chan *message.Message)}
	reg := prometheus.NewRegistry()
	b := metrics.NewPrometheusMetricsBuilder(reg, "ns", "ss")
	r, err := message.NewRouter(message.RouterConfig{CloseTimeout: waitMax}, watermill.NopLogger{})
	if err != nil {
		return c.head() + rtoRec(), "router-error"
	}
	for i := 0; i < c.ks; i++ {
		r.AddSubscriberDecorators(b.DecorateSubscriber)
	}
	r.AddMiddleware(b.NewRouterMiddleware().Middleware)
	var mu sync.Mutex
	idx := map[string]int{}
	var inv, arrived int32
	var release chan struct{}
	r.AddHandler("h", "in", sub, "out", pub, func(msg *message.Message) ([]*message.Message, error) {
		mu.Lock()
		o := c.outcomes[idx[msg.UUID]]
		rel := release
		mu.Unlock()
		atomic.AddInt32(&inv, 1)
		atomic.AddInt32(&arrived, 1)
		select {
		case <-rel:
		case <-time.After(maxWait()):
		}
		switch o[0] {
		case 'e':
			return nil, errHandler
		case 'p':
			panic("scripted handler panic")
		}
		return nil, nil
	})
	done := make(chan struct{})
	go func() {
		defer close(done)
		_ = r.Run(context.Background())
	}()
	select {
	case <-r.Running():
	case <-time.After(maxWait()):
		return c.head() + rtoRec(), "router-not-running"
	}
	n := len(c.outcomes)
	first, mixed := "", ""
	for round := 0; round < c.rounds; round++ {
		msgs := make([]*message.Message, n)
		mu.Lock()
		release = make(chan struct{})
		rel := release
		for i := range msgs {
			msgs[i] = message.NewMessage("r"+wh.Itoa(round)+"m"+wh.Itoa(i), []byte("p"))
			idx[msgs[i].UUID] = i
		}
		mu.Unlock()
		atomic.StoreInt32(&arrived, 0)
		for _, m := range msgs {
			select {
			case sub.ch <- m:
			case <-time.After(maxWait()):
				expired()
			}
		}
		for dl := time.Now().Add(maxWait()); atomic.LoadInt32(&arrived) < int32(n) && time.Now().Before(dl); {
			time.Sleep(50 * time.Microsecond)
		}
		close(rel) // all invocations of the round return together
		var st strings.Builder
		for _, m := range msgs {
			select {
			case <-m.Acked():
				st.WriteByte('a')
			case <-m.Nacked():
				st.WriteByte('n')
			case <-time.After(maxWait()):
				expired()
				st.WriteByte('t')
			}
		}
		if round == 0 {
			first = st.String()
		} else if st.String() != first && mixed == "" {
			mixed = st.String()
		}
	}
	cl := "ok"
	if err := r.Close(); err != nil {
		cl = "err"
	}
	select {
	case <-done:
	case <-time.After(maxWait()):
		cl += "+run-not-returned"
	}
	ninv := int(atomic.LoadInt32(&inv))
	expect := ninv
	if c.ks > 0 {
		expect += c.rounds * n
	}
	how := quiesce(reg, expect, false)
	mt, _ := gatherCounts(reg)
	if first == "" {
		first = "-"
	}
	if mixed != "" {
		first += "!" + mixed
	}
	obs := "settle=" + first + "|inv=" + wh.Itoa(ninv) + "|metrics=" + mt + "|close=" + cl
	if how == "timeout" {
		obs += "|quiesce-timeout"
	}
	return c.head() + rtoRec(), obs
}
