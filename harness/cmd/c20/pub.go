package main

import (
	"context"
	"errors"
	"fmt"
	"sort"
	"strconv"
	"strings"
	"time"

	"github.com/ThreeDotsLabs/watermill/components/delay"
	"github.com/ThreeDotsLabs/watermill/components/metrics"
	"github.com/ThreeDotsLabs/watermill/message"
	"github.com/prometheus/client_golang/prometheus"

	"wmverif/wh"
)

var (
	errInner = errors.New("scripted inner publisher failure")
	errGen   = errors.New("scripted generator failure")
	errClose = errors.New("scripted close failure")
	errSub   = errors.New("scripted subscribe failure")
)

// ---------------------------------------------------------------- case description

type layerSpec struct {
	kind  byte   // 'T' transform, 'M' metrics, 'D' delay
	tag   string // T: one letter appended to metadata key "path"
	allow bool   // D: AllowNoDelay
	gen   string // D: n (nil) | e (error) | z (Delay{}) | f<ns> | u<offset ns> | o<ns> (For for even ids, error for odd ids)
}

func (l layerSpec) String() string {
	switch l.kind {
	case 'T':
		return "T" + l.tag
	case 'M':
		return "M"
	}
	a := "0"
	if l.allow {
		a = "1"
	}
	return "D" + a + l.gen
}

type msgSpec struct{ forTok, untilTok, ctx string }

func (m msgSpec) String() string { return m.forTok + "/" + m.untilTok + "/" + m.ctx }

type opSpec struct {
	close bool
	topic int
	ids   []int
}

func (o opSpec) String() string {
	if o.close {
		return "c"
	}
	s := make([]string, len(o.ids))
	for i, id := range o.ids {
		s[i] = wh.Itoa(id)
	}
	return "p" + wh.Itoa(o.topic) + ":" + strings.Join(s, ".")
}

type pubCase struct {
	stack    []layerSpec
	script   []bool
	closeErr bool
	msgs     []msgSpec
	ops      []opSpec
}

func bits(bs []bool) string {
	if len(bs) == 0 {
		return "-"
	}
	var sb strings.Builder
	for _, b := range bs {
		if b {
			sb.WriteByte('1')
		} else {
			sb.WriteByte('0')
		}
	}
	return sb.String()
}

func joinOr(xs []string, sep string) string {
	if len(xs) == 0 {
		return "-"
	}
	return strings.Join(xs, sep)
}

func (c pubCase) head() string {
	st := make([]string, len(c.stack))
	for i, l := range c.stack {
		st[i] = l.String()
	}
	ms := make([]string, len(c.msgs))
	for i, m := range c.msgs {
		ms[i] = m.String()
	}
	os := make([]string, len(c.ops))
	for i, o := range c.ops {
		os[i] = o.String()
	}
	ce := "0"
	if c.closeErr {
		ce = "1"
	}
	return "pub " + joinOr(st, ",") + " " + bits(c.script) + " " + ce + " " + joinOr(ms, ";") + " " + joinOr(os, ";")
}

func parseLayer(s string) layerSpec {
	switch s[0] {
	case 'T':
		return layerSpec{kind: 'T', tag: s[1:]}
	case 'M':
		return layerSpec{kind: 'M'}
	case 'D':
		return layerSpec{kind: 'D', allow: s[1] == '1', gen: s[2:]}
	}
	panic("bad layer " + s)
}

func parseBits(s string) []bool {
	if s == "-" {
		return nil
	}
	out := make([]bool, len(s))
	for i := range s {
		out[i] = s[i] == '1'
	}
	return out
}

func parsePub(f []string) pubCase {
	var c pubCase
	if f[1] != "-" {
		for _, l := range strings.Split(f[1], ",") {
			c.stack = append(c.stack, parseLayer(l))
		}
	}
	c.script = parseBits(f[2])
	c.closeErr = f[3] == "1"
	if f[4] != "-" {
		for _, m := range strings.Split(f[4], ";") {
			p := strings.Split(m, "/")
			c.msgs = append(c.msgs, msgSpec{p[0], p[1], p[2]})
		}
	}
	if f[5] != "-" {
		for _, o := range strings.Split(f[5], ";") {
			if o == "c" {
				c.ops = append(c.ops, opSpec{close: true})
				continue
			}
			p := strings.SplitN(o[1:], ":", 2)
			t, _ := strconv.Atoi(p[0])
			op := opSpec{topic: t}
			if p[1] != "" {
				for _, x := range strings.Split(p[1], ".") {
					id, _ := strconv.Atoi(x)
					op.ids = append(op.ids, id)
				}
			}
			c.ops = append(c.ops, op)
		}
	}
	return c
}

// ---------------------------------------------------------------- scripted innermost publisher and the probe

type scriptPub struct {
	script   []bool
	n        int
	calls    []string
	closes   int
	closeErr bool
	idOf     map[*message.Message]int
}

func (p *scriptPub) Publish(topic string, msgs ...*message.Message) error {
	toks := make([]string, len(msgs))
	for i, m := range msgs {
		id, ok := p.idOf[m]
		if !ok {
			id = 9999 // an object the harness never created (a decorator copied the message)
		}
		toks[i] = msgToken(id, m)
	}
	p.calls = append(p.calls, wh.HexS(topic)+"["+strings.Join(toks, ",")+"]")
	fail := p.n < len(p.script) && p.script[p.n]
	p.n++
	if fail {
		return errInner
	}
	return nil
}

func (p *scriptPub) Close() error {
	p.closes++
	if p.closeErr {
		return errClose
	}
	return nil
}

// probe sits directly above the outermost metrics decorator: the harness' own count of the Publish calls that enter it.
type probe struct {
	next                  message.Publisher
	ok, err, empty, repub int
	seen                  map[*message.Message]bool
}

func (p *probe) Publish(topic string, msgs ...*message.Message) error {
	e := p.next.Publish(topic, msgs...)
	if e == nil {
		p.ok++
	} else {
		p.err++
	}
	if len(msgs) == 0 {
		p.empty++
	} else if p.seen[msgs[0]] {
		p.repub++
	}
	for _, m := range msgs {
		p.seen[m] = true
	}
	return e
}

func (p *probe) Close() error { return p.next.Close() }

// ---------------------------------------------------------------- running a case against the real decorators

type window struct{ now, t0, t1 int64 }

func mkDelay(kind string, base int64) (delay.Delay, window) {
	t0 := time.Now().UnixNano()
	var d delay.Delay
	n, zone := offZone(kind)
	switch kind[0] {
	case 'f', 'o':
		d = delay.For(time.Duration(n))
	case 'u':
		// the time.Time handed to Until carries a location: UTC, or a zone `zone` seconds east of UTC (what time.Now()
		// gives in a non-UTC process, a parsed "…+02:00", t.In(loc))
		t := time.Unix(0, base+n).UTC()
		if zone != 0 {
			t = t.In(time.FixedZone("", int(zone)))
		}
		d = delay.Until(t)
	case 'U':
		// an absolute time given in unix seconds: sentinel dates far outside the ±292 years of a time.Duration
		// (2400-01-01, 9999-12-31, the zero time)
		t := time.Unix(n, 0).UTC()
		if zone != 0 {
			t = t.In(time.FixedZone("", int(zone)))
		}
		d = delay.Until(t)
	case 'z':
		d = delay.Delay{}
	}
	t1 := time.Now().UnixNano()
	return d, window{t0, t0, t1}
}

// offZone parses the number of a delay spec: <kind letter><n> or <kind letter><n>z<zone seconds>.
func offZone(kind string) (int64, int64) {
	p := strings.SplitN(kind[1:], "z", 2)
	n, _ := strconv.ParseInt(p[0], 10, 64)
	var z int64
	if len(p) == 2 {
		z, _ = strconv.ParseInt(p[1], 10, 64)
	}
	return n, z
}

// inferNow: the clock value `now` that For/Until must have read, computed from what was stamped.
func inferNow(kind string, base int64, tok string, w window) window {
	p := strings.Split(tok, ":")
	if len(p) < 3 || len(kind) < 2 {
		return w
	}
	n, _ := offZone(kind)
	cand := w.now
	switch kind[0] {
	case 'f', 'o':
		if strings.HasPrefix(p[2], "t") {
			if sec, err := strconv.ParseInt(p[2][1:], 10, 64); err == nil && sec > -9000000000 && sec < 9000000000 {
				cand = sec*1000000000 - n
			}
		}
	case 'u':
		if strings.HasPrefix(p[1], "d") {
			if ns, err := strconv.ParseInt(p[1][1:], 10, 64); err == nil {
				cand = base + n - ns
			}
		}
	case 'U':
		// only a time within int64 nanoseconds can be used to infer the reading; for the others the duration is saturated
		// and the same for every reading in the window
		if strings.HasPrefix(p[1], "d") && n > -9000000000 && n < 9000000000 {
			if ns, err := strconv.ParseInt(p[1][1:], 10, 64); err == nil && ns > -9000000000000000000 && ns < 9000000000000000000 {
				cand = n*1000000000 - ns
			}
		}
	}
	// only a reading inside the measured window (RFC 3339 drops up to 1 s; 1 s slack for clock steps) is a candidate;
	// otherwise the stamp did not come from this source (or is wrong) and the model is given the window start
	if cand >= w.t0-2000000000 && cand <= w.t1+1000000000 {
		w.now = cand
	}
	return w
}

func runPub(c pubCase) (string, string) {
	base := time.Now().UnixNano()
	rec := map[string]window{}
	kindOf := map[string]string{}
	idOf := map[*message.Message]int{}
	msgs := make([]*message.Message, len(c.msgs))
	for i, s := range c.msgs {
		m := message.NewMessage("m"+wh.Itoa(i), []byte("p"))
		m.Metadata.Set("k", "v")
		if v, ok := rawOf(s.forTok); ok {
			m.Metadata.Set(delay.DelayedForKey, v)
		}
		if v, ok := rawOf(s.untilTok); ok {
			m.Metadata.Set(delay.DelayedUntilKey, v)
		}
		if s.ctx != "-" {
			d, w := mkDelay(s.ctx, base)
			m.SetContext(delay.WithContext(context.Background(), d))
			if s.ctx != "z" {
				rec["m"+wh.Itoa(i)] = w
				kindOf["m"+wh.Itoa(i)] = s.ctx
			}
		}
		msgs[i] = m
		idOf[m] = i
	}
	inner := &scriptPub{script: c.script, closeErr: c.closeErr, idOf: idOf}
	reg := prometheus.NewRegistry()
	b := metrics.NewPrometheusMetricsBuilder(reg, "ns", "ss")
	var genLog []string
	curTopic := ""
	var pub message.Publisher = inner
	var pr *probe
	firstM := -1
	for i, l := range c.stack {
		if l.kind == 'M' {
			firstM = i
			break
		}
	}
	var buildErr error
	for i := len(c.stack) - 1; i >= 0 && buildErr == nil; i-- {
		l := c.stack[i]
		li := i
		switch l.kind {
		case 'T':
			tag := l.tag
			pub, buildErr = message.MessageTransformPublisherDecorator(func(m *message.Message) {
				m.Metadata.Set("path", m.Metadata.Get("path")+tag)
			})(pub)
		case 'M':
			pub, buildErr = b.DecoratePublisher(pub)
			if i == firstM && buildErr == nil {
				pr = &probe{next: pub, seen: map[*message.Message]bool{}}
				pub = pr
			}
		case 'D':
			cfg := delay.PublisherConfig{AllowNoDelay: l.allow}
			if l.gen != "n" {
				g := l.gen
				cfg.DefaultDelayGenerator = func(p delay.DefaultDelayGeneratorParams) (delay.Delay, error) {
					id, ok := idOf[p.Message]
					if !ok {
						id = 9999
					}
					e := wh.Itoa(id)
					if p.Topic != curTopic {
						e += "!"
					}
					genLog = append(genLog, e)
					if g == "e" || (g[0] == 'o' && id%2 == 1) {
						return delay.Delay{}, errGen
					}
					d, w := mkDelay(g, base)
					if g != "z" {
						key := "g" + wh.Itoa(li) + "." + wh.Itoa(id)
						rec[key] = w
						kindOf[key] = g
					}
					return d, nil
				}
			}
			pub, buildErr = delay.NewPublisher(pub, cfg)
		}
	}
	if buildErr != nil {
		return c.head(), "build-error:" + wh.HexS(buildErr.Error())
	}
	var res []string
	for _, op := range c.ops {
		before := len(inner.calls)
		r := func() (r string) {
			defer func() {
				if v := recover(); v != nil {
					r = wh.PanicText(v)
				}
			}()
			if op.close {
				return errClass(pub.Close())
			}
			curTopic = "topic" + wh.Itoa(op.topic)
			batch := make([]*message.Message, len(op.ids))
			for i, id := range op.ids {
				batch[i] = msgs[id]
			}
			return errClass(pub.Publish(curTopic, batch...))
		}()
		res = append(res, r+"/"+wh.Itoa(len(inner.calls)-before))
	}
	mt, _ := gatherCounts(reg)
	prs := "-"
	if pr != nil {
		prs = fmt.Sprintf("%d/%d/%d/%d", pr.ok, pr.err, pr.empty, pr.repub)
	}
	obs := joinOr(res, ";") + "|inner=" + joinOr(inner.calls, ";") + "|gen=" + joinOr(genLog, ",") +
		"|probe=" + prs + "|metrics=" + mt + "|closes=" + wh.Itoa(inner.closes)
	// recorded clock data (the model checks rather than predicts the two clock readings)
	keys := make([]string, 0, len(rec))
	for k := range rec {
		keys = append(keys, k)
	}
	sort.Strings(keys)
	recs := []string{"inner=" + wh.HexS(structName(inner)), "base=" + i64(base)}
	for _, k := range keys {
		w := rec[k]
		var id int
		if k[0] == 'm' {
			id, _ = strconv.Atoi(k[1:])
		} else {
			id, _ = strconv.Atoi(k[strings.Index(k, ".")+1:])
		}
		if id < len(msgs) {
			w = inferNow(kindOf[k], base, msgToken(id, msgs[id]), w)
		}
		recs = append(recs, k+"="+i64(w.now)+":"+i64(w.t0)+":"+i64(w.t1))
	}
	return c.head() + " @ " + strings.Join(recs, " "), obs
}
