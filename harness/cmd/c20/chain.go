package main

import (
	"context"
	"strconv"
	"strings"
	"time"

	"github.com/ThreeDotsLabs/watermill/components/metrics"
	"github.com/ThreeDotsLabs/watermill/message"
	"github.com/prometheus/client_golang/prometheus"

	"wmverif/wh"
)

// chCase: n messages are received through a subscriber stack and each is handed, SAME OBJECT, to a publisher stack
// (what a pass-through handler or a forwarder does), then acked.  Both stacks may hold the metrics decorators: the
// subscriber decorator leaves its "subscribe observed" mark in the message context, which must not be taken for the
// publisher decorator's "publish observed" mark.
type chCase struct {
	subStack, pubStack []layerSpec // T<tag> | M, outermost first
	script             []bool      // innermost publisher: true = that Publish call fails
	n                  int
}

func stackStr(st []layerSpec) string {
	x := make([]string, len(st))
	for i, l := range st {
		x[i] = l.String()
	}
	return joinOr(x, ",")
}

func (c chCase) head() string {
	return "ch " + stackStr(c.subStack) + " " + stackStr(c.pubStack) + " " + bits(c.script) + " " + wh.Itoa(c.n)
}

func parseStackSpec(s string) []layerSpec {
	var out []layerSpec
	if s != "-" {
		for _, l := range strings.Split(s, ",") {
			out = append(out, parseLayer(l))
		}
	}
	return out
}

func parseCh(f []string) chCase {
	c := chCase{subStack: parseStackSpec(f[1]), pubStack: parseStackSpec(f[2]), script: parseBits(f[3])}
	c.n, _ = strconv.Atoi(f[4])
	return c
}

func runCh(c chCase) (string, string) {
	innerSub := &scriptSub{ch: make(chan *message.Message), closing: make(chan struct{}), done: make(chan struct{})}
	idOf := map[*message.Message]int{}
	for i := 0; i < c.n; i++ {
		m := message.NewMessage("s"+wh.Itoa(i), []byte("p"))
		m.Metadata.Set("k", "v")
		innerSub.msgs = append(innerSub.msgs, m)
		idOf[m] = i
	}
	innerPub := &scriptPub{script: c.script, idOf: idOf}
	rec := " @ sub=" + wh.HexS(structName(innerSub)) + " pub=" + wh.HexS(structName(innerPub))
	reg := prometheus.NewRegistry()
	b := metrics.NewPrometheusMetricsBuilder(reg, "ns", "ss")
	tag := func(t string) func(*message.Message) {
		return func(m *message.Message) { m.Metadata.Set("path", m.Metadata.Get("path")+t) }
	}
	var sub message.Subscriber = innerSub
	var err error
	for i := len(c.subStack) - 1; i >= 0 && err == nil; i-- {
		switch l := c.subStack[i]; l.kind {
		case 'T':
			sub, err = message.MessageTransformSubscriberDecorator(tag(l.tag))(sub)
		case 'M':
			sub, err = b.DecorateSubscriber(sub)
		default:
			return c.head() + rec, "bad-layer"
		}
	}
	var pub message.Publisher = innerPub
	var pr *probe
	firstM := -1
	for i, l := range c.pubStack {
		if l.kind == 'M' {
			firstM = i
			break
		}
	}
	for i := len(c.pubStack) - 1; i >= 0 && err == nil; i-- {
		switch l := c.pubStack[i]; l.kind {
		case 'T':
			pub, err = message.MessageTransformPublisherDecorator(tag(l.tag))(pub)
		case 'M':
			pub, err = b.DecoratePublisher(pub)
			if i == firstM && err == nil {
				pr = &probe{next: pub, seen: map[*message.Message]bool{}}
				pub = pr
			}
		default:
			return c.head() + rec, "bad-layer"
		}
	}
	if err != nil {
		return c.head() + rec, "build-error:" + wh.HexS(err.Error())
	}
	out, err := sub.Subscribe(context.Background(), "topic")
	if err != nil {
		return c.head() + rec, "subscribe-error"
	}
	var res []string
	recv := 0
	for i := 0; i < c.n; i++ {
		var m *message.Message
		var ok bool
		select {
		case m, ok = <-out:
		case <-time.After(maxWait()):
			expired()
		}
		if !ok || m == nil {
			break
		}
		recv++
		r := func() (r string) {
			defer func() {
				if v := recover(); v != nil {
					r = wh.PanicText(v)
				}
			}()
			return errClass(pub.Publish("topic0", m)) // the received object itself
		}()
		res = append(res, r)
		m.Ack()
	}
	closeStuck := guard(func() string { _ = sub.Close(); return "ok" }) == "stuck"
	_ = pub.Close()
	expect := 0
	if hasM(c.subStack) {
		expect += recv
	}
	if hasM(c.pubStack) {
		expect += recv
	}
	how := quiesce(reg, expect, false)
	mt, _ := gatherCounts(reg)
	prs := "-"
	if pr != nil {
		prs = wh.Itoa(pr.ok) + "/" + wh.Itoa(pr.err) + "/" + wh.Itoa(pr.empty) + "/" + wh.Itoa(pr.repub)
	}
	obs := joinOr(res, ";") + "|probe=" + prs + "|metrics=" + mt + "|recv=" + wh.Itoa(recv)
	if how == "timeout" {
		obs += "|quiesce-timeout"
	}
	if closeStuck {
		obs += "|close-stuck"
	}
	return c.head() + rec, obs
}
